(* C08 infrastructure: names and equation lemmas for the inner loops of EvoSpec.view / walk / must_fail,
   reader-context facts (the length-pass flag r_pfield is never left set by a reader), wire type of what the
   value interpreter returns. *)
From PVGen Require Import Gen GenSpec EvoSpec Proofs.GenBase Proofs.EncP.
From PV Require Import Proofs.TablesP Proofs.PrimP Proofs.HeaderP Proofs.RoundtripP.
From Coq Require Import ZifyN ZifyNat ZifyBool.
Open Scope Z_scope.

(* ---------- monad inversion (as in PV.Proofs.SkipP; repeated so that this file only needs the round-trip layer) ---------- *)
Lemma bind_inv {A B} (o : res A) (f : A -> res B) y :
  bind o f = Ok y -> exists x, o = Ok x /\ f x = Ok y.
Proof. destruct o as [x| |]; cbn; intros H; try discriminate. eauto. Qed.

Ltac binv H :=
  let x := fresh "x" in let s := fresh "s" in let E := fresh "E" in
  apply bind_inv in H; destruct H as [[x s] [E H]].

(* ---------- names for the inner loops of the specification ---------- *)
Section Names.
  Variable S : schema.

  Definition view_elems (et : ty) : list tval -> res (list gval) :=
    fix go (l : list tval) : res (list gval) :=
      match l with
      | [] => Ok []
      | x :: r => let* y := view S et x in let* ys := go r in Ok (y :: ys)
      end.
  Definition view_pairs (kt vt : ty) : list (tval * tval) -> res (list (gval * gval)) :=
    fix go (l : list (tval * tval)) : res (list (gval * gval)) :=
      match l with
      | [] => Ok []
      | (a, b) :: r =>
          let* a' := view S kt a in let* b' := view S vt b in let* ys := go r in Ok ((a', b') :: ys)
      end.
  Definition view_fields (dfs : list field) : list (Z * tval) -> list (option gval) -> res (list (option gval)) :=
    fix go (fs : list (Z * tval)) (vars : list (option gval)) {struct fs} : res (list (option gval)) :=
      match fs with
      | [] => Ok vars
      | (id, x) :: r =>
          match match_field S dfs O (Some id) (ttype_of x) with
          | Some (i, f) => let* y := view S (f_ty f) x in go r (set_nth i (Some y) vars)
          | None => go r vars
          end
      end.
  Definition view_variants (vs : list (Z * ty)) : list (Z * tval) -> option (Z * gval) -> res (option (Z * gval)) :=
    fix go (fs : list (Z * tval)) (ret : option (Z * gval)) {struct fs} : res (option (Z * gval)) :=
      match fs with
      | [] => Ok ret
      | (id, x) :: r =>
          match known_variant S vs id (ttype_of x) with
          | Some vt =>
              match ret with
              | None => let* y := view S vt x in go r (Some (id, y))
              | Some _ => Err EInvalidData
              end
          | None => go r ret
          end
      end.
  Definition union_result (vs : list (Z * ty)) (void_ok : bool) (ret : option (Z * gval)) : res gval :=
    match ret with
    | Some (id, y) => Ok (GUnion id y)
    | None =>
        if void_ok then
          match vs with
          | (id0, _) :: _ => Ok (GUnion id0 GVoid)
          | [] => Err EInvalidData
          end
        else Err EInvalidData
    end.

  Lemma view_list t a l : view S t (VList a l) =
    match resolve S t with TyList et => let* ys := view_elems et l in Ok (GList ys) | _ => Err EOther end.
  Proof. reflexivity. Qed.
  Lemma view_set t a l : view S t (VSet a l) =
    match resolve S t with TySet et => let* ys := view_elems et l in Ok (GSet ys) | _ => Err EOther end.
  Proof. reflexivity. Qed.
  Lemma view_map t ka va l : view S t (VMap ka va l) =
    match resolve S t with TyMap kt vt => let* ys := view_pairs kt vt l in Ok (GMap ys) | _ => Err EOther end.
  Proof. reflexivity. Qed.
  Lemma view_struct t fs : view S t (VStruct fs) =
    match resolve S t with
    | TyRef n =>
        match lookup S n with
        | Some (DStruct dfs _ _) =>
            let* vars := view_fields dfs fs (map init_var dfs) in
            let* out := finish_fields dfs vars in
            Ok (GStruct out [])
        | Some (DUnion vs void_ok _) =>
            let* ret := view_variants vs fs None in union_result vs void_ok ret
        | _ => Err EOther
        end
    | _ => Err EOther
    end.
  Proof. reflexivity. Qed.
  Lemma view_elems_cons et x r : view_elems et (x :: r) =
    let* y := view S et x in let* ys := view_elems et r in Ok (y :: ys).
  Proof. reflexivity. Qed.
  Lemma view_pairs_cons kt vt a b r : view_pairs kt vt ((a, b) :: r) =
    let* a' := view S kt a in let* b' := view S vt b in let* ys := view_pairs kt vt r in Ok ((a', b') :: ys).
  Proof. reflexivity. Qed.
  Lemma view_fields_cons dfs id x r vars : view_fields dfs ((id, x) :: r) vars =
    match match_field S dfs O (Some id) (ttype_of x) with
    | Some (i, f) => let* y := view S (f_ty f) x in view_fields dfs r (set_nth i (Some y) vars)
    | None => view_fields dfs r vars
    end.
  Proof. reflexivity. Qed.
  Lemma view_variants_cons vs id x r ret : view_variants vs ((id, x) :: r) ret =
    match known_variant S vs id (ttype_of x) with
    | Some vt =>
        match ret with
        | None => let* y := view S vt x in view_variants vs r (Some (id, y))
        | Some _ => Err EInvalidData
        end
    | None => view_variants vs r ret
    end.
  Proof. reflexivity. Qed.

  (* ----- walk ----- *)
  Variable od : tval -> bool.
  Variable ro : bool.

  Definition walk_elems (et : ty) : list tval -> bool :=
    fix go (l : list tval) : bool := match l with [] => true | x :: r => walk S od ro et x && go r end.
  Definition walk_pairs (kt vt : ty) : list (tval * tval) -> bool :=
    fix go (l : list (tval * tval)) : bool :=
      match l with [] => true | (a, b) :: r => walk S od ro kt a && walk S od ro vt b && go r end.
  Definition walk_field (dfs : list field) (id : Z) (x : tval) : bool :=
    match match_field S dfs O (Some id) (ttype_of x) with
    | Some (_, f) => walk S od ro (f_ty f) x
    | None => od x
    end.
  Definition walk_fields (dfs : list field) : list (Z * tval) -> bool :=
    fix go (fs : list (Z * tval)) : bool :=
      match fs with [] => true | (id, x) :: r => walk_field dfs id x && go r end.
  Definition walk_variant (vs : list (Z * ty)) (id : Z) (x : tval) : bool :=
    match find_variant vs id with
    | Some vt =>
        if is_void (resolve S vt) then od x
        else if ttype_eqb (ttype_of_ty S vt) (ttype_of x) then walk S od ro vt x
             else ro && od x
    | None => od x
    end.
  Definition walk_variants (vs : list (Z * ty)) : list (Z * tval) -> bool :=
    fix go (fs : list (Z * tval)) : bool :=
      match fs with [] => true | (id, x) :: r => walk_variant vs id x && go r end.

  Definition nonempty_is {A} (l : list A) (b : bool) : bool := match l with [] => true | _ :: _ => b end.

  Lemma walk_list t a l : walk S od ro t (VList a l) =
    match resolve S t with
    | TyList et => nonempty_is l (ttype_eqb a (ttype_of_ty S et)) && walk_elems et l
    | _ => true
    end.
  Proof. reflexivity. Qed.
  Lemma walk_set t a l : walk S od ro t (VSet a l) =
    match resolve S t with
    | TySet et => nonempty_is l (ttype_eqb a (ttype_of_ty S et)) && walk_elems et l
    | _ => true
    end.
  Proof. reflexivity. Qed.
  Lemma walk_map t ka va l : walk S od ro t (VMap ka va l) =
    match resolve S t with
    | TyMap kt vt =>
        nonempty_is l (ttype_eqb ka (ttype_of_ty S kt) && ttype_eqb va (ttype_of_ty S vt)) && walk_pairs kt vt l
    | _ => true
    end.
  Proof. reflexivity. Qed.
  Lemma walk_struct t fs : walk S od ro t (VStruct fs) =
    match resolve S t with
    | TyRef n =>
        match lookup S n with
        | Some (DStruct dfs _ _) => walk_fields dfs fs
        | Some (DUnion vs _ _) => walk_variants vs fs
        | _ => true
        end
    | _ => true
    end.
  Proof. reflexivity. Qed.
  Lemma walk_elems_cons et x r : walk_elems et (x :: r) = walk S od ro et x && walk_elems et r.
  Proof. reflexivity. Qed.
  Lemma walk_pairs_cons kt vt a b r :
    walk_pairs kt vt ((a, b) :: r) = walk S od ro kt a && walk S od ro vt b && walk_pairs kt vt r.
  Proof. reflexivity. Qed.
  Lemma walk_fields_cons dfs id x r : walk_fields dfs ((id, x) :: r) = walk_field dfs id x && walk_fields dfs r.
  Proof. reflexivity. Qed.
  Lemma walk_variants_cons vs id x r : walk_variants vs ((id, x) :: r) = walk_variant vs id x && walk_variants vs r.
  Proof. reflexivity. Qed.
End Names.

(* ---------- monad inversion ---------- *)
Lemma lift_view_ok {A} (o : res A) s x s' : lift_view o s = Ok (x, s') -> o = Ok x /\ s' = s.
Proof. destruct o; cbn; intros H; try discriminate. injection H as -> ->. auto. Qed.

(* ---------- small reader facts (kept local: this file does not depend on Proofs/RoundP.v) ---------- *)
Lemma r_take_rc n s a s' : r_take n s = Ok (a, s') -> rc s' = rc s.
Proof.
  unfold r_take. destruct (take n (rbuf s)) as [[x y]|]; [|discriminate].
  intros H; injection H as <- <-. reflexivity.
Qed.
Lemma r_varint_rc m s z s' : r_varint m s = Ok (z, s') -> rc s' = rc s.
Proof.
  unfold r_varint. destruct (read_var_u64 m (rbuf s)) as [[n r]| |]; cbn [bind]; try discriminate.
  intros H; injection H as <- <-. reflexivity.
Qed.
Lemma r_bool_setpf s :
  r_bool PCompact (set_rc s (mkR (r_last (rc s)) (r_stack (rc s)) (r_pbool (rc s)) true)) = r_bool PCompact s.
Proof. destruct s as [b [l st pb pf]]. reflexivity. Qed.
Lemma r_fbl_other p ft id s : (p = PCompact -> ft <> TBool) -> elem_ttype_ok ft = true ->
  exists n, r_field_begin_len p ft (Some id) s = Ok (n, s).
Proof.
  intros Hnb Hok. destruct p; [eexists; reflexivity..|].
  destruct ft; cbn in Hok; try discriminate; try (eexists; reflexivity).
  exfalso. apply (Hnb eq_refl). reflexivity.
Qed.

Lemma gen_decode_eq S p f t s : gen_decode S p (Datatypes.S f) t s =
  match resolve S t with
  | TyBool => let* (b, s) := r_bool p s in Ok (GBool b, s)
  | TyI8 => let* (z, s) := r_i8 s in Ok (GI8 z, s)
  | TyI16 => let* (z, s) := r_i16 p s in Ok (GI16 z, s)
  | TyI32 => let* (z, s) := r_i32 p s in Ok (GI32 z, s)
  | TyI64 => let* (z, s) := r_i64 p s in Ok (GI64 z, s)
  | TyDouble => let* (z, s) := r_double p s in Ok (GDouble z, s)
  | TyString | TyBinary => let* (l, s) := r_bytes p s in Ok (GBytes l, s)
  | TyUuid => let* (l, s) := r_uuid s in Ok (GUuid l, s)
  | TyVoid =>
      let* (_, s) := r_struct_begin p s in
      let* (_, s) := r_struct_end p s in Ok (GVoid, s)
  | TyList et =>
      let* (h, s) := r_coll_begin p s in
      let* (l, s) := dec_elems (gen_decode S p f) (Datatypes.S f) et (snd h) s [] in
      Ok (GList l, s)
  | TySet et =>
      let* (h, s) := r_coll_begin p s in
      let* (l, s) := dec_elems (gen_decode S p f) (Datatypes.S f) et (snd h) s [] in
      Ok (GSet l, s)
  | TyMap kt vt =>
      let* (h, s) := r_map_begin p s in
      let* (l, s) := dec_pairs (gen_decode S p f) (Datatypes.S f) kt vt (snd h) s [] in
      Ok (GMap l, s)
  | TyRef n =>
      match lookup S n with
      | Some (DEnum _) => let* (z, s) := r_i32 p s in Ok (GEnum z, s)
      | Some (DStruct fs _ _) =>
          let* (_, s) := r_struct_begin p s in
          let* (vars, s) := dec_fields S p f (gen_decode S p f) (Datatypes.S f) fs (map init_var fs) s in
          let* (_, s) := r_struct_end p s in
          let* out := finish_fields fs vars in
          Ok (GStruct out [], s)
      | Some (DUnion vs void_ok _) =>
          let* (_, s) := r_struct_begin p s in
          let* (ret, s) := dec_variants S p f (gen_decode S p f) (Datatypes.S f) vs None s in
          let* (_, s) := r_struct_end p s in
          match ret with
          | Some (id, x) => Ok (GUnion id x, s)
          | None =>
              if void_ok then
                match vs with
                | (id0, _) :: _ => Ok (GUnion id0 GVoid, s)
                | [] => Err EInvalidData
                end
              else Err EInvalidData
          end
      | Some (DTypedef _) => Err EOther
      | None => Err EOther
      end
  end.
Proof. reflexivity. Qed.

(* ---------- readers leave the reader context alone ---------- *)
Definition RCP {A} (m : rm A) : Prop := forall s x s', m s = Ok (x, s') -> rc s' = rc s.

Lemma RCP_bind {A B} (m : rm A) (f : A -> rm B) :
  RCP m -> (forall x, RCP (f x)) -> RCP (fun s => let* (x, s1) := m s in f x s1).
Proof. intros Hm Hf s y s' H. binv H. rewrite (Hf _ _ _ _ H). eauto. Qed.
Lemma RCP_ret {A} (x : A) : RCP (fun s => Ok (x, s)).
Proof. intros s y s' H. injection H as <- <-. reflexivity. Qed.
Lemma RCP_fail {A} e : RCP (fun _ : rst => @Err (A * rst) e).
Proof. intros s x s' H. discriminate. Qed.
Lemma RCP_map {A B} (m : rm A) (g : A -> B) : RCP m -> RCP (fun s => let* (x, s1) := m s in Ok (g x, s1)).
Proof. intros H. apply (RCP_bind m (fun x s1 => Ok (g x, s1))); auto. intros x. apply RCP_ret. Qed.

Lemma RCP_take n : RCP (r_take n).
Proof. intros s a s' H. eapply r_take_rc; eauto. Qed.
Lemma RCP_varint m : RCP (r_varint m).
Proof. intros s a s' H. eapply r_varint_rc; eauto. Qed.
Lemma RCP_byte : RCP r_byte.
Proof. apply (RCP_map _ of_le), RCP_take. Qed.
Lemma RCP_i8 : RCP r_i8.
Proof. apply (RCP_map _ (fun a => wrap_s 8 (of_le a))), RCP_take. Qed.
Lemma RCP_fixed p n b : RCP (r_fixed p n b).
Proof. apply (RCP_map _ (fun a => wrap_s b (unfx p a))), RCP_take. Qed.
Lemma RCP_i16 p : RCP (r_i16 p).
Proof. destruct p; cbn [r_i16]; try apply RCP_fixed. apply (RCP_map _ (fun n => wrap_s 16 (unzigzag n))), RCP_varint. Qed.
Lemma RCP_i32 p : RCP (r_i32 p).
Proof. destruct p; cbn [r_i32]; try apply RCP_fixed. apply (RCP_map _ (fun n => wrap_s 32 (unzigzag n))), RCP_varint. Qed.
Lemma RCP_i64 p : RCP (r_i64 p).
Proof. destruct p; cbn [r_i64]; try apply RCP_fixed. apply (RCP_map _ (fun n => wrap_s 64 (unzigzag n))), RCP_varint. Qed.
Lemma RCP_double p : RCP (r_double p).
Proof. apply (RCP_map _ (fun a => match p with PBinary => of_be a | _ => of_le a end)), RCP_take. Qed.
Lemma RCP_uuid : RCP r_uuid.
Proof. apply RCP_take. Qed.
Lemma RCP_len p : RCP (r_len p).
Proof.
  destruct p; cbn [r_len].
  1,2: apply (RCP_map _ (wrap_u 64)), RCP_i32.
  apply (RCP_map _ (wrap_u 32)), RCP_varint.
Qed.
Lemma RCP_split n : RCP (r_split n).
Proof.
  intros s a s' H. unfold r_split in H. destruct (n <=? Z.of_nat (length (rbuf s))); [|discriminate].
  eapply RCP_take; eauto.
Qed.
Lemma RCP_bytes p : RCP (r_bytes p).
Proof. unfold r_bytes. apply RCP_bind; [apply RCP_len|]. intros n. apply RCP_split. Qed.
Lemma RCP_ttype : RCP r_ttype.
Proof.
  unfold r_ttype. apply RCP_bind; [apply RCP_byte|]. intros b. destruct (ttype_of_byte b); [apply RCP_ret|apply RCP_fail].
Qed.

Lemma RCP_coll_begin p : RCP (r_coll_begin p).
Proof.
  intros s h s' H. destruct p; cbn [r_coll_begin] in H.
  1,2: binv H; apply RCP_ttype in E; binv H;
       match goal with E0 : r_i32 _ _ = _ |- _ => apply RCP_i32 in E0 end;
       destruct (check_size x0 s1) as [m| |]; cbn [bind] in H; try discriminate;
       injection H as _ <-; congruence.
  binv H. apply RCP_byte in E.
  destruct (ttype_of_nibble (x mod 16)) as [et| |]; cbn [bind] in H; try discriminate.
  destruct (negb (x / 16 =? 15)).
  - destruct (check_size (x / 16) s0) as [m| |]; cbn [bind] in H; try discriminate. injection H as _ <-. exact E.
  - binv H. apply RCP_varint in E0.
    destruct (check_size (wrap_s 32 x0) s1) as [m| |]; cbn [bind] in H; try discriminate. injection H as _ <-. congruence.
Qed.

Lemma RCP_map_begin p : RCP (r_map_begin p).
Proof.
  intros s h s' H. destruct p; cbn [r_map_begin] in H.
  1,2: binv H; apply RCP_ttype in E; binv H; apply RCP_ttype in E0; binv H;
       match goal with E1 : r_i32 _ _ = _ |- _ => apply RCP_i32 in E1 end;
       destruct (check_size x1 s2) as [m| |]; cbn [bind] in H; try discriminate;
       injection H as _ <-; congruence.
  binv H. apply RCP_varint in E.
  destruct (wrap_s 32 x =? 0); [injection H as _ <-; exact E|].
  binv H. apply RCP_byte in E0.
  destruct (ttype_of_nibble (x0 / 16)) as [kt| |]; cbn [bind] in H; try discriminate.
  destruct (ttype_of_nibble (x0 mod 16)) as [vt| |]; cbn [bind] in H; try discriminate.
  destruct (check_size (wrap_s 32 x) s1) as [m| |]; cbn [bind] in H; try discriminate.
  injection H as _ <-. congruence.
Qed.

(* ---------- the length-pass flag ---------- *)
Definition npf (s : rst) : Prop := r_pfield (rc s) = false.

Lemma RCP_npf {A} (m : rm A) s x s' : RCP m -> m s = Ok (x, s') -> npf s -> npf s'.
Proof. intros Hm H Hn. unfold npf. rewrite (Hm _ _ _ H). exact Hn. Qed.

Lemma r_bool_npf p s b s' : r_bool p s = Ok (b, s') -> npf s -> npf s'.
Proof.
  destruct p; cbn [r_bool].
  1,2: intros H; binv H; injection H as _ <-; eapply RCP_npf; [apply RCP_i8|eauto].
  intros H _. destruct (r_pbool (rc s)).
  - injection H as _ <-. reflexivity.
  - binv H. apply RCP_byte in E. cbn [set_rc rc] in E.
    destruct (ctype_of_code x) as [[]|]; try discriminate; injection H as _ <-; unfold npf; rewrite E; reflexivity.
Qed.

Lemma r_struct_begin_npf p s u s' : r_struct_begin p s = Ok (u, s') -> npf s -> npf s'.
Proof. destruct p; cbn [r_struct_begin]; intros H; injection H as _ <-; auto. Qed.
Lemma r_struct_end_npf p s u s' : r_struct_end p s = Ok (u, s') -> npf s -> npf s'.
Proof.
  destruct p; cbn [r_struct_end]; try (intros H; injection H as _ <-; auto).
  destruct (r_stack (rc s)); [discriminate|]. intros H; injection H as _ <-. auto.
Qed.

(* the only lemma of this development that looks inside the compact read_field_begin *)
Lemma r_field_begin_npf p s h s' : r_field_begin p s = Ok (h, s') -> npf s -> npf s'.
Proof.
  destruct p.
  3: { intros H _. revert H. cbn [r_field_begin].
       destruct (r_byte (clear_pfield s)) as [[b s1]| |] eqn:Eb; cbn [bind]; try discriminate.
       apply RCP_byte in Eb.
       assert (Hn1 : npf s1) by (unfold npf; rewrite Eb; reflexivity).
       match goal with |- context [bind ?e _] => destruct e as [[ty s2]| |] eqn:E2 end; cbn [bind]; try discriminate.
       assert (Hn2 : npf s2).
       { destruct (b mod 16 =? ctype_code CBooleanTrue); [injection E2 as <- <-; exact Hn1|].
         destruct (b mod 16 =? ctype_code CBooleanFalse); [injection E2 as <- <-; exact Hn1|].
         destruct (ctype_of_code (b mod 16)) as [ct|]; [|discriminate].
         destruct (ttype_of_ctype ct); [|discriminate]. injection E2 as <- <-. exact Hn1. }
       destruct ty; try (intros H; injection H as _ <-; exact Hn2);
         (destruct (negb (b / 16 =? 0)); [intros H; injection H as _ <-; exact Hn2|]);
         (destruct (r_i16 PCompact s2) as [[i s3]| |] eqn:E3; cbn [bind]; try discriminate);
         apply RCP_i16 in E3; intros H; injection H as _ <-; unfold npf in *; cbn [set_rc rc r_pfield]; rewrite E3; exact Hn2. }
  1,2: cbn [r_field_begin]; intros H Hn; binv H; pose proof (RCP_npf _ _ _ _ RCP_ttype E Hn) as Hn0;
       destruct x; try (injection H as _ <-; exact Hn0);
       binv H; injection H as _ <-; (eapply RCP_npf; [apply RCP_i16|eauto|exact Hn0]).
Qed.

(* a field header that is not Stop carries an id *)
Lemma r_field_begin_some p s ft oid s' : r_field_begin p s = Ok ((ft, oid), s') -> ttype_eqb ft TStop = false ->
  exists id, oid = Some id.
Proof.
  destruct p; cbn [r_field_begin]; intros H Hs.
  1,2: binv H; destruct x; try (binv H; injection H as <- <- <-; eauto);
       injection H as <- <- <-; discriminate.
  binv H. binv H.
  destruct x0; try (destruct (negb (x / 16 =? 0)); [injection H as <- <- <-; eauto|binv H; injection H as <- <- <-; eauto]).
  injection H as <- <- <-. discriminate.
Qed.

Lemma r_field_stop_len_npf p s : npf s -> r_field_stop_len p s = Ok (1, s).
Proof. intros H. unfold r_field_stop_len, r_assert_no_pending. destruct p; try reflexivity. rewrite H. reflexivity. Qed.
Lemma r_field_end_len_npf p s : npf s -> r_field_end_len p s = Ok (0, s).
Proof. intros H. unfold r_field_end_len, r_assert_no_pending. destruct p; try reflexivity. rewrite H. reflexivity. Qed.

(* ---------- the value interpreter: flag and wire type of the result ---------- *)
Section ReadVal.
  Variable p : pk.

  Section Loops.
    Variable rec : ttype -> rst -> res (tval * rst).
    Hypothesis Hrec : forall ty s v s', rec ty s = Ok (v, s') -> npf s -> npf s' /\ ttype_of v = ty.

    Lemma fields_loop_npf : forall n s acc fs s', fields_loop p rec n s acc = Ok (fs, s') -> npf s -> npf s'.
    Proof.
      induction n as [|n IH]; intros s acc fs s' H Hn; [discriminate|].
      cbn [fields_loop] in H. binv H. pose proof (r_field_begin_npf _ _ _ _ E Hn) as Hn0.
      destruct (ttype_eqb (fst x) TStop); [injection H as _ <-; exact Hn0|].
      binv H. destruct (Hrec _ _ _ _ E0 Hn0) as [Hn1 _]. eapply IH; eauto.
    Qed.

    Lemma elems_loop_npf : forall m et n s acc l s', elems_loop rec m et n s acc = Ok (l, s') -> npf s ->
      npf s' /\ exists new, l = rev acc ++ new /\ Forall (fun x => ttype_of x = et) new.
    Proof.
      induction m as [|m IH]; intros et n s acc l s' H Hn; cbn [elems_loop] in H.
      - destruct (n <=? 0); [|discriminate]. injection H as <- <-. split; auto. exists []. rewrite app_nil_r. auto.
      - destruct (n <=? 0).
        + injection H as <- <-. split; auto. exists []. rewrite app_nil_r. auto.
        + binv H. destruct (Hrec _ _ _ _ E Hn) as [Hn0 Ht].
          destruct (IH _ _ _ _ _ _ H Hn0) as (Hn1 & new & -> & HF). split; auto.
          exists (x :: new). cbn [rev]. rewrite <- app_assoc. auto.
    Qed.

    Lemma pairs_loop_npf : forall m kt vt n s acc l s', pairs_loop rec m kt vt n s acc = Ok (l, s') -> npf s ->
      npf s' /\ exists new, l = rev acc ++ new /\ Forall (fun q => ttype_of (fst q) = kt /\ ttype_of (snd q) = vt) new.
    Proof.
      induction m as [|m IH]; intros kt vt n s acc l s' H Hn; cbn [pairs_loop] in H.
      - destruct (n <=? 0); [|discriminate]. injection H as <- <-. split; auto. exists []. rewrite app_nil_r. auto.
      - destruct (n <=? 0).
        + injection H as <- <-. split; auto. exists []. rewrite app_nil_r. auto.
        + binv H. binv H. destruct (Hrec _ _ _ _ E Hn) as [Hn0 Ht]. destruct (Hrec _ _ _ _ E0 Hn0) as [Hn1 Ht1].
          destruct (IH _ _ _ _ _ _ _ H Hn1) as (Hn2 & new & -> & HF). split; auto.
          exists ((x, x0) :: new). cbn [rev]. rewrite <- app_assoc. auto.
    Qed.
  End Loops.

  Theorem read_val_npf : forall f ty s v s', read_val p f ty s = Ok (v, s') -> npf s -> npf s' /\ ttype_of v = ty.
  Proof.
    induction f as [|f IH]; intros ty s v s' H Hn; [discriminate|].
    rewrite read_val_S in H. destruct ty; try discriminate.
    - binv H. injection H as <- <-. split; [eapply r_bool_npf; eauto|reflexivity].
    - binv H. injection H as <- <-. split; [eapply RCP_npf; [apply RCP_i8|eauto..]|reflexivity].
    - binv H. injection H as <- <-. split; [eapply RCP_npf; [apply RCP_double|eauto..]|reflexivity].
    - binv H. injection H as <- <-. split; [eapply RCP_npf; [apply RCP_i16|eauto..]|reflexivity].
    - binv H. injection H as <- <-. split; [eapply RCP_npf; [apply RCP_i32|eauto..]|reflexivity].
    - binv H. injection H as <- <-. split; [eapply RCP_npf; [apply RCP_i64|eauto..]|reflexivity].
    - binv H. injection H as <- <-. split; [eapply RCP_npf; [apply RCP_bytes|eauto..]|reflexivity].
    - binv H. binv H. binv H. injection H as <- <-. split; [|reflexivity].
      eapply r_struct_end_npf; eauto. eapply fields_loop_npf; eauto. eapply r_struct_begin_npf; eauto.
    - binv H. binv H. injection H as <- <-. split; [|reflexivity].
      eapply pairs_loop_npf; eauto. eapply RCP_npf; [apply RCP_map_begin|eauto..].
    - binv H. binv H. injection H as <- <-. split; [|reflexivity].
      eapply elems_loop_npf; eauto. eapply RCP_npf; [apply RCP_coll_begin|eauto..].
    - binv H. binv H. injection H as <- <-. split; [|reflexivity].
      eapply elems_loop_npf; eauto. eapply RCP_npf; [apply RCP_coll_begin|eauto..].
    - binv H. injection H as <- <-. split; [eapply RCP_npf; [apply RCP_uuid|eauto..]|reflexivity].
  Qed.
End ReadVal.

(* ---------- the declared types of a wire type ---------- *)
Ltac tycases Ht :=
  unfold ttype_of_ty in Ht;
  match type of Ht with context [resolve ?S ?t] =>
    destruct (resolve S t) as [| | | | | | | | | |?et|?et|?kt ?vt|?n] eqn:?Eres end;
  cbn [kind_ttype] in Ht; try discriminate Ht;
  try (match type of Ht with context [lookup ?S ?n] =>
         destruct (lookup S n) as [[?dfs ?kp ?ia|?vs ?vok ?kp|?ms|?tt]|] eqn:?Elk end;
       cbn [kind_ttype] in Ht; try discriminate Ht).

Lemma ttype_bool_inv S t : ttype_of_ty S t = TBool -> resolve S t = TyBool.
Proof. intros H. tycases H. reflexivity. Qed.

Lemma match_field_inv S dfs : forall i id ft j f, match_field S dfs i (Some id) ft = Some (j, f) ->
  In f dfs /\ f_id f = id /\ ttype_of_ty S (f_ty f) = ft.
Proof.
  induction dfs as [|g r IH]; intros i id ft j f; cbn [match_field]; [discriminate|].
  destruct ((f_id g =? id) && ttype_eqb (ttype_of_ty S (f_ty g)) ft) eqn:E.
  - intros H. injection H as <- <-. apply andb_prop in E as [E1 E2].
    split; [left; reflexivity|]. split; [lia|]. destruct (ttype_eqb_spec (ttype_of_ty S (f_ty g)) ft); congruence.
  - intros H. destruct (IH _ _ _ _ _ H) as (Hin & Hid & Hty). split; [right; exact Hin|auto].
Qed.

(* after the reader-side field_begin_len the value readers behave as before it (under compact the call only arms
   the flag for a bool, and read_bool does not look at it) *)
Lemma fbl_ok S p ft id s : npf s -> elem_ttype_ok ft = true ->
  exists n s1, r_field_begin_len p ft (Some id) s = Ok (n, s1) /\
    (forall f, read_val p f ft s1 = read_val p f ft s) /\
    (forall f t, ttype_of_ty S t = ft -> gen_decode S p f t s1 = gen_decode S p f t s).
Proof.
  intros Hn Hok. destruct p.
  1,2: exists 3, s; split; [reflexivity|]; split; reflexivity.
  destruct (ttype_eqb_spec ft TBool) as [->|Hnb].
  - exists 0, (set_rc s (mkR (r_last (rc s)) (r_stack (rc s)) (r_pbool (rc s)) true)).
    split; [cbn [r_field_begin_len]; rewrite Hn; reflexivity|]. split.
    + intros f. destruct f as [|f]; [reflexivity|]. rewrite !read_val_S. rewrite r_bool_setpf. reflexivity.
    + intros f t Ht. destruct f as [|f]; [reflexivity|]. rewrite !gen_decode_eq, (ttype_bool_inv _ _ Ht).
      rewrite r_bool_setpf. reflexivity.
  - destruct (r_fbl_other PCompact ft id s (fun _ => Hnb) Hok) as (n & Hfbl).
    exists n, s. split; [exact Hfbl|]. split; reflexivity.
Qed.
