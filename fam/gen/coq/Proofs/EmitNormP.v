(* The normalisation of rows does not change what they denote: String / FastStr / Bytes / Vec<u8> write the same bytes,
   u8 / i8 and f64 / OrderedFloat likewise, hash / btree containers and Rust names are not looked at, and the Ext helpers of
   the normalised method family announce the same TType (by the regenerated ExtTable).  So the chain starts at the rows AS
   LOWERED from the text:  den (emitted) = den (map norm_row emitted) = den (prescribed) = model. *)
From Coq Require Import String Lia.
From PVGen Require Import Gen GenSpec EmitOps EmitDen Proofs.GenBase Proofs.EmitOpsP.
Open Scope Z_scope.

Section Norm.
  Variable tbl : list erow.
  Variable p : pk.
  Notation N := (map norm_row tbl).

  Lemma row_norm n : row N n = norm_row (row tbl n).
  Proof. unfold row. rewrite nth_error_map. destruct (nth_error tbl n); reflexivity. Qed.

  Lemma vfuel_norm : vfuel N = vfuel tbl.
  Proof. unfold vfuel. rewrite map_length. reflexivity. Qed.

  Lemma vres_norm sz : forall f e, vres N sz f (norm_vop e) = norm_vop (vres tbl sz f e).
  Proof.
    induction f as [|f IH]; intros e; [reflexivity|]. destruct e; try reflexivity.
    cbn [norm_vop vres]. rewrite row_norm. destruct (row tbl n); try reflexivity. cbn [norm_row]. destruct sz; apply IH.
  Qed.

  Lemma find_ef_norm fs id : find_ef (map norm_field fs) id = option_map norm_field (find_ef fs id).
  Proof. induction fs as [|f r IH]; [reflexivity|]. cbn [map find_ef norm_field ef_id]. destruct (ef_id f =? id); [reflexivity|exact IH]. Qed.

  Lemma hdr_w_norm kd : hdr_of ext_write_field_ttype (nk kd) = hdr_of ext_write_field_ttype kd.
  Proof. destruct kd; reflexivity. Qed.
  Lemma hdr_l_norm kd : hdr_of ext_field_len_ttype (nk kd) = hdr_of ext_field_len_ttype kd.
  Proof. destruct kd; reflexivity. Qed.

  (* ---------- encode ---------- *)
  Section Enc.
    Variable k : bk.

    Lemma w_kind_norm kd v : w_kind p k (nk kd) v = w_kind p k kd v.
    Proof. destruct kd; destruct v; reflexivity. Qed.

    Lemma wfield_norm (rec rec' : vop -> wm) (wk wk' : kind -> wm) op id :
      (forall e, rec' (norm_vop e) = rec e) -> (forall kd, wk' (nk kd) = wk kd) ->
      den_wfield p rec' wk' (norm_fop op) id = den_wfield p rec wk op id.
    Proof.
      intros Hr Hk. destruct op as [kd|m|et e1|bt et e1|bt kt vt ea eb|[ht|] m|]; cbn [norm_fop den_wfield]; try reflexivity.
      - rewrite hdr_w_norm, Hk. reflexivity.
      - rewrite <- (Hr (VPath m)). reflexivity.
      - rewrite <- (Hr (VList et e1)). reflexivity.
      - rewrite <- (Hr (VSet bt et e1)). reflexivity.
      - rewrite <- (Hr (VMap bt kt vt ea eb)). reflexivity.
      - rewrite <- (Hr (VPath m)). reflexivity.
    Qed.

    Theorem den_enc_norm : forall v e, den_enc N p k (norm_vop e) v = den_enc tbl p k e v.
    Proof.
      intros v. induction v as [b|z|z|z|z|z|l|l| |z|l HF|l HF|l HF|fs unk HF|id x IH|u] using gval_ind'; intros e;
        cbn [den_enc]; rewrite vfuel_norm, vres_norm; destruct (vres tbl false (vfuel tbl) e) as [kd| |et e1|bt et e1|bt kt vt ea eb|n];
        cbn [norm_vop]; try reflexivity; try apply w_kind_norm.
      - rewrite row_norm. destruct (row tbl n); reflexivity.
      - f_equal. induction HF as [|x r Hx Hr IHr]; [reflexivity|]. rewrite Hx, IHr. reflexivity.
      - f_equal. induction HF as [|x r Hx Hr IHr]; [reflexivity|]. rewrite Hx, IHr. reflexivity.
      - f_equal. induction HF as [|[a b] r [Ha Hb] Hr IHr]; [reflexivity|]. cbn [fst snd] in *. rewrite Ha, Hb, IHr. reflexivity.
      - rewrite row_norm. destruct (row tbl n) as [|nm enc eu sz su d|nm enc eu sz su d|nm|nm en sz d]; try reflexivity. cbn [norm_row].
        enough (EF : (fix go (fs0 : list (Z * gval)) : wm :=
                        match fs0 with
                        | [] => wnop
                        | (id, x) :: r =>
                            match find_ef (map norm_field enc) id with
                            | Some f => den_wfield p (fun e0 => den_enc N p k e0 x) (fun kd => w_kind p k kd x) (ef_op f) id ;; go r
                            | None => wfail
                            end
                        end) fs =
                     (fix go (fs0 : list (Z * gval)) : wm :=
                        match fs0 with
                        | [] => wnop
                        | (id, x) :: r =>
                            match find_ef enc id with
                            | Some f => den_wfield p (fun e0 => den_enc tbl p k e0 x) (fun kd => w_kind p k kd x) (ef_op f) id ;; go r
                            | None => wfail
                            end
                        end) fs) by (rewrite EF; reflexivity).
        induction HF as [|[id x] r Hx Hr IHr]; [reflexivity|]. cbn [snd] in Hx. rewrite find_ef_norm.
        destruct (find_ef enc id) as [f|]; [|reflexivity]. cbn [option_map norm_field ef_op].
        rewrite (wfield_norm (fun e0 => den_enc tbl p k e0 x) (fun e0 => den_enc N p k e0 x) (fun kd => w_kind p k kd x) (fun kd => w_kind p k kd x)
                             (ef_op f) id Hx (fun kd => w_kind_norm kd x)).
        rewrite IHr. reflexivity.
      - rewrite row_norm. destruct (row tbl n) as [|nm enc eu sz su d|nm enc eu sz su d|nm|nm en sz d]; try reflexivity. cbn [norm_row].
        rewrite find_ef_norm. destruct (find_ef enc id) as [f|]; [|reflexivity]. cbn [option_map norm_field ef_op].
        rewrite (wfield_norm (fun e0 => den_enc tbl p k e0 x) (fun e0 => den_enc N p k e0 x) (fun kd => w_kind p k kd x) (fun kd => w_kind p k kd x)
                             (ef_op f) id IH (fun kd => w_kind_norm kd x)).
        reflexivity.
      - rewrite row_norm. destruct (row tbl n) as [|nm enc eu sz su d|nm enc eu sz su d|nm|nm en sz d]; reflexivity.
    Qed.
  End Enc.

  (* ---------- size ---------- *)
  Lemma l_kind_norm kd v : l_kind p (nk kd) v = l_kind p kd v.
  Proof. destruct kd; destruct v; reflexivity. Qed.

  Lemma lfield_norm (rec rec' : vop -> lm) (lk lk' : kind -> lm) op id :
    (forall e, rec' (norm_vop e) = rec e) -> (forall kd, lk' (nk kd) = lk kd) ->
    den_lfield p rec' lk' (norm_fop op) id = den_lfield p rec lk op id.
  Proof.
    intros Hr Hk. destruct op as [kd|m|et e1|bt et e1|bt kt vt ea eb|[ht|] m|]; cbn [norm_fop den_lfield]; try reflexivity.
    - rewrite hdr_l_norm, Hk. reflexivity.
    - rewrite <- (Hr (VPath m)). reflexivity.
    - rewrite <- (Hr (VList et e1)). reflexivity.
    - rewrite <- (Hr (VSet bt et e1)). reflexivity.
    - rewrite <- (Hr (VMap bt kt vt ea eb)). reflexivity.
    - rewrite <- (Hr (VPath m)). reflexivity.
  Qed.

  Theorem den_size_norm : forall v e, den_size N p (norm_vop e) v = den_size tbl p e v.
  Proof.
    intros v. induction v as [b|z|z|z|z|z|l|l| |z|l HF|l HF|l HF|fs unk HF|id x IH|u] using gval_ind'; intros e;
      cbn [den_size]; rewrite vfuel_norm, vres_norm; destruct (vres tbl true (vfuel tbl) e) as [kd| |et e1|bt et e1|bt kt vt ea eb|n];
      cbn [norm_vop]; try reflexivity; try apply l_kind_norm.
    - rewrite row_norm. destruct (row tbl n); reflexivity.
    - f_equal. induction HF as [|x r Hx Hr IHr]; [reflexivity|]. rewrite Hx, IHr. reflexivity.
    - f_equal. induction HF as [|x r Hx Hr IHr]; [reflexivity|]. rewrite Hx, IHr. reflexivity.
    - f_equal. induction HF as [|[a b] r [Ha Hb] Hr IHr]; [reflexivity|]. cbn [fst snd] in *. rewrite Ha, Hb, IHr. reflexivity.
    - rewrite row_norm. destruct (row tbl n) as [|nm enc eu sz su d|nm enc eu sz su d|nm|nm en sz d]; try reflexivity. cbn [norm_row].
      enough (EF : (fix go (fs0 : list (Z * gval)) : lm :=
                      match fs0 with
                      | [] => lret 0
                      | (id, x) :: r =>
                          match find_ef (map norm_field sz) id with
                          | Some f => den_lfield p (fun e0 => den_size N p e0 x) (fun kd => l_kind p kd x) (ef_op f) id +++ go r
                          | None => lfail
                          end
                      end) fs =
                   (fix go (fs0 : list (Z * gval)) : lm :=
                      match fs0 with
                      | [] => lret 0
                      | (id, x) :: r =>
                          match find_ef sz id with
                          | Some f => den_lfield p (fun e0 => den_size tbl p e0 x) (fun kd => l_kind p kd x) (ef_op f) id +++ go r
                          | None => lfail
                          end
                      end) fs) by (rewrite EF; reflexivity).
      induction HF as [|[id x] r Hx Hr IHr]; [reflexivity|]. cbn [snd] in Hx. rewrite find_ef_norm.
      destruct (find_ef sz id) as [f|]; [|reflexivity]. cbn [option_map norm_field ef_op].
      rewrite (lfield_norm (fun e0 => den_size tbl p e0 x) (fun e0 => den_size N p e0 x) (fun kd => l_kind p kd x) (fun kd => l_kind p kd x)
                           (ef_op f) id Hx (fun kd => l_kind_norm kd x)).
      rewrite IHr. reflexivity.
    - rewrite row_norm. destruct (row tbl n) as [|nm enc eu sz su d|nm enc eu sz su d|nm|nm en sz d]; try reflexivity. cbn [norm_row].
      rewrite find_ef_norm. destruct (find_ef sz id) as [f|]; [|reflexivity]. cbn [option_map norm_field ef_op].
      rewrite (lfield_norm (fun e0 => den_size tbl p e0 x) (fun e0 => den_size N p e0 x) (fun kd => l_kind p kd x) (fun kd => l_kind p kd x)
                           (ef_op f) id IH (fun kd => l_kind_norm kd x)).
      reflexivity.
    - rewrite row_norm. destruct (row tbl n) as [|nm enc eu sz su d|nm enc eu sz su d|nm|nm en sz d]; reflexivity.
  Qed.

  (* ---------- decode ---------- *)
  Variable dfl : nat -> nat -> option gval.

  Lemma norm_unbox : forall e, norm_rop (unbox e) = norm_rop e.
  Proof. induction e; try reflexivity; cbn [unbox norm_rop]; assumption. Qed.
  Lemma unbox_normed : forall e, unbox (norm_rop e) = norm_rop e.
  Proof. induction e; try reflexivity; cbn [norm_rop]; assumption. Qed.
  Definition nobox (e : rop) : Prop := match e with RBox _ | RArc _ => False | _ => True end.
  Lemma unbox_nobox : forall e, nobox (unbox e).
  Proof. induction e; cbn [unbox nobox]; auto. Qed.

  Lemma rres_nobox : forall f e, nobox (rres tbl f e).
  Proof.
    induction f as [|f IH]; intros e; [apply unbox_nobox|]. cbn [rres]. pose proof (unbox_nobox e) as H.
    destruct (unbox e); try exact H; try exact I. destruct (row tbl n); try exact I. apply IH.
  Qed.

  Lemma rres_norm : forall f e, rres N f (norm_rop e) = norm_rop (rres tbl f e).
  Proof.
    induction f as [|f IH]; intros e; cbn [rres]; rewrite unbox_normed, <- (norm_unbox e); pose proof (unbox_nobox e) as H;
      destruct (unbox e) as [kd| |e1|bt e1|bt ea eb|n|e1|e1]; try reflexivity; try (destruct H).
    cbn [norm_rop]. rewrite row_norm. destruct (row tbl n); try reflexivity. cbn [norm_row]. apply IH.
  Qed.

  Lemma r_kind_norm kd s : r_kind p (nk kd) s = r_kind p kd s.
  Proof. destruct kd; reflexivity. Qed.

  Lemma find_arm_norm arms id ft : find_arm (map norm_arm arms) id ft = option_map norm_arm (find_arm arms id ft).
  Proof.
    induction arms as [|a r IH]; [reflexivity|]. cbn [map find_arm]. destruct id as [z|]; [|reflexivity].
    cbn [norm_arm da_id da_tt]. destruct ((da_id a =? z) && ttype_eqb (da_tt a) ft)%bool; [reflexivity|exact IH].
  Qed.
  Lemma find_uarm_norm arms id : find_uarm (map norm_uarm arms) id = option_map norm_uarm (find_uarm arms id).
  Proof.
    induction arms as [|a r IH]; [reflexivity|]. cbn [map find_uarm norm_uarm ua_id]. destruct (ua_id a =? id); [reflexivity|exact IH].
  Qed.
  Lemma arm_of_var_norm arms v : arm_of_var (map norm_arm arms) v = arm_of_var arms v.
  Proof. induction arms as [|a r IH]; [reflexivity|]. cbn [map arm_of_var norm_arm da_var da_id]. rewrite IH. reflexivity. Qed.

  Section Loops.
    Variable fk : nat.
    Variable rec rec' : rop -> rst -> res (gval * rst).
    Hypothesis Hrec : forall e s, rec' (norm_rop e) s = rec e s.

    Lemma dd_elems_norm : forall m e n s acc, dd_elems rec' m (norm_rop e) n s acc = dd_elems rec m e n s acc.
    Proof.
      induction m as [|m IH]; intros e n s acc; cbn [dd_elems]; destruct (n <=? 0); try reflexivity.
      rewrite Hrec. destruct (rec e s) as [[x s1]| |]; cbn [bind]; try reflexivity. apply IH.
    Qed.
    Lemma dd_pairs_norm : forall m ea eb n s acc, dd_pairs rec' m (norm_rop ea) (norm_rop eb) n s acc = dd_pairs rec m ea eb n s acc.
    Proof.
      induction m as [|m IH]; intros ea eb n s acc; cbn [dd_pairs]; destruct (n <=? 0); try reflexivity.
      rewrite Hrec. destruct (rec ea s) as [[a s1]| |]; cbn [bind]; try reflexivity.
      rewrite Hrec. destruct (rec eb s1) as [[b s2]| |]; cbn [bind]; try reflexivity. apply IH.
    Qed.
    Lemma dd_fields_norm d : forall m vars s, dd_fields p fk rec' m (norm_ds d) vars s = dd_fields p fk rec m d vars s.
    Proof.
      induction m as [|m IH]; intros vars s; [reflexivity|]. cbn [dd_fields].
      destruct (r_field_begin p s) as [[h s1]| |]; cbn [bind]; try reflexivity.
      cbn [norm_ds ds_stop_len ds_begin_len ds_end_len ds_arms ds_skip].
      destruct (ttype_eqb (fst h) TStop); [reflexivity|].
      destruct (len_form0 (ds_begin_len d) (r_field_begin_len p (fst h) (snd h)) s1) as [[z s2]| |]; cbn [bind]; try reflexivity.
      rewrite find_arm_norm. destruct (find_arm (ds_arms d) (snd h) (fst h)) as [a|]; cbn [option_map].
      - cbn [norm_arm da_read da_var]. rewrite Hrec. destruct (rec (da_read a) s2) as [[x s3]| |]; cbn [bind]; try reflexivity.
        destruct (len_form0 (ds_end_len d) (r_field_end_len p) s3) as [[z' s4]| |]; cbn [bind]; try reflexivity. apply IH.
      - destruct (ds_skip d); try reflexivity.
        destruct (skip p fk (fst h) s2) as [[z' s3]| |]; cbn [bind]; try reflexivity.
        destruct (len_form0 (ds_end_len d) (r_field_end_len p) s3) as [[z'' s4]| |]; cbn [bind]; try reflexivity. apply IH.
    Qed.
    Lemma dd_variants_norm d : forall m ret s, dd_variants p fk rec' m (norm_du d) ret s = dd_variants p fk rec m d ret s.
    Proof.
      induction m as [|m IH]; intros ret s; [reflexivity|]. cbn [dd_variants].
      destruct (r_field_begin p s) as [[h s1]| |]; cbn [bind]; try reflexivity.
      cbn [norm_du du_stop_len du_begin_len du_arms du_skip].
      destruct (ttype_eqb (fst h) TStop); [reflexivity|].
      destruct (len_form0 (du_begin_len d) (r_field_begin_len p (fst h) (snd h)) s1) as [[z s2]| |]; cbn [bind]; try reflexivity.
      assert (E : match snd h with Some id => find_uarm (map norm_uarm (du_arms d)) id | None => None end =
                  option_map norm_uarm (match snd h with Some id => find_uarm (du_arms d) id | None => None end)).
      { destruct (snd h); [apply find_uarm_norm|reflexivity]. }
      rewrite E. destruct (match snd h with Some id => find_uarm (du_arms d) id | None => None end) as [a|]; cbn [option_map].
      - destruct ret; [reflexivity|]. cbn [norm_uarm ua_read ua_id]. rewrite Hrec.
        destruct (rec (ua_read a) s2) as [[x s3]| |]; cbn [bind]; try reflexivity. apply IH.
      - destruct (du_skip d); try reflexivity.
        destruct (skip p fk (fst h) s2) as [[z' s3]| |]; cbn [bind]; try reflexivity. apply IH.
    Qed.
  End Loops.

  Lemma dd_finish_norm n d vars : forall build,
    dd_finish dfl n (norm_ds d) (map (fun q : string * nat => (EmptyString, snd q)) build) vars = dd_finish dfl n d build vars.
  Proof.
    induction build as [|[nm v] r IH]; [reflexivity|]. cbn [map dd_finish snd]. cbn [norm_ds ds_arms ds_required].
    rewrite arm_of_var_norm. destruct (nth_error vars v) as [x|]; [|reflexivity]. destruct (arm_of_var (ds_arms d) v) as [id|]; [|reflexivity].
    cbn [norm_ds ds_arms ds_required] in IH. rewrite IH. reflexivity.
  Qed.

  Theorem den_dec_norm : forall fuel e s, den_dec N dfl p fuel (norm_rop e) s = den_dec tbl dfl p fuel e s.
  Proof.
    induction fuel as [|f IH]; intros e s; [reflexivity|]. cbn [den_dec]. rewrite vfuel_norm, rres_norm.
    pose proof (rres_nobox (vfuel tbl) e) as Hnb.
    destruct (rres tbl (vfuel tbl) e) as [kd| |e1|bt e1|bt ea eb|n|e1|e1]; cbn [norm_rop]; try reflexivity; try (destruct Hnb).
    - apply r_kind_norm.
    - destruct (r_coll_begin p s) as [[h s1]| |]; cbn [bind]; try reflexivity. rewrite (dd_elems_norm _ _ IH). reflexivity.
    - destruct (r_coll_begin p s) as [[h s1]| |]; cbn [bind]; try reflexivity. rewrite (dd_elems_norm _ _ IH). reflexivity.
    - destruct (r_map_begin p s) as [[h s1]| |]; cbn [bind]; try reflexivity. rewrite (dd_pairs_norm _ _ IH). reflexivity.
    - rewrite row_norm. destruct (row tbl n) as [|nm enc eu sz su d|nm enc eu sz su d|nm|nm en sz d]; try reflexivity; cbn [norm_row].
      + assert (Hr : retains_s (norm_ds d) = retains_s d) by reflexivity. rewrite Hr. destruct (retains_s d); [reflexivity|].
        destruct (r_struct_begin p s) as [[z s1]| |]; cbn [bind]; try reflexivity.
        assert (Hi : ds_inits (norm_ds d) = ds_inits d) by reflexivity. rewrite Hi.
        rewrite (dd_fields_norm f _ _ IH d).
        destruct (dd_fields p f (den_dec tbl dfl p f) (Datatypes.S f) d (init_vars dfl n 0 (ds_inits d)) s1) as [[vars s2]| |]; cbn [bind]; try reflexivity.
        destruct (r_struct_end p s2) as [[z' s3]| |]; cbn [bind]; try reflexivity.
        assert (Hb : ds_build (norm_ds d) = map (fun q : string * nat => (EmptyString, snd q)) (ds_build d)) by reflexivity.
        rewrite Hb, dd_finish_norm. reflexivity.
      + assert (Hr : retains_u (norm_du d) = retains_u d) by reflexivity. rewrite Hr. destruct (retains_u d); [reflexivity|].
        destruct (r_struct_begin p s) as [[z s1]| |]; cbn [bind]; try reflexivity.
        rewrite (dd_variants_norm f _ _ IH d).
        destruct (dd_variants p f (den_dec tbl dfl p f) (Datatypes.S f) d None s1) as [[ret s2]| |]; cbn [bind]; try reflexivity.
        destruct (r_struct_end p s2) as [[z' s3]| |]; cbn [bind]; try reflexivity.
        destruct ret as [[id x]|]; [reflexivity|].
        assert (Hv : du_void_ok (norm_du d) = du_void_ok d) by reflexivity. rewrite Hv. destruct (du_void_ok d); [|reflexivity].
        destruct enc as [|f0 r]; reflexivity.
  Qed.
End Norm.

(* the prescribed ops are normal forms *)
Lemma norm_presc_vop S : forall t, norm_vop (presc_vop S t) = presc_vop S t.
Proof. induction t; cbn [presc_vop norm_vop nk]; try reflexivity; congruence. Qed.
Lemma norm_presc_rop : forall t, norm_rop (presc_rop t) = presc_rop t.
Proof. induction t; cbn [presc_rop norm_rop nk]; try reflexivity; congruence. Qed.
