(* L1: pilota's primitive protocol operations, transcribed method by method from
   pilota/src/thrift/{binary,binary_le,compact}.rs (TOutputProtocol / TInputProtocol).
   One unified state type; [pk] selects the protocol. *)
From PV Require Export Thrift.Value.
Open Scope Z_scope.

Inductive pk := PBinary | PBinaryLE | PCompact.

(* output buffer kind: contiguous BytesMut, or LinkedBytes with zero-copy off/on *)
Inductive bk := BContig | BLinked (zc : bool).

(* what the writer appends: copied bytes, or a zero-copy node inserted into LinkedBytes *)
Inductive seg := Copy (l : list byte) | Node (l : list byte).
Definition seg_bytes (s : seg) : list byte := match s with Copy l | Node l => l end.
Definition flat (ss : list seg) : list byte := concat (map seg_bytes ss).
Definition zc_len (ss : list seg) : Z :=
  fold_right (fun s a => match s with Node l => Z.of_nat (length l) + a | Copy _ => a end) 0 ss.

(* ---------- writer ---------- *)
Record wctx := mkW {
  w_last : Z;                 (* last_write_field_id *)
  w_stack : list Z;           (* write_field_id_stack, top first *)
  w_pend : option Z           (* pending_write_bool_field_identifier (its id) *)
}.
Definition w0 : wctx := mkW 0 [] None.

Definition wm := wctx -> res (list seg * wctx).

Definition wret (l : list byte) : wm := fun c => Ok ([Copy l], c).
Definition wnop : wm := fun c => Ok ([], c).
Definition wseq (a b : wm) : wm := fun c =>
  let* (s1, c1) := a c in
  let* (s2, c2) := b c1 in
  Ok (s1 ++ s2, c2).
Infix ";;" := wseq (at level 61, left associativity).

Definition fx (p : pk) (n : nat) (z : Z) : list byte :=
  match p with
  | PBinaryLE => le_bytes n z
  | _ => be_bytes n z
  end.
Definition unfx (p : pk) (l : list byte) : Z :=
  match p with
  | PBinaryLE => of_le l
  | _ => of_be l
  end.

Definition w_byte (b : Z) : wm := wret [z2b b].
Definition w_i8 (z : Z) : wm := wret [z2b z].

Definition w_i16 (p : pk) (z : Z) : wm :=
  match p with
  | PCompact => wret (encode_var (zigzag z))
  | _ => wret (fx p 2 (wrap_u 16 z))
  end.
Definition w_i32 (p : pk) (z : Z) : wm :=
  match p with
  | PCompact => wret (encode_var (zigzag z))
  | _ => wret (fx p 4 (wrap_u 32 z))
  end.
Definition w_i64 (p : pk) (z : Z) : wm :=
  match p with
  | PCompact => wret (encode_var (zigzag z))
  | _ => wret (fx p 8 (wrap_u 64 z))
  end.
Definition w_double (p : pk) (bits : Z) : wm :=
  match p with
  | PBinary => wret (be_bytes 8 bits)
  | PBinaryLE | PCompact => wret (le_bytes 8 bits)
  end.
Definition w_uuid (l : list byte) : wm := wret l.

(* length prefix of strings/binaries: i32 (binary) or unsigned varint of `len as u32` *)
Definition w_len (p : pk) (n : Z) : wm :=
  match p with
  | PCompact => wret (encode_var (wrap_u 32 n))
  | _ => w_i32 p (wrap_s 32 n)
  end.

Definition w_bytes_without_len (k : bk) (b : list byte) : wm := fun c =>
  match k with
  | BLinked true =>
      if zero_copy_threshold <=? Z.of_nat (length b) then Ok ([Node b], c) else Ok ([Copy b], c)
  | _ => Ok ([Copy b], c)
  end.
Definition w_bytes (p : pk) (k : bk) (b : list byte) : wm :=
  w_len p (Z.of_nat (length b)) ;; w_bytes_without_len k b.

Definition assert_no_pending_w (p : pk) : wm := fun c =>
  match p, w_pend c with
  | PCompact, Some _ => Panic SPendingBoolWrite
  | _, _ => Ok ([], c)
  end.

Definition w_struct_begin (p : pk) : wm := fun c =>
  match p with
  | PCompact => Ok ([], mkW 0 (w_last c :: w_stack c) (w_pend c))
  | _ => Ok ([], c)
  end.
Definition w_struct_end (p : pk) : wm := fun c =>
  match p with
  | PCompact =>
      match w_pend c with
      | Some _ => Panic SPendingBoolWrite
      | None =>
          match w_stack c with
          | [] => Err EInvalidData
          | x :: t => Ok ([], mkW x t None)
          end
      end
  | _ => Ok ([], c)
  end.

(* compact write_field_header: delta computed in i32 *)
Definition w_field_header (ct : ctype) (id : Z) : wm := fun c =>
  let delta := id - w_last c in
  let c' := mkW id (w_stack c) (w_pend c) in
  if (0 <? delta) && (delta <? 15)
  then Ok ([Copy [z2b (delta * 16 + ctype_code ct)]], c')
  else (w_byte (ctype_code ct) ;; w_i16 PCompact id) c'.

Definition w_field_begin (p : pk) (ty : ttype) (id : Z) : wm :=
  match p with
  | PCompact => fun c =>
      match ty with
      | TBool =>
          match w_pend c with
          | Some _ => Panic SPendingBoolTwice
          | None => Ok ([], mkW (w_last c) (w_stack c) (Some id))
          end
      | _ =>
          match ctype_of_ttype ty with
          | None => Err EInvalidData
          | Some ct => w_field_header ct id c
          end
      end
  | _ => wret (z2b (ttype_code ty) :: fx p 2 (wrap_u 16 id))
  end.
Definition w_field_end (p : pk) : wm := assert_no_pending_w p.
Definition w_field_stop (p : pk) : wm := assert_no_pending_w p ;; w_byte (ttype_code TStop).

Definition w_bool (p : pk) (b : bool) : wm :=
  match p with
  | PCompact => fun c =>
      match w_pend c with
      | Some id =>
          w_field_header (if b then CBooleanTrue else CBooleanFalse) id (mkW (w_last c) (w_stack c) None)
      | None => w_byte (ctype_code (if b then CBooleanTrue else CBooleanFalse)) c
      end
  | _ => w_i8 (if b then 1 else 0)
  end.

(* write_collection_begin / write_list_begin / write_set_begin *)
Definition w_coll_begin (p : pk) (et : ttype) (n : Z) : wm :=
  match p with
  | PCompact => fun c =>
      match ctype_of_ttype et with
      | None => Err EInvalidData
      | Some ct =>
          if n <=? 14 then w_byte (n * 16 + ctype_code ct) c
          else (w_byte (240 + ctype_code ct) ;; wret (encode_var (wrap_u 32 n))) c
      end
  | _ => w_byte (ttype_code et) ;; w_i32 p (wrap_s 32 n)
  end.

Definition w_map_begin (p : pk) (kt vt : ttype) (n : Z) : wm :=
  match p with
  | PCompact => fun c =>
      if n =? 0 then w_byte (ttype_code TStop) c
      else match ctype_of_ttype kt, ctype_of_ttype vt with
           | Some kc, Some vc =>
               (wret (encode_var (wrap_u 32 n)) ;; w_byte (ctype_code kc * 16 + ctype_code vc)) c
           | _, _ => Err EInvalidData
           end
  | _ => w_byte (ttype_code kt) ;; w_byte (ttype_code vt) ;; w_i32 p (wrap_s 32 n)
  end.

(* ---------- reader ---------- *)
Record rctx := mkR {
  r_last : Z;                (* last_read_field_id *)
  r_stack : list Z;          (* read_field_id_stack *)
  r_pbool : option bool;     (* pending_read_bool_value *)
  r_pfield : bool            (* pending_read_bool_field_identifier.is_some() *)
}.
Definition r0 : rctx := mkR 0 [] None false.

Record rst := mkS { rbuf : list byte; rc : rctx }.
Definition rm (A : Type) := rst -> res (A * rst).

Definition blen (s : rst) : nat := length (rbuf s).
Definition set_buf (s : rst) (b : list byte) : rst := mkS b (rc s).
Definition set_rc (s : rst) (c : rctx) : rst := mkS (rbuf s) c.

Definition r_take (n : nat) : rm (list byte) := fun s =>
  match take n (rbuf s) with
  | Some (a, r) => Ok (a, set_buf s r)
  | None => Err EInvalidData
  end.

Definition r_byte : rm Z := fun s =>
  let* (a, s) := r_take 1 s in Ok (of_le a, s).
Definition r_i8 : rm Z := fun s =>
  let* (a, s) := r_take 1 s in Ok (wrap_s 8 (of_le a), s).

(* compact read_varint::<VI> : raw u64 *)
Definition r_varint (maxsize : nat) : rm Z := fun s =>
  let* (n, r) := read_var_u64 maxsize (rbuf s) in Ok (n, set_buf s r).

Definition r_fixed (p : pk) (n : nat) (bits : Z) : rm Z := fun s =>
  let* (a, s) := r_take n s in Ok (wrap_s bits (unfx p a), s).

Definition r_i16 (p : pk) : rm Z :=
  match p with
  | PCompact => fun s => let* (n, s) := r_varint maxsize_16 s in Ok (wrap_s 16 (unzigzag n), s)
  | _ => r_fixed p 2 16
  end.
Definition r_i32 (p : pk) : rm Z :=
  match p with
  | PCompact => fun s => let* (n, s) := r_varint maxsize_32 s in Ok (wrap_s 32 (unzigzag n), s)
  | _ => r_fixed p 4 32
  end.
Definition r_i64 (p : pk) : rm Z :=
  match p with
  | PCompact => fun s => let* (n, s) := r_varint maxsize_64 s in Ok (wrap_s 64 (unzigzag n), s)
  | _ => r_fixed p 8 64
  end.
Definition r_double (p : pk) : rm Z := fun s =>
  let* (a, s) := r_take 8 s in
  Ok (match p with PBinary => of_be a | _ => of_le a end, s).
Definition r_uuid : rm (list byte) := r_take 16.

(* declared length as usize: i32 sign-extended (binary) or u32 (compact) *)
Definition r_len (p : pk) : rm Z :=
  match p with
  | PCompact => fun s => let* (n, s) := r_varint maxsize_32 s in Ok (wrap_u 32 n, s)
  | _ => fun s => let* (n, s) := r_i32 p s in Ok (wrap_u 64 n, s)
  end.

(* split_to_checked *)
Definition r_split (n : Z) : rm (list byte) := fun s =>
  if n <=? Z.of_nat (length (rbuf s)) then r_take (Z.to_nat n) s else Err EInvalidData.

Definition r_bytes (p : pk) : rm (list byte) := fun s =>
  let* (n, s) := r_len p s in r_split n s.

Definition ttype_of_byte (z : Z) : option ttype :=
  match nth_error ttype_lookup (Z.to_nat z) with
  | Some (Some t) => Some t
  | _ => None
  end.

Definition r_ttype : rm ttype := fun s =>
  let* (b, s) := r_byte s in
  match ttype_of_byte b with
  | Some t => Ok (t, s)
  | None => Err EInvalidData
  end.

Definition r_bool (p : pk) : rm bool :=
  match p with
  | PCompact => fun s =>
      let c := rc s in
      match r_pbool c with
      | Some b => Ok (b, set_rc s (mkR (r_last c) (r_stack c) None false))
      | None =>
          let s := set_rc s (mkR (r_last c) (r_stack c) None false) in
          let* (b, s) := r_byte s in
          match ctype_of_code b with
          | Some CBooleanTrue => Ok (true, s)
          | Some CBooleanFalse => Ok (false, s)
          | Some CStop => Ok (false, s)          (* 0: false as the protocol document spells it *)
          | _ => Err EInvalidData
          end
      end
  | _ => fun s => let* (b, s) := r_i8 s in Ok (negb (b =? 0), s)
  end.

Definition r_struct_begin (p : pk) : rm unit := fun s =>
  match p with
  | PCompact =>
      let c := rc s in
      Ok (tt, set_rc s (mkR 0 (r_last c :: r_stack c) (r_pbool c) (r_pfield c)))
  | _ => Ok (tt, s)
  end.
Definition r_struct_end (p : pk) : rm unit := fun s =>
  match p with
  | PCompact =>
      let c := rc s in
      match r_stack c with
      | [] => Err EInvalidData
      | x :: t => Ok (tt, set_rc s (mkR x t (r_pbool c) (r_pfield c)))
      end
  | _ => Ok (tt, s)
  end.

(* pending_read_bool_field_identifier = None *)
Definition clear_pfield (s : rst) : rst :=
  set_rc s (mkR (r_last (rc s)) (r_stack (rc s)) (r_pbool (rc s)) false).

(* read_field_begin: (type, id) -- id None only for the compact Stop *)
Definition r_field_begin (p : pk) : rm (ttype * option Z) :=
  match p with
  | PCompact => fun s =>
      (* a new field begins: pending_read_bool_field_identifier = None (fix F-09g) *)
      let s := clear_pfield s in
      let* (b, s) := r_byte s in
      let delta := b / 16 in
      let lo := b mod 16 in
      let c := rc s in
      let* (ty, s) :=
        (if lo =? ctype_code CBooleanTrue then Ok (TBool, set_rc s (mkR (r_last c) (r_stack c) (Some true) (r_pfield c)))
         else if lo =? ctype_code CBooleanFalse then Ok (TBool, set_rc s (mkR (r_last c) (r_stack c) (Some false) (r_pfield c)))
         else match ctype_of_code lo with
              | None => Err EInvalidData
              | Some ct => match ttype_of_ctype ct with
                           | Some t => Ok (t, s)
                           | None => Err EInvalidData
                           end
              end) in
      match ty with
      | TStop => Ok ((TStop, None), s)
      | _ =>
          let c := rc s in
          if negb (delta =? 0) then
            let id := wrap_s 16 (r_last c + delta) in
            Ok ((ty, Some id), set_rc s (mkR id (r_stack c) (r_pbool c) (r_pfield c)))
          else
            let* (id, s) := r_i16 PCompact s in
            let c := rc s in
            Ok ((ty, Some id), set_rc s (mkR id (r_stack c) (r_pbool c) (r_pfield c)))
      end
  | _ => fun s =>
      let* (ty, s) := r_ttype s in
      match ty with
      | TStop => Ok ((TStop, Some 0), s)
      | _ => let* (id, s) := r_i16 p s in Ok ((ty, Some id), s)
      end
  end.

Definition ttype_of_nibble (z : Z) : res ttype :=
  match ctype_of_code z with
  | None => Err EInvalidData
  | Some ct => match ttype_of_ctype ct with Some t => Ok t | None => Err EInvalidData end
  end.

(* rw_ext::checked_container_size: the i32 size must be non-negative and cannot exceed
   the bytes that remain after the header *)
Definition check_size (n : Z) (s : rst) : res Z :=
  if n <? 0 then Err ENegativeSize
  else if Z.of_nat (length (rbuf s)) <? n then Err ESizeLimit
  else Ok n.

(* read_list_begin / read_set_begin: (element type, size) *)
Definition r_coll_begin (p : pk) : rm (ttype * Z) :=
  match p with
  | PCompact => fun s =>
      let* (h, s) := r_byte s in
      let* et := ttype_of_nibble (h mod 16) in
      let cnt := h / 16 in
      if negb (cnt =? 15) then
        let* n := check_size cnt s in Ok ((et, n), s)
      else let* (n, s) := r_varint maxsize_32 s in
           let* n := check_size (wrap_s 32 n) s in
           Ok ((et, n), s)
  | _ => fun s =>
      let* (et, s) := r_ttype s in
      let* (n, s) := r_i32 p s in
      let* n := check_size n s in
      Ok ((et, n), s)
  end.

Definition r_map_begin (p : pk) : rm (ttype * ttype * Z) :=
  match p with
  | PCompact => fun s =>
      let* (n, s) := r_varint maxsize_32 s in
      let cnt := wrap_s 32 n in
      if cnt =? 0 then Ok ((TStop, TStop, 0), s)
      else
        let* (h, s) := r_byte s in
        let* kt := ttype_of_nibble (h / 16) in
        let* vt := ttype_of_nibble (h mod 16) in
        let* n := check_size cnt s in
        Ok ((kt, vt, n), s)
  | _ => fun s =>
      let* (kt, s) := r_ttype s in
      let* (vt, s) := r_ttype s in
      let* (n, s) := r_i32 p s in
      let* n := check_size n s in
      Ok ((kt, vt, n), s)
  end.
