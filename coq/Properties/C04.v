(* C04 -- the reported size equals the number of bytes encoding writes (primitive level:
   TLengthProtocol methods of binary / binary-LE / compact driven by the value interpreter's
   size pass; the generated size() bodies are covered at the generated-code level). *)
From PV Require Import Thrift.Len Proofs.HeaderP Proofs.RoundtripP Proofs.LenP.
Open Scope Z_scope.

(* For every well-typed value, every protocol, every buffer kind and EVERY starting context [c]
   of the protocol object (whose pending bool id, if any, is an i16): whenever the write pass
   succeeds with segments [ss] and final context [c'], the size pass started from the same context
   returns exactly the number of bytes written and ends in the same final context -- the two passes
   walk the same field-id delta contexts, so they can be interleaved on one object. *)
Theorem C04_prim : forall p k v, wt v = true ->
  forall c ss c', pend_ok c -> write_val p k v c = Ok (ss, c') ->
    len_val p v c = Ok (Z.of_nat (length (flat ss)), c') /\ pend_ok c'.
Proof. exact len_val_exact. Qed.
Print Assumptions C04_prim.

(* size, then encode, on one protocol object with nothing pending: the size is the byte count and
   both passes leave the object as they found it *)
Theorem C04_size_then_encode : forall p k v c ss c',
  wt v = true -> w_pend c = None -> write_val p k v c = Ok (ss, c') ->
  len_val p v c = Ok (Z.of_nat (length (flat ss)), c') /\ c' = c.
Proof. exact size_then_encode. Qed.
Print Assumptions C04_size_then_encode.

Theorem C04_sequence : forall p k vs, forallb wt vs = true ->
  forall c ss c', pend_ok c -> write_vals p k vs c = Ok (ss, c') ->
    len_vals p vs c = Ok (Z.of_nat (length (flat ss)), c') /\ pend_ok c'.
Proof. exact len_vals_exact. Qed.
Print Assumptions C04_sequence.

(* varint sizes: required_space is the number of bytes encode_var produces, for every u64 *)
Theorem C04_required_space : forall n, 0 <= n < two64 ->
  required_space_u n = Z.of_nat (length (encode_var n)).
Proof. exact required_space_u_len. Qed.
Print Assumptions C04_required_space.

(* zero_copy_len (DESIGN 5.4 C04_zero_copy_len).  In the model the nodes a writer inserts into a LinkedBytes are
   the [Node] segments it returns and Proto.zc_len sums their lengths (the Rust writers do `zero_copy_len +=
   b.len()` beside every `trans.insert(b)`; the number is compared with zero_copy_len() of the implementation on
   every correspondence case).  Proved: for every protocol, buffer kind, value and starting context, whenever the
   write succeeds, that sum is the total length of the value's binaries at or above ZERO_COPY_THRESHOLD when the
   buffer is a LinkedBytes with zero-copy on ([zc_spec]) and 0 on every other buffer kind, and the bytes written
   split into the copied part and the inserted part *)
From PV Require Import Proofs.UnsafeP Proofs.BalanceP.
Theorem C04_zero_copy_len : forall p k v c ss c',
  write_val p k v c = Ok (ss, c') ->
  zc_len ss = zc_spec k v /\
  Z.of_nat (length (flat ss)) = copy_len ss + zc_len ss /\
  (k <> BLinked true -> zc_len ss = 0).
Proof. exact zero_copy_len_exact. Qed.
Print Assumptions C04_zero_copy_len.

(* what callers allocate from (`size - zero_copy_len`): the reported size minus zero_copy_len is exactly the
   number of bytes copied into the contiguous part of the buffer *)
Theorem C04_malloc_size : forall p k v c ss c',
  wt v = true -> pend_ok c -> write_val p k v c = Ok (ss, c') ->
  exists n, len_val p v c = Ok (n, c') /\ n - zc_len ss = copy_len ss /\ zc_len ss = zc_spec k v.
Proof. exact malloc_size_exact. Qed.
Print Assumptions C04_malloc_size.

(* tie to the METHOD BODIES (regenerated table Generated/PrimOps.v, see C01_prim_ops_table): for every regenerated writer
   row and the length row of the same protocol that [len_method] pairs with it (write_i16 / i16_len, write_bytes /
   bytes_len, write_field_begin / field_begin_len, write_list_begin / list_begin_len ...), whenever the body of the writer
   succeeds with segments [ss] and final context [c'], the body of the length method started in the same context returns
   exactly the number of bytes written and ends in the same context *)
From Coq Require Import String.
From PV Require Import Thrift.PrimOp Thrift.PrimOpsSem Generated.PrimOps Proofs.PrimOpsP Proofs.PrimOpsTableP.
Theorem C04_prim_ops_len : forall rw rl, In rw prim_ops -> In rl prim_ops ->
  r_class rw = "write"%string -> r_class rl = "len"%string -> r_proto rw = r_proto rl ->
  len_method (r_method rw) = Some (r_method rl) ->
  forall p, pk_of (r_proto rw) = Some p ->
  forall k a c, in_s 16 (w_last c) -> pend_ok c -> vals_ok a -> int_ok (r_method rw) a ->
  forall ss c', run_w p k rw a c = Ok (ss, c') ->
    run_l p rl a c = Ok (Z.of_nat (List.length (flat ss)), c').
Proof. exact prim_ops_len. Qed.
Print Assumptions C04_prim_ops_len.

(* the hand-written Message impl of the runtime crate, ApplicationException (also through Box<M> / Arc<M>, which forward):
   for every protocol, buffer kind and STARTING context of the protocol object, whenever encode() succeeds, size() started
   from the same context returns exactly the number of bytes written and ends in the same context; on an object with nothing
   pending both succeed and restore the context -- so size, size, encode (or two replies on one connection) agree *)
From PV Require Import Thrift.AppMsg Proofs.AppMsgP.
Theorem C04_app_exception : forall p k msg kind c ss c',
  len_ok (List.length msg) = true -> in_s 32 kind -> pend_ok c ->
  app_encode p k msg kind c = Ok (ss, c') ->
  app_size p msg kind c = Ok (Z.of_nat (List.length (flat ss)), c') /\ pend_ok c'.
Proof. exact app_exception_size. Qed.
Print Assumptions C04_app_exception.

Theorem C04_app_exception_balanced : forall p k msg kind c,
  len_ok (List.length msg) = true -> in_s 32 kind -> w_pend c = None ->
  exists ss, app_encode p k msg kind c = Ok (ss, c) /\
             app_size p msg kind c = Ok (Z.of_nat (List.length (flat ss)), c).
Proof. exact app_exception_balanced. Qed.
Print Assumptions C04_app_exception_balanced.
