//! pv-harness: runs pilota's real implementation on case lines (same text protocol as the
//! extracted Coq model runner): one case per stdin line, one result per stdout line.
mod asyncrd;
mod extra;
mod interp;
mod val;

use std::io::{BufRead, Write};
use std::panic::{catch_unwind, AssertUnwindSafe};

use bytes::{Bytes, BytesMut};
use interp::{err_class, len_val, read_val, write_val, BinApi};
use linkedbytes::LinkedBytes;
use pilota::thrift::{
    binary::TBinaryProtocol, binary_le::TBinaryProtocol as TBinaryLeProtocol,
    compact::{TCompactInputProtocol, TCompactOutputProtocol},
    TInputProtocol, TLengthProtocol, TOutputProtocol, ThriftException,
};
use val::{hex, parse_val, show_val, ttype_code, unhex, TVal, Toks};

pub struct Written {
    pub bytes: Vec<u8>,
    pub zc_len: usize,
    /// sum of the sizes computed by the length pass, each just before the value is written
    pub len: usize,
}

fn linked_concat(lb: &mut LinkedBytes) -> Vec<u8> {
    let mut out: Vec<u8> = Vec::new();
    // (linkedbytes reports WriteZero when there is nothing at all to write)
    if lb.bytes().is_empty() && lb.iter_list().all(|n| n.as_ref().is_empty()) {
        return out;
    }
    lb.sync_write_all_vectored(&mut out).expect("write to Vec");
    out
}

/// counting global allocator: live bytes and peak live bytes (for the "memory in proportion to the
/// input" oracles); requests above 4 GiB are refused (they would otherwise be satisfied lazily by
/// the OS and go unnoticed) -- Rust then aborts, which the driver reports as a crash
pub struct Counting;
pub static LIVE: std::sync::atomic::AtomicUsize = std::sync::atomic::AtomicUsize::new(0);
pub static PEAK: std::sync::atomic::AtomicUsize = std::sync::atomic::AtomicUsize::new(0);
/// every allocation is followed by GUARD bytes of 0xA5 which are verified when it is freed (or
/// reallocated): a write past the end of a buffer -- what the unchecked codec would do if it wrote
/// more than the reported size -- flips CANARY_BROKEN
pub const GUARD: usize = 64;
pub static CANARY_BROKEN: std::sync::atomic::AtomicUsize = std::sync::atomic::AtomicUsize::new(0);
unsafe fn guarded(l: std::alloc::Layout) -> std::alloc::Layout {
    std::alloc::Layout::from_size_align_unchecked(l.size() + GUARD, l.align())
}
unsafe fn check_guard(p: *mut u8, size: usize) {
    for i in 0..GUARD {
        if *p.add(size + i) != 0xA5 {
            CANARY_BROKEN.fetch_add(1, std::sync::atomic::Ordering::Relaxed);
            return;
        }
    }
}
unsafe impl std::alloc::GlobalAlloc for Counting {
    unsafe fn alloc(&self, l: std::alloc::Layout) -> *mut u8 {
        use std::sync::atomic::Ordering::Relaxed;
        if l.size() > (4usize << 30) {
            return std::ptr::null_mut();
        }
        let p = std::alloc::System.alloc(guarded(l));
        if !p.is_null() {
            std::ptr::write_bytes(p.add(l.size()), 0xA5, GUARD);
            let live = LIVE.fetch_add(l.size(), Relaxed) + l.size();
            PEAK.fetch_max(live, Relaxed);
        }
        p
    }
    unsafe fn dealloc(&self, p: *mut u8, l: std::alloc::Layout) {
        LIVE.fetch_sub(l.size(), std::sync::atomic::Ordering::Relaxed);
        check_guard(p, l.size());
        std::alloc::System.dealloc(p, guarded(l))
    }
    unsafe fn realloc(&self, p: *mut u8, l: std::alloc::Layout, new_size: usize) -> *mut u8 {
        use std::sync::atomic::Ordering::Relaxed;
        if new_size > (4usize << 30) {
            return std::ptr::null_mut();
        }
        check_guard(p, l.size());
        let q = std::alloc::System.realloc(p, guarded(l), new_size + GUARD);
        if !q.is_null() {
            std::ptr::write_bytes(q.add(new_size), 0xA5, GUARD);
            if new_size >= l.size() {
                let live = LIVE.fetch_add(new_size - l.size(), Relaxed) + (new_size - l.size());
                PEAK.fetch_max(live, Relaxed);
            } else {
                LIVE.fetch_sub(l.size() - new_size, Relaxed);
            }
        }
        q
    }
}
#[global_allocator]
static GLOBAL: Counting = Counting;

/// runs f and returns (result, peak live bytes above the level at entry)
pub fn with_peak<T>(f: impl FnOnce() -> T) -> (T, usize) {
    use std::sync::atomic::Ordering::Relaxed;
    let before = LIVE.load(Relaxed);
    PEAK.store(before, Relaxed);
    let r = f();
    let peak = PEAK.load(Relaxed);
    (r, peak.saturating_sub(before))
}

fn main() {
    let args: Vec<String> = std::env::args().collect();
    let _ = args;
    std::panic::set_hook(Box::new(|_| {}));
    let stdin = std::io::stdin();
    let stdout = std::io::stdout();
    let mut out = std::io::BufWriter::new(stdout.lock());
    for line in stdin.lock().lines() {
        let line = line.unwrap();
        let line = line.trim();
        if line.is_empty() {
            writeln!(out).unwrap();
            continue;
        }
        // the generic value reader of the harness recurses once per nesting level of the input: hostile nesting depths are run
        // on a thread with an ample stack, so that what is measured is pilota (its readers do not recurse), not the harness.
        // Skippers and ApplicationException::decode run on the main thread with its ordinary 8 MiB stack: a recursion that is
        // not depth-limited overflows it and the process dies -- reported by the driver as a crash with the input as replay.
        let big = line.len() > 60_000 && (line.starts_with("rd ") || line.starts_with("ard "));
        let r = if big {
            let owned = line.to_string();
            std::thread::Builder::new()
                .stack_size(3usize << 30)
                .spawn(move || catch_unwind(AssertUnwindSafe(|| run_line(&owned))))
                .expect("spawn")
                .join()
                .unwrap_or(Err(Box::new(())))
        } else {
            catch_unwind(AssertUnwindSafe(|| run_line(line)))
        };
        match r {
            Ok(Ok(s)) => writeln!(out, "{s}").unwrap(),
            Ok(Err(e)) => writeln!(out, "BADCASE {e}").unwrap(),
            Err(_) => writeln!(out, "panic").unwrap(),
        }
        // a later case may abort the process: what has been computed must already be out
        out.flush().unwrap();
    }
    out.flush().unwrap();
}

fn run_line(line: &str) -> Result<String, String> {
    let mut t = Toks::new(line);
    match t.next()? {
        "rt" => suite_rt(&mut t),
        "rd" => suite_rd(&mut t),
        "ard" => suite_ard(&mut t),
        "sk" => suite_sk(&mut t),
        "rds" => suite_rds(&mut t),
        "urt" => suite_urt(&mut t),
        "usk" => suite_usk(&mut t),
        "msgw" => suite_msgw(&mut t),
        "msgr" => suite_msgr(&mut t),
        "appw" => suite_appw(&mut t),
        "appr" => suite_appr(&mut t),
        "aappr" => extra::suite_aappr(&mut t),
        "mrt" => extra::suite_mrt(&mut t),
        "apps" => extra::suite_apps(&mut t),
        s => Err(format!("unknown suite {s}")),
    }
}

#[derive(Clone, Copy, PartialEq, Debug)]
pub enum Pk {
    Binary,
    BinaryLe,
    Compact,
}
#[derive(Clone, Copy, PartialEq, Debug)]
pub enum Bk {
    Contig,
    Linked(bool),
}

fn parse_pk(s: &str) -> Result<Pk, String> {
    Ok(match s {
        "binary" => Pk::Binary,
        "binary_le" => Pk::BinaryLe,
        "compact" => Pk::Compact,
        _ => return Err(format!("bad protocol {s}")),
    })
}
fn parse_bk(s: &str) -> Result<Bk, String> {
    Ok(match s {
        "contig" => Bk::Contig,
        "linked" => Bk::Linked(false),
        "linked_zc" => Bk::Linked(true),
        _ => return Err(format!("bad buffer kind {s}")),
    })
}

fn write_all<P: TOutputProtocol>(p: &mut P, vs: &[TVal], api: BinApi) -> Result<(usize, usize), ThriftException> {
    let mut len = 0;
    for v in vs {
        // size first, then encode, on the same protocol object -- as callers do
        len += len_val(p, v);
        write_val(p, v, api)?;
    }
    Ok((p.zero_copy_len(), len))
}

/// writes `vs` back to back with one protocol instance on one buffer
pub fn write_vals(pk: Pk, bk: Bk, vs: &[TVal], api: BinApi) -> Result<Written, ThriftException> {
    match bk {
        Bk::Contig => {
            let mut buf = BytesMut::new();
            let (zc, len) = match pk {
                Pk::Binary => write_all(&mut TBinaryProtocol::new(&mut buf, false), vs, api)?,
                Pk::BinaryLe => write_all(&mut TBinaryLeProtocol::new(&mut buf, false), vs, api)?,
                Pk::Compact => write_all(&mut TCompactOutputProtocol::new(&mut buf, false), vs, api)?,
            };
            Ok(Written { bytes: buf.to_vec(), zc_len: zc, len })
        }
        Bk::Linked(z) => {
            let mut lb = LinkedBytes::new();
            let (zc, len) = match pk {
                Pk::Binary => write_all(&mut TBinaryProtocol::new(&mut lb, z), vs, api)?,
                Pk::BinaryLe => write_all(&mut TBinaryLeProtocol::new(&mut lb, z), vs, api)?,
                Pk::Compact => write_all(&mut TCompactOutputProtocol::new(&mut lb, z), vs, api)?,
            };
            Ok(Written { bytes: linked_concat(&mut lb), zc_len: zc, len })
        }
    }
}

fn read_all<P: TInputProtocol>(p: &mut P, tys: &[u8], api: BinApi) -> Result<Vec<TVal>, ThriftException> {
    let mut out = Vec::new();
    for ty in tys {
        out.push(read_val(p, *ty, api)?);
    }
    Ok(out)
}

/// reads values of the given wire types with one protocol instance; returns values and remaining length
pub fn read_vals(pk: Pk, input: &[u8], tys: &[u8], api: BinApi) -> Result<(Vec<TVal>, usize), ThriftException> {
    let mut b = Bytes::copy_from_slice(input);
    let vs = match pk {
        Pk::Binary => read_all(&mut TBinaryProtocol::new(&mut b, false), tys, api)?,
        Pk::BinaryLe => read_all(&mut TBinaryLeProtocol::new(&mut b, false), tys, api)?,
        Pk::Compact => read_all(&mut TCompactInputProtocol::new(&mut b), tys, api)?,
    };
    Ok((vs, b.len()))
}

fn show_err(e: &ThriftException) -> String {
    format!("err {}", err_class(e))
}

/// rt <pk> <bk> <rest-hex> <n> v1 .. vn
fn suite_rt(t: &mut Toks) -> Result<String, String> {
    let pk = parse_pk(t.next()?)?;
    let bk = parse_bk(t.next()?)?;
    let rest = unhex(t.next()?)?;
    let n = t.next_usize()?;
    let mut vs = Vec::with_capacity(n);
    for _ in 0..n {
        vs.push(parse_val(t)?);
    }
    let w = match catch_unwind(AssertUnwindSafe(|| write_vals(pk, bk, &vs, BinApi::Bytes))) {
        Err(_) => return Ok("WERR panic".into()),
        Ok(Err(e)) => return Ok(format!("WERR {}", show_err(&e))),
        Ok(Ok(w)) => w,
    };
    let mut out = format!("W {} Z {} L {}", hex(&w.bytes), w.zc_len, w.len);
    let mut input = w.bytes.clone();
    input.extend_from_slice(&rest);
    let tys: Vec<u8> = vs.iter().map(ttype_code).collect();
    match catch_unwind(AssertUnwindSafe(|| read_vals(pk, &input, &tys, BinApi::Bytes))) {
        Err(_) => out.push_str(" RERR panic"),
        Ok(Err(e)) => out.push_str(&format!(" RERR {}", show_err(&e))),
        Ok(Ok((vs2, rem))) => {
            out.push_str(" R");
            for v in &vs2 {
                out.push(' ');
                show_val(&mut out, v);
            }
            out.push_str(&format!(" REM {rem}"));
        }
    }
    // implementation-only oracles: every API flavour and every buffer kind yields the same
    // bytes; every read flavour yields the same value
    for api in [BinApi::BytesVec, BinApi::Str, BinApi::FastStr] {
        for bk2 in [Bk::Contig, Bk::Linked(false), Bk::Linked(true)] {
            match catch_unwind(AssertUnwindSafe(|| write_vals(pk, bk2, &vs, api))) {
                Ok(Ok(w2)) if w2.bytes == w.bytes => {}
                _ => out.push_str(&format!(" ORACLE-FAIL write-api-{api:?}-{bk2:?}")),
            }
        }
        let r1 = catch_unwind(AssertUnwindSafe(|| read_vals(pk, &input, &tys, BinApi::Bytes)));
        let r2 = catch_unwind(AssertUnwindSafe(|| read_vals(pk, &input, &tys, api)));
        let same = match (&r1, &r2) {
            (Ok(Ok(a)), Ok(Ok(b))) => a == b,
            (Ok(Err(a)), Ok(Err(b))) => err_class(a) == err_class(b),
            (Err(_), Err(_)) => true,
            _ => false,
        };
        if !same {
            out.push_str(&format!(" ORACLE-FAIL read-api-{api:?}"));
        }
    }
    Ok(out)
}

/// rd <pk> <ttype code> <hex>
fn suite_rd(t: &mut Toks) -> Result<String, String> {
    let pk = parse_pk(t.next()?)?;
    let ty = t.next_usize()? as u8;
    let input = unhex(t.next()?)?;
    let (r, peak) = with_peak(|| read_vals(pk, &input, &[ty], BinApi::Bytes));
    let mut out = match r {
        Err(e) => show_err(&e),
        Ok((vs, rem)) => {
            let mut out = String::from("ok ");
            show_val(&mut out, &vs[0]);
            out.push_str(&format!(" REM {rem}"));
            out
        }
    };
    // the other read flavours must agree in outcome class
    for api in [BinApi::BytesVec, BinApi::Str, BinApi::FastStr] {
        let a = read_vals(pk, &input, &[ty], BinApi::Bytes);
        let b = read_vals(pk, &input, &[ty], api);
        let same = match (&a, &b) {
            (Ok(x), Ok(y)) => x == y,
            (Err(x), Err(y)) => err_class(x) == err_class(y),
            _ => false,
        };
        if !same {
            out.push_str(&format!(" ORACLE-FAIL read-api-{api:?}"));
        }
    }
    out.push_str(&format!(" MEM {peak}"));
    Ok(out)
}

fn parse_cuts(spec: &str, n: usize) -> Result<(Vec<usize>, usize), String> {
    // <cuts>[/p<k>]: cuts = "all" | "b1" (every byte) | "h" (halves) | comma separated positions;
    // p<k> = return Pending k times before every hand-out
    let (c, p) = match spec.split_once('/') {
        Some((c, p)) => (c, p.trim_start_matches('p').parse::<usize>().map_err(|e| e.to_string())?),
        None => (spec, 0),
    };
    let cuts = match c {
        "all" => vec![],
        "b1" => (1..n).collect(),
        "h" => vec![n / 2],
        _ => c.split(',').map(|x| x.parse::<usize>().map_err(|e| e.to_string())).collect::<Result<Vec<_>, _>>()?,
    };
    Ok((cuts, p))
}

pub fn aread_vals(
    pk: Pk,
    input: &[u8],
    tys: &[u8],
    cuts: Vec<usize>,
    pend: usize,
    api: asyncrd::ABinApi,
) -> Option<(Result<Vec<TVal>, ThriftException>, usize)> {
    use pilota::thrift::{binary::TAsyncBinaryProtocol, binary_le::TAsyncBinaryProtocol as TAsyncBinaryLeProtocol, compact::TAsyncCompactProtocol};
    let mut rd = asyncrd::Scripted::new(input.to_vec(), cuts, pend);
    let budget = (input.len() + 16) * (pend + 2) * 8 + 100_000;
    macro_rules! go {
        ($p:expr) => {{
            let mut p = $p;
            asyncrd::block_on(
                async {
                    let mut out = Vec::new();
                    for ty in tys {
                        match asyncrd::aread_val(&mut p, *ty, api).await {
                            Ok(v) => out.push(v),
                            Err(e) => return Err(e),
                        }
                    }
                    Ok(out)
                },
                budget,
            )
        }};
    }
    let r = match pk {
        Pk::Binary => go!(TAsyncBinaryProtocol::new(&mut rd)),
        Pk::BinaryLe => go!(TAsyncBinaryLeProtocol::new(&mut rd)),
        Pk::Compact => go!(TAsyncCompactProtocol::new(&mut rd)),
    };
    r.map(|x| (x, rd.handed_out))
}

/// ard <pk> <ttype code> <hex> <schedule>   -> ok <value> REM <k> | err <class> | HANG
fn suite_ard(t: &mut Toks) -> Result<String, String> {
    let pk = parse_pk(t.next()?)?;
    let ty = t.next_usize()? as u8;
    let input = unhex(t.next()?)?;
    let (cuts, pend) = parse_cuts(t.next()?, input.len())?;
    let (r, peak) = with_peak(|| aread_vals(pk, &input, &[ty], cuts.clone(), pend, asyncrd::ABinApi::Bytes));
    let mut out = match r {
        None => "HANG".to_string(),
        Some((Err(e), _)) => show_err(&e),
        Some((Ok(vs), pulled)) => {
            let mut out = String::from("ok ");
            show_val(&mut out, &vs[0]);
            out.push_str(&format!(" REM {}", input.len() - pulled));
            out
        }
    };
    // implementation-only oracles: the other binary flavours agree with read_bytes
    for api in [asyncrd::ABinApi::BytesVec, asyncrd::ABinApi::Str, asyncrd::ABinApi::FastStr] {
        let a = aread_vals(pk, &input, &[ty], cuts.clone(), pend, asyncrd::ABinApi::Bytes);
        let b = aread_vals(pk, &input, &[ty], cuts.clone(), pend, api);
        let same = match (&a, &b) {
            (Some((Ok(x), n)), Some((Ok(y), m))) => x == y && n == m,
            (Some((Err(x), _)), Some((Err(y), _))) => err_class(x) == err_class(y),
            (None, None) => true,
            _ => false,
        };
        if !same {
            out.push_str(&format!(" ORACLE-FAIL async-read-api-{api:?}"));
        }
    }
    out.push_str(&format!(" MEM {peak}"));
    Ok(out)
}

/// sk <pk> <sync|async[:schedule]> <ttype code> <hex> <next ttype code|->
///   skips one value of the given wire type with the protocol's `skip`, then (optionally) reads a
///   value of the next type with the SAME protocol object
///   -> ok <reported count|-> REM <k> [NEXT <value> REM <k2> | NEXT err <class>] | err <class>
fn suite_sk(t: &mut Toks) -> Result<String, String> {
    let pk = parse_pk(t.next()?)?;
    let mode = t.next()?;
    let ty = t.next_usize()? as u8;
    let input = unhex(t.next()?)?;
    let next = t.next()?;
    let next: Option<u8> = if next == "-" { None } else { Some(next.parse::<u8>().map_err(|e| e.to_string())?) };
    if mode == "sync" {
        let mut b = Bytes::copy_from_slice(&input);
        fn go<P: TInputProtocol>(p: &mut P, ty: u8, next: Option<u8>) -> (Result<usize, ThriftException>, Option<Result<TVal, ThriftException>>) {
            match p.skip(interp::tt(ty)) {
                Err(e) => (Err(e), None),
                Ok(n) => (Ok(n), next.map(|nt| read_val(p, nt, BinApi::Bytes))),
            }
        }
        // remaining length must be observed after the protocol object is gone
        let (r, nx, rem_after_skip);
        macro_rules! run {
            ($p:expr) => {{
                let mut p = $p;
                let sk = p.skip(interp::tt(ty));
                match sk {
                    Err(e) => (Err(e), None, 0usize),
                    Ok(n) => {
                        let rem = p.buf().len();
                        let nx = next.map(|nt| read_val(&mut p, nt, BinApi::Bytes));
                        (Ok(n), nx, rem)
                    }
                }
            }};
        }
        let _ = go::<TBinaryProtocol<&mut Bytes>>;
        (r, nx, rem_after_skip) = match pk {
            Pk::Binary => run!(TBinaryProtocol::new(&mut b, false)),
            Pk::BinaryLe => run!(TBinaryLeProtocol::new(&mut b, false)),
            Pk::Compact => run!(TCompactInputProtocol::new(&mut b)),
        };
        Ok(match r {
            Err(e) => show_err(&e),
            Ok(n) => {
                let mut out = format!("ok {n} REM {rem_after_skip}");
                match nx {
                    None => {}
                    Some(Err(e)) => out.push_str(&format!(" NEXT {}", show_err(&e))),
                    Some(Ok(v)) => {
                        out.push_str(" NEXT ");
                        show_val(&mut out, &v);
                        out.push_str(&format!(" REM {}", b.len()));
                    }
                }
                out
            }
        })
    } else {
        let sched = mode.strip_prefix("async:").unwrap_or("all");
        let (cuts, pend) = parse_cuts(sched, input.len())?;
        use pilota::thrift::{binary::TAsyncBinaryProtocol, binary_le::TAsyncBinaryProtocol as TAsyncBinaryLeProtocol, compact::TAsyncCompactProtocol, TAsyncInputProtocol};
        let mut rd = asyncrd::Scripted::new(input.to_vec(), cuts, pend);
        let budget = (input.len() + 16) * (pend + 2) * 8 + 100_000;
        macro_rules! go {
            ($p:expr) => {{
                let mut p = $p;
                asyncrd::block_on(
                    async {
                        p.skip(interp::tt(ty)).await?;
                        let pulled = p_handed(&p);
                        let _ = pulled;
                        match next {
                            None => Ok(None),
                            Some(nt) => Ok(Some(asyncrd::aread_val(&mut p, nt, asyncrd::ABinApi::Bytes).await)),
                        }
                    },
                    budget,
                )
            }};
        }
        fn p_handed<T>(_: &T) -> usize { 0 }
        let r: Option<Result<Option<Result<TVal, ThriftException>>, ThriftException>> = match pk {
            Pk::Binary => go!(TAsyncBinaryProtocol::new(&mut rd)),
            Pk::BinaryLe => go!(TAsyncBinaryLeProtocol::new(&mut rd)),
            Pk::Compact => go!(TAsyncCompactProtocol::new(&mut rd)),
        };
        let pulled = rd.handed_out;
        Ok(match r {
            None => "HANG".to_string(),
            Some(Err(e)) => show_err(&e),
            Some(Ok(None)) => format!("ok - REM {}", input.len() - pulled),
            Some(Ok(Some(Err(e)))) => format!("ok - NEXT {}", show_err(&e)),
            Some(Ok(Some(Ok(v)))) => {
                let mut out = String::from("ok - NEXT ");
                show_val(&mut out, &v);
                out.push_str(&format!(" REM {}", input.len() - pulled));
                out
            }
        })
    }
}

fn mtype_of(n: usize) -> Result<pilota::thrift::TMessageType, String> {
    use pilota::thrift::TMessageType::*;
    Ok(match n {
        1 => Call,
        2 => Reply,
        3 => Exception,
        4 => OneWay,
        _ => return Err(format!("bad message type {n}")),
    })
}

/// msgw <pk> <bk> <name hex> <type 1..4> <seq>  ->  W <hex> | WERR <class>
fn suite_msgw(t: &mut Toks) -> Result<String, String> {
    use pilota::thrift::TMessageIdentifier;
    let pk = parse_pk(t.next()?)?;
    let bk = parse_bk(t.next()?)?;
    let name = unhex(t.next()?)?;
    let mt = mtype_of(t.next_usize()?)?;
    let seq: i32 = t.next()?.parse::<i32>().map_err(|e| e.to_string())?;
    let ident = TMessageIdentifier::new(
        unsafe { faststr::FastStr::from_bytes_unchecked(Bytes::copy_from_slice(&name)) },
        mt,
        seq,
    );
    let r: Result<Vec<u8>, ThriftException> = match bk {
        Bk::Contig => {
            let mut buf = BytesMut::new();
            let r = match pk {
                Pk::Binary => TBinaryProtocol::new(&mut buf, false).write_message_begin(&ident),
                Pk::BinaryLe => TBinaryLeProtocol::new(&mut buf, false).write_message_begin(&ident),
                Pk::Compact => TCompactOutputProtocol::new(&mut buf, false).write_message_begin(&ident),
            };
            r.map(|_| buf.to_vec())
        }
        Bk::Linked(z) => {
            let mut lb = LinkedBytes::new();
            let r = match pk {
                Pk::Binary => TBinaryProtocol::new(&mut lb, z).write_message_begin(&ident),
                Pk::BinaryLe => TBinaryLeProtocol::new(&mut lb, z).write_message_begin(&ident),
                Pk::Compact => TCompactOutputProtocol::new(&mut lb, z).write_message_begin(&ident),
            };
            r.map(|_| linked_concat(&mut lb))
        }
    };
    Ok(match r {
        Ok(b) => format!("W {}", hex(&b)),
        Err(e) => format!("WERR {}", show_err(&e)),
    })
}

/// msgr <pk> <hex>  ->  ok <name hex> <type> <seq> REM <k> | err <class>
fn suite_msgr(t: &mut Toks) -> Result<String, String> {
    let pk = parse_pk(t.next()?)?;
    let input = unhex(t.next()?)?;
    let mut b = Bytes::copy_from_slice(&input);
    let r = match pk {
        Pk::Binary => TBinaryProtocol::new(&mut b, false).read_message_begin(),
        Pk::BinaryLe => TBinaryLeProtocol::new(&mut b, false).read_message_begin(),
        Pk::Compact => TCompactInputProtocol::new(&mut b).read_message_begin(),
    };
    Ok(match r {
        Err(e) => show_err(&e),
        Ok(m) => format!("ok {} {} {} REM {}", hex(m.name.as_bytes()), m.message_type as u8, m.sequence_number, b.len()),
    })
}

/// appw <pk> <message hex> <kind i32>  ->  W <hex>   (ApplicationException::encode)
fn suite_appw(t: &mut Toks) -> Result<String, String> {
    use pilota::thrift::{ApplicationException, ApplicationExceptionKind, Message};
    let pk = parse_pk(t.next()?)?;
    let msg = unhex(t.next()?)?;
    let kind: i32 = t.next()?.parse::<i32>().map_err(|e| e.to_string())?;
    let ex = ApplicationException::new(
        ApplicationExceptionKind::from(kind),
        unsafe { faststr::FastStr::from_bytes_unchecked(Bytes::copy_from_slice(&msg)) },
    );
    let mut buf = BytesMut::new();
    let r = match pk {
        Pk::Binary => ex.encode(&mut TBinaryProtocol::new(&mut buf, false)),
        Pk::BinaryLe => ex.encode(&mut TBinaryLeProtocol::new(&mut buf, false)),
        Pk::Compact => ex.encode(&mut TCompactOutputProtocol::new(&mut buf, false)),
    };
    Ok(match r {
        Ok(()) => format!("W {}", hex(&buf)),
        Err(e) => format!("WERR {}", show_err(&e)),
    })
}

/// appr <pk> <hex>  ->  ok <message hex> <kind> REM <k> | err <class>   (ApplicationException::decode, also through Box / Arc)
fn suite_appr(t: &mut Toks) -> Result<String, String> {
    let pk = parse_pk(t.next()?)?;
    let input = unhex(t.next()?)?;
    Ok(extra::app_decode_sync(pk, &input))
}

/// the checked binary size of the values (sum of the length passes), computed on a checked protocol
fn checked_size(vs: &[TVal]) -> usize {
    let mut buf = BytesMut::new();
    let mut p = TBinaryProtocol::new(&mut buf, false);
    vs.iter().map(|v| len_val(&mut p, v)).sum()
}

/// urt <contig|linked|linked_zc> <slack> <rest hex> <n> v1 .. vn
///   unchecked binary codec: size pass, a transport of EXACTLY size + slack bytes set up as the contract
///   prescribes, encode, decode back with the unchecked reader
///   -> W <hex> Z <zero-copy len> L <size> I <final index> R v1 .. vn REM <k> [GUARD-BROKEN] | ...
fn suite_urt(t: &mut Toks) -> Result<String, String> {
    use pilota::thrift::binary_unsafe::{TBinaryUnsafeInputProtocol, TBinaryUnsafeOutputProtocol};
    let bk = parse_bk(t.next()?)?;
    let slack = t.next_usize()?;
    let rest = unhex(t.next()?)?;
    let n = t.next_usize()?;
    let mut vs = Vec::with_capacity(n);
    for _ in 0..n {
        vs.push(parse_val(t)?);
    }
    let before = CANARY_BROKEN.load(std::sync::atomic::Ordering::Relaxed);
    let size = checked_size(&vs);
    let (bytes, zc, usize_len, idx): (Vec<u8>, usize, usize, usize) = match bk {
        Bk::Contig => {
            // pre-sized transport, window over exactly the initialised bytes
            let mut buf = BytesMut::with_capacity(size + slack);
            buf.resize(size + slack, 0xEE);
            let window: &'static mut [u8] = unsafe { std::slice::from_raw_parts_mut(buf.as_mut_ptr(), buf.len()) };
            let mut p = unsafe { TBinaryUnsafeOutputProtocol::new(&mut buf, window, false) };
            let mut len = 0;
            for v in &vs {
                len += len_val(&mut p, v);
                if let Err(e) = write_val(&mut p, v, BinApi::Bytes) {
                    return Ok(format!("WERR {}", show_err(&e)));
                }
            }
            let (zc, idx) = (p.zero_copy_len(), p.index());
            drop(p);
            (buf[..idx.min(buf.len())].to_vec(), zc, len, idx)
        }
        Bk::Linked(z) => {
            let mut lb = LinkedBytes::with_capacity(size + slack);
            let window: &'static mut [u8] = unsafe {
                let l = lb.bytes_mut().len();
                std::slice::from_raw_parts_mut(lb.bytes_mut().as_mut_ptr().add(l), lb.bytes_mut().capacity() - l)
            };
            let mut p = unsafe { TBinaryUnsafeOutputProtocol::new(&mut lb, window, z) };
            let mut len = 0;
            for v in &vs {
                len += len_val(&mut p, v);
                if let Err(e) = write_val(&mut p, v, BinApi::Bytes) {
                    return Ok(format!("WERR {}", show_err(&e)));
                }
            }
            let (zc, idx) = (p.zero_copy_len(), p.index());
            drop(p);
            // the caller commits what was written since the last re-windowing
            unsafe { bytes::BufMut::advance_mut(lb.bytes_mut(), idx) };
            (linked_concat(&mut lb), zc, len, idx)
        }
    };
    let mut out = format!("W {} Z {} L {} I {}", hex(&bytes), zc, usize_len, idx);
    // every write flavour of the unchecked writer (write_bytes_vec / write_string / write_faststr) must give the same bytes
    for api in [BinApi::BytesVec, BinApi::Str, BinApi::FastStr] {
        let b2: Option<Vec<u8>> = match bk {
            Bk::Contig => {
                let mut buf = BytesMut::with_capacity(size + slack);
                buf.resize(size + slack, 0xEE);
                let window: &'static mut [u8] = unsafe { std::slice::from_raw_parts_mut(buf.as_mut_ptr(), buf.len()) };
                let mut p = unsafe { TBinaryUnsafeOutputProtocol::new(&mut buf, window, false) };
                let ok = vs.iter().all(|v| write_val(&mut p, v, api).is_ok());
                let i2 = p.index();
                drop(p);
                if ok { Some(buf[..i2.min(buf.len())].to_vec()) } else { None }
            }
            Bk::Linked(z) => {
                let mut lb = LinkedBytes::with_capacity(size + slack);
                let window: &'static mut [u8] = unsafe {
                    let l = lb.bytes_mut().len();
                    std::slice::from_raw_parts_mut(lb.bytes_mut().as_mut_ptr().add(l), lb.bytes_mut().capacity() - l)
                };
                let mut p = unsafe { TBinaryUnsafeOutputProtocol::new(&mut lb, window, z) };
                let ok = vs.iter().all(|v| write_val(&mut p, v, api).is_ok());
                let i2 = p.index();
                drop(p);
                unsafe { bytes::BufMut::advance_mut(lb.bytes_mut(), i2) };
                if ok { Some(linked_concat(&mut lb)) } else { None }
            }
        };
        if b2.as_deref() != Some(&bytes[..]) {
            out.push_str(&format!(" ORACLE-FAIL unchecked-write-api-{api:?}"));
        }
    }
    let mut input = bytes.clone();
    input.extend_from_slice(&rest);
    let tys: Vec<u8> = vs.iter().map(ttype_code).collect();
    let mut b = Bytes::copy_from_slice(&input);
    let total = b.len();
    let (r, ridx) = {
        let mut p = unsafe { TBinaryUnsafeInputProtocol::new(&mut b) };
        let r = read_all(&mut p, &tys, BinApi::Bytes);
        (r, p.index())
    };
    match r {
        Err(e) => out.push_str(&format!(" RERR {}", show_err(&e))),
        Ok(vs2) => {
            out.push_str(" R");
            for v in &vs2 {
                out.push(' ');
                show_val(&mut out, v);
            }
            let consumed = (total - b.len()) + ridx;
            out.push_str(&format!(" REM {}", total - consumed));
        }
    }
    // the other read flavours of the unchecked reader
    for api in [BinApi::BytesVec, BinApi::Str, BinApi::FastStr] {
        let mut b2 = Bytes::copy_from_slice(&input);
        let mut p = unsafe { TBinaryUnsafeInputProtocol::new(&mut b2) };
        let a = read_all(&mut p, &tys, api);
        let i2 = p.index();
        drop(p);
        let cons2 = (total - b2.len()) + i2;
        let mut b3 = Bytes::copy_from_slice(&input);
        let c = read_vals(Pk::Binary, &input, &tys, BinApi::Bytes);
        let _ = &mut b3;
        let same = match (&a, &c) {
            (Ok(x), Ok((y, rem))) => x == y && total - cons2 == *rem,
            (Err(_), Err(_)) => true,
            _ => false,
        };
        if !same {
            out.push_str(&format!(" ORACLE-FAIL unchecked-read-api-{api:?}-vs-checked"));
        }
    }
    // buffers are freed by now (bytes / lb dropped above or at end of scope): check again at the next case too
    if CANARY_BROKEN.load(std::sync::atomic::Ordering::Relaxed) != before {
        out.push_str(" GUARD-BROKEN");
    }
    Ok(out)
}

/// usk <ttype code> <hex> <next ttype code|->
///   input = the value to skip followed by whatever; the harness prepends a field header (type, id 1),
///   reads it with read_field_begin (skip() rewinds over it) and calls skip
///   -> ok <count> REM <k> [NEXT <value> REM <k2>] | err <class>
fn suite_usk(t: &mut Toks) -> Result<String, String> {
    use pilota::thrift::binary_unsafe::TBinaryUnsafeInputProtocol;
    let ty = t.next_usize()? as u8;
    let mut input = vec![ty, 0, 1];
    input.extend_from_slice(&unhex(t.next()?)?);
    let next = t.next()?;
    let next: Option<u8> = if next == "-" { None } else { Some(next.parse::<u8>().map_err(|e| e.to_string())?) };
    let mut b = Bytes::copy_from_slice(&input);
    let total = b.len();
    let mut p = unsafe { TBinaryUnsafeInputProtocol::new(&mut b) };
    let fid = p.read_field_begin().map_err(|_| "field header".to_string())?;
    let r = p.skip(fid.field_type);
    Ok(match r {
        Err(e) => show_err(&e),
        Ok(n) => {
            let idx = p.index();
            let nx = next.map(|nt| (read_val(&mut p, nt, BinApi::Bytes), p.index()));
            drop(p);
            match nx {
                None => format!("ok {n} REM {}", b.len() - idx),
                Some((Err(e), _)) => format!("ok {n} NEXT {}", show_err(&e)),
                Some((Ok(v), idx2)) => {
                    let _ = total;
                    let mut out = format!("ok {n} NEXT ");
                    show_val(&mut out, &v);
                    out.push_str(&format!(" REM {}", b.len() - idx2));
                    out
                }
            }
        }
    })
}

fn skipped_marker(count: i64) -> TVal {
    TVal::List(1, vec![TVal::I64(count)])
}

/// the tolerant struct reader over any in-memory protocol
fn tread_struct<P: TInputProtocol>(p: &mut P, ids: &[i16]) -> Result<TVal, ThriftException> {
    p.read_struct_begin()?;
    let mut fs = Vec::new();
    loop {
        let f = p.read_field_begin()?;
        if f.field_type == pilota::thrift::TType::Stop {
            break;
        }
        let id = f.id.unwrap_or(0);
        if ids.contains(&id) {
            let n = p.skip(f.field_type)?;
            fs.push((id, skipped_marker(n as i64)));
        } else {
            let x = read_val(p, f.field_type as u8, BinApi::Bytes)?;
            fs.push((id, x));
        }
        p.read_field_end()?;
    }
    p.read_struct_end()?;
    Ok(TVal::Struct(fs))
}

async fn atread_struct<P: pilota::thrift::TAsyncInputProtocol>(p: &mut P, ids: &[i16]) -> Result<TVal, ThriftException> {
    p.read_struct_begin().await?;
    let mut fs = Vec::new();
    loop {
        let f = p.read_field_begin().await?;
        if f.field_type == pilota::thrift::TType::Stop {
            break;
        }
        let id = f.id.unwrap_or(0);
        if ids.contains(&id) {
            p.skip(f.field_type).await?;
            fs.push((id, skipped_marker(-1)));
        } else {
            let x = asyncrd::aread_val(p, f.field_type as u8, asyncrd::ABinApi::Bytes).await?;
            fs.push((id, x));
        }
        p.read_field_end().await?;
    }
    p.read_struct_end().await?;
    Ok(TVal::Struct(fs))
}

/// rds <binary|binary_le|compact|unsafe> <sync|async[:sched]> <hex> <ids|->
fn suite_rds(t: &mut Toks) -> Result<String, String> {
    let pks = t.next()?;
    let mode = t.next()?;
    let input = unhex(t.next()?)?;
    let ids_s = t.next()?;
    let ids: Vec<i16> = if ids_s == "-" { vec![] } else {
        ids_s.split(',').map(|x| x.parse::<i16>().map_err(|e| e.to_string())).collect::<Result<Vec<_>, _>>()?
    };
    let fin = |r: Result<TVal, ThriftException>, rem: usize| -> String {
        match r {
            Err(e) => show_err(&e),
            Ok(v) => {
                let mut out = String::from("ok ");
                show_val(&mut out, &v);
                out.push_str(&format!(" REM {rem}"));
                out
            }
        }
    };
    if pks == "unsafe" {
        use pilota::thrift::binary_unsafe::TBinaryUnsafeInputProtocol;
        let mut b = Bytes::copy_from_slice(&input);
        let (r, idx) = {
            let mut p = unsafe { TBinaryUnsafeInputProtocol::new(&mut b) };
            let r = tread_struct(&mut p, &ids);
            (r, p.index())
        };
        return Ok(fin(r, b.len().saturating_sub(idx)));
    }
    let pk = parse_pk(pks)?;
    if mode == "sync" {
        let mut b = Bytes::copy_from_slice(&input);
        let r = match pk {
            Pk::Binary => tread_struct(&mut TBinaryProtocol::new(&mut b, false), &ids),
            Pk::BinaryLe => tread_struct(&mut TBinaryLeProtocol::new(&mut b, false), &ids),
            Pk::Compact => tread_struct(&mut TCompactInputProtocol::new(&mut b), &ids),
        };
        Ok(fin(r, b.len()))
    } else {
        use pilota::thrift::{binary::TAsyncBinaryProtocol, binary_le::TAsyncBinaryProtocol as TAsyncBinaryLeProtocol, compact::TAsyncCompactProtocol};
        let sched = mode.strip_prefix("async:").unwrap_or("all");
        let (cuts, pend) = parse_cuts(sched, input.len())?;
        let mut rd = asyncrd::Scripted::new(input.to_vec(), cuts, pend);
        let budget = (input.len() + 16) * (pend + 2) * 8 + 100_000;
        macro_rules! go {
            ($p:expr) => {{
                let mut p = $p;
                asyncrd::block_on(async { atread_struct(&mut p, &ids).await }, budget)
            }};
        }
        let r = match pk {
            Pk::Binary => go!(TAsyncBinaryProtocol::new(&mut rd)),
            Pk::BinaryLe => go!(TAsyncBinaryLeProtocol::new(&mut rd)),
            Pk::Compact => go!(TAsyncCompactProtocol::new(&mut rd)),
        };
        let pulled = rd.handed_out;
        Ok(match r {
            None => "HANG".to_string(),
            Some(r) => fin(r, input.len() - pulled),
        })
    }
}
