(* C12: schedule independence at the primitive level.  Every primitive read of the asynchronous
   protocols, written through poll_read over an event list (Thrift/AsyncEv.v), returns what the read of
   Thrift/Async.v returns on the bytes the events deliver -- value, error class, panic -- and leaves
   the events that deliver exactly the remaining bytes.  The lemmas about the stream (poll_*,
   ev_read_exact_spec, ev_take_spec, ev_rd_var_spec, ev_read_to_end_spec, ev_read_exact_to_vec_spec) are
   those of fam/gen/coq/Proofs/EventsP.v (gen-builder-c), repeated with the definitions. *)
From Coq Require Import Lia.
From PV Require Import Thrift.AsyncEv.
Open Scope Z_scope.

Lemma take_app_long n (c l : list byte) : (length c <= n)%nat ->
  take n (c ++ l) = match take (n - length c) l with Some (x, r) => Some (c ++ x, r) | None => None end.
Proof.
  intros H. unfold take. rewrite app_length.
  destruct (Nat.leb (n - length c) (length l)) eqn:E.
  - apply Nat.leb_le in E. replace (Nat.leb n (length c + length l)) with true by (symmetry; apply Nat.leb_le; lia).
    rewrite firstn_app, skipn_app. rewrite firstn_all2 by lia. rewrite skipn_all2 by lia. reflexivity.
  - apply Nat.leb_gt in E. replace (Nat.leb n (length c + length l)) with false by (symmetry; apply Nat.leb_gt; lia). reflexivity.
Qed.

(* ---------- one poll ---------- *)
Lemma poll_ready cap es got rest : poll_read cap es = Ready got rest ->
  got ++ bytes_of rest = bytes_of es /\ (length got <= cap)%nat /\ ((1 <= cap)%nat -> (1 <= length got)%nat) /\ (length rest <= length es)%nat.
Proof.
  destruct es as [|[c|] r]; cbn [poll_read]; try discriminate. destruct c as [|b c]; [discriminate|].
  destruct (Nat.leb (length (b :: c)) cap) eqn:E; intros H; injection H as <- <-.
  - apply Nat.leb_le in E. cbn [bytes_of length] in *. repeat split; lia.
  - apply Nat.leb_gt in E. cbn [bytes_of]. rewrite app_assoc, firstn_skipn. rewrite firstn_length. cbn [length] in *.
    repeat split; try lia.
Qed.
Lemma poll_notready cap es r : poll_read cap es = NotReady r -> bytes_of r = bytes_of es /\ (length r < length es)%nat.
Proof.
  destruct es as [|[c|] r0]; cbn [poll_read]; try discriminate.
  - destruct c as [|b c]; [intros H; injection H as <-; cbn; split; [reflexivity|lia]|]. destruct (Nat.leb (length (b :: c)) cap); discriminate.
  - intros H; injection H as <-. cbn. split; [reflexivity|lia].
Qed.
Lemma poll_eof cap es : poll_read cap es = Eof -> bytes_of es = [].
Proof.
  destruct es as [|[c|] r]; cbn [poll_read]; try discriminate; [reflexivity|].
  destruct c as [|b c]; [discriminate|]. destruct (Nat.leb (length (b :: c)) cap); discriminate.
Qed.

(* ---------- read_exact ---------- *)
Lemma ev_read_exact_spec : forall f n acc es, (length es + n < f)%nat ->
  match ev_read_exact f n acc es with
  | Some (a, es') => exists x, a = acc ++ x /\ take n (bytes_of es) = Some (x, bytes_of es')
  | None => take n (bytes_of es) = None
  end.
Proof.
  induction f as [|f IH]; intros n acc es Hf; [lia|]. destruct n as [|n].
  - cbn [ev_read_exact]. exists []. rewrite app_nil_r. split; reflexivity.
  - cbn [ev_read_exact]. destruct (poll_read (Datatypes.S n) es) as [got rest|r|] eqn:P.
    + destruct (poll_ready _ _ _ _ P) as (Hb & Hc & Hp & Hl). specialize (Hp ltac:(lia)).
      specialize (IH (Datatypes.S n - length got)%nat (acc ++ got) rest ltac:(lia)).
      rewrite <- Hb, (take_app_long _ got (bytes_of rest) Hc).
      destruct (ev_read_exact f (Datatypes.S n - length got) (acc ++ got) rest) as [[a es']|].
      * destruct IH as (x & -> & ->). exists (got ++ x). rewrite app_assoc. split; reflexivity.
      * rewrite IH. reflexivity.
    + destruct (poll_notready _ _ _ P) as (Hb & Hl). rewrite <- Hb. apply IH. lia.
    + rewrite (poll_eof _ _ P). reflexivity.
Qed.

Theorem ev_take_spec n es :
  match ev_take n es with
  | Some (a, es') => take n (bytes_of es) = Some (a, bytes_of es')
  | None => take n (bytes_of es) = None
  end.
Proof.
  unfold ev_take, ev_fuel. pose proof (ev_read_exact_spec (Datatypes.S (length es + n)) n [] es ltac:(lia)) as H.
  destruct (ev_read_exact (Datatypes.S (length es + n)) n [] es) as [[a es']|]; [|exact H].
  destruct H as (x & -> & H). exact H.
Qed.

(* ---------- read_varint_async ---------- *)
Lemma take_1 (l : list byte) : take 1 l = match l with [] => None | b :: r => Some ([b], r) end.
Proof. destruct l; reflexivity. Qed.

Lemma ev_rd_var_spec : forall k shift acc es,
  match ev_rd_var k shift acc es with
  | Ok (z, es') => rd_var k shift acc (bytes_of es) = Ok (z, bytes_of es')
  | Err e => rd_var k shift acc (bytes_of es) = Err e
  | Panic st => rd_var k shift acc (bytes_of es) = Panic st
  end.
Proof.
  induction k as [|k IH]; intros shift acc es; cbn [ev_rd_var rd_var]; pose proof (ev_take_spec 1 es) as H; rewrite take_1 in H;
    destruct (ev_take 1 es) as [[a es']|]; destruct (bytes_of es) as [|b r] eqn:B; try discriminate H; try reflexivity.
  injection H as <- Hr. cbv zeta. destruct (b2z b <? 128); [rewrite Hr; reflexivity|]. rewrite Hr. apply IH.
Qed.

(* ---------- Take::read_to_end, any positive step ---------- *)
Lemma firstn_app_long {A} n (x y : list A) : (length x <= n)%nat -> firstn n (x ++ y) = x ++ firstn (n - length x) y.
Proof. intros H. rewrite firstn_app, firstn_all2 by lia. reflexivity. Qed.
Lemma skipn_app_long {A} n (x y : list A) : (length x <= n)%nat -> skipn n (x ++ y) = skipn (n - length x) y.
Proof. intros H. rewrite skipn_app, skipn_all2 by lia. reflexivity. Qed.

Lemma ev_read_to_end_spec step : forall f limit acc es, (length es + limit < f)%nat ->
  let '(a, es') := ev_read_to_end f step limit acc es in
  a = acc ++ firstn limit (bytes_of es) /\ bytes_of es' = skipn limit (bytes_of es).
Proof.
  induction f as [|f IH]; intros limit acc es Hf; [lia|]. destruct limit as [|limit].
  - cbn [ev_read_to_end firstn skipn]. rewrite app_nil_r. split; reflexivity.
  - cbn [ev_read_to_end].
    destruct (poll_read (Nat.min (Datatypes.S (step (length acc))) (Datatypes.S limit)) es) as [got rest|r|] eqn:P.
    + destruct (poll_ready _ _ _ _ P) as (Hb & Hc & Hp & Hl). specialize (Hp ltac:(lia)).
      assert (Hg : (length got <= Datatypes.S limit)%nat) by lia.
      specialize (IH (Datatypes.S limit - length got)%nat (acc ++ got) rest ltac:(lia)).
      destruct (ev_read_to_end f step (Datatypes.S limit - length got) (acc ++ got) rest) as [a es'].
      destruct IH as (-> & ->). rewrite <- Hb, (firstn_app_long _ got _ Hg), (skipn_app_long _ got _ Hg), app_assoc. split; reflexivity.
    + destruct (poll_notready _ _ _ P) as (Hb & Hl). rewrite <- Hb. apply IH. lia.
    + rewrite (poll_eof _ _ P). destruct limit; cbn [firstn skipn]; rewrite app_nil_r; split; try reflexivity; rewrite (poll_eof _ _ P); reflexivity.
Qed.

(* ---------- read_exact_to_vec: both paths ---------- *)
Theorem ev_read_exact_to_vec_spec step len es :
  match ev_read_exact_to_vec step len es with
  | Some (a, es') => take len (bytes_of es) = Some (a, bytes_of es')
  | None => take len (bytes_of es) = None
  end.
Proof.
  unfold ev_read_exact_to_vec. destruct (Nat.leb len prealloc_n); [apply ev_take_spec|].
  pose proof (ev_read_to_end_spec step (ev_fuel len es) len [] es ltac:(unfold ev_fuel; lia)) as H.
  destruct (ev_read_to_end (ev_fuel len es) step len [] es) as [v es']. destruct H as (-> & Hr). cbn [app].
  unfold take. rewrite firstn_length. destruct (Nat.eqb (Nat.min len (length (bytes_of es))) len) eqn:E.
  - apply Nat.eqb_eq in E. replace (Nat.leb len (length (bytes_of es))) with true by (symmetry; apply Nat.leb_le; lia).
    rewrite Hr. reflexivity.
  - apply Nat.eqb_neq in E. replace (Nat.leb len (length (bytes_of es))) with false by (symmetry; apply Nat.leb_gt; lia). reflexivity.
Qed.


(* ================================================================== *)
(* the primitives of Thrift/Async.v *)

(* outcome of an event-level read vs outcome of the byte-level read on the delivered bytes *)
Definition ev_eq {A} (o1 : res (A * est)) (o2 : res (A * rst)) : Prop :=
  match o1 with
  | Ok (x, s') => o2 = Ok (x, abs s')
  | Err e => o2 = Err e
  | Panic st => o2 = Panic st
  end.

Lemma ev_eq_bind {A B} (o1 : res (A * est)) (o2 : res (A * rst)) (f : A * est -> res (B * est)) (g : A * rst -> res (B * rst)) :
  ev_eq o1 o2 -> (forall x s', ev_eq (f (x, s')) (g (x, abs s'))) -> ev_eq (bind o1 f) (bind o2 g).
Proof.
  intros H1 H2. destruct o1 as [[x s']|e|st]; cbn [ev_eq bind] in *; subst o2; cbn [bind]; auto.
Qed.

Lemma ev_eq_ret {A} (x : A) s : ev_eq (Ok (x, s)) (Ok (x, abs s)).
Proof. reflexivity. Qed.

Theorem e_take_eq n s : ev_eq (e_take n s) (a_take n (abs s)).
Proof.
  unfold e_take, a_take, abs. cbn [rbuf rc]. pose proof (ev_take_spec n (ebuf s)) as H.
  destruct (ev_take n (ebuf s)) as [[a r]|]; rewrite H; reflexivity.
Qed.

Theorem e_varint_eq m s : ev_eq (e_varint m s) (a_varint m (abs s)).
Proof.
  unfold e_varint, ev_varint, a_varint, read_var_u64, abs. cbn [rbuf rc]. pose proof (ev_rd_var_spec m 0 0 (ebuf s)) as H.
  destruct (ev_rd_var m 0 0 (ebuf s)) as [[z es']|e|st]; rewrite H; reflexivity.
Qed.

Lemma e_byte_eq s : ev_eq (e_byte s) (a_byte (abs s)).
Proof. unfold e_byte, a_byte. apply ev_eq_bind; [apply e_take_eq|]. intros x s'. apply ev_eq_ret. Qed.
Lemma e_i8_eq s : ev_eq (e_i8 s) (a_i8 (abs s)).
Proof. unfold e_i8, a_i8. apply ev_eq_bind; [apply e_take_eq|]. intros x s'. apply ev_eq_ret. Qed.
Lemma e_fixed_eq p n b s : ev_eq (e_fixed p n b s) (a_fixed p n b (abs s)).
Proof. unfold e_fixed, a_fixed. apply ev_eq_bind; [apply e_take_eq|]. intros x s'. apply ev_eq_ret. Qed.
Lemma e_i16_eq p s : ev_eq (e_i16 p s) (a_i16 p (abs s)).
Proof. destruct p; cbn [e_i16 a_i16]; try apply e_fixed_eq. apply ev_eq_bind; [apply e_varint_eq|]. intros x s'. apply ev_eq_ret. Qed.
Lemma e_i32_eq p s : ev_eq (e_i32 p s) (a_i32 p (abs s)).
Proof. destruct p; cbn [e_i32 a_i32]; try apply e_fixed_eq. apply ev_eq_bind; [apply e_varint_eq|]. intros x s'. apply ev_eq_ret. Qed.
Lemma e_i64_eq p s : ev_eq (e_i64 p s) (a_i64 p (abs s)).
Proof. destruct p; cbn [e_i64 a_i64]; try apply e_fixed_eq. apply ev_eq_bind; [apply e_varint_eq|]. intros x s'. apply ev_eq_ret. Qed.
Lemma e_double_eq p s : ev_eq (e_double p s) (a_double p (abs s)).
Proof. unfold e_double, a_double. apply ev_eq_bind; [apply e_take_eq|]. intros x s'. apply ev_eq_ret. Qed.
Lemma e_uuid_eq s : ev_eq (e_uuid s) (a_uuid (abs s)).
Proof. apply e_take_eq. Qed.

(* read_exact_to_vec, both paths, any growth policy [step] of the vector: the byte-level model tests
   the announced length against what the stream will deliver and then takes; the event-level reader
   cannot know and starts reading -- same outcome *)
Lemma e_vec_eq step n s :
  ev_eq (e_vec step n s)
        (if Z.of_nat n <=? Z.of_nat (length (rbuf (abs s))) then a_take n (abs s) else Err ETransport).
Proof.
  unfold e_vec, a_take, abs. cbn [rbuf rc]. pose proof (ev_read_exact_to_vec_spec step n (ebuf s)) as H.
  destruct (ev_read_exact_to_vec step n (ebuf s)) as [[a r]|]; rewrite H.
  - apply take_some in H as [H1 H2]. rewrite H1, app_length.
    replace (Z.of_nat n <=? Z.of_nat (length a + length (bytes_of r))) with true by lia. reflexivity.
  - destruct (_ <=? _); reflexivity.
Qed.

Theorem e_bytes_eq step p s : ev_eq (e_bytes step p s) (a_bytes p (abs s)).
Proof.
  destruct p; cbn [e_bytes a_bytes].
  1,2: apply ev_eq_bind; [apply e_i32_eq|]; intros n s'; destruct (n <? 0) eqn:En; [reflexivity|];
       pose proof (e_vec_eq step (Z.to_nat n) s') as H; rewrite Z2Nat.id in H by lia; exact H.
  apply ev_eq_bind; [apply e_varint_eq|]. intros n s'.
  pose proof (e_vec_eq step (Z.to_nat (wrap_u 32 n)) s') as H.
  rewrite Z2Nat.id in H by (unfold wrap_u; apply Z.mod_pos_bound; lia). exact H.
Qed.

(* C12_schedule_free, in the form the property states it: for EVERY event list whose chunks
   concatenate to l (any chunking, empty chunks, Pending tokens anywhere), each primitive read returns
   what the byte-level read returns on l, and the events left deliver exactly the unread bytes *)
Theorem schedule_free_prims es l rcx step :
  bytes_of es = l ->
  (forall n, ev_eq (e_take n (mkE es rcx)) (a_take n (mkS l rcx))) /\
  (forall m, ev_eq (e_varint m (mkE es rcx)) (a_varint m (mkS l rcx))) /\
  (forall p, ev_eq (e_i16 p (mkE es rcx)) (a_i16 p (mkS l rcx))) /\
  (forall p, ev_eq (e_i32 p (mkE es rcx)) (a_i32 p (mkS l rcx))) /\
  (forall p, ev_eq (e_i64 p (mkE es rcx)) (a_i64 p (mkS l rcx))) /\
  (forall p, ev_eq (e_double p (mkE es rcx)) (a_double p (mkS l rcx))) /\
  (forall p, ev_eq (e_bytes step p (mkE es rcx)) (a_bytes p (mkS l rcx))).
Proof.
  intros <-. change (mkS (bytes_of es) rcx) with (abs (mkE es rcx)).
  repeat split; intros; [apply e_take_eq|apply e_varint_eq|apply e_i16_eq|apply e_i32_eq|apply e_i64_eq|apply e_double_eq|apply e_bytes_eq].
Qed.

(* non-vacuity: one compact string (varint length 3, "abc") followed by a byte, delivered in five
   different ways incl. a Pending inside the varint-length / payload boundary and inside the payload *)
Example schedule_examples :
  let l := [x03; x61; x62; x63; xff] in
  Forall (fun es => bytes_of es = l /\
                    e_bytes (fun n => n) PCompact (mkE es r0) = Ok ([x61; x62; x63], mkE [Chunk [xff]] r0))
    [[Chunk [x03; x61; x62; x63]; Chunk [xff]];
     [Chunk [x03]; Pend; Chunk [x61]; Chunk []; Pend; Chunk [x62; x63]; Chunk [xff]];
     [Pend; Pend; Chunk [x03; x61]; Pend; Chunk [x62]; Chunk [x63]; Chunk [xff]]] /\
  a_bytes PCompact (mkS l r0) = Ok ([x61; x62; x63], mkS [xff] r0) /\
  e_bytes (fun n => n) PCompact (mkE [Chunk [x03; x61]; Pend; Chunk [x62]] r0) = Err ETransport /\
  e_bytes (fun _ => 7%nat) PBinary (mkE [Chunk [x00; x00]; Pend; Chunk [x20; x00]; Chunk (repeat x61 8000); Pend; Chunk (repeat x61 192); Chunk [xff]] r0)
    = Ok (repeat x61 8192, mkE [Chunk [xff]] r0).
Proof. cbv zeta. repeat split; try (repeat constructor; vm_compute; split; reflexivity); vm_compute; reflexivity. Qed.
