(* InventoryP.v (C17) -- the unordered-iteration sites of pilota-build/src the model accounts for.

   Generated/Inventory.v is REGENERATED from the Rust sources on every run (tools/extract_bld.py): every
   line that names, produces, iterates or parallelises a container whose iteration order depends on a
   per-process seed (std HashMap/HashSet, AHashMap/AHashSet, DashMap/DashSet, itertools group maps) or a rayon
   parallel iterator.  This file is written by hand: the same list, each site with the reason its order
   cannot reach the output.  [inventory_accounted] fails to compile as soon as the two lists differ -- a new
   site, a removed site, or a site whose statement changed (for instance `.sorted()` dropped from the members
   chain, or nested messages taken from the hash map again) has to be re-read and re-justified here. *)
From Coq Require Import String List Bool.
From PVBld Require Import Generated.Inventory Pipeline Proofs.PipelineP.
Import ListNotations.
Open Scope string_scope.

Inductive reason :=
| RNotIterated                                   (* a `use` line or a type mention: nothing is iterated on this line *)
| RNotSeeded (why : string)                      (* scanner false positive: the thing iterated is a Vec *)
| RLookupOnly (why : string)                     (* the container is only queried by key *)
| ROrderFree (why : string)                      (* the loop body's effects commute and are idempotent *)
| RSortedAfter (param : string) (lemma : string) (* order = permutation parameter `param`; consumers sort by pairwise distinct keys *)
| RDisjointKeys (param : string) (lemma : string)(* order = `param`; every iteration writes its own key / directory *)
| RPermParam (param : string) (lemma : string).  (* the group map whose iteration order is `param` *)

Definition accounted : list (site * reason) :=
  [
   (("codegen/mod.rs", "<top>", "use", "use ahash::{AHashMap, AHashSet};"),
      RNotIterated);
   (("codegen/mod.rs", "<top>", "use", "use dashmap::{DashMap, mapref::one::RefMut};"),
      RNotIterated);
   (("codegen/mod.rs", "write_item", "mention", "dup: &mut AHashMap<FastStr, Vec<DefId>>,"),
      RNotIterated);
   (("codegen/mod.rs", "duplicate", "mention", "fn duplicate(&self, dup: &mut AHashMap<FastStr, Vec<DefId>>, def_id: DefId) -> bool {"),
      RNotIterated);
   (("codegen/mod.rs", "duplicate", "iter", "for id in dup.iter() {"),
      RNotSeeded "`dup` is shadowed here by the Vec<DefId> of one map entry (declaration order); the AHashMap itself is reached through entry() only; Builder::dedup is empty in every configuration of the property");
   (("codegen/mod.rs", "write_items", "producer", "let mods = items.into_group_map_by(|CodegenItem { def_id, .. }| {"),
      RPermParam "pi_mods" "write_items_closed");
   (("codegen/mod.rs", "write_items", "mention", "let mut pkgs: DashMap<Arc<[FastStr]>, String> = Default::default();"),
      RNotIterated);
   (("codegen/mod.rs", "write_items", "par", "mods.par_iter().for_each_with(this, |this, (p, def_ids)| {"),
      RDisjointKeys "pi_work" "wi_fold: each body writes the DashMap entry (and, split, the directory) of its own module path");
   (("codegen/mod.rs", "write_items", "mention", "let mut dup = AHashMap::default();"),
      RNotIterated);
   (("codegen/mod.rs", "write_stream", "mention", "pkgs: &mut DashMap<Arc<[FastStr]>, String>,"),
      RNotIterated);
   (("codegen/mod.rs", "write_items", "iter", "let keys = pkgs.iter().map(|kv| kv.key().clone()).collect_vec();"),
      RSortedAfter "pi_keys" "pkg_tree_sorted_inv: the key list only feeds PkgNode::from_pkgs, whose children write_stream sorts by path");
   (("codegen/mod.rs", "write_split_mod", "mention", "dup: &mut AHashMap<FastStr, Vec<DefId>>,"),
      RNotIterated);
   (("codegen/mod.rs", "write_split_mod", "mention", "let mut existing_file_names: AHashSet<String> = AHashSet::new();"),
      RNotIterated);
   (("codegen/mod.rs", "generate_unique_name", "mention", "fn generate_unique_name(existing_names: &AHashSet<String>, simple_name: &str) -> String {"),
      RNotIterated);
   (("codegen/pkg_tree.rs", "from_pkgs", "producer", ".into_group_map_by(|p| p.first().unwrap());"),
      RPermParam "pi_tree" "from_pkgs_sorted_inv");
   (("codegen/pkg_tree.rs", "from_pkgs", "iter", "Arc::from_iter(groups.into_iter().map(|(k, v)| {"),
      RSortedAfter "pi_tree" "from_pkgs_sorted_inv: write_stream walks nodes.iter().sorted_by_key(path), sibling paths are pairwise distinct");
   (("codegen/workspace.rs", "group_defs", "producer", "let entry_map = location_map.iter().into_group_map_by(|item| item.1);"),
      RPermParam "pi_entry" "workspace_closed");
   (("codegen/workspace.rs", "group_defs", "iter", "let entry_deps = entry_map .iter()"),
      RDisjointKeys "pi_entry" "entry_deps is an Fx map consumed only by the par_iter below; one crate directory per key");
   (("codegen/workspace.rs", "group_defs", "iter", "let members = entry_map .keys()"),
      RSortedAfter "pi_entry" "workspace_closed: dedup is the identity on pairwise distinct crate names, then sorted()");
   (("codegen/workspace.rs", "group_defs", "par", ".par_iter()"),
      RDisjointKeys "pi_crates" "workspace_closed: create_crate writes only below <base>/<crate name>, names pairwise distinct");
   (("middle/context.rs", "<top>", "use", "use std::{collections::HashMap, ops::Deref, path::PathBuf, sync::Arc};"),
      RNotIterated);
   (("middle/context.rs", "<top>", "use", "use dashmap::DashMap;"),
      RNotIterated);
   (("middle/context.rs", "<top>", "mention", "pub adjusts: Arc<DashMap<DefId, Adjust>>,"),
      RNotIterated);
   (("middle/context.rs", "<top>", "mention", "pub entry_map: Arc<HashMap<DefLocation, Vec<(DefId, DefLocation)>>>,"),
      RNotIterated);
   (("middle/context.rs", "<top>", "mention", "pub plugin_gen: Arc<DashMap<DefLocation, String>>,"),
      RNotIterated);
   (("middle/context.rs", "<top>", "mention", "entry_map: HashMap<DefLocation, Vec<(DefId, DefLocation)>>,"),
      RNotIterated);
   (("middle/context.rs", "collect", "producer", ".into_group_map_by(|item| item.1.clone());"),
      RDisjointKeys "pi_entry" "Context.entry_map is iterated only by plugin/workspace.rs (one plugin_gen entry per key) and otherwise unused");
   (("middle/context.rs", "build", "temp", ".collect::<HashMap<DefId, usize>>(),"),
      RLookupOnly "the temporary std HashMap is drained into the Fx map `names`, which is only queried with contains_key (Context::rust_name); keys are pairwise distinct DefIds");
   (("parser/protobuf/mod.rs", "<top>", "use", "use std::{collections::HashMap, path::PathBuf, sync::Arc};"),
      RNotIterated);
   (("parser/protobuf/mod.rs", "<top>", "use", "use ahash::AHashMap;"),
      RNotIterated);
   (("parser/protobuf/mod.rs", "lower_ty", "mention", "nested_messages: &AHashMap<FastStr, &DescriptorProto>,"),
      RNotIterated);
   (("parser/protobuf/mod.rs", "lower_enum", "iter", "variants: e .iter()"),
      RNotSeeded "e.value is the Vec of the enum descriptor (declaration order); the scanner matched the closure parameter name");
   (("parser/protobuf/mod.rs", "lower_message", "mention", ".collect::<AHashMap<FastStr, _>>();"),
      RNotIterated);
   (("parser/protobuf/mod.rs", "lower", "mention", "let mut file_map = HashMap::with_capacity(files.len());"),
      RNotIterated);
   (("plugin/mod.rs", "<top>", "use", "use std::{collections::HashSet, ops::DerefMut, sync::Arc};"),
      RNotIterated);
   (("plugin/mod.rs", "can_derive", "mention", "visiting: &mut HashSet<DefId>,"),
      RNotIterated);
   (("plugin/mod.rs", "can_derive", "mention", "delayed: &mut HashSet<DefId>,"),
      RNotIterated);
   (("plugin/mod.rs", "can_derive", "iter", "delayed.iter().for_each(|delayed_def_id| {"),
      ROrderFree "every iteration inserts the constant CanDerive::No under its own key after an order-independent test (is_nested); the resulting map content is the same for all orders, and on_emit touches one adjust per key");
   (("plugin/mod.rs", "on_item", "mention", "self.can_derive(cx, def_id, &mut HashSet::default(), &mut HashSet::default());"),
      RNotIterated);
   (("plugin/workspace.rs", "on_codegen_uint", "iter", "cx.entry_map.iter().for_each(|(k, v)| {"),
      RDisjointKeys "pi_entry" "one plugin_gen entry per location; _WorkspacePlugin is not installed by Builder::thrift()/protobuf()");
   (("resolve.rs", "<top>", "use", "use ahash::AHashMap;"),
      RNotIterated);
   (("resolve.rs", "<top>", "mention", "pub(crate) value: AHashMap<Symbol, DefId>,"),
      RNotIterated);
   (("resolve.rs", "<top>", "mention", "pub(crate) ty: AHashMap<Symbol, DefId>,"),
      RNotIterated);
   (("resolve.rs", "<top>", "mention", "pub(crate) mods: AHashMap<Symbol, DefId>,"),
      RNotIterated);
   (("tags.rs", "<top>", "use", "collections::HashMap,"),
      RNotIterated);
   (("tags.rs", "<top>", "mention", "pub struct TypeMap(HashMap<TypeId, Box<dyn Any + Sync + Send>>);"),
      RNotIterated)
  ].

(* the regenerated inventory is exactly the list of sites accounted for *)
Lemma inventory_accounted : map fst accounted = sites.
Proof. vm_compute. reflexivity. Qed.

Definition site_kind (s : site) : string := snd (fst s).
Definition iterating (s : site) : bool :=
  negb ((site_kind s =? "use") || (site_kind s =? "mention")).
Definition justified (sr : site * reason) : bool :=
  match snd sr with RNotIterated => negb (iterating (fst sr)) | _ => true end.

(* every site that iterates, produces a group map or runs in parallel carries a real reason *)
Lemma inventory_justified : forallb justified accounted = true.
Proof. vm_compute. reflexivity. Qed.

(* the permutation parameters named by the reasons are exactly the parameters of the model *)
Definition params_of (r : reason) : list string :=
  match r with RSortedAfter p _ | RDisjointKeys p _ | RPermParam p _ => [p] | _ => [] end.
Definition model_params : list string := ["pi_mods"; "pi_work"; "pi_keys"; "pi_tree"; "pi_entry"; "pi_crates"].
Lemma inventory_params :
  forallb (fun p => existsb (String.eqb p) model_params) (flat_map (fun sr => params_of (snd sr)) accounted) = true /\
  forallb (fun p => existsb (String.eqb p) (flat_map (fun sr => params_of (snd sr)) accounted)) model_params = true.
Proof. split; vm_compute; reflexivity. Qed.

(* the one site of the pinned tree that had no reason: `nested_messages.iter()` in lower_message
   (parser/protobuf/mod.rs), removed by fix F-17a.  After the fix the AHashMap is only mentioned
   (collected, then looked up by lower_ty): *)
Lemma nested_messages_not_iterated :
  existsb (fun s => (fst (fst (fst s)) =? "parser/protobuf/mod.rs") && iterating s &&
                    negb (snd (fst (fst s)) =? "lower_enum")) sites = false.
Proof. vm_compute. reflexivity. Qed.
