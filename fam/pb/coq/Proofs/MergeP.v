(* C18: protobuf merge semantics on the Msg.v model.
   A. frame property: a decoder that succeeds on a buffer behaves the same with bytes appended
      (prost never restricts the buffer; the `remaining`-dependent code -- length tests, merge_loop's limit,
      the fuel of the loops -- is insensitive to what follows);
   B. Message::merge is a left fold over the record sequence: decode (e1 ++ e2) = merge (decode e1) e2;
   C. skip_field consumes exactly one well-formed record of any wire type (groups well nested within the budget);
   D. unknown fields may be inserted or deleted at a record boundary;
   E. F-18a: not at the depth limit (refuted with a witness). *)
From PVPb Require Import Msg Proofs.BitsP Proofs.VarintP Proofs.WireP Proofs.CastP Proofs.CodecP Proofs.TotalP Proofs.DepthP.
From Coq Require Import ZifyN ZifyNat ZifyBool.
Open Scope Z_scope.

(* ================================================================== A. frame *)
Definition framed {A} (m : M A) : Prop :=
  forall b a v b' a' e, m (mkR b a) = OOk v (mkR b' a') -> m (mkR (b ++ e) a) = OOk v (mkR (b' ++ e) a').

Lemma rd_eta s : s = mkR (rb s) (ra s).
Proof. destruct s; reflexivity. Qed.

Lemma framed_ret {A} (x : A) : framed (ret x).
Proof. intros b a v b' a' e H. unfold ret in *. inversion H; subst. reflexivity. Qed.

Lemma framed_fail {A} e0 : framed (@fail A e0).
Proof. intros b a v b' a' e H. discriminate H. Qed.

Lemma framed_panic {A} p : framed (@panic A p).
Proof. intros b a v b' a' e H. discriminate H. Qed.

Lemma framed_bind {A B} (m : M A) (f : A -> M B) : framed m -> (forall x, framed (f x)) -> framed (bind m f).
Proof.
  intros Hm Hf b a v b' a' e H. unfold bind in *.
  destruct (m (mkR b a)) as [x s1|e1 s1|p] eqn:E; try discriminate H.
  rewrite (rd_eta s1) in E, H. rewrite (Hm _ _ _ _ _ e E). apply Hf. exact H.
Qed.

Lemma varint_spec_app p q v rest : varint_spec p = Some (v, rest) -> varint_spec (p ++ q) = Some (v, rest ++ q).
Proof.
  unfold varint_spec. rewrite leb_scan_app. destruct (leb_scan 10 0 0 0 p) as [v' r c| |]; try discriminate.
  destruct (v' <? two64); [|discriminate]. intros H. inversion H; subst. reflexivity.
Qed.

Lemma framed_decode_varint : framed decode_varint.
Proof.
  intros b a v b' a' e H. unfold decode_varint, lift_v in *. cbn [rb ra] in *.
  rewrite decode_varint_is_spec in *.
  destruct (varint_spec b) as [[v0 rest]|] eqn:E; [|discriminate H]. inversion H; subst.
  rewrite (varint_spec_app _ e _ _ E). reflexivity.
Qed.

Lemma framed_decode_key : framed decode_key.
Proof.
  unfold decode_key. apply framed_bind; [apply framed_decode_varint|]. intros key.
  destruct (_ <? _); [apply framed_fail|]. destruct (wire_type_of_code _); [|apply framed_fail].
  destruct (_ <? _); [apply framed_fail|apply framed_ret].
Qed.

Lemma framed_check e0 a0 : framed (check_wire_type e0 a0).
Proof. unfold check_wire_type. destruct (wire_type_eqb e0 a0); [apply framed_ret|apply framed_fail]. Qed.

Lemma framed_limit c : framed (limit_reached c).
Proof. unfold limit_reached. destruct (c =? 0); [apply framed_fail|apply framed_ret]. Qed.

Lemma framed_enter c : framed (enter_recursion c).
Proof. unfold enter_recursion. destruct (c <? 1); [apply framed_panic|apply framed_ret]. Qed.

Lemma framed_charge n : framed (charge n).
Proof. intros b a v b' a' e H. unfold charge in *. cbn [rb ra] in *. inversion H; subst. reflexivity. Qed.

Lemma framed_take n : framed (take_bytes n).
Proof.
  intros b a v b' a' e H. unfold take_bytes in *. cbn [rb ra] in *.
  destruct (Nat.ltb_spec (length b) n); [discriminate H|]. inversion H; subst.
  rewrite app_length. replace (Nat.ltb (length b + length e) n) with false by (symmetry; apply Nat.ltb_ge; lia).
  rewrite firstn_app, skipn_app. replace (n - length b)%nat with 0%nat by lia.
  rewrite firstn_O, skipn_O, app_nil_r. reflexivity.
Qed.

Lemma framed_advance n : framed (advance n).
Proof.
  intros b a v b' a' e H. unfold advance in *. cbn [rb ra] in *.
  destruct (Nat.ltb_spec (length b) n); [discriminate H|]. inversion H; subst.
  rewrite app_length. replace (Nat.ltb (length b + length e) n) with false by (symmetry; apply Nat.ltb_ge; lia).
  rewrite skipn_app. replace (n - length b)%nat with 0%nat by lia. rewrite skipn_O. reflexivity.
Qed.

(* the `len > remaining` test: passing it with less input means passing it with more *)
Lemma framed_guard {A} len (k : M A) : framed k ->
  framed (bind remaining (fun rem => if Z.of_nat rem <? len then fail PUnderflow else k)).
Proof.
  intros Hk b a v b' a' e H. unfold bind, remaining in *. cbn [rb] in *.
  destruct (Z.ltb_spec (Z.of_nat (length b)) len); [discriminate H|].
  rewrite app_length. replace (Z.of_nat (length b + length e) <? len) with false by lia.
  apply Hk. exact H.
Qed.

(* ------------------------------------------------------------------ loops *)
Lemma while_remaining_frame {T} (body : T -> M T) : (forall v, framed (body v)) ->
  forall f limit v b a v' b' a' e f',
    while_remaining f limit body v (mkR b a) = OOk v' (mkR b' a') -> (f <= f')%nat ->
    while_remaining f' (limit + length e) body v (mkR (b ++ e) a) = OOk v' (mkR (b' ++ e) a').
Proof.
  intros Hb. induction f as [|f IH]; intros limit v b a v' b' a' e f' H Hf.
  - cbn [while_remaining rb] in H. destruct (Nat.ltb_spec limit (length b)); [discriminate H|].
    inversion H; subst. destruct f'; cbn [while_remaining rb]; rewrite app_length;
      replace (Nat.ltb (limit + length e) (length b' + length e)) with false by (symmetry; apply Nat.ltb_ge; lia); reflexivity.
  - cbn [while_remaining rb] in H. destruct (Nat.ltb_spec limit (length b)).
    + destruct f' as [|f']; [lia|]. cbn [while_remaining rb]. rewrite app_length.
      replace (Nat.ltb (limit + length e) (length b + length e)) with true by (symmetry; apply Nat.ltb_lt; lia).
      unfold bind in *. destruct (body v (mkR b a)) as [v1 s1|e1 s1|p] eqn:E; try discriminate H.
      rewrite (rd_eta s1) in E, H. rewrite (Hb v _ _ _ _ _ e E). apply IH; [exact H|lia].
    + inversion H; subst. destruct f'; cbn [while_remaining rb]; rewrite app_length;
        replace (Nat.ltb (limit + length e) (length b' + length e)) with false by (symmetry; apply Nat.ltb_ge; lia); reflexivity.
Qed.

Lemma framed_merge_loop {T} (body : T -> M T) v : (forall v, framed (body v)) -> framed (merge_loop body v).
Proof.
  intros Hb b a v' b' a' e H. unfold merge_loop in *. unfold bind at 1 in H. unfold bind at 1.
  destruct (decode_varint (mkR b a)) as [len s1|e1 s1|p] eqn:E; try discriminate H.
  pose proof (decode_varint_ok_inv _ _ _ E) as (Hlen & _).
  rewrite (rd_eta s1) in E, H. rewrite (framed_decode_varint _ _ _ _ _ e E).
  set (b1 := rb s1) in *. set (a1 := ra s1) in *.
  unfold bind at 1 in H. unfold bind at 1. unfold remaining at 1 in H. unfold remaining at 1. cbn [rb] in *.
  destruct (Z.ltb_spec (Z.of_nat (length b1)) len); [discriminate H|].
  rewrite app_length. replace (Z.of_nat (length b1 + length e) <? len) with false by lia.
  unfold bind at 1 in H. unfold bind at 1.
  unfold while_rem in *. unfold bind at 1 in H. unfold bind at 1. unfold remaining at 1 in H. unfold remaining at 1. cbn [rb] in *.
  destruct (while_remaining (S (length b1)) (length b1 - Z.to_nat len) body v (mkR b1 a1)) as [v2 s2|e2 s2|p] eqn:E2; try discriminate H.
  rewrite (rd_eta s2) in E2, H.
  rewrite app_length.
  replace (length b1 + length e - Z.to_nat len)%nat with ((length b1 - Z.to_nat len) + length e)%nat by lia.
  rewrite (while_remaining_frame body Hb _ _ _ _ _ _ _ _ e (S (length b1 + length e)) E2 ltac:(lia)).
  unfold bind, remaining in *. cbn [rb] in *. rewrite app_length.
  destruct (Nat.eqb_spec (length (rb s2)) (length b1 - Z.to_nat len)); [|discriminate H].
  replace (Nat.eqb (length (rb s2) + length e) (length b1 - Z.to_nat len + length e)) with true by (symmetry; apply Nat.eqb_eq; lia).
  unfold ret in *. inversion H; subst. reflexivity.
Qed.

Lemma group_loop_f_frame {T} (body : T -> Z -> wire_type -> M T) tag : (forall v t w, framed (body v t w)) ->
  forall f v b a v' b' a' e f', group_loop_f f tag body v (mkR b a) = OOk v' (mkR b' a') -> (f <= f')%nat ->
    group_loop_f f' tag body v (mkR (b ++ e) a) = OOk v' (mkR (b' ++ e) a').
Proof.
  intros Hb. induction f as [|f IH]; intros v b a v' b' a' e f' H Hf; [discriminate H|].
  destruct f' as [|f']; [lia|]. cbn [group_loop_f] in *. unfold bind at 1 in H. unfold bind at 1.
  destruct (decode_key (mkR b a)) as [[ftag fwt] s1|e1 s1|p] eqn:E; try discriminate H.
  rewrite (rd_eta s1) in E, H. rewrite (framed_decode_key _ _ _ _ _ e E).
  assert (Hgo : forall (Hne : True),
    bind (body v ftag fwt) (fun v1 => group_loop_f f tag body v1) (mkR (rb s1) (ra s1)) = OOk v' (mkR b' a') ->
    bind (body v ftag fwt) (fun v1 => group_loop_f f' tag body v1) (mkR (rb s1 ++ e) (ra s1)) = OOk v' (mkR (b' ++ e) a')).
  { intros _ H0. unfold bind in *. destruct (body v ftag fwt (mkR (rb s1) (ra s1))) as [v1 s2|e2 s2|p] eqn:E2; try discriminate H0.
    rewrite (rd_eta s2) in E2, H0. rewrite (Hb _ _ _ _ _ _ _ _ e E2). apply IH; [exact H0|lia]. }
  destruct fwt; try (apply Hgo; [exact I|exact H]).
  destruct (ftag =? tag); [|discriminate H]. unfold ret in *. inversion H; subst. reflexivity.
Qed.

Lemma framed_group_loop {T} (body : T -> Z -> wire_type -> M T) tag v :
  (forall v t w, framed (body v t w)) -> framed (group_loop tag body v).
Proof.
  intros Hb b a v' b' a' e H. unfold group_loop, bind, remaining in *. cbn [rb] in *.
  apply (group_loop_f_frame body tag Hb _ _ _ _ _ _ _ e _ H). rewrite app_length. lia.
Qed.

Theorem framed_skip_field : forall d wt tag ctx, framed (skip_field d wt tag ctx).
Proof.
  induction d as [|d IH]; intros wt tag ctx; cbn [skip_field]; [apply framed_fail|].
  apply framed_bind; [apply framed_limit|]. intros _.
  apply framed_bind.
  - destruct wt; try apply framed_ret; try apply framed_fail.
    + apply framed_bind; [apply framed_decode_varint|]. intros; apply framed_ret.
    + apply framed_decode_varint.
    + apply framed_bind; [|intros; apply framed_ret]. apply framed_group_loop. intros [] t w.
      apply framed_bind; [apply framed_enter|]. intros c. apply IH.
  - intros len. apply framed_guard. apply framed_advance.
Qed.

(* ------------------------------------------------------------------ codec modules *)
Lemma framed_len_tail wt :
  framed (bind (check_wire_type LengthDelimited wt) (fun _ =>
          bind decode_varint (fun len => bind remaining (fun rem =>
            if Z.of_nat rem <? len then fail PUnderflow else
            bind (charge len) (fun _ => bind (take_bytes (Z.to_nat len)) (fun bs => ret (VB bs))))))).
Proof.
  apply framed_bind; [apply framed_check|]. intros _. apply framed_bind; [apply framed_decode_varint|]. intros len.
  apply framed_guard. apply framed_bind; [apply framed_charge|]. intros _.
  apply framed_bind; [apply framed_take|]. intros; apply framed_ret.
Qed.

Theorem framed_merge_scalar m wt : framed (merge_scalar m wt).
Proof.
  unfold merge_scalar. destruct (is_varint_mod m).
  - apply framed_bind; [apply framed_check|]. intros _. unfold merge_varint_value.
    apply framed_bind; [apply framed_decode_varint|]. intros; apply framed_ret.
  - destruct (fixed_of m) as [[[t w] fwt]|].
    + apply framed_bind; [apply framed_check|]. intros _. unfold merge_fixed_value.
      apply framed_guard. apply framed_bind; [apply framed_take|]. intros; apply framed_ret.
    + destruct m; try apply framed_fail.
      * unfold string_merge. apply framed_bind; [apply framed_len_tail|]. intros v.
        destruct (utf8_valid _); [apply framed_ret|apply framed_fail].
      * unfold faststr_merge. apply framed_bind; [apply framed_len_tail|]. intros v.
        destruct (utf8_valid _); [apply framed_ret|apply framed_fail].
      * apply framed_len_tail.
Qed.

Lemma framed_push vs v : framed (push vs v).
Proof. unfold push. apply framed_bind; [apply framed_charge|]. intros; apply framed_ret. Qed.

Theorem framed_merge_repeated m wt vs : framed (merge_repeated m wt vs).
Proof.
  unfold merge_repeated.
  assert (H1 : forall wt', framed (bind (merge_scalar m wt') (fun v => push vs v))).
  { intros. apply framed_bind; [apply framed_merge_scalar|]. intros; apply framed_push. }
  destruct (is_len_mod m).
  - apply framed_bind; [apply framed_check|]. intros _. apply H1.
  - destruct wt; try (apply framed_bind; [apply framed_check|]; intros _; apply H1).
    apply framed_merge_loop. intros vs'. apply framed_bind; [apply framed_merge_scalar|]. intros; apply framed_push.
Qed.

(* ------------------------------------------------------------------ messages *)
Lemma framed_message_merge {T} (mf : T -> Z -> wire_type -> Z -> M T) wt x ctx :
  (forall x tag wt c, framed (mf x tag wt c)) -> framed (message_merge mf wt x ctx).
Proof.
  intros Hm. unfold message_merge. apply framed_bind; [apply framed_check|]. intros _.
  apply framed_bind; [apply framed_limit|]. intros _. apply framed_bind; [apply framed_enter|]. intros c.
  apply framed_merge_loop. intros msg. apply framed_bind; [apply framed_decode_key|]. intros [tag fwt]. apply Hm.
Qed.

Lemma framed_map_entry {K V} (km : wire_type -> K -> Z -> M K) (vm : wire_type -> V -> Z -> M V) kd vd ctx :
  (forall wt k c, framed (km wt k c)) -> (forall wt v c, framed (vm wt v c)) -> framed (map_entry_merge km vm kd vd ctx).
Proof.
  intros Hk Hv. unfold map_entry_merge. apply framed_bind; [apply framed_limit|]. intros _.
  apply framed_bind; [apply framed_enter|]. intros c. apply framed_merge_loop. intros [k v].
  apply framed_bind; [apply framed_decode_key|]. intros [tag wt].
  destruct (tag =? 1); [apply framed_bind; [apply Hk|intros; apply framed_ret]|].
  destruct (tag =? 2); [apply framed_bind; [apply Hv|intros; apply framed_ret]|].
  apply framed_bind; [apply framed_skip_field|intros; apply framed_ret].
Qed.

Section StepFramed.
  Variable rec : nat -> val -> Z -> wire_type -> Z -> M val.
  Variable dflt : ty -> val.
  Hypothesis rec_framed : forall i x tag wt c, framed (rec i x tag wt c).

  Lemma framed_merge_ty t wt x c : framed (merge_ty rec t wt x c).
  Proof.
    destruct t as [p|i]; cbn [merge_ty].
    - destruct (scalar_module p); [apply framed_merge_scalar|apply framed_fail].
    - apply framed_message_merge. intros. apply rec_framed.
  Qed.

  Lemma framed_merge_fieldval f x tag wt c : framed (merge_fieldval rec dflt f x tag wt c).
  Proof.
    destruct f as [t ty|t ty|t ty|t k vt|ms]; cbn [merge_fieldval].
    - apply framed_merge_ty.
    - apply framed_bind; [apply framed_merge_ty|intros; apply framed_ret].
    - destruct x as [z|l|k l]; try apply framed_fail. destruct k; try apply framed_fail.
      apply framed_bind; [|intros; apply framed_ret]. destruct ty as [p|i]; cbn [merge_rep].
      + destruct (scalar_module p); [apply framed_merge_repeated|apply framed_fail].
      + apply framed_bind; [apply framed_check|]. intros _.
        apply framed_bind; [apply framed_message_merge; intros; apply rec_framed|]. intros; apply framed_push.
    - destruct x as [z|l|k' l]; try apply framed_fail. destruct k'; try apply framed_fail.
      apply framed_bind; [|intros; apply framed_ret]. unfold merge_map.
      apply framed_bind; [apply framed_map_entry; intros; apply framed_merge_ty|]. intros kv.
      apply framed_bind; [apply framed_charge|intros; apply framed_ret].
    - unfold merge_oneof. destruct (find_member ms tag 0) as [[idx t]|]; [|apply framed_panic].
      apply framed_bind; [apply framed_merge_ty|intros; apply framed_ret].
  Qed.

  Lemma framed_merge_in_fields : forall fs xs tag wt c, framed (merge_in_fields rec dflt fs xs tag wt c).
  Proof.
    induction fs as [|f fs IH]; intros xs tag wt c; cbn [merge_in_fields].
    - apply framed_bind; [apply framed_skip_field|intros; apply framed_ret].
    - destruct xs as [|x xs]; [apply framed_bind; [apply framed_skip_field|intros; apply framed_ret]|].
      destruct (existsb _ _).
      + apply framed_bind; [apply framed_merge_fieldval|intros; apply framed_ret].
      + apply framed_bind; [apply IH|intros; apply framed_ret].
  Qed.
End StepFramed.

Theorem framed_merge_field : forall d sc i x tag wt c, framed (merge_field d sc i x tag wt c).
Proof.
  induction d as [|d IH]; intros sc i x tag wt c; cbn [merge_field]; [apply framed_fail|].
  destruct (nth_error sc i) as [fs|]; [|apply framed_fail].
  destruct x as [z|l|k xs]; try apply framed_fail. destruct k; try apply framed_fail.
  apply framed_bind; [|intros; apply framed_ret]. apply framed_merge_in_fields. intros. apply IH.
Qed.

(* ================================================================== B. Message::merge is a left fold *)
(* with enough fuel the amount of fuel is irrelevant (every iteration consumes at least one byte) *)
Lemma while_remaining_fuel {T} (body : T -> M T) limit : (forall v s, sound_prog s (body v s)) ->
  forall f1 f2 v s, (length (rb s) < f1)%nat -> (length (rb s) < f2)%nat ->
    while_remaining f1 limit body v s = while_remaining f2 limit body v s.
Proof.
  intros Hb. induction f1 as [|f1 IH]; intros f2 v s H1 H2; [lia|]. destruct f2 as [|f2]; [lia|].
  cbn [while_remaining]. destruct (Nat.ltb limit (length (rb s))); [|reflexivity].
  apply bind_ext_r. intros v' s' E. specialize (Hb v s). rewrite E in Hb. cbn in Hb. unfold st_lt in Hb.
  apply IH; lia.
Qed.

Lemma while_remaining_done {T} (body : T -> M T) : forall f v s v' s',
  while_remaining f 0 body v s = OOk v' s' -> rb s' = [].
Proof.
  induction f as [|f IH]; intros v s v' s' H; cbn [while_remaining] in H.
  - destruct (Nat.ltb_spec 0 (length (rb s))); [discriminate H|]. inversion H; subst. destruct (rb s'); [reflexivity|cbn in *; lia].
  - destruct (Nat.ltb_spec 0 (length (rb s))).
    + unfold bind in H. destruct (body v s) as [v1 s1|e1 s1|p]; try discriminate H. eapply IH; eauto.
    + inversion H; subst. destruct (rb s'); [reflexivity|cbn in *; lia].
Qed.

(* the records of b are merged first, then the loop goes on with what follows *)
Lemma while_remaining_concat {T} (body : T -> M T) :
  (forall v, framed (body v)) -> (forall v s, sound_prog s (body v s)) ->
  forall f v b a x s1 e f' f'',
    while_remaining f 0 body v (mkR b a) = OOk x s1 ->
    (length (b ++ e) < f')%nat -> (length e < f'')%nat ->
    while_remaining f' 0 body v (mkR (b ++ e) a) = while_remaining f'' 0 body x (mkR e (ra s1)).
Proof.
  intros Hfr Hb. induction f as [|f IH]; intros v b a x s1 e f' f'' H H1 H2.
  - cbn [while_remaining rb] in H. destruct (Nat.ltb_spec 0 (length b)); [discriminate H|]. inversion H; subst.
    destruct b; [|cbn in *; lia]. cbn [app ra]. apply while_remaining_fuel; auto.
  - cbn [while_remaining rb] in H. destruct (Nat.ltb_spec 0 (length b)).
    + destruct f' as [|f']; [lia|]. cbn [while_remaining rb]. rewrite app_length in *.
      replace (Nat.ltb 0 (length b + length e)) with true by (symmetry; apply Nat.ltb_lt; lia).
      unfold bind in H |- *. destruct (body v (mkR b a)) as [v1 s2|e1 s2|p] eqn:E; try discriminate H.
      pose proof (Hb v (mkR b a)) as Hp. rewrite E in Hp. cbn in Hp. unfold st_lt in Hp. cbn [rb] in Hp.
      rewrite (rd_eta s2) in E, H. rewrite (Hfr v _ _ _ _ _ e E).
      apply (IH v1 (rb s2) (ra s2) x s1 e f' f'' H); [rewrite app_length; lia|exact H2].
    + inversion H; subst. destruct b; [|cbn in *; lia]. cbn [app ra]. apply while_remaining_fuel; auto.
Qed.

Definition top_body (sc : schema) (i : nat) (x : val) : M val :=
  let+ (tag, wt) := decode_key in merge_field depth_fuel sc i x tag wt ctx_default.

Lemma top_body_framed sc i x : framed (top_body sc i x).
Proof. unfold top_body. apply framed_bind; [apply framed_decode_key|]. intros [tag wt]. apply framed_merge_field. Qed.

Lemma msg_merge_unfold sc i x s : msg_merge sc i x s = while_remaining (S (length (rb s))) 0 (top_body sc i) x s.
Proof. reflexivity. Qed.

(* C18_concat: for every schema, message, start value and ALL byte strings e1 that merge successfully *)
Theorem merge_concat sc i x0 e1 e2 a x s1 :
  msg_merge sc i x0 (mkR e1 a) = OOk x s1 ->
  msg_merge sc i x0 (mkR (e1 ++ e2) a) = msg_merge sc i x (mkR e2 (ra s1)).
Proof.
  intros H. rewrite !msg_merge_unfold in *. cbn [rb] in *.
  eapply while_remaining_concat; [apply top_body_framed|apply top_body_prog|exact H|lia|lia].
Qed.

Corollary decode_concat sc i e1 e2 a x s1 :
  msg_decode sc i (mkR e1 a) = OOk x s1 ->
  msg_decode sc i (mkR (e1 ++ e2) a) = msg_merge sc i x (mkR e2 (ra s1)).
Proof. apply merge_concat. Qed.

(* the same, in the bind form of the property text: merge_into x e2 ignores what is left of e1 (nothing) *)
Definition merge_into (sc : schema) (i : nat) (e2 : list byte) (x : val) : M val :=
  fun s => msg_merge sc i x (mkR e2 (ra s)).

Corollary decode_concat_bind sc i e1 e2 a : is_ok (msg_decode sc i (mkR e1 a)) = true ->
  msg_decode sc i (mkR (e1 ++ e2) a) = bind (msg_decode sc i) (merge_into sc i e2) (mkR e1 a).
Proof.
  intros H. unfold bind. destruct (msg_decode sc i (mkR e1 a)) as [x s1|e s1|p] eqn:E; try discriminate H.
  unfold merge_into. apply decode_concat. exact E.
Qed.

(* a successful merge consumed everything *)
Lemma msg_merge_ok_empty sc i x0 s x s1 : msg_merge sc i x0 s = OOk x s1 -> rb s1 = [].
Proof. rewrite msg_merge_unfold. apply while_remaining_done. Qed.

(* ... and left a message value if it started from one *)
Lemma merge_field_ok_shape d sc i x tag wt c s x' s' : merge_field d sc i x tag wt c s = OOk x' s' -> exists xs, x' = VL NMsg xs.
Proof.
  destruct d as [|d]; [discriminate|]. cbn [merge_field]. destruct (nth_error sc i); [|discriminate].
  destruct x as [z|l|k xs]; try discriminate. destruct k; try discriminate.
  unfold bind. destruct (merge_in_fields _ _ _ _ _ _ _ _) as [xs' s2|e s2|p]; try discriminate.
  unfold ret. intros H. inversion H. eauto.
Qed.

Lemma while_remaining_inv {T} (body : T -> M T) (P : T -> Prop) limit :
  (forall v s v' s', body v s = OOk v' s' -> P v') ->
  forall f v s v' s', P v -> while_remaining f limit body v s = OOk v' s' -> P v'.
Proof.
  intros Hb. induction f as [|f IH]; intros v s v' s' Hv H; cbn [while_remaining] in H.
  - destruct (Nat.ltb limit (length (rb s))); [discriminate H|]. inversion H; subst. exact Hv.
  - destruct (Nat.ltb limit (length (rb s))).
    + unfold bind in H. destruct (body v s) as [v1 s1|e1 s1|p] eqn:E; try discriminate H.
      eapply IH; [|exact H]. eapply Hb; eauto.
    + inversion H; subst. exact Hv.
Qed.

Lemma msg_merge_ok_shape sc i x0 s x s1 : (exists xs, x0 = VL NMsg xs) -> msg_merge sc i x0 s = OOk x s1 -> exists xs, x = VL NMsg xs.
Proof.
  intros H0 H. rewrite msg_merge_unfold in H.
  eapply (while_remaining_inv (top_body sc i) (fun v => exists xs, v = VL NMsg xs)); [|exact H0|exact H].
  intros v s' v' s'' E. unfold top_body, bind in E. destruct (decode_key s') as [[tag wt] s2|e s2|p]; try discriminate E.
  eapply merge_field_ok_shape; eauto.
Qed.

Lemma default_msg_shape d sc i : exists xs, default_msg d sc i = VL NMsg xs.
Proof. destruct d; cbn [default_msg]; [eauto|]. destruct (nth_error sc i); eauto. Qed.

(* ================================================================== C. skip_field consumes exactly one record *)
(* what can follow a key: the payload of an unknown field *)
Inductive upay := UVarint (v : Z) | U64 (bs : list byte) | U32 (bs : list byte) | ULen (bs : list byte)
                | UGroup (inner : list (Z * upay)).

Definition wt_of (u : upay) : wire_type :=
  match u with UVarint _ => Varint | U64 _ => SixtyFourBit | U32 _ => ThirtyTwoBit | ULen _ => LengthDelimited | UGroup _ => StartGroup end.

(* the bytes after the key (a group ends with its EndGroup key) *)
Fixpoint enc_upay (tag : Z) (u : upay) : list byte :=
  match u with
  | UVarint v => encode_varint v
  | U64 bs | U32 bs => bs
  | ULen bs => encode_varint (zlen bs) ++ bs
  | UGroup inner =>
      (fix go (l : list (Z * upay)) : list byte :=
         match l with
         | [] => []
         | (t, u') :: l' => encode_key t (wt_of u') ++ enc_upay t u' ++ go l'
         end) inner ++ encode_key tag EndGroup
  end.

Fixpoint enc_urecs (l : list (Z * upay)) : list byte :=
  match l with
  | [] => []
  | (t, u') :: l' => encode_key t (wt_of u') ++ enc_upay t u' ++ enc_urecs l'
  end.

Definition urecord (t : Z) (u : upay) : list byte := encode_key t (wt_of u) ++ enc_upay t u.

Lemma enc_upay_group tag inner : enc_upay tag (UGroup inner) = enc_urecs inner ++ encode_key tag EndGroup.
Proof. reflexivity. Qed.

(* units of the recursion budget the record needs: skip_field tests the limit for every field (scalars
   included) and every group level takes one more *)
Fixpoint ulevels (u : upay) : Z :=
  match u with
  | UGroup inner => 1 + (fix mx (l : list (Z * upay)) : Z := match l with [] => 0 | (_, u') :: l' => Z.max (ulevels u') (mx l') end) inner
  | _ => 1
  end.

Fixpoint uwf (u : upay) : Prop :=
  match u with
  | UVarint v => 0 <= v < two64
  | U64 bs => length bs = 8%nat
  | U32 bs => length bs = 4%nat
  | ULen bs => zlen bs < two64
  | UGroup inner => (fix all (l : list (Z * upay)) : Prop := match l with [] => True | (t, u') :: l' => tag_ok t /\ uwf u' /\ all l' end) inner
  end.

Lemma upay_ind' (P : upay -> Prop) :
  (forall v, P (UVarint v)) -> (forall bs, P (U64 bs)) -> (forall bs, P (U32 bs)) -> (forall bs, P (ULen bs)) ->
  (forall inner, Forall (fun tu => P (snd tu)) inner -> P (UGroup inner)) -> forall u, P u.
Proof.
  intros H1 H2 H3 H4 H5. fix IH 1. intros [v|bs|bs|bs|inner]; [apply H1|apply H2|apply H3|apply H4|].
  apply H5. induction inner as [|[t u'] l IHl]; constructor; [apply IH|exact IHl].
Qed.

Lemma ulevels_pos u : 1 <= ulevels u.
Proof.
  destruct u as [v|bs|bs|bs|inner]; cbn [ulevels]; try lia.
  induction inner as [|[t u'] l IHl]; [lia|]. lia.
Qed.

Lemma skip_tail_ok len s : 0 <= len <= Z.of_nat (length (rb s)) ->
  (let+ rem := remaining in if Z.of_nat rem <? len then fail PUnderflow else advance (Z.to_nat len)) s
  = OOk tt (mkR (skipn (Z.to_nat len) (rb s)) (ra s)).
Proof.
  intros H. unfold bind, remaining, advance. replace (Z.of_nat (length (rb s)) <? len) with false by lia.
  replace (Nat.ltb (length (rb s)) (Z.to_nat len)) with false by (symmetry; apply Nat.ltb_ge; lia). reflexivity.
Qed.

Lemma skipn_app_exact (p r : list byte) n : n = length p -> skipn n (p ++ r) = r.
Proof. intros ->. rewrite skipn_app, Nat.sub_diag, skipn_all, skipn_O. reflexivity. Qed.

Lemma limit_ok ctx s : ctx <> 0 -> limit_reached ctx s = OOk tt s.
Proof. intros H. unfold limit_reached. replace (ctx =? 0) with false by lia. reflexivity. Qed.

Lemma enter_ok ctx s : 1 <= ctx -> enter_recursion ctx s = OOk (ctx - 1) s.
Proof. intros H. unfold enter_recursion. replace (ctx <? 1) with false by lia. reflexivity. Qed.

Lemma wt_of_not_end u : wt_of u <> EndGroup.
Proof. destruct u; discriminate. Qed.

(* every wire type; groups well nested; within the budget: consumes exactly the record, charges nothing *)
Theorem skip_field_exact : forall u tag ctx d r a,
  uwf u -> tag_ok tag -> ulevels u <= ctx -> ctx < Z.of_nat d ->
  skip_field d (wt_of u) tag ctx (mkR (enc_upay tag u ++ r) a) = OOk tt (mkR r a).
Proof.
  induction u as [v|bs|bs|bs|inner IHin] using upay_ind'; intros tag ctx d r a Hwf Htag Hlv Hd;
    match goal with H : ulevels ?u0 <= _ |- _ => pose proof (ulevels_pos u0) as Hpos end;
    (destruct d as [|d]; [lia|]);
    cbn [skip_field wt_of]; cbn [ulevels] in Hlv; cbn [uwf] in Hwf.
  - rewrite (bind_ok _ _ _ _ _ (limit_ok ctx _ ltac:(lia))). cbn [enc_upay].
    assert (E : (let+ _ := decode_varint in ret 0) (mkR (encode_varint v ++ r) a) = OOk 0 (mkR r a))
      by (rewrite (bind_ok _ _ _ _ _ (decode_varint_rt v r a Hwf)); reflexivity).
    rewrite (bind_ok _ _ _ _ _ E).
    rewrite skip_tail_ok by (cbn [rb]; lia). reflexivity.
  - rewrite (bind_ok _ _ _ _ _ (limit_ok ctx _ ltac:(lia))). cbn [enc_upay]. unfold ret at 1. unfold bind at 1.
    rewrite skip_tail_ok by (cbn [rb]; rewrite app_length; change skip_width64 with 8; lia).
    cbn [rb ra]. rewrite skipn_app_exact by (change skip_width64 with 8; lia). reflexivity.
  - rewrite (bind_ok _ _ _ _ _ (limit_ok ctx _ ltac:(lia))). cbn [enc_upay]. unfold ret at 1. unfold bind at 1.
    rewrite skip_tail_ok by (cbn [rb]; rewrite app_length; change skip_width32 with 4; lia).
    cbn [rb ra]. rewrite skipn_app_exact by (change skip_width32 with 4; lia). reflexivity.
  - rewrite (bind_ok _ _ _ _ _ (limit_ok ctx _ ltac:(lia))). cbn [enc_upay]. rewrite <- app_assoc.
    pose proof (zlen_nonneg bs).
    rewrite (bind_ok _ _ _ _ _ (decode_varint_rt (zlen bs) _ a ltac:(lia))).
    rewrite skip_tail_ok by (cbn [rb]; rewrite app_length; unfold zlen; lia).
    cbn [rb ra]. rewrite skipn_app_exact by (unfold zlen; lia). reflexivity.
  - assert (Hc : 2 <= ctx \/ inner = []).
    { destruct inner as [|[t0 u0] l]; [auto|left]. pose proof (ulevels_pos u0). lia. }
    assert (Hc1 : 1 <= ctx).
    { destruct Hc as [?| ->]; lia. }
    rewrite (bind_ok _ _ _ _ _ (limit_ok ctx _ ltac:(lia))). rewrite enc_upay_group, <- app_assoc.
    assert (Hloop : forall f inner' , (length (enc_urecs inner') < f)%nat ->
      Forall (fun tu => forall tag ctx d r a, uwf (snd tu) -> tag_ok tag -> ulevels (snd tu) <= ctx -> ctx < Z.of_nat d ->
                 skip_field d (wt_of (snd tu)) tag ctx (mkR (enc_upay tag (snd tu) ++ r) a) = OOk tt (mkR r a)) inner' ->
      (fix all (l : list (Z * upay)) : Prop := match l with [] => True | (t, u') :: l' => tag_ok t /\ uwf u' /\ all l' end) inner' ->
      (fix mx (l : list (Z * upay)) : Z := match l with [] => 0 | (_, u') :: l' => Z.max (ulevels u') (mx l') end) inner' <= ctx - 1 ->
      group_loop_f f tag (fun (_ : unit) itag iwt => let+ ctx' := enter_recursion ctx in skip_field d iwt itag ctx') tt
        (mkR (enc_urecs inner' ++ encode_key tag EndGroup ++ r) a) = OOk tt (mkR r a)).
    { induction f as [|f IHf]; intros inner' Hf Hall Hw Hm; [lia|]. cbn [group_loop_f].
      destruct inner' as [|[t u'] l].
      - cbn [enc_urecs app]. rewrite (bind_ok _ _ _ _ _ (decode_key_rt tag EndGroup r a Htag)).
        rewrite Z.eqb_refl. reflexivity.
      - cbn [enc_urecs]. rewrite <- !app_assoc. destruct Hw as (Ht & Hu & Hw). inversion Hall as [|? ? Hhd Htl]; subst.
        cbn [snd] in Hhd.
        rewrite (bind_ok _ _ _ _ _ (decode_key_rt t (wt_of u') _ a Ht)).
        assert (Hbody : (let+ ctx' := enter_recursion ctx in skip_field d (wt_of u') t ctx')
                          (mkR (enc_upay t u' ++ enc_urecs l ++ encode_key tag EndGroup ++ r) a)
                        = OOk tt (mkR (enc_urecs l ++ encode_key tag EndGroup ++ r) a)).
        { rewrite (bind_ok _ _ _ _ _ (enter_ok ctx _ Hc1)). apply Hhd; auto; lia. }
        assert (Hrest : group_loop_f f tag (fun (_ : unit) itag iwt => let+ ctx' := enter_recursion ctx in skip_field d iwt itag ctx') tt
                          (mkR (enc_urecs l ++ encode_key tag EndGroup ++ r) a) = OOk tt (mkR r a)).
        { apply IHf; auto; [|lia]. cbn [enc_urecs] in Hf. rewrite !app_length in Hf.
          pose proof (encode_key_nonempty t (wt_of u')). destruct (encode_key t (wt_of u')); [congruence|cbn [length] in Hf; lia]. }
        pose proof (wt_of_not_end u') as Hne.
        destruct (wt_of u'); try congruence; rewrite (bind_ok _ _ _ _ _ Hbody); exact Hrest. }
    match goal with |- context [group_loop tag ?B tt] =>
      assert (E : (let+ _ := group_loop tag B tt in ret 0) (mkR (enc_urecs inner ++ encode_key tag EndGroup ++ r) a) = OOk 0 (mkR r a))
    end.
    { unfold group_loop. unfold bind at 1. unfold bind at 1. rewrite remaining_eq. cbn [rb].
      rewrite Hloop; [reflexivity|rewrite !app_length; lia|exact IHin|exact Hwf|lia]. }
    rewrite (bind_ok _ _ _ _ _ E).
    rewrite skip_tail_ok by (cbn [rb]; lia). reflexivity.
Qed.

(* ================================================================== D. unknown fields are ignored *)
Lemma merge_in_fields_unknown rec dflt tag wt ctx s : forall fs xs, find_field fs tag = None ->
  merge_in_fields rec dflt fs xs tag wt ctx s = (let+ _ := skip_field depth_fuel wt tag ctx in ret xs) s.
Proof.
  induction fs as [|f fs IH]; intros xs H; cbn [find_field] in H; cbn [merge_in_fields]; [reflexivity|].
  destruct xs as [|x xs]; [reflexivity|]. destruct (existsb (Z.eqb tag) (field_tags f)); [discriminate|].
  unfold bind at 1. rewrite IH by exact H. unfold bind. destruct (skip_field depth_fuel wt tag ctx s); reflexivity.
Qed.

Lemma merge_field_unknown d (sc : schema) i (fs : msgdesc) xs t wt c s :
  nth_error sc i = Some fs -> find_field fs t = None ->
  merge_field (S d) sc i (VL NMsg xs) t wt c s = (let+ _ := skip_field depth_fuel wt t c in ret (VL NMsg xs)) s.
Proof.
  intros Hn Hf. cbn [merge_field]. rewrite Hn. unfold bind at 1. rewrite merge_in_fields_unknown by exact Hf.
  unfold bind. destruct (skip_field depth_fuel wt t c s); reflexivity.
Qed.

(* one loop iteration at any budget c: the unknown record is consumed, the value is untouched, nothing is charged *)
Lemma record_body_unknown d (sc : schema) i (fs : msgdesc) xs t u c tail a :
  nth_error sc i = Some fs -> find_field fs t = None -> tag_ok t -> uwf u -> ulevels u <= c <= recursion_limit ->
  (let+ (tag, wt) := decode_key in merge_field (S d) sc i (VL NMsg xs) tag wt c) (mkR (urecord t u ++ tail) a)
  = OOk (VL NMsg xs) (mkR tail a).
Proof.
  intros Hn Hf Ht Hu Hc. unfold urecord. rewrite <- app_assoc.
  rewrite (bind_ok _ _ _ _ _ (decode_key_rt t (wt_of u) _ a Ht)).
  rewrite (merge_field_unknown d sc i fs xs t (wt_of u) c _ Hn Hf).
  rewrite (bind_ok _ _ _ _ _ (skip_field_exact u t c depth_fuel tail a Hu Ht ltac:(lia) ltac:(unfold depth_fuel; lia))).
  reflexivity.
Qed.

Lemma urecord_nonempty t u : urecord t u <> [].
Proof. unfold urecord. intros H. apply app_eq_nil in H. destruct H as [H _]. exact (encode_key_nonempty _ _ H). Qed.

Lemma top_body_unknown (sc : schema) i (fs : msgdesc) xs t u tail a :
  nth_error sc i = Some fs -> find_field fs t = None -> tag_ok t -> uwf u -> ulevels u <= recursion_limit ->
  top_body sc i (VL NMsg xs) (mkR (urecord t u ++ tail) a) = OOk (VL NMsg xs) (mkR tail a).
Proof.
  intros. unfold top_body, depth_fuel. eapply record_body_unknown; eauto.
  unfold ctx_default. pose proof recursion_limit_nonneg. lia.
Qed.

Lemma while_remaining_step {T} (body : T -> M T) f limit v s v' s' :
  (limit < length (rb s))%nat -> body v s = OOk v' s' ->
  while_remaining (S f) limit body v s = while_remaining f limit body v' s'.
Proof.
  intros Hl Hb. cbn [while_remaining]. replace (Nat.ltb limit (length (rb s))) with true by (symmetry; apply Nat.ltb_lt; lia).
  rewrite (bind_ok _ _ _ _ _ Hb). reflexivity.
Qed.

(* one iteration of Message::merge *)
Lemma msg_merge_step sc i x R tail a x' a' : R <> [] ->
  top_body sc i x (mkR (R ++ tail) a) = OOk x' (mkR tail a') ->
  msg_merge sc i x (mkR (R ++ tail) a) = msg_merge sc i x' (mkR tail a').
Proof.
  intros Hne H. rewrite !msg_merge_unfold. cbn [rb].
  assert (Hlen : (length tail < length (R ++ tail))%nat) by (rewrite app_length; destruct R; [congruence|cbn [length]; lia]).
  assert (Hlt : (0 < length (rb (mkR (R ++ tail) a)))%nat) by (cbn [rb]; lia).
  rewrite (while_remaining_step _ _ _ _ _ _ _ Hlt H).
  apply while_remaining_fuel; [intros; apply top_body_prog|cbn [rb]; lia|cbn [rb]; lia].
Qed.

(* C18_unknown (top level): a well-formed record of an undeclared field -- any wire type, groups well nested,
   within the budget -- inserted at (or deleted from) a record boundary does not change the result *)
Theorem unknown_insert (sc : schema) i (fs : msgdesc) x0 e1 e2 t u a x s1 :
  nth_error sc i = Some fs -> find_field fs t = None -> tag_ok t -> uwf u -> ulevels u <= recursion_limit ->
  (exists xs0, x0 = VL NMsg xs0) ->
  msg_merge sc i x0 (mkR e1 a) = OOk x s1 ->
  msg_merge sc i x0 (mkR (e1 ++ urecord t u ++ e2) a) = msg_merge sc i x0 (mkR (e1 ++ e2) a).
Proof.
  intros Hn Hf Ht Hu Hl Hx0 H. rewrite (merge_concat sc i x0 e1 _ a x s1 H), (merge_concat sc i x0 e1 e2 a x s1 H).
  destruct (msg_merge_ok_shape sc i x0 _ x s1 Hx0 H) as [xs ->].
  apply msg_merge_step; [apply urecord_nonempty|]. eapply top_body_unknown; eauto.
Qed.

Corollary unknown_insert_decode (sc : schema) i (fs : msgdesc) e1 e2 t u a :
  nth_error sc i = Some fs -> find_field fs t = None -> tag_ok t -> uwf u -> ulevels u <= recursion_limit ->
  is_ok (msg_decode sc i (mkR e1 a)) = true ->
  msg_decode sc i (mkR (e1 ++ urecord t u ++ e2) a) = msg_decode sc i (mkR (e1 ++ e2) a).
Proof.
  intros Hn Hf Ht Hu Hl Hok. destruct (msg_decode sc i (mkR e1 a)) as [x s1|e s1|p] eqn:E; try discriminate Hok.
  eapply unknown_insert; eauto. apply default_msg_shape.
Qed.

(* the same inside any record loop (embedded message bodies, at budget c): limit = what lies behind the body *)
Lemma record_loop_unknown d (sc : schema) i (fs : msgdesc) xs t u c tail a limit f f' :
  nth_error sc i = Some fs -> find_field fs t = None -> tag_ok t -> uwf u -> ulevels u <= c <= recursion_limit ->
  c < Z.of_nat (S d) -> (limit <= length tail)%nat -> (length (urecord t u ++ tail) < f)%nat -> (length tail < f')%nat ->
  while_remaining f limit (fun x => let+ (tag, wt) := decode_key in merge_field (S d) sc i x tag wt c) (VL NMsg xs)
    (mkR (urecord t u ++ tail) a)
  = while_remaining f' limit (fun x => let+ (tag, wt) := decode_key in merge_field (S d) sc i x tag wt c) (VL NMsg xs)
    (mkR tail a).
Proof.
  intros Hn Hf Ht Hu Hc Hd Hl H1 H2. destruct f as [|f]; [lia|].
  pose proof (urecord_nonempty t u) as Hne.
  assert (Hlen : (length tail < length (urecord t u ++ tail))%nat)
    by (rewrite app_length; destruct (urecord t u); [congruence|cbn [length]; lia]).
  assert (Hlt : (limit < length (rb (mkR (urecord t u ++ tail) a)))%nat) by (cbn [rb]; lia).
  rewrite (while_remaining_step _ _ _ _ _ _ _ Hlt (record_body_unknown d sc i fs xs t u c tail a Hn Hf Ht Hu Hc)).
  apply while_remaining_fuel; [|cbn [rb]; lia|cbn [rb]; lia].
  intros v s. apply sound_prog_bind_l; [apply sound_prog_decode_key|]. intros [tag wt] s' _.
  pose proof (ulevels_pos u). apply merge_field_sound; lia.
Qed.

(* ================================================================== E. F-18a: not at the depth limit *)
(* Full statement that does NOT hold: for every accepted nest (path_cost path <= recursion_limit) and every
   unknown record u with ulevels u <= recursion_limit, inserting u into the innermost message leaves the result
   unchanged.  skip_field tests the budget for every unknown field, scalars included, so inside the 100th level
   (budget 0) even an unknown varint is rejected.  What holds is the bound ulevels u <= budget at that level
   (record_loop_unknown).  Witness: *)
Theorem unknown_at_limit_refuted :
  let u := UVarint 5 in let t := 77 in let path := repeat (PMsg 2) 100 in
  uwf u /\ tag_ok t /\ ulevels u = 1 /\ find_field [FSingular 1 (TScalar TYPE_INT32); FOptional 2 (TMsg 0); FMap 4 TYPE_STRING (TMsg 0)] t = None /\
  path_cost path = recursion_limit /\
  is_ok (msg_decode tree_schema 0 (mkR (nest path []) 0)) = true /\
  exists s', msg_decode tree_schema 0 (mkR (nest path (urecord t u)) 0) = OErr PRecursion s'.
Proof.
  cbv zeta. split; [vm_compute; split; congruence|]. split; [unfold tag_ok; vm_compute; split; congruence|].
  split; [reflexivity|]. split; [reflexivity|]. split; [vm_compute; reflexivity|]. split; [vm_compute; reflexivity|].
  eexists. vm_compute. reflexivity.
Qed.

(* one level above the limit the same insertion is harmless (so the witness is about the limit, not about nesting) *)
Example unknown_below_limit_ok :
  msg_decode tree_schema 0 (mkR (nest (repeat (PMsg 2) 99) (urecord 77 (UVarint 5))) 0)
  = msg_decode tree_schema 0 (mkR (nest (repeat (PMsg 2) 99) []) 0).
Proof. vm_compute. reflexivity. Qed.

Example unknown_insert_nonvacuous :
  let g := UGroup [(5, UVarint 300); (6, UGroup [(7, ULen [x01; x02])]); (8, U32 [x00; x00; x80; x3f])] in
  uwf g /\ ulevels g = 3 /\
  msg_decode tree_schema 0 (mkR ([x08; x07] ++ urecord 9 g ++ [x08; x09]) 0) = msg_decode tree_schema 0 (mkR ([x08; x07] ++ [x08; x09]) 0) /\
  is_ok (msg_decode tree_schema 0 (mkR ([x08; x07] ++ [x08; x09]) 0)) = true.
Proof. cbv zeta. split; [vm_compute; repeat split; congruence|]. split; [reflexivity|]. split; vm_compute; reflexivity. Qed.
