(* Specification side of C13 (unknown-field retention, binary protocols).  As in EvoSpec.v the writer is
   represented by the self-describing value tree it puts on the wire; [c] is the writer's protocol context (the binary
   protocols never change it) and [k] its buffer kind.

     fbytes p k c id x      the bytes the runtime writer emits for the field (id, x): header + value (+ nothing for
                            field end) -- "exactly one field's encoding"
     viewk S p k c t v      the value a reader with schema S built WITH keep_unknown_fields must produce: [view] of
                            EvoSpec.v, plus, in every struct whose declaration keeps, the encodings of the fields the
                            reader ignores, in wire order; a keeping union made of one ignored field becomes
                            `_UnknownFields`
     reenc S p t v          the value tree a self-describing reader must find in the RE-ENCODED message: per keeping
                            struct the known fields (declaration order, defaults filled) followed by the ignored fields
                            exactly as they were, in wire order
     strip                  a decoded value without its retained chunks
     no_keep_arg S          no declaration has both keep and is_arg (finding F-13a: such types swallow the rest of the
                            buffer)
   Executable Gallina only (no proofs). *)
From PVGen Require Export Gen GenKeep GenSpec EvoSpec.
Open Scope Z_scope.

Definition fbytes (p : pk) (k : bk) (c : wctx) (id : Z) (x : tval) : list byte :=
  match (w_field_begin p (ttype_of x) id ;; write_val p k x ;; w_field_end p) c with
  | Ok (ss, _) => flat ss
  | _ => []
  end.

Definition no_keep_arg (S : schema) : bool :=
  forallb (fun d => match d with DStruct _ true true => false | _ => true end) S.

Fixpoint strip (v : gval) : gval :=
  match v with
  | GList l => GList (map strip l)
  | GSet l => GSet (map strip l)
  | GMap l => GMap (map (fun q => (strip (fst q), strip (snd q))) l)
  | GStruct fs _ => GStruct (map (fun q => (fst q, strip (snd q))) fs) []
  | GUnion id x => GUnion id (strip x)
  | _ => v
  end.

(* all retained chunks of a decoded value *)
Fixpoint chunks_of (v : gval) : list (list byte) :=
  match v with
  | GList l | GSet l => flat_map chunks_of l
  | GMap l => flat_map (fun q => chunks_of (fst q) ++ chunks_of (snd q)) l
  | GStruct fs unk => flat_map (fun q => chunks_of (snd q)) fs ++ unk
  | GUnion _ x => chunks_of x
  | GUnionUnknown u => [u]
  | _ => []
  end.

Section Keep.
  Variable S : schema.
  Variable p : pk.
  Variable k : bk.
  Variable c : wctx.

  (* the known variant by id only, as the union template matches (F-08a is excluded separately by no_retyped_variant) *)
  Definition variant_by_id (vs : list (Z * ty)) (id : Z) : option ty :=
    match find_variant vs id with
    | Some vt => if is_void (resolve S vt) then None else Some vt
    | None => None
    end.

  Definition union_resultk (vs : list (Z * ty)) (void_ok : bool) (ret : uret) : res gval :=
    match ret with
    | UKnown id y => Ok (GUnion id y)
    | UUnknown u => Ok (GUnionUnknown u)
    | UNone =>
        if void_ok then
          match vs with
          | (id0, _) :: _ => Ok (GUnion id0 GVoid)
          | [] => Err EInvalidData
          end
        else Err EInvalidData
    end.

  Fixpoint viewk (t : ty) (v : tval) {struct v} : res gval :=
    match v with
    | VBool b => match resolve S t with TyBool => Ok (GBool b) | _ => Err EOther end
    | VI8 z => match resolve S t with TyI8 => Ok (GI8 z) | _ => Err EOther end
    | VI16 z => match resolve S t with TyI16 => Ok (GI16 z) | _ => Err EOther end
    | VI32 z =>
        match resolve S t with
        | TyI32 => Ok (GI32 z)
        | TyRef n => match lookup S n with Some (DEnum _) => Ok (GEnum z) | _ => Err EOther end
        | _ => Err EOther
        end
    | VI64 z => match resolve S t with TyI64 => Ok (GI64 z) | _ => Err EOther end
    | VDouble b => match resolve S t with TyDouble => Ok (GDouble b) | _ => Err EOther end
    | VBinary l => match resolve S t with TyString | TyBinary => Ok (GBytes l) | _ => Err EOther end
    | VUuid l => match resolve S t with TyUuid => Ok (GUuid l) | _ => Err EOther end
    | VList _ l =>
        match resolve S t with
        | TyList et =>
            let* ys := (fix go (l : list tval) : res (list gval) :=
                          match l with
                          | [] => Ok []
                          | x :: r => let* y := viewk et x in let* ys := go r in Ok (y :: ys)
                          end) l in
            Ok (GList ys)
        | _ => Err EOther
        end
    | VSet _ l =>
        match resolve S t with
        | TySet et =>
            let* ys := (fix go (l : list tval) : res (list gval) :=
                          match l with
                          | [] => Ok []
                          | x :: r => let* y := viewk et x in let* ys := go r in Ok (y :: ys)
                          end) l in
            Ok (GSet ys)
        | _ => Err EOther
        end
    | VMap _ _ l =>
        match resolve S t with
        | TyMap kt vt =>
            let* ys := (fix go (l : list (tval * tval)) : res (list (gval * gval)) :=
                          match l with
                          | [] => Ok []
                          | (a, b) :: r =>
                              let* a' := viewk kt a in let* b' := viewk vt b in let* ys := go r in Ok ((a', b') :: ys)
                          end) l in
            Ok (GMap ys)
        | _ => Err EOther
        end
    | VStruct fs =>
        match resolve S t with
        | TyRef n =>
            match lookup S n with
            | Some (DStruct dfs keep _) =>
                let* r :=
                  (fix go (fs : list (Z * tval)) (vars : list (option gval)) (unk : list (list byte)) {struct fs}
                     : res (list (option gval) * list (list byte)) :=
                     match fs with
                     | [] => Ok (vars, unk)
                     | (id, x) :: r =>
                         match match_field S dfs O (Some id) (ttype_of x) with
                         | Some (i, f) => let* y := viewk (f_ty f) x in go r (set_nth i (Some y) vars) unk
                         | None => go r vars (if keep then unk ++ [fbytes p k c id x] else unk)
                         end
                     end) fs (map init_var dfs) [] in
                let* out := finish_fields dfs (fst r) in
                Ok (GStruct out (snd r))
            | Some (DUnion vs void_ok true) =>
                let* ret :=
                  (fix go (fs : list (Z * tval)) (ret : uret) {struct fs} : res uret :=
                     match fs with
                     | [] => Ok ret
                     | (id, x) :: r =>
                         match variant_by_id vs id with
                         | Some vt =>
                             match ret with
                             | UNone => let* y := viewk vt x in go r (UKnown id y)
                             | _ => Err EInvalidData
                             end
                         | None =>
                             match ret with
                             | UNone => go r (UUnknown (fbytes p k c id x))
                             | _ => Err EInvalidData
                             end
                         end
                     end) fs UNone in
                union_resultk vs void_ok ret
            | Some (DUnion vs void_ok false) =>
                let* ret :=
                  (fix go (fs : list (Z * tval)) (ret : option (Z * gval)) {struct fs} : res (option (Z * gval)) :=
                     match fs with
                     | [] => Ok ret
                     | (id, x) :: r =>
                         match variant_by_id vs id with
                         | Some vt =>
                             match ret with
                             | None => let* y := viewk vt x in go r (Some (id, y))
                             | Some _ => Err EInvalidData
                             end
                         | None => go r ret
                         end
                     end) fs None in
                match ret with
                | Some (id, y) => Ok (GUnion id y)
                | None =>
                    if void_ok then
                      match vs with
                      | (id0, _) :: _ => Ok (GUnion id0 GVoid)
                      | [] => Err EInvalidData
                      end
                    else Err EInvalidData
                end
            | _ => Err EOther
            end
        | _ => Err EOther
        end
    end.
End Keep.

(* a keeping union that consists of ignored fields only: the keep build yields `_UnknownFields` where the plain
   build reports an empty union -- the one place where retention is visible in the decoded value *)
Fixpoint no_unknown_variant (v : gval) : bool :=
  match v with
  | GList l | GSet l => forallb no_unknown_variant l
  | GMap l => forallb (fun q => no_unknown_variant (fst q) && no_unknown_variant (snd q)) l
  | GStruct fs _ => forallb (fun q => no_unknown_variant (snd q)) fs
  | GUnion _ x => no_unknown_variant x
  | GUnionUnknown _ => false
  | _ => true
  end.

(* every uuid payload has 16 bytes (the Rust type is [u8; 16]) *)
Fixpoint uuids_ok (v : gval) : bool :=
  match v with
  | GUuid l => Nat.eqb (length l) 16
  | GList l | GSet l => forallb uuids_ok l
  | GMap l => forallb (fun q => uuids_ok (fst q) && uuids_ok (snd q)) l
  | GStruct fs _ => forallb (fun q => uuids_ok (snd q)) fs
  | GUnion _ x => uuids_ok x
  | _ => true
  end.

(* every keeping union along the known fields carries no field, or exactly one field whose id the reader knows (what a
   writer of a schema whose union variants the reader all knows produces) *)
Section Single.
  Variable S : schema.

  Fixpoint unions_single (t : ty) (v : tval) {struct v} : bool :=
    match v with
    | VList _ l =>
        match resolve S t with
        | TyList et => (fix go (l : list tval) : bool := match l with [] => true | x :: r => unions_single et x && go r end) l
        | _ => true
        end
    | VSet _ l =>
        match resolve S t with
        | TySet et => (fix go (l : list tval) : bool := match l with [] => true | x :: r => unions_single et x && go r end) l
        | _ => true
        end
    | VMap _ _ l =>
        match resolve S t with
        | TyMap kt vt =>
            (fix go (l : list (tval * tval)) : bool :=
               match l with [] => true | (a, b) :: r => unions_single kt a && unions_single vt b && go r end) l
        | _ => true
        end
    | VStruct fs =>
        match resolve S t with
        | TyRef n =>
            match lookup S n with
            | Some (DStruct dfs _ _) =>
                (fix go (fs : list (Z * tval)) : bool :=
                   match fs with
                   | [] => true
                   | (id, x) :: r =>
                       match match_field S dfs O (Some id) (ttype_of x) with
                       | Some (_, f) => unions_single (f_ty f) x
                       | None => true
                       end && go r
                   end) fs
            | Some (DUnion vs _ true) =>
                match fs with
                | [] => true
                | [(id, x)] => match variant_by_id S vs id with Some vt => unions_single vt x | None => false end
                | _ => false
                end
            | Some (DUnion vs _ false) =>
                (fix go (fs : list (Z * tval)) : bool :=
                   match fs with
                   | [] => true
                   | (id, x) :: r =>
                       match variant_by_id S vs id with
                       | Some vt => unions_single vt x
                       | None => true
                       end && go r
                   end) fs
            | _ => true
            end
        | _ => true
        end
    | _ => true
    end.
End Single.

(* ---------- what a self-describing reader must find in the re-encoded message ---------- *)
Section Reenc.
  Variable S : schema.

  Definition init_tvar (f : field) : option tval := option_map (to_tval S (f_ty f)) (init_var f).

  (* finish_fields on value trees: set variables, IDL defaults, nothing for empty optionals *)
  Fixpoint finish_tv (fs : list field) (tvars : list (option tval)) : list (Z * tval) :=
    match fs, tvars with
    | [], _ => []
    | f :: ft, v :: vt =>
        match v with
        | Some x => (f_id f, x) :: finish_tv ft vt
        | None =>
            match f_dflt f with
            | Some (_, d) => (f_id f, to_tval S (f_ty f) d) :: finish_tv ft vt
            | None => finish_tv ft vt
            end
        end
    | _ :: _, [] => []
    end.

  Fixpoint reenc (t : ty) (v : tval) {struct v} : tval :=
    match v with
    | VList _ l =>
        match resolve S t with
        | TyList et =>
            VList (ttype_of_ty S et) ((fix go (l : list tval) : list tval := match l with [] => [] | x :: r => reenc et x :: go r end) l)
        | _ => v
        end
    | VSet _ l =>
        match resolve S t with
        | TySet et =>
            VSet (ttype_of_ty S et) ((fix go (l : list tval) : list tval := match l with [] => [] | x :: r => reenc et x :: go r end) l)
        | _ => v
        end
    | VMap _ _ l =>
        match resolve S t with
        | TyMap kt vt =>
            VMap (ttype_of_ty S kt) (ttype_of_ty S vt)
              ((fix go (l : list (tval * tval)) : list (tval * tval) :=
                  match l with [] => [] | (a, b) :: r => (reenc kt a, reenc vt b) :: go r end) l)
        | _ => v
        end
    | VStruct fs =>
        match resolve S t with
        | TyRef n =>
            match lookup S n with
            | Some (DStruct dfs keep _) =>
                (* known fields in declaration order (the last occurrence of each, defaults filled), then -- when the
                   declaration keeps -- the ignored fields exactly as they were, in wire order *)
                let r :=
                  (fix go (fs : list (Z * tval)) (tvars : list (option tval)) (U : list (Z * tval)) {struct fs}
                     : list (option tval) * list (Z * tval) :=
                     match fs with
                     | [] => (tvars, U)
                     | (id, x) :: r =>
                         match match_field S dfs O (Some id) (ttype_of x) with
                         | Some (i, f) => go r (set_nth i (Some (reenc (f_ty f) x)) tvars) U
                         | None => go r tvars (if keep then U ++ [(id, x)] else U)
                         end
                     end) fs (map init_tvar dfs) [] in
                VStruct (finish_tv dfs (fst r) ++ snd r)
            | Some (DUnion vs _ true) =>
                match fs with
                | [] => VStruct []
                | (id, x) :: _ =>
                    match variant_by_id S vs id with
                    | Some vt => VStruct [(id, reenc vt x)]
                    | None => VStruct [(id, x)]            (* `_UnknownFields`: the field as it was *)
                    end
                end
            | Some (DUnion vs _ false) =>
                VStruct ((fix go (fs : list (Z * tval)) : list (Z * tval) :=
                            match fs with
                            | [] => []
                            | (id, x) :: r =>
                                match variant_by_id S vs id with
                                | Some vt => [(id, reenc vt x)]
                                | None => go r
                                end
                            end) fs)
            | _ => v
            end
        | _ => v
        end
    | _ => v
    end.
End Reenc.

(* the declared element types of the EMPTY containers among the known fields have a wire type (reenc announces the
   declared element type; for a non-empty container it is the announced one by evo_dom) *)
Section EmptyElems.
  Variable S : schema.
  (* the declared element types of the EMPTY containers among the known fields have a wire type *)
  Fixpoint empty_elems_ok (t : ty) (v : tval) {struct v} : bool :=
    match v with
    | VList _ l =>
        match resolve S t with
        | TyList et =>
            match l with [] => ttype_ok S et | _ :: _ => true end &&
            (fix go (l : list tval) : bool := match l with [] => true | x :: r => empty_elems_ok et x && go r end) l
        | _ => true
        end
    | VSet _ l =>
        match resolve S t with
        | TySet et =>
            match l with [] => ttype_ok S et | _ :: _ => true end &&
            (fix go (l : list tval) : bool := match l with [] => true | x :: r => empty_elems_ok et x && go r end) l
        | _ => true
        end
    | VMap _ _ l =>
        match resolve S t with
        | TyMap kt vt =>
            match l with [] => ttype_ok S kt && ttype_ok S vt | _ :: _ => true end &&
            (fix go (l : list (tval * tval)) : bool :=
               match l with [] => true | (a, b) :: r => empty_elems_ok kt a && empty_elems_ok vt b && go r end) l
        | _ => true
        end
    | VStruct fs =>
        match resolve S t with
        | TyRef n =>
            match lookup S n with
            | Some (DStruct dfs _ _) =>
                (fix go (fs : list (Z * tval)) : bool :=
                   match fs with
                   | [] => true
                   | (id, x) :: r =>
                       match match_field S dfs O (Some id) (ttype_of x) with
                       | Some (_, f) => empty_elems_ok (f_ty f) x
                       | None => true
                       end && go r
                   end) fs
            | Some (DUnion vs _ _) =>
                (fix go (fs : list (Z * tval)) : bool :=
                   match fs with
                   | [] => true
                   | (id, x) :: r =>
                       match variant_by_id S vs id with
                       | Some vt => empty_elems_ok vt x
                       | None => true
                       end && go r
                   end) fs
            | _ => true
            end
        | _ => true
        end
    | _ => true
    end.

End EmptyElems.

(* ---------- the domain of C13 w.r.t. finding F-13a, relative to the decoded message ----------
   arg_free S t v: no struct that the decoder of type t visits while reading v is compiled with BOTH keep and is_arg
   (such a struct takes `remaining - 2` bytes of the whole buffer).  It replaces the schema-wide no_keep_arg: a keep build
   of a service IDL has argument structs, but every type that does not reach one is in the domain for every message
   (no_keep_arg_reach below is the type-level sufficient condition). *)
Section ArgFree.
  Variable S : schema.

  Fixpoint arg_free (t : ty) (v : tval) {struct v} : bool :=
    match v with
    | VList _ l =>
        match resolve S t with
        | TyList et => (fix go (l : list tval) : bool := match l with [] => true | x :: r => arg_free et x && go r end) l
        | _ => true
        end
    | VSet _ l =>
        match resolve S t with
        | TySet et => (fix go (l : list tval) : bool := match l with [] => true | x :: r => arg_free et x && go r end) l
        | _ => true
        end
    | VMap _ _ l =>
        match resolve S t with
        | TyMap kt vt =>
            (fix go (l : list (tval * tval)) : bool :=
               match l with [] => true | (a, b) :: r => arg_free kt a && arg_free vt b && go r end) l
        | _ => true
        end
    | VStruct fs =>
        match resolve S t with
        | TyRef n =>
            match lookup S n with
            | Some (DStruct dfs keep ia) =>
                negb (keep && ia) &&
                (fix go (fs : list (Z * tval)) : bool :=
                   match fs with
                   | [] => true
                   | (id, x) :: r =>
                       match match_field S dfs O (Some id) (ttype_of x) with
                       | Some (_, f) => arg_free (f_ty f) x
                       | None => true
                       end && go r
                   end) fs
            | Some (DUnion vs _ _) =>
                (fix go (fs : list (Z * tval)) : bool :=
                   match fs with
                   | [] => true
                   | (id, x) :: r =>
                       match variant_by_id S vs id with
                       | Some vt => arg_free vt x
                       | None => true
                       end && go r
                   end) fs
            | _ => true
            end
        | _ => true
        end
    | _ => true
    end.

  (* type-level: one step of "the decoder of t may call the decoder of u" *)
  Inductive tstep : ty -> ty -> Prop :=
  | ts_list t et : resolve S t = TyList et -> tstep t et
  | ts_set t et : resolve S t = TySet et -> tstep t et
  | ts_mapk t kt vt : resolve S t = TyMap kt vt -> tstep t kt
  | ts_mapv t kt vt : resolve S t = TyMap kt vt -> tstep t vt
  | ts_field t n dfs kp ia f : resolve S t = TyRef n -> lookup S n = Some (DStruct dfs kp ia) -> In f dfs -> tstep t (f_ty f)
  | ts_variant t n vs vok kp id vt : resolve S t = TyRef n -> lookup S n = Some (DUnion vs vok kp) -> In (id, vt) vs -> tstep t vt.

  Inductive treach : ty -> ty -> Prop :=
  | tr_refl t : treach t t
  | tr_step t u w : tstep t u -> treach u w -> treach t w.

  (* no struct reachable from T is both keep and is_arg *)
  Definition no_keep_arg_reach (T : ty) : Prop :=
    forall u n dfs ia, treach T u -> resolve S u = TyRef n -> lookup S n = Some (DStruct dfs true ia) -> ia = false.
End ArgFree.
