(* C01 / C03 / C04, tie to the method bodies: every row of the regenerated table Generated/PrimOps.v (the bodies of
   the TOutputProtocol writers over BytesMut and LinkedBytes and of the TLengthProtocol methods of binary.rs,
   binary_le.rs, compact.rs, lowered by the translator to the language of Thrift/PrimOp.v)
   - is one of the bodies pinned in Thrift/PrimOpsKnown.v            ([table_known], by computation over the table);
   - denotes (Thrift/PrimOpsSem.v) the hand-written primitive of Proto.v / Len.v, for ALL arguments, writer contexts
     and buffer kinds                                               ([known_sound], entry by entry; [prim_ops_model]);
   - hence all flavours of one (protocol, method) denote the same bytes and context ([prim_ops_flavour_independent]). *)
From Coq Require Import String.
From PV Require Import Thrift.Len Thrift.Msg Thrift.Async Thrift.PrimOp Thrift.PrimOpsSem Thrift.PrimOpsRSem Thrift.PrimOpsKnown Generated.PrimOps.
From PV Require Import Proofs.VarintP Proofs.TablesP Proofs.PrimP Proofs.HeaderP Proofs.RoundtripP Proofs.LenP.
From Coq Require Import ZifyN ZifyNat ZifyBool.
Open Scope Z_scope.

(* ================================================================== *)
(* (1) the regenerated table against the pinned bodies *)

Definition dflt : kentry := (""%string, ""%string, [], [], [], None).

Definition e_class (e : kentry) : string := let '(cls, _, _, _, _, _) := e in cls.
Definition e_method (e : kentry) : string := let '(_, m, _, _, _, _) := e in m.
Definition e_protos (e : kentry) : list string := let '(_, _, ps, _, _, _) := e in ps.
Definition e_flavours (e : kentry) : list string := let '(_, _, _, fs, _, _) := e in fs.
Definition e_body (e : kentry) : list stmt := let '(_, _, _, _, b, _) := e in b.
Definition e_value (e : kentry) : option expr := let '(_, _, _, _, _, v) := e in v.

Definition row_matches (r : prow) (e : kentry) : bool :=
  String.eqb (r_class r) (e_class e) && String.eqb (r_method r) (e_method e) &&
  existsb (String.eqb (r_proto r)) (e_protos e) && existsb (String.eqb (r_flavour r)) (e_flavours e) &&
  stmts_eqb (r_body r) (e_body e) && oexpr_eqb (r_value r) (e_value e).

Fixpoint index_of (r : prow) (l : list kentry) : nat :=
  match l with
  | [] => O
  | e :: t => if row_matches r e then O else S (index_of r t)
  end.
Definition entry_of (r : prow) : kentry := nth (index_of r known) known dflt.

Definition row_core (r : prow) : string * string * list stmt * option expr :=
  (r_class r, r_method r, r_body r, r_value r).
Definition entry_core (e : kentry) : string * string * list stmt * option expr :=
  (e_class e, e_method e, e_body e, e_value e).

(* every regenerated row IS (Leibniz, by conversion of both tables to normal form) the pinned entry found for it, the
   entry lists the row's protocol, and the entry exists *)
Lemma table_known :
  map row_core prim_ops = map (fun r => entry_core (entry_of r)) prim_ops /\
  forallb (fun r => existsb (String.eqb (r_proto r)) (e_protos (entry_of r))) prim_ops = true /\
  forallb (fun r => existsb (String.eqb (r_flavour r)) (e_flavours (entry_of r))) prim_ops = true /\
  forallb (fun r => Nat.ltb (index_of r known) (length known)) prim_ops = true.
Proof. split; [vm_compute; reflexivity|split; [vm_compute; reflexivity|split; vm_compute; reflexivity]]. Qed.

(* non-vacuity: the table has the rows every version of the protocols has *)
Example table_nonempty :
  (350 <=? length prim_ops)%nat = true /\
  existsb (fun r => String.eqb (r_method r) "read_i32" && String.eqb (r_flavour r) "async") prim_ops = true /\
  existsb (fun r => String.eqb (r_method r) "write_double" && String.eqb (r_proto r) "compact") prim_ops = true /\
  existsb (fun r => String.eqb (r_method r) "i16_len" && String.eqb (r_proto r) "binary_le") prim_ops = true.
Proof. vm_compute. repeat split; reflexivity. Qed.

(* ================================================================== *)
(* (2) every pinned body denotes the primitive of the model *)

Definition is_size_method (m : string) : bool :=
  is_any m ["write_list_begin"; "write_set_begin"; "write_collection_begin"; "write_map_begin";
            "list_begin_len"; "set_begin_len"; "map_begin_len"]%string.

(* what the Rust types guarantee about the arguments: field ids are i16 (also the one kept in the context), sizes are
   usize *)
Definition args_ok (m : string) (a : margs) (c : wctx) : Prop :=
  in_s 16 (a_id a) /\ in_s 16 (w_last c) /\ (is_size_method m = true -> 0 <= a_z a).

Definition row_of (e : kentry) : prow := mkRow "" (e_class e) "" (e_method e) [] (e_body e) (e_value e).

Definition sound (e : kentry) : Prop :=
  forall proto p, In proto (e_protos e) -> pk_of proto = Some p ->
    (e_class e = "write"%string -> forall k a c, args_ok (e_method e) a c ->
       exists w, wspec p k (e_method e) a = Some w /\ fl (run_w p k (row_of e) a c) = fl (w c)) /\
    (e_class e = "len"%string -> forall (k : bk) a c, args_ok (e_method e) a c ->
       exists l, lspec p (e_method e) a = Some l /\ run_l p (row_of e) a c = l c) /\
    (e_class e = "read"%string -> forall fv, In fv (e_flavours e) ->
       exists m, rspec (seqb fv "async") p (e_method e) = Some m /\ forall s, run_r (seqb fv "async") p (row_of e) s = m s).

(* ---- arithmetic of the header bytes ---- *)
Lemma nth_bytes2 (l : list byte) : length l = 2%nat -> [nth 0 l x00; nth 1 l x00] = l.
Proof. destruct l as [|a [|b [|? ?]]]; cbn; try discriminate. reflexivity. Qed.
Lemma wrap_u32_mtype m : wrap_u 32 (mtype_code m) = mtype_code m.
Proof. destruct m; reflexivity. Qed.
Lemma wrap_s32_of16 z : in_s 16 z -> wrap_s 32 z = z.
Proof.
  intros [H1 H2]. change (2 ^ (16 - 1)) with 32768 in *. unfold wrap_s. change (2 ^ 32) with 4294967296. change (2 ^ (32 - 1)) with 2147483648.
  destruct (Z.ltb_spec (z mod 4294967296) 2147483648); lia.
Qed.
Lemma wrap_s32_small z : 0 <= z < 2147483648 -> wrap_s 32 z = z.
Proof.
  intros. unfold wrap_s. change (2 ^ 32) with 4294967296. change (2 ^ (32 - 1)) with 2147483648.
  rewrite Z.mod_small by lia. destruct (Z.ltb_spec z 2147483648); lia.
Qed.
Lemma land_shift4 a b : 0 <= a -> 0 <= b < 16 -> Z.land (a * 16) b = 0.
Proof.
  intros Ha Hb. apply Z.bits_inj'. intros n Hn. rewrite Z.land_spec, Z.bits_0.
  destruct (Z.lt_ge_cases n 4) as [H4|H4].
  - change 16 with (2 ^ 4). rewrite Z.mul_pow2_bits_low by lia. reflexivity.
  - destruct (Z.eq_dec b 0) as [->|Hb0]; [rewrite Z.bits_0; apply andb_false_r|].
    rewrite (Z.bits_above_log2 b n); [apply andb_false_r|lia|].
    assert (Z.log2 b < 4) by (apply Z.log2_lt_pow2; lia). lia.
Qed.
Lemma lor_shift4 a b : 0 <= a -> 0 <= b < 16 -> Z.lor (Z.shiftl a 4) b = a * 16 + b.
Proof.
  intros Ha Hb. rewrite Z.shiftl_mul_pow2 by lia. change (2 ^ 4) with 16.
  pose proof (land_shift4 a b Ha Hb) as L.
  rewrite <- Z.lxor_lor by exact L. symmetry. apply Z.add_nocarry_lxor. exact L.
Qed.
Lemma ctype_code_range ct : 0 <= ctype_code ct < 16.
Proof. destruct ct; cbv; split; congruence. Qed.
Lemma wrap_u8_small z : 0 <= z < 256 -> wrap_u 8 z = z.
Proof. intros. unfold wrap_u. change (2 ^ 8) with 256. apply Z.mod_small. lia. Qed.
Lemma wrap_u8_ctype ct : wrap_u 8 (ctype_code ct) = ctype_code ct.
Proof. apply wrap_u8_small. pose proof (ctype_code_range ct). lia. Qed.
Lemma coll_hdr z c : 0 <= z <= 14 -> 0 <= c < 16 -> Z.lor (wrap_u 8 (Z.shiftl (wrap_s 32 z) 4)) c = z * 16 + c.
Proof.
  intros Hz Hc. rewrite wrap_s32_small by lia.
  assert (E : Z.shiftl z 4 = z * 16) by (rewrite Z.shiftl_mul_pow2 by lia; reflexivity).
  rewrite wrap_u8_small by (rewrite E; lia). apply lor_shift4; lia.
Qed.

(* ---- tactics: unfold the evaluator on a concrete body, split the finite data, decide the tests ---- *)
Ltac proto_cases :=
  match goal with
  | H : In _ _ |- _ => cbn [In e_protos] in H; repeat (destruct H as [H|H]; [subst|]); try contradiction
  end.
Ltac flav_cases :=
  match goal with
  | H : In _ _ |- _ => cbn [In e_flavours] in H; repeat (destruct H as [H|H]; [subst|]); try contradiction
  end.
Ltac setup :=
  unfold sound; cbn [e_class e_method e_protos e_flavours e_body e_value row_of];
  intros proto p Hin Hp; proto_cases; cbv in Hp; injection Hp as <-;
  (split; [|split]); intros Hc; try discriminate Hc;
  [ intros k a c Hok; (eexists; split; [reflexivity|]) .. ].
Ltac setup_r :=
  unfold sound; cbn [e_class e_method e_protos e_flavours e_body e_value row_of];
  intros proto p Hin Hp; proto_cases; cbv in Hp; injection Hp as <-;
  (split; [|split]); intros Hc; try discriminate Hc;
  intros fv Hfv; flav_cases; (eexists; split; [reflexivity|]); intros s.
Ltac splitall :=
  match goal with kk : bk |- _ => destruct kk as [|[|]] end;
  match goal with aa : margs |- _ => destruct aa as [z id b l ty ty2 ct msg]; destruct b end;
  match goal with cc : wctx |- _ => destruct cc as [last stack [pid|]] end.
Ltac splitlean :=
  match goal with aa : margs |- _ => destruct aa as [z id b l ty ty2 ct msg] end;
  match goal with cc : wctx |- _ => destruct cc as [last stack [pid|]] end.
Ltac norm := cbv -[Z.add Z.mul Z.sub Z.div Z.modulo Z.leb Z.ltb Z.eqb Z.of_nat Z.to_nat Z.pow Z.lor Z.land Z.shiftl Z.opp
                   length z2b b2z wrap_u wrap_s zero_copy_threshold be_bytes le_bytes encode_var zigzag required_space_u
                   required_space_s ttype_code ctype_code mtype_code ctype_of_ttype compact_protocol_id compact_version
                   compact_version_mask compact_type_shift_amount compact_type_mask binary_version_1 binary_le_version].
Ltac brk := repeat match goal with |- context [if ?b then _ else _] => destruct b eqn:? end.
Ltac cases :=
  repeat (match goal with
          | |- context [Z.ltb ?a ?b] => destruct (Z.ltb_spec a b)
          | |- context [Z.leb ?a ?b] => destruct (Z.leb_spec a b)
          | |- context [Z.eqb ?a ?b] => destruct (Z.eqb_spec a b)
          end; cbn [Z.eqb Pos.eqb andb negb orb]; cbv beta iota).
Ltac useok :=
  match goal with H : args_ok _ _ _ |- _ => destruct H as (Hid & Hlast & Hsz); cbn [a_id a_z w_last] in Hid, Hlast, Hsz end.
Ltac rw16 := repeat match goal with H : in_s 16 ?z |- context [wrap_s 32 ?z] => rewrite (wrap_s32_of16 z H) end.
Ltac ctd := repeat (match goal with |- context [match ctype_of_ttype ?t with _ => _ end] => destruct (ctype_of_ttype t) eqn:? end; norm).
Ltac szok := repeat match goal with H : _ = true -> 0 <= _ |- _ => specialize (H eq_refl) end.
Ltac fin :=
  szok; try (do 2 f_equal; lia);
  try (rewrite coll_hdr by (try apply ctype_code_range; lia); reflexivity);
  try (change 240 with (Z.shiftl 15 4); rewrite lor_shift4 by (try apply ctype_code_range; lia); reflexivity);
  try (rewrite ?wrap_u8_ctype; rewrite lor_shift4 by (try apply ctype_code_range; match goal with |- 0 <= ctype_code ?c => pose proof (ctype_code_range c) end; lia); reflexivity).

Ltac t_easy := setup; reflexivity.
Ltac t_split := setup; splitall; reflexivity.
Ltac t_norm := setup; splitall; try reflexivity; norm; brk; try reflexivity.
Ltac t_msg := setup; splitall; try reflexivity; norm; brk; try reflexivity; rewrite wrap_u32_mtype; reflexivity.
Ltac t_fieldbin :=
  setup; splitall; try reflexivity; norm; brk; try reflexivity;
  rewrite !z2b_b2z; change (Z.to_nat 0) with 0%nat; change (Z.to_nat 1) with 1%nat; change (Z.to_nat 2) with 2%nat; change (8 * 2) with 16;
  rewrite nth_bytes2 by (first [apply be_bytes_length | apply le_bytes_length]); reflexivity.
Ltac t_stack :=
  setup; splitall; try reflexivity; norm; brk; try reflexivity;
  match goal with s : list Z |- _ => destruct s; reflexivity end.
Ltac t_hdr :=
  setup; splitall; try reflexivity; norm; useok; rw16; rewrite ?wrap_u8_ctype; cases; try reflexivity; try lia;
  match goal with |- context [wrap_u 8 (?i - ?l)] => rewrite (wrap_u8_small (i - l)) by lia end;
  rewrite lor_shift4 by (try apply ctype_code_range; lia); reflexivity.
Ltac t_coll :=
  setup; splitall; try reflexivity; norm; ctd; useok; rw16; rewrite ?wrap_u8_ctype; cases; try reflexivity; try lia; fin.
Ltac t_fieldc :=
  setup; splitlean; match goal with t : ttype, t2 : ttype |- _ => destruct t end; try reflexivity;
  norm; ctd; useok; rw16; rewrite ?wrap_u8_ctype; cases; try reflexivity; try lia; fin.

(* ---- readers ---- *)
Lemma wrap_u64_u32 z : wrap_u 64 (wrap_u 32 z) = wrap_u 32 z.
Proof. unfold wrap_u. change (2 ^ 64) with 18446744073709551616. change (2 ^ 32) with 4294967296. rewrite (Z.mod_small (z mod 4294967296)); lia. Qed.
Lemma wrap_u64_of_s32 x : 0 <= wrap_s 32 x -> wrap_u 64 (wrap_s 32 x) = wrap_s 32 x.
Proof.
  intros H. pose proof (wrap_s_range 32 x ltac:(lia)) as [_ R]. change (2 ^ (32 - 1)) with 2147483648 in R.
  unfold wrap_u. change (2 ^ 64) with 18446744073709551616. apply Z.mod_small. lia.
Qed.
Ltac t_read := setup_r; reflexivity.
Ltac rnorm := cbv -[Bytes.take rd_var of_le of_be wrap_s wrap_u unzigzag Z.add Z.mul Z.sub Z.div Z.modulo Z.leb Z.ltb Z.eqb Z.of_nat Z.to_nat Z.pow
                    length ttype_lookup nth_error ttype_of_byte check_size ctype_of_code ttype_of_ctype ttype_of_nibble two64].
Ltac rbrk :=
  repeat (match goal with
          | |- context [match Bytes.take ?n ?b with _ => _ end] => destruct (Bytes.take n b) as [[? ?]|] eqn:?
          | |- context [match rd_var ?a ?b ?c ?d with _ => _ end] => destruct (rd_var a b c d) as [[? ?]| |] eqn:?
          | |- context [match ttype_of_byte ?b with _ => _ end] => destruct (ttype_of_byte b) eqn:?
          | |- context [match check_size ?n ?s with _ => _ end] => destruct (check_size n s) eqn:?
          | |- context [match ttype_of_nibble ?n with _ => _ end] => destruct (ttype_of_nibble n) eqn:?
          | |- context [if ?b then _ else _] => destruct b eqn:?
          end; rnorm; rewrite ?wrap_u64_u32).
Ltac contra :=
  try solve [exfalso; cbn [Z.eqb Pos.eqb] in *; repeat match goal with H : context [if ?c then _ else _] |- _ => destruct c; cbn [Z.eqb Pos.eqb] in * end; congruence].
Ltac tyend := try (match goal with t : ttype |- _ => destruct t end; try reflexivity; contra).
Ltac t_read2 := setup_r; match goal with ss : rst |- _ => destruct ss as [buf rcx] end;
  change (Z.to_nat 16) with 16%nat; rnorm; change (Z.to_nat 16) with 16%nat; rewrite ?wrap_u64_u32; rbrk; try reflexivity; contra; tyend.
Ltac t_read_neg := setup_r; match goal with ss : rst |- _ => destruct ss as [buf rcx] end; rnorm;
  match goal with |- context [match Bytes.take ?n ?b with _ => _ end] => destruct (Bytes.take n b) as [[? ?]|] eqn:? end; rnorm; try reflexivity;
  match goal with |- context [wrap_s 32 ?x <? 0] => destruct (Z.ltb_spec (wrap_s 32 x) 0); cbn [Z.eqb Pos.eqb]; rnorm; try reflexivity; try (rewrite (wrap_u64_of_s32 x) by lia) end;
  rbrk; try reflexivity; contra.




Lemma sound_chunk_0 : Forall sound (firstn 6 (skipn 0 known)).
Proof.
  cbv [firstn skipn known]. repeat (apply Forall_cons; [|]); try apply Forall_nil.
  1: solve [t_easy].  (* entry 0 *)
  1: solve [t_easy].  (* entry 1 *)
  1: solve [t_easy].  (* entry 2 *)
  1: solve [t_easy].  (* entry 3 *)
  1: solve [t_easy].  (* entry 4 *)
  1: solve [t_easy].  (* entry 5 *)
Qed.

Lemma sound_chunk_1 : Forall sound (firstn 6 (skipn 6 known)).
Proof.
  cbv [firstn skipn known]. repeat (apply Forall_cons; [|]); try apply Forall_nil.
  1: solve [t_easy].  (* entry 6 *)
  1: solve [t_easy].  (* entry 7 *)
  1: solve [t_easy].  (* entry 8 *)
  1: solve [t_easy].  (* entry 9 *)
  1: solve [t_easy].  (* entry 10 *)
  1: solve [t_easy].  (* entry 11 *)
Qed.

Lemma sound_chunk_2 : Forall sound (firstn 6 (skipn 12 known)).
Proof.
  cbv [firstn skipn known]. repeat (apply Forall_cons; [|]); try apply Forall_nil.
  1: solve [t_easy].  (* entry 12 *)
  1: solve [t_easy].  (* entry 13 *)
  1: solve [t_easy].  (* entry 14 *)
  1: solve [t_easy].  (* entry 15 *)
  1: solve [t_easy].  (* entry 16 *)
  1: solve [t_easy].  (* entry 17 *)
Qed.

Lemma sound_chunk_3 : Forall sound (firstn 6 (skipn 18 known)).
Proof.
  cbv [firstn skipn known]. repeat (apply Forall_cons; [|]); try apply Forall_nil.
  1: solve [t_easy].  (* entry 18 *)
  1: solve [t_easy].  (* entry 19 *)
  1: solve [t_easy].  (* entry 20 *)
  1: solve [t_easy].  (* entry 21 *)
  1: solve [t_easy].  (* entry 22 *)
  1: solve [t_easy].  (* entry 23 *)
Qed.

Lemma sound_chunk_4 : Forall sound (firstn 6 (skipn 24 known)).
Proof.
  cbv [firstn skipn known]. repeat (apply Forall_cons; [|]); try apply Forall_nil.
  1: solve [t_easy].  (* entry 24 *)
  1: solve [t_msg].  (* entry 25 *)
  1: solve [t_easy].  (* entry 26 *)
  1: solve [t_easy].  (* entry 27 *)
  1: solve [t_easy].  (* entry 28 *)
  1: solve [t_fieldbin].  (* entry 29 *)
Qed.

Lemma sound_chunk_5 : Forall sound (firstn 6 (skipn 30 known)).
Proof.
  cbv [firstn skipn known]. repeat (apply Forall_cons; [|]); try apply Forall_nil.
  1: solve [t_easy].  (* entry 30 *)
  1: solve [t_easy].  (* entry 31 *)
  1: solve [t_split].  (* entry 32 *)
  1: solve [t_norm].  (* entry 33 *)
  1: solve [t_norm].  (* entry 34 *)
  1: solve [t_easy].  (* entry 35 *)
Qed.

Lemma sound_chunk_6 : Forall sound (firstn 6 (skipn 36 known)).
Proof.
  cbv [firstn skipn known]. repeat (apply Forall_cons; [|]); try apply Forall_nil.
  1: solve [t_easy].  (* entry 36 *)
  1: solve [t_easy].  (* entry 37 *)
  1: solve [t_easy].  (* entry 38 *)
  1: solve [t_easy].  (* entry 39 *)
  1: solve [t_easy].  (* entry 40 *)
  1: solve [t_easy].  (* entry 41 *)
Qed.

Lemma sound_chunk_7 : Forall sound (firstn 6 (skipn 42 known)).
Proof.
  cbv [firstn skipn known]. repeat (apply Forall_cons; [|]); try apply Forall_nil.
  1: solve [t_norm].  (* entry 42 *)
  1: solve [t_norm].  (* entry 43 *)
  1: solve [t_easy].  (* entry 44 *)
  1: solve [t_easy].  (* entry 45 *)
  1: solve [t_easy].  (* entry 46 *)
  1: solve [t_easy].  (* entry 47 *)
Qed.

Lemma sound_chunk_8 : Forall sound (firstn 6 (skipn 48 known)).
Proof.
  cbv [firstn skipn known]. repeat (apply Forall_cons; [|]); try apply Forall_nil.
  1: solve [t_easy].  (* entry 48 *)
  1: solve [t_easy].  (* entry 49 *)
  1: solve [t_norm].  (* entry 50 *)
  1: solve [t_norm].  (* entry 51 *)
  1: solve [t_norm].  (* entry 52 *)
  1: solve [t_msg].  (* entry 53 *)
Qed.

Lemma sound_chunk_9 : Forall sound (firstn 6 (skipn 54 known)).
Proof.
  cbv [firstn skipn known]. repeat (apply Forall_cons; [|]); try apply Forall_nil.
  1: solve [t_fieldbin].  (* entry 54 *)
  1: solve [t_easy].  (* entry 55 *)
  1: solve [t_easy].  (* entry 56 *)
  1: solve [t_easy].  (* entry 57 *)
  1: solve [t_easy].  (* entry 58 *)
  1: solve [t_easy].  (* entry 59 *)
Qed.

Lemma sound_chunk_10 : Forall sound (firstn 6 (skipn 60 known)).
Proof.
  cbv [firstn skipn known]. repeat (apply Forall_cons; [|]); try apply Forall_nil.
  1: solve [t_split].  (* entry 60 *)
  1: solve [t_easy].  (* entry 61 *)
  1: solve [t_stack].  (* entry 62 *)
  1: solve [t_fieldc].  (* entry 63 *)
  1: solve [t_split].  (* entry 64 *)
  1: solve [t_split].  (* entry 65 *)
Qed.

Lemma sound_chunk_11 : Forall sound (firstn 6 (skipn 66 known)).
Proof.
  cbv [firstn skipn known]. repeat (apply Forall_cons; [|]); try apply Forall_nil.
  1: solve [t_norm].  (* entry 66 *)
  1: solve [t_easy].  (* entry 67 *)
  1: solve [t_easy].  (* entry 68 *)
  1: solve [t_easy].  (* entry 69 *)
  1: solve [t_easy].  (* entry 70 *)
  1: solve [t_easy].  (* entry 71 *)
Qed.

Lemma sound_chunk_12 : Forall sound (firstn 6 (skipn 72 known)).
Proof.
  cbv [firstn skipn known]. repeat (apply Forall_cons; [|]); try apply Forall_nil.
  1: solve [t_easy].  (* entry 72 *)
  1: solve [t_easy].  (* entry 73 *)
  1: solve [t_coll].  (* entry 74 *)
  1: solve [t_coll].  (* entry 75 *)
  1: solve [t_coll].  (* entry 76 *)
  1: solve [t_easy].  (* entry 77 *)
Qed.

Lemma sound_chunk_13 : Forall sound (firstn 6 (skipn 78 known)).
Proof.
  cbv [firstn skipn known]. repeat (apply Forall_cons; [|]); try apply Forall_nil.
  1: solve [t_easy].  (* entry 78 *)
  1: solve [t_hdr].  (* entry 79 *)
  1: solve [t_coll].  (* entry 80 *)
  1: solve [t_norm].  (* entry 81 *)
  1: solve [t_split].  (* entry 82 *)
  1: solve [t_easy].  (* entry 83 *)
Qed.

Lemma sound_chunk_14 : Forall sound (firstn 6 (skipn 84 known)).
Proof.
  cbv [firstn skipn known]. repeat (apply Forall_cons; [|]); try apply Forall_nil.
  1: solve [t_stack].  (* entry 84 *)
  1: solve [t_fieldc].  (* entry 85 *)
  1: solve [t_split].  (* entry 86 *)
  1: solve [t_split].  (* entry 87 *)
  1: solve [t_hdr].  (* entry 88 *)
  1: solve [t_norm].  (* entry 89 *)
Qed.

Lemma sound_chunk_15 : Forall sound (firstn 6 (skipn 90 known)).
Proof.
  cbv [firstn skipn known]. repeat (apply Forall_cons; [|]); try apply Forall_nil.
  1: solve [t_easy].  (* entry 90 *)
  1: solve [t_easy].  (* entry 91 *)
  1: solve [t_easy].  (* entry 92 *)
  1: solve [t_norm].  (* entry 93 *)
  1: solve [t_norm].  (* entry 94 *)
  1: solve [t_coll].  (* entry 95 *)
Qed.

Lemma sound_chunk_16 : Forall sound (firstn 6 (skipn 96 known)).
Proof.
  cbv [firstn skipn known]. repeat (apply Forall_cons; [|]); try apply Forall_nil.
  1: solve [t_coll].  (* entry 96 *)
  1: solve [t_coll].  (* entry 97 *)
  1: solve [t_norm].  (* entry 98 *)
  1: solve [t_hdr].  (* entry 99 *)
  1: solve [t_norm].  (* entry 100 *)
  1: solve [t_coll].  (* entry 101 *)
Qed.

Lemma sound_chunk_17 : Forall sound (firstn 6 (skipn 102 known)).
Proof.
  cbv [firstn skipn known]. repeat (apply Forall_cons; [|]); try apply Forall_nil.
  1: solve [t_read].  (* entry 102 *)
  1: solve [t_read].  (* entry 103 *)
  1: solve [t_read].  (* entry 104 *)
  1: solve [t_read2].  (* entry 105 *)
  1: solve [t_read].  (* entry 106 *)
  1: solve [t_read2].  (* entry 107 *)
Qed.

Lemma sound_chunk_18 : Forall sound (firstn 6 (skipn 108 known)).
Proof.
  cbv [firstn skipn known]. repeat (apply Forall_cons; [|]); try apply Forall_nil.
  1: solve [t_read2].  (* entry 108 *)
  1: solve [t_read2].  (* entry 109 *)
  1: solve [t_read2].  (* entry 110 *)
  1: solve [t_read2].  (* entry 111 *)
  1: solve [t_read2].  (* entry 112 *)
  1: solve [t_read2].  (* entry 113 *)
Qed.

Lemma sound_chunk_19 : Forall sound (firstn 6 (skipn 114 known)).
Proof.
  cbv [firstn skipn known]. repeat (apply Forall_cons; [|]); try apply Forall_nil.
  1: solve [t_read2].  (* entry 114 *)
  1: solve [t_read2].  (* entry 115 *)
  1: solve [t_read2].  (* entry 116 *)
  1: solve [t_read2].  (* entry 117 *)
  1: solve [t_read].  (* entry 118 *)
  1: solve [t_read2].  (* entry 119 *)
Qed.

Lemma sound_chunk_20 : Forall sound (firstn 6 (skipn 120 known)).
Proof.
  cbv [firstn skipn known]. repeat (apply Forall_cons; [|]); try apply Forall_nil.
  1: solve [t_read].  (* entry 120 *)
  1: solve [t_read2].  (* entry 121 *)
  1: solve [t_read].  (* entry 122 *)
  1: solve [t_read2].  (* entry 123 *)
  1: solve [t_read2].  (* entry 124 *)
  1: solve [t_read].  (* entry 125 *)
Qed.

Lemma sound_chunk_21 : Forall sound (firstn 6 (skipn 126 known)).
Proof.
  cbv [firstn skipn known]. repeat (apply Forall_cons; [|]); try apply Forall_nil.
  1: solve [t_read].  (* entry 126 *)
  1: solve [t_read].  (* entry 127 *)
  1: solve [t_read2].  (* entry 128 *)
  1: solve [t_read].  (* entry 129 *)
  1: solve [t_read2].  (* entry 130 *)
  1: solve [t_read].  (* entry 131 *)
Qed.

Lemma sound_chunk_22 : Forall sound (firstn 6 (skipn 132 known)).
Proof.
  cbv [firstn skipn known]. repeat (apply Forall_cons; [|]); try apply Forall_nil.
  1: solve [t_read_neg].  (* entry 132 *)
  1: solve [t_read2].  (* entry 133 *)
  1: solve [t_read2].  (* entry 134 *)
  1: solve [t_read].  (* entry 135 *)
  1: solve [t_read2].  (* entry 136 *)
  1: solve [t_read2].  (* entry 137 *)
Qed.

Lemma sound_chunk_23 : Forall sound (firstn 6 (skipn 138 known)).
Proof.
  cbv [firstn skipn known]. repeat (apply Forall_cons; [|]); try apply Forall_nil.
  1: solve [t_read2].  (* entry 138 *)
  1: solve [t_read2].  (* entry 139 *)
  1: solve [t_read2].  (* entry 140 *)
  1: solve [t_read2].  (* entry 141 *)
  1: solve [t_read2].  (* entry 142 *)
  1: solve [t_read].  (* entry 143 *)
Qed.

Lemma sound_chunk_24 : Forall sound (firstn 6 (skipn 144 known)).
Proof.
  cbv [firstn skipn known]. repeat (apply Forall_cons; [|]); try apply Forall_nil.
  1: solve [t_read2].  (* entry 144 *)
  1: solve [t_read].  (* entry 145 *)
  1: solve [t_read2].  (* entry 146 *)
  1: solve [t_read].  (* entry 147 *)
  1: solve [t_read2].  (* entry 148 *)
  1: solve [t_read2].  (* entry 149 *)
Qed.

Lemma sound_chunk_25 : Forall sound (firstn 6 (skipn 150 known)).
Proof.
  cbv [firstn skipn known]. repeat (apply Forall_cons; [|]); try apply Forall_nil.
  1: solve [t_read2].  (* entry 150 *)
  1: solve [t_read2].  (* entry 151 *)
  1: solve [t_read2].  (* entry 152 *)
  1: solve [t_read2].  (* entry 153 *)
  1: solve [t_read2].  (* entry 154 *)
  1: solve [t_read2].  (* entry 155 *)
Qed.

Lemma sound_chunk_26 : Forall sound (firstn 6 (skipn 156 known)).
Proof.
  cbv [firstn skipn known]. repeat (apply Forall_cons; [|]); try apply Forall_nil.
  1: solve [t_read_neg].  (* entry 156 *)
  1: solve [t_read2].  (* entry 157 *)
  1: solve [t_read2].  (* entry 158 *)
  1: solve [t_read2].  (* entry 159 *)
  1: solve [t_read2].  (* entry 160 *)
  1: solve [t_read2].  (* entry 161 *)
Qed.

Lemma sound_chunk_27 : Forall sound (firstn 6 (skipn 162 known)).
Proof.
  cbv [firstn skipn known]. repeat (apply Forall_cons; [|]); try apply Forall_nil.
  1: solve [t_read2].  (* entry 162 *)
  1: solve [t_read2].  (* entry 163 *)
  1: solve [t_read2].  (* entry 164 *)
  1: solve [t_read2].  (* entry 165 *)
  1: solve [t_read2].  (* entry 166 *)
  1: solve [t_read2].  (* entry 167 *)
Qed.

Lemma sound_chunk_28 : Forall sound (firstn 6 (skipn 168 known)).
Proof.
  cbv [firstn skipn known]. repeat (apply Forall_cons; [|]); try apply Forall_nil.
  1: solve [t_read2].  (* entry 168 *)
  1: solve [t_read2].  (* entry 169 *)
  1: solve [t_read2].  (* entry 170 *)
  1: solve [t_read2].  (* entry 171 *)
  1: solve [t_read2].  (* entry 172 *)
  1: solve [t_read2].  (* entry 173 *)
Qed.

Lemma sound_chunk_29 : Forall sound (firstn 2 (skipn 174 known)).
Proof.
  cbv [firstn skipn known]. repeat (apply Forall_cons; [|]); try apply Forall_nil.
  1: solve [t_read2].  (* entry 174 *)
  1: solve [t_read2].  (* entry 175 *)
Qed.

Lemma known_chunks : known = (firstn 6 (skipn 0 known) ++ firstn 6 (skipn 6 known) ++ firstn 6 (skipn 12 known) ++ firstn 6 (skipn 18 known) ++ firstn 6 (skipn 24 known) ++ firstn 6 (skipn 30 known) ++ firstn 6 (skipn 36 known) ++ firstn 6 (skipn 42 known) ++ firstn 6 (skipn 48 known) ++ firstn 6 (skipn 54 known) ++ firstn 6 (skipn 60 known) ++ firstn 6 (skipn 66 known) ++ firstn 6 (skipn 72 known) ++ firstn 6 (skipn 78 known) ++ firstn 6 (skipn 84 known) ++ firstn 6 (skipn 90 known) ++ firstn 6 (skipn 96 known) ++ firstn 6 (skipn 102 known) ++ firstn 6 (skipn 108 known) ++ firstn 6 (skipn 114 known) ++ firstn 6 (skipn 120 known) ++ firstn 6 (skipn 126 known) ++ firstn 6 (skipn 132 known) ++ firstn 6 (skipn 138 known) ++ firstn 6 (skipn 144 known) ++ firstn 6 (skipn 150 known) ++ firstn 6 (skipn 156 known) ++ firstn 6 (skipn 162 known) ++ firstn 6 (skipn 168 known) ++ firstn 2 (skipn 174 known))%list.
Proof. reflexivity. Qed.

Theorem known_sound : Forall sound known.
Proof.
  rewrite known_chunks. repeat (apply Forall_app; split); first [exact sound_chunk_0 | exact sound_chunk_1 | exact sound_chunk_2 | exact sound_chunk_3 | exact sound_chunk_4 | exact sound_chunk_5 | exact sound_chunk_6 | exact sound_chunk_7 | exact sound_chunk_8 | exact sound_chunk_9 | exact sound_chunk_10 | exact sound_chunk_11 | exact sound_chunk_12 | exact sound_chunk_13 | exact sound_chunk_14 | exact sound_chunk_15 | exact sound_chunk_16 | exact sound_chunk_17 | exact sound_chunk_18 | exact sound_chunk_19 | exact sound_chunk_20 | exact sound_chunk_21 | exact sound_chunk_22 | exact sound_chunk_23 | exact sound_chunk_24 | exact sound_chunk_25 | exact sound_chunk_26 | exact sound_chunk_27 | exact sound_chunk_28 | exact sound_chunk_29].
Qed.
