(* C05 -- Protobuf encode/decode round trip and encoded_len agreement.
   Only statements, each closed by [exact] of a lemma proved in Proofs/, with Print Assumptions beneath. *)
From PVPb Require Import Wire Codec Msg Proofs.VarintP Proofs.WireP.
Open Scope Z_scope.

(* every u64, every decode path (fast path / unrolled slice path / byte-at-a-time slow path; which one
   runs depends on the chunking of the buffer), arbitrary trailing bytes [r] *)
Theorem C05_varint_rt : forall v r a, 0 <= v < two64 ->
  decode_varint (mkR (encode_varint v ++ r) a) = OOk v (mkR r a).
Proof. exact decode_varint_rt. Qed.
Print Assumptions C05_varint_rt.

Theorem C05_varint_rt_slow : forall v r a, 0 <= v < two64 ->
  decode_varint_slow (mkR (encode_varint v ++ r) a) = OOk v (mkR r a).
Proof. exact decode_varint_slow_rt. Qed.
Print Assumptions C05_varint_rt_slow.

Theorem C05_varint_rt_chunk : forall clen v r a, (1 <= clen)%nat -> 0 <= v < two64 ->
  decode_varint_chunk clen (mkR (encode_varint v ++ r) a) = OOk v (mkR r a).
Proof. exact decode_varint_chunk_rt. Qed.
Print Assumptions C05_varint_rt_chunk.

(* on ALL inputs the three paths agree (and none panics) *)
Theorem C05_varint_paths_agree : forall clen s, (1 <= clen)%nat ->
  decode_varint_chunk clen s = decode_varint s /\ decode_varint_slow s = decode_varint s.
Proof. exact decode_varint_paths_agree. Qed.
Print Assumptions C05_varint_paths_agree.

Theorem C05_varint_len : forall v, 0 <= v < two64 ->
  encoded_len_varint v = Z.of_nat (length (encode_varint v)).
Proof. exact encoded_len_varint_correct. Qed.
Print Assumptions C05_varint_len.

(* keys: every tag of 1 .. 2^29-1 (arithmetic on tag * 8 + wire type, not a sweep), every wire type *)
Theorem C05_key_rt : forall tag wt r a, tag_ok tag ->
  decode_key (mkR (encode_key tag wt ++ r) a) = OOk (tag, wt) (mkR r a).
Proof. exact decode_key_rt. Qed.
Print Assumptions C05_key_rt.

Theorem C05_key_len : forall tag wt, tag_ok tag -> key_len tag = Z.of_nat (length (encode_key tag wt)).
Proof. exact key_len_correct. Qed.
Print Assumptions C05_key_len.
