"""Semantic generators for the `bld` family (C14, C17).

* gen_thrift_doc(rng, ...)   a well-formed multi-file Thrift document of grammar G_thrift (DESIGN.md section 4) as an AST
                             (`Doc`), with `files()` -> {name: text}; names are drawn from pools that contain
                             every Rust keyword, the four path-segment keywords, pairs that collide after case
                             conversion, leading underscores, digits and emitted helper names.  The lexical pools
                             of pv/idlgen.py (owned by the idl family) are reused; the documents of idlgen itself
                             are syntactic (unresolved references) and cannot be fed to a compiler.
* gen_proto_doc(rng, ...)    a protobuf document of G_proto (one or two files)
* c17_thrift_corpus / c17_proto_corpus   large fixed-shape corpora built to stress ordering: many modules through
                             namespaces and includes, colliding names, several sibling nested messages, several services

Everything is a function of the `random.Random` passed in.  A document knows enough about itself for the
correspondence checks: naming scopes (`scopes()`), the by-value type graph (`type_graph()`).
"""
import os
from . import idlgen, core


def std_setup(chk, fam):
    """core.std_setup for the bld family.  The bld Coq project imports nothing from the base library (/verif/coq), so
    its proof gate must not depend on the main family's build being green at the moment: core.coq_make is asked to
    build inside fam/bld/coq only."""
    orig = core.coq_make

    def coq_make(targets, timeout=1500, fam=None):
        if fam is None or fam.name != "bld":
            return orig(targets, timeout=timeout, fam=fam)
        with core.Lock("coq_" + fam.name):
            mk = os.path.join(fam.coq, "Makefile")
            if not os.path.exists(mk) or os.path.getmtime(os.path.join(fam.coq, "_CoqProject")) > os.path.getmtime(mk):
                core.sh(["coq_makefile", "-f", "_CoqProject", "-o", "Makefile"], cwd=fam.coq)
            rc, out = core.sh(["timeout", str(timeout), "make", "-j8"] + targets, cwd=fam.coq, timeout=timeout + 30)
        return rc == 0, out
    core.coq_make = coq_make
    try:
        return core.std_setup(chk, need_runner=True, need_harness=True, fam=fam)
    finally:
        core.coq_make = orig


THRIFT_RESERVED = set(idlgen.KEYWORDS) | {"slist", "senum", "async", "cpp_include"}
RUST_KEYWORDS = ["as", "break", "const", "continue", "crate", "else", "enum", "extern", "false", "fn", "for", "if",
                 "impl", "in", "let", "loop", "match", "mod", "move", "mut", "pub", "ref", "return", "self", "Self",
                 "static", "struct", "super", "trait", "true", "type", "unsafe", "use", "where", "while", "async",
                 "await", "dyn", "abstract", "become", "box", "do", "final", "macro", "override", "priv", "typeof",
                 "unsized", "virtual", "yield", "try", "gen"]
PATH_KW = ["self", "Self", "super", "crate"]
COLLIDERS = [["fooBar", "foo_bar", "FooBar"], ["IDs", "Ids", "ids"], ["aB", "a_b"], ["HTTPServer", "HttpServer", "http_server"],
             ["x1", "X1"], ["my_field", "myField", "MyField"]]
# unqualified prelude names the emitted code relies on: a user item with one of these (emitted) names shadows it (finding F-14j)
SHADOWING = ["Some", "None", "Send", "Default"]
HELPERS = ["Ok", "Err", "inner", "value", "Option", "Box", "Vec", "String", "Result", "Self_",
           "std", "pilota", "core", "new", "clone", "fmt", "encode", "decode", "size", "var_1", "field_ident", "__protocol",
           "Message", "Debug", "Clone", "Hash", "Sync"]
PLAIN = ["a", "b", "Z", "x0", "A9", "e", "_x", "__files", "_1", "item", "Item", "node", "Node", "tree", "leaf", "user", "User",
         "Req", "Resp", "data", "Data", "kind", "Kind", "name", "id", "ID", "uid", "UID", "v", "w", "q", "U", "K", "V"]
# `T` is the generic parameter of the emitted encode/decode functions: a type called T is shadowed by it (finding F-14m)
PREFIXED = [p for p in idlgen.PREFIXED if p != "_"]


def ident_ok(s):
    return s not in THRIFT_RESERVED and s != "_"


class Names:
    """hands out distinct identifiers for one scope; `exotic` in [0,1] is the share of awkward names"""
    def __init__(self, rng, exotic=0.5, forbid=(), colliders=True):
        self.r, self.exotic, self.used = rng, exotic, set(forbid)
        self.queue = []
        self.colliders = colliders

    def fresh(self, kw_ok=True):
        r = self.r
        for _ in range(200):
            if self.queue:
                s = self.queue.pop()
            else:
                k = r.random()
                if k < self.exotic * 0.30 and kw_ok:
                    s = r.choice(RUST_KEYWORDS)
                elif k < self.exotic * 0.45 and self.colliders:
                    grp = list(r.choice(COLLIDERS))
                    r.shuffle(grp)
                    s = grp[0]
                    self.queue.extend(grp[1:r.choice([1, 2, 3])])
                elif k < self.exotic * 0.60:
                    s = r.choice(HELPERS)
                elif k < self.exotic * 0.75:
                    s = r.choice(PREFIXED)
                elif k < 0.8:
                    s = r.choice(PLAIN)
                else:
                    s = r.choice("abcdefghijklmnopqrstuvwxyzABCDEFGHIJKLMNOPQRSTUVWXYZ_") + \
                        "".join(r.choice("abcdefghijklmnopqrstuvwxyzABCDEFGHIJKLMNOPQRSTUVWXYZ0123456789_")
                                for _ in range(r.choice([1, 2, 4, 7])))
            if ident_ok(s) and s not in self.used and set(s) != {"_"}:
                self.used.add(s)
                return s
        s = "n%d" % len(self.used)
        self.used.add(s)
        return s


BASE = ["bool", "byte", "i8", "i16", "i32", "i64", "double", "string", "binary", "uuid"]
HASHABLE_BASE = ["bool", "byte", "i8", "i16", "i32", "i64", "string", "binary", "uuid", "double"]
INT_RANGE = {"byte": 7, "i8": 7, "i16": 15, "i32": 31, "i64": 63}


class Doc:
    """files: list of dict(name, ns, includes=[idx], items=[item]); item: dict(kind, name, ...)"""
    def __init__(self):
        self.files = []

    # ---- rendering
    def ty_text(self, fi, t):
        k = t[0]
        if k == "base":
            return t[1]
        if k == "list":
            return "list<%s>" % self.ty_text(fi, t[1])
        if k == "set":
            return "set<%s>" % self.ty_text(fi, t[1])
        if k == "map":
            return "map<%s, %s>" % (self.ty_text(fi, t[1]), self.ty_text(fi, t[2]))
        if k == "ref":
            return t[2] if t[1] == fi else "%s.%s" % (self.stem(t[1]), t[2])
        raise ValueError(t)

    def stem(self, fi):
        return self.files[fi]["name"][:-len(".thrift")]

    def annos_text(self, annos):
        if not annos:
            return ""
        return " (" + ", ".join('%s = "%s"' % kv for kv in annos) + ")"

    def field_text(self, fi, f):
        s = "%d: " % f["id"]
        if f.get("req"):
            s += f["req"] + " "
        s += self.ty_text(fi, f["ty"]) + " " + f["name"]
        if f.get("default") is not None:
            s += " = " + f["default"]
        s += self.annos_text(f.get("annos"))
        return s

    def item_text(self, fi, it):
        k = it["kind"]
        if k == "typedef":
            return "typedef %s %s%s" % (self.ty_text(fi, it["ty"]), it["name"], self.annos_text(it.get("annos")))
        if k == "enum":
            return "enum %s {\n%s\n}" % (it["name"], "\n".join(
                "  %s%s," % (m, "" if v is None else " = %d" % v) for m, v in it["members"]))
        if k in ("struct", "exception", "union"):
            return "%s %s {\n%s\n}%s" % (k, it["name"], "\n".join("  %s," % self.field_text(fi, f) for f in it["fields"]),
                                         self.annos_text(it.get("annos")))
        if k == "const":
            return "const %s %s = %s" % (self.ty_text(fi, it["ty"]), it["name"], it["value"])
        if k == "service":
            ms = []
            for m in it["methods"]:
                s = "  %s%s %s(%s)" % ("oneway " if m.get("oneway") else "", "void" if m["ret"] is None else self.ty_text(fi, m["ret"]),
                                      m["name"], ", ".join(self.field_text(fi, a) for a in m["args"]))
                if m.get("throws"):
                    s += " throws (%s)" % ", ".join(self.field_text(fi, a) for a in m["throws"])
                s += self.annos_text(m.get("annos"))
                ms.append(s + ",")
            ext = ""
            if it.get("extends"):
                e = it["extends"]
                ext = " extends " + (e[2] if e[1] == fi else "%s.%s" % (self.stem(e[1]), e[2]))
            return "service %s%s {\n%s\n}" % (it["name"], ext, "\n".join(ms))
        raise ValueError(k)

    def file_text(self, fi):
        f = self.files[fi]
        out = []
        if f["ns"] is not None:
            out.append("namespace rs %s" % ".".join(f["ns"]))
        if f.get("other_ns"):
            out.append("namespace go x.y.z")
        for i in f["includes"]:
            out.append('include "%s"' % self.files[i]["name"])
        out.append("")
        for it in f["items"]:
            out.append(self.item_text(fi, it))
            out.append("")
        return "\n".join(out)

    def texts(self):
        return {f["name"]: self.file_text(i) for i, f in enumerate(self.files)}

    def size(self):
        return sum(len(f["items"]) for f in self.files)

    # ---- facts for the correspondence checks
    def find(self, fi, name):
        for it in self.files[fi]["items"]:
            if it["name"] == name:
                return it
        return None

    def type_ids(self):
        """(file, name) -> id for every type-like item, in a fixed order"""
        ids = {}
        for fi, f in enumerate(self.files):
            for it in f["items"]:
                if it["kind"] in ("struct", "exception", "union", "enum", "typedef"):
                    ids[(fi, it["name"])] = len(ids)
        return ids

    def type_graph(self):
        """the by-value graph in the runner's `box` syntax, and the list of (id, file, item)"""
        ids = self.type_ids()

        def fty(t):
            return "p%d" % ids[(t[1], t[2])] if t[0] == "ref" and (t[1], t[2]) in ids else "o"
        parts, index = [], []
        for (fi, name), i in sorted(ids.items(), key=lambda kv: kv[1]):
            it = self.find(fi, name)
            index.append((i, fi, it))
            # a field wrapped in Arc (pilota.rust_wrapper_arc) is ty::Arc(Path), not ty::Path: no edge of the type graph
            ftya = lambda f: "o" if dict(f.get("annos") or []).get("pilota.rust_wrapper_arc") else fty(f["ty"])
            if it["kind"] in ("struct", "exception"):
                parts.append("%d=M:%s" % (i, ",".join(ftya(f) for f in it["fields"])))
            elif it["kind"] == "union":
                parts.append("%d=E:%s" % (i, "/".join(ftya(f) for f in it["fields"])))
            elif it["kind"] == "enum":
                parts.append("%d=E:%s" % (i, "/".join("" for _ in it["members"])))
            else:
                parts.append("%d=N:%s" % (i, fty(it["ty"])))
        return ";".join(parts), index

    def scopes(self):
        """naming scopes: list of (label, kind, [original names]) -- fields of a struct, variants of a union / enum,
        methods of a service, arguments of a method"""
        out = []
        for fi, f in enumerate(self.files):
            for it in f["items"]:
                lab = "%s:%s" % (f["name"], it["name"])
                if it["kind"] in ("struct", "exception"):
                    out.append((lab, "field", [(x["name"], dict(x.get("annos") or []).get("pilota.name")) for x in it["fields"]]))
                elif it["kind"] == "union":
                    out.append((lab, "variant", [(x["name"], dict(x.get("annos") or []).get("pilota.name")) for x in it["fields"]]))
                elif it["kind"] == "enum":
                    out.append((lab, "constvariant", [(m, None) for m, _ in it["members"]]))
                elif it["kind"] == "service":
                    out.append((lab, "method", [(m["name"], dict(m.get("annos") or []).get("pilota.name")) for m in it["methods"]]))
                    for m in it["methods"]:
                        out.append((lab + "." + m["name"], "arg", [(a["name"], None) for a in m["args"]]))
        return out


class ThriftGen:
    def __init__(self, rng, exotic=0.5, max_fields=8, max_items=10, n_files=None, recursion=True, defaults=True,
                 annotations=True, union_cycles=0.0, path_kw_pairs=0.0, underscore=0.0, super_const=0.0, arc_btree_edges=0.0, btree_double=0.0):
        self.r = rng
        self.exotic = exotic
        self.max_fields, self.max_items = max_fields, max_items
        self.n_files = n_files
        self.recursion, self.defaults, self.annotations = recursion, defaults, annotations
        self.union_cycles, self.path_kw_pairs, self.underscore, self.super_const = union_cycles, path_kw_pairs, underscore, super_const
        self.arc_btree_edges, self.btree_double = arc_btree_edges, btree_double
        self.doc = Doc()

    # ---- what is visible from file fi: own items and items of (directly) included files
    def visible(self, fi, kinds):
        out = []
        for fj in [fi] + self.doc.files[fi]["includes"]:
            for it in self.doc.files[fj]["items"]:
                if it["kind"] in kinds:
                    out.append((fj, it))
        return out

    def hashable(self, t, depth=0):
        if depth > 4:
            return False
        k = t[0]
        if k == "base":
            return t[1] in HASHABLE_BASE
        if k == "list":
            return self.hashable(t[1], depth + 1)
        if k in ("set", "map"):
            return False
        it = self.doc.find(t[1], t[2])
        if it is None:
            return False
        if it["kind"] == "enum":
            return True
        if it["kind"] == "typedef":
            return self.hashable(it["ty"], depth + 1)
        if it["kind"] in ("struct", "union", "exception"):
            return it.get("complete", False) and all(self.hashable(f["ty"], depth + 1) for f in it["fields"])
        return False

    def no_double(self, t, depth=0):
        """Hash/Eq/Ord are derived only without f64 inside (pilota wraps doubles used as keys in OrderedFloat only at
        the top of the key type)"""
        if depth > 4:
            return False
        k = t[0]
        if k == "base":
            return t[1] != "double"
        if k == "list":
            return self.no_double(t[1], depth + 1)
        if k in ("set", "map"):
            return False
        it = self.doc.find(t[1], t[2])
        if it is None or it["kind"] == "enum":
            return it is not None
        if it["kind"] == "typedef":
            return self.no_double(it["ty"], depth + 1)
        return it.get("complete", False) and all(self.no_double(f["ty"], depth + 1) for f in it["fields"])

    def key_ty(self, fi):
        r = self.r
        if r.random() < 0.75:
            return ("base", r.choice([b for b in HASHABLE_BASE if b != "uuid"]))
        cands = [(fj, it) for fj, it in self.visible(fi, ("enum", "typedef", "struct"))
                 if self.no_double(("ref", fj, it["name"])) and self.hashable(("ref", fj, it["name"]))]
        if cands:
            fj, it = r.choice(cands)
            return ("ref", fj, it["name"])
        return ("base", r.choice(["i32", "string"]))

    def ty(self, fi, depth, self_ref=None, inner=False):
        """a field type; self_ref = (fi, name) of the struct being built when recursion through containers is allowed.
        (uuid is produced inside containers and as a typedef target too: finding F-14h is repaired)"""
        r = self.r
        k = r.random()
        if depth <= 0 or k < 0.45:
            return ("base", r.choice(BASE))
        if k < 0.55:
            return ("list", self.ty(fi, depth - 1, self_ref, True))
        if k < 0.62:
            return ("set", self.key_ty(fi))
        if k < 0.72:
            return ("map", self.key_ty(fi), self.ty(fi, depth - 1, self_ref, True))
        cands = self.visible(fi, ("struct", "union", "enum", "typedef", "exception"))
        cands = [(fj, it) for fj, it in cands if it.get("complete", True)]
        if self_ref is not None and self.recursion and r.random() < 0.25 and depth < 3:
            return ("ref", self_ref[0], self_ref[1])
        if cands:
            fj, it = r.choice(cands)
            return ("ref", fj, it["name"])
        return ("base", r.choice([b for b in BASE if b != "uuid"]))

    # ---- default values (well typed)
    def default_for(self, fi, t, depth=0):
        r = self.r
        k = t[0]
        if k == "base":
            b = t[1]
            if b in INT_RANGE:
                n = INT_RANGE[b]
                # -2^63 is rejected by the IDL parser (it parses the magnitude as i64 first): not generated
                return str(r.choice([0, 1, -1, 7, (1 << n) - 1, -(1 << n) + (1 if n == 63 else 0), r.randrange(-(1 << n) + 1, 1 << n)]))
            if b == "bool":
                return r.choice(["true", "false", "1", "0"])
            if b == "double":
                return r.choice(["0", "1", "-3", "1.5", "-0.25", "1e3", "2.5e-3", "1E2", "123456789.125"])
            if b == "string":
                return r.choice(['"hello"', "'single'", '""', '"with space"', "'say \"hi\"'", '"nl\\n"', '"it\'s"',
                                 '"quote \\" inside"', '"back\\\\slash"', '"unicode é"'])
            if b == "binary":
                return r.choice(['"bytes"', '""', "'b'"])
            return None
        if depth > 2 and k in ("list", "set", "map"):
            return None     # (container literals inside container literals are generated since F-14g is repaired)
        if k == "list":
            n = r.choice([0, 1, 3])
            vs = [self.default_for(fi, t[1], depth + 1) for _ in range(n)]
            return None if any(v is None for v in vs) else "[" + ", ".join(vs) + "]"
        if k == "set":
            if t[1][0] != "base" or t[1][1] in ("double", "binary", "uuid"):
                return None
            vs = []
            for _ in range(r.choice([0, 1, 2])):
                v = self.default_for(fi, t[1], depth + 1)
                if v is not None and v not in vs:
                    vs.append(v)
            return "[" + ", ".join(vs) + "]"
        if k == "map":
            if r.random() < 0.3:
                return r.choice(["{}", "[]"])
            if t[1][0] != "base" or t[1][1] in ("double", "binary", "uuid", "bool"):
                return None
            kvs, seen = [], set()
            for _ in range(r.choice([1, 2])):
                kk, vv = self.default_for(fi, t[1], depth + 1), self.default_for(fi, t[2], depth + 1)
                if kk is None or vv is None:
                    return None
                if kk not in seen:
                    seen.add(kk)
                    kvs.append("%s: %s" % (kk, vv))
            return "{" + ", ".join(kvs) + "}"
        it = self.doc.find(t[1], t[2])
        if it is None:
            return None
        if it["kind"] == "enum":
            m, v = r.choice(it["members"])
            q = it["name"] if t[1] == fi else "%s.%s" % (self.doc.stem(t[1]), it["name"])
            vals = self.enum_values(it)
            if r.random() < 0.3 and list(vals.values()).count(vals[m]) == 1:
                return str(vals[m])
            return "%s.%s" % (q, m)
        if it["kind"] == "typedef":
            tt = it["ty"]
            # (defaults through a typedef'd enum are generated since F-14l is repaired)
            return self.default_for(fi, tt, depth)
        return None

    @staticmethod
    def enum_values(it):
        vals, nxt = {}, 0
        for m, v in it["members"]:
            if v is not None:
                nxt = v
            vals[m] = nxt
            nxt += 1
        return vals

    # ---- items
    def field_ids(self, n):
        r = self.r
        ids = set()
        while len(ids) < n:
            ids.add(r.choice([r.randrange(1, 20), r.randrange(1, 20), r.randrange(1, 300), r.randrange(1, 32768)]))
        ids = list(ids)
        if r.random() < 0.5:
            ids.sort()
        else:
            r.shuffle(ids)
        return ids

    def fields(self, fi, n, kind, self_ref=None):
        r = self.r
        names = Names(r, self.exotic)
        if kind == "struct" and r.random() < self.path_kw_pairs:
            k = r.choice(PATH_KW)
            names.queue.extend([k + "_", k])
        if kind == "struct" and r.random() < self.underscore:
            names.queue.append("_")
            names.used.discard("_")
        out = []
        for fid in self.field_ids(n):
            nm = names.queue.pop() if names.queue and names.queue[-1] == "_" else names.fresh()
            t = self.ty(fi, 2, self_ref)
            f = dict(id=fid, name=nm, ty=t, req="", default=None, annos=[])
            if kind == "union":
                f["req"] = ""
            elif kind == "args":
                f["req"] = r.choice(["", "", "required", "optional"])
            else:
                f["req"] = r.choice(["", "required", "optional", "optional"])
            direct_self = self_ref is not None and t == ("ref", self_ref[0], self_ref[1])
            if direct_self and kind != "union":
                f["req"] = "optional"
            if self.defaults and kind in ("struct",) and r.random() < 0.35 and not direct_self:
                f["default"] = self.default_for(fi, t)
            if self.annotations and kind == "struct":
                q = r.random()
                # btree containers holding doubles (finding F-14k, repaired: they no longer get #[derive(Hash, Eq, Ord)]) are
                # produced with probability btree_double
                if q < 0.04 and t[0] == "map" and self.no_double(t[1]) and (self.no_double(t[2]) or r.random() < self.btree_double):
                    f["annos"].append(("pilota.rust_type", "btree"))
                elif q < 0.08 and t[0] == "set" and self.no_double(t[1]):
                    f["annos"].append(("pilota.rust_type", "btree"))
                elif q < 0.12 and t == ("base", "string") and f["default"] is None:
                    f["annos"].append(("pilota.rust_type", "string"))
                elif q < 0.16 and t == ("base", "binary") and f["default"] is None:
                    f["annos"].append(("pilota.rust_type", "vec"))
                elif q < 0.20 and t[0] == "ref" and not direct_self and f["default"] is None and \
                        self.doc.find(t[1], t[2])["kind"] in ("struct", "union"):
                    f["annos"].append(("pilota.rust_wrapper_arc", "true"))
                elif q < 0.24:
                    f["annos"].append(("pilota.name", "renamed_%d" % fid))
            out.append(f)
        return out

    def gen_items(self, fi, n):
        r = self.r
        f = self.doc.files[fi]
        names = Names(r, self.exotic)
        # avoid names whose generated service helper types could collide with user types
        for _ in range(n):
            kinds = ["struct"] * 4 + ["enum"] * 2 + ["typedef"] * 2 + ["union"] * 2 + ["const"] * 2 + ["service"] * 2 + ["exception"]
            k = r.choice(kinds)
            nm = names.fresh()
            while nm in ("T", "t") or (k == "const" and nm in RUST_KEYWORDS) or (k == "service" and nm.startswith("_")):
                # type named T: finding F-14m;  const named like a keyword is pasted unescaped (change_case off): F-14n;
                # service _1: helper types named `1...ResultSend`: F-14p
                nm = names.fresh()
            if k == "const" and r.random() < 0.7 and nm.upper() not in names.used:
                # with change_case off a lower-case const turns equally named `let` bindings of the emitted code into
                # constant patterns (F-14o); most consts are written the conventional way
                names.used.add(nm.upper())
                nm = nm.upper()
            if k == "enum":
                mn = Names(r, self.exotic)
                members, used_vals, nxt = [], set(), 0
                for _ in range(r.choice([1, 2, 3, 5, 8])):
                    v = None
                    if r.random() < 0.5:
                        v = r.choice([nxt + r.randrange(0, 5), r.randrange(-50, 1000), r.choice([-(1 << 31), (1 << 31) - 1 - len(members)])])
                    val = nxt if v is None else v
                    if val in used_vals or val > (1 << 31) - 1:
                        v, val = None, max(used_vals) + 1 if used_vals else 0
                        if val > (1 << 31) - 1:
                            break
                        v = val
                    used_vals.add(val)
                    nxt = val + 1
                    members.append((mn.fresh(), v))
                f["items"].append(dict(kind="enum", name=nm, members=members, complete=True))
            elif k == "typedef":
                t = self.ty(fi, 2)
                f["items"].append(dict(kind="typedef", name=nm, ty=t, complete=True, annos=[]))
            elif k in ("struct", "exception"):
                it = dict(kind=k, name=nm, fields=[], complete=False, annos=[])
                f["items"].append(it)
                it["fields"] = self.fields(fi, r.choice([0, 1, 2, 3, 5, self.max_fields]), "struct",
                                           (fi, nm) if k == "struct" else None)
                it["complete"] = True
            elif k == "union":
                it = dict(kind="union", name=nm, fields=[], complete=False, annos=[])
                f["items"].append(it)
                it["fields"] = self.fields(fi, r.choice([1, 2, 3, 6]), "union", (fi, nm) if self.recursion else None)
                # a union referring to itself by value is an infinite type (class F-14b): only through containers
                for x in it["fields"]:
                    if x["ty"] == ("ref", fi, nm):
                        x["ty"] = ("list", x["ty"])
                it["complete"] = True
            elif k == "const":
                t = self.ty(fi, 2)
                v = self.default_for(fi, t)
                if v is None or (t[0] == "map" and v == "[]"):      # (consts of set type are generated since F-14i is repaired)
                    t, v = ("base", "i32"), str(r.randrange(-100, 100))
                f["items"].append(dict(kind="const", name=nm, ty=t, value=v))
            else:
                self.gen_service(fi, nm)
        if self.recursion and r.random() < 0.5:
            self.gen_cycle_cluster(fi, names)

    def gen_cycle_cluster(self, fi, names):
        """2-3 mutually recursive structs whose edges go through every carrier (optional / plain field, list, nested list, map
        value), declared in a random order, some members holding a double directly or through an earlier / a fresh leaf
        struct (derive decisions of pilota-build's AutoDerive fixpoint depend on the walk order through such cycles)"""
        r = self.r
        f = self.doc.files[fi]
        k = r.choice([2, 2, 3])
        nms = []
        while len(nms) < k:
            nm = names.fresh()
            if nm not in ("T", "t"):
                nms.append(nm)
        leaf = None
        if r.random() < 0.7:
            leaf = names.fresh()
            while leaf in ("T", "t"):
                leaf = names.fresh()
            lt = r.choice([("base", "double"), ("list", ("base", "double")), ("map", ("base", "i32"), ("base", "double")),
                           ("set", ("base", "string")), ("base", "i64")])
            f["items"].append(dict(kind="struct", name=leaf, complete=True, annos=[],
                                   fields=[dict(id=1, name="value", ty=lt, req=r.choice(["", "required"]), default=None, annos=[])]))
        its = [dict(kind="struct", name=nm, fields=[], complete=True, annos=[]) for nm in nms]

        def carrier(t):
            q = r.random()
            if q < 0.25:
                return t, "optional", []
            if q < 0.35:
                return t, r.choice(["", "required"]), []      # plain by-value edge: BoxedPlugin must box it
            if q < 0.62:
                return ("list", t), r.choice(["", "required", "optional"]), []
            if q < 0.76:
                return ("list", ("list", t)), "", []
            if q < self.arc_btree_edges * 0.5 + 0.76:
                # cycle edges below Arc / btree containers (finding F-14s, repaired: the workspace graph has them now, so a member
                # delayed on such an edge is downgraded with the rest of its cycle)
                return t, "optional", [("pilota.rust_wrapper_arc", "true")]
            if q < self.arc_btree_edges + 0.76:
                return ("map", ("base", "i32"), t), "", [("pilota.rust_type", "btree")]
            return ("map", ("base", r.choice(["string", "i32"])), t), r.choice(["", "required"]), []
        for i, it in enumerate(its):
            fid = 1
            order = []
            t, req, an = carrier(("ref", fi, nms[(i + 1) % k]))
            order.append(dict(id=0, name="next", ty=t, req=req, default=None, annos=an))
            if r.random() < 0.3:
                t, req, an = carrier(("ref", fi, nms[(i + k - 1) % k]))
                order.append(dict(id=0, name="prev", ty=t, req=req, default=None, annos=an))
            if leaf is not None and r.random() < 0.5:
                order.append(dict(id=0, name="weight", ty=("ref", fi, leaf), req=r.choice(["", "required", "optional"]), default=None, annos=[]))
            if r.random() < 0.3:
                order.append(dict(id=0, name="ratio", ty=("base", "double"), req="", default=None, annos=[]))
            if r.random() < 0.5:
                order.append(dict(id=0, name="tag", ty=("base", r.choice(["i32", "string", "bool"])), req="", default=None, annos=[]))
            r.shuffle(order)
            for x in order:
                x["id"] = fid
                fid += r.choice([1, 1, 3])
            it["fields"] = order
        r.shuffle(its)
        f["items"].extend(its)

    def gen_service(self, fi, nm):
        r = self.r
        mn = Names(r, self.exotic)
        methods = []
        excs = self.visible(fi, ("exception",))
        for _ in range(r.choice([0, 1, 2, 3, 6])):
            an = Names(r, self.exotic)
            args = []
            for fid in self.field_ids(r.choice([0, 1, 2, 4])):
                args.append(dict(id=fid, name=an.fresh(), ty=self.ty(fi, 2), req=r.choice(["", "", "required", "optional"]), default=None, annos=[]))
            m = dict(name=mn.fresh(), args=args, ret=None if r.random() < 0.3 else self.ty(fi, 2), throws=[], oneway=False)
            if m["ret"] is None and r.random() < 0.3:
                m["oneway"] = True
            elif excs and r.random() < 0.4:
                en = Names(r, self.exotic)
                for i, (fj, e) in enumerate(r.sample(excs, min(len(excs), r.choice([1, 2])))):
                    m["throws"].append(dict(id=i + 1, name=en.fresh(), ty=("ref", fj, e["name"]), req="", default=None, annos=[]))
            if self.annotations and r.random() < 0.15:
                # pilota.name on a function, whatever else it has (throws, oneway, colliding siblings)
                m["annos"] = [("pilota.name", "renamed_fn_%d" % len(methods))]
            methods.append(m)
        ext = None
        svcs = self.visible(fi, ("service",))
        if svcs and r.random() < 0.4:
            fj, s = r.choice(svcs)
            ext = ("ref", fj, s["name"])
        self.doc.files[fi]["items"].append(dict(kind="service", name=nm, methods=methods, extends=ext))

    def namespace(self, i):
        r = self.r
        k = r.random()
        if k < 0.12:
            return None
        segs = []
        pool = ["a", "b", "m", "x", "y", "pkg", "v1", "api", "type", "mod", "self", "crate", "super", "fn", "Upper", "camelCase",
                "snake_case", "_lead", "common", "gen", "std", "core", "pilota"]
        # related namespaces: relative paths between modules that share a prefix, diverge and AGREE AGAIN further down
        # (shop.order.model next to shop.user.model), that are nested in one another, or that are siblings deep down
        prev = [f["ns"] for f in self.doc.files[:i] if f.get("ns")]
        if prev and k < 0.55:
            p = list(r.choice(prev))
            q = r.random()
            if q < 0.4 and len(p) >= 2:
                j = r.randrange(len(p) - 1)
                alt = r.choice([x for x in pool if x != p[j]])
                cand = p[:j] + [alt] + p[j + 1:]            # same depth, one inner segment differs, the tail agrees again
            elif q < 0.6:
                cand = p + [r.choice(pool)]                  # child
            elif q < 0.75 and len(p) >= 2:
                cand = p[:-1]                                # parent
            else:
                cand = p[:-1] + [r.choice([x for x in pool if x != p[-1]])]   # sibling
            if cand and cand not in prev:
                return cand
        for _ in range(r.choice([1, 1, 2, 2, 3, 4])):
            segs.append(r.choice(pool))
        return segs

    def gen(self):
        r = self.r
        n = self.n_files or r.choice([1, 1, 2, 3, 4])
        for i in range(n):
            self.doc.files.append(dict(name="f%d.thrift" % i if i else "main.thrift", ns=None, includes=[], items=[], other_ns=r.random() < 0.3))
        # file i may include files j > i (file 0 is the entry); diamonds allowed
        for i in range(n):
            self.doc.files[i]["ns"] = self.namespace(i)
            self.doc.files[i]["includes"] = sorted(j for j in range(i + 1, n) if r.random() < 0.6 or (i == 0 and j == 1))
        # make sure every file is reachable from the entry
        reach = {0}
        changed = True
        while changed:
            changed = False
            for i in sorted(reach):
                for j in self.doc.files[i]["includes"]:
                    if j not in reach:
                        reach.add(j)
                        changed = True
        for j in range(1, n):
            if j not in reach:
                self.doc.files[0]["includes"].append(j)
        # leaves first, so that references to included items exist
        for i in reversed(range(n)):
            self.gen_items(i, r.choice([2, 4, 6, self.max_items]))
        self.plant()
        return self.doc

    # ---- the known-finding classes stay in the grammar
    def plant(self):
        r = self.r
        f0 = self.doc.files[0]
        used = {it["name"] for it in f0["items"]}
        if r.random() < self.union_cycles:
            a, b = "CycUa", "CycUb"
            if a not in used and b not in used:
                f0["items"].append(dict(kind="union", name=a, complete=True, annos=[],
                                        fields=[dict(id=1, name="b", ty=("ref", 0, b), req="", default=None, annos=[]),
                                                dict(id=2, name="i", ty=("base", "i32"), req="", default=None, annos=[])]))
                f0["items"].append(dict(kind="union", name=b, complete=True, annos=[],
                                        fields=[dict(id=1, name="a", ty=("ref", 0, a), req="", default=None, annos=[]),
                                                dict(id=2, name="j", ty=("base", "i32"), req="", default=None, annos=[])]))


def sweep_doc():
    """a fixed document that is always part of the C14 corpus: every Rust keyword as field / variant / method / argument
    name, case-conversion collisions among fields and among items, recursion through optional fields, containers and
    unions, references across three namespaces (up, down and sideways)"""
    d = Doc()
    kws = [k for k in RUST_KEYWORDS if ident_ok(k)]
    fl = lambda i, n, t, req="": dict(id=i, name=n, ty=t, req=req, default=None, annos=[])
    i32 = ("base", "i32")
    d.files.append(dict(name="main.thrift", ns=["sw", "a", "deep"], includes=[1, 2], items=[], other_ns=False))
    d.files.append(dict(name="f1.thrift", ns=["sw", "a"], includes=[2], items=[], other_ns=False))
    d.files.append(dict(name="f2.thrift", ns=["sw", "type"], includes=[], items=[], other_ns=False))
    f0, f1, f2 = d.files
    f2["items"] += [
        dict(kind="struct", name="Leaf", complete=True, annos=[], fields=[fl(1, "v", ("base", "i64"), "required")]),
        dict(kind="enum", name="Color", complete=True, members=[("red", 1), ("fooBar", 2), ("foo_bar", 3), ("type", None)]),
        dict(kind="typedef", name="LeafAlias", ty=("ref", 2, "Leaf"), complete=True, annos=[]),
        dict(kind="const", name="LIMIT", ty=i32, value="7"),
    ]
    f1["items"] += [
        dict(kind="struct", name="KwFields", complete=True, annos=[], fields=[fl(i + 1, k, i32, "optional") for i, k in enumerate(kws) if k not in ("self", "Self", "super", "crate")] +
             [fl(200, "self", i32), fl(201, "Self", i32), fl(202, "super", i32), fl(203, "crate", i32)]),
        dict(kind="union", name="KwVariants", complete=True, annos=[], fields=[fl(i + 1, k, i32) for i, k in enumerate(kws[:20])]),
        dict(kind="struct", name="Collide", complete=True, annos=[], fields=[fl(1, "fooBar", i32), fl(2, "foo_bar", i32), fl(3, "FooBar", ("base", "string")),
                                                                          fl(4, "IDs", i32), fl(5, "Ids", i32), fl(6, "plain", ("ref", 2, "Leaf"), "optional")]),
        dict(kind="struct", name="fooItem", complete=True, annos=[], fields=[fl(1, "x", i32)]),
        dict(kind="struct", name="foo_item", complete=True, annos=[], fields=[fl(1, "x", ("ref", 2, "Color"))]),
        dict(kind="struct", name="FooItem", complete=True, annos=[], fields=[fl(1, "x", ("ref", 1, "fooItem"), "optional")]),
        dict(kind="struct", name="Rec", complete=True, annos=[], fields=[fl(1, "next", ("ref", 1, "Rec"), "optional"), fl(2, "kids", ("list", ("ref", 1, "Rec"))),
                                                                      fl(3, "m", ("map", ("base", "string"), ("ref", 1, "Rec"))), fl(4, "leaf", ("ref", 2, "LeafAlias"))]),
        dict(kind="struct", name="MutA", complete=True, annos=[], fields=[fl(1, "b", ("ref", 1, "MutB"), "optional"), fl(2, "u", ("ref", 1, "MutU"), "optional")]),
        dict(kind="struct", name="MutB", complete=True, annos=[], fields=[fl(1, "a", ("ref", 1, "MutA"), "optional"), fl(2, "n", i32, "required")]),
        dict(kind="union", name="MutU", complete=True, annos=[], fields=[fl(1, "a", ("ref", 1, "MutA")), fl(2, "i", i32)]),
    ]
    # derive-fixpoint sweep: two-struct cycles whose back edge goes through each carrier, in both declaration orders, where
    # one member is not Hash/Eq/Ord (resp. not PartialOrd) only through a LATER field of another struct type
    leafs = [("LeafF", ("base", "double")), ("LeafM", ("map", ("base", "i32"), ("base", "string"))), ("LeafS", ("set", ("base", "string")))]
    for ln, lt in leafs:
        f1["items"].append(dict(kind="struct", name=ln, complete=True, annos=[], fields=[fl(1, "value", lt, "required")]))
    carriers = [("L", lambda t: (("list", t), "required")), ("O", lambda t: (t, "optional")), ("M", lambda t: (("map", ("base", "string"), t), ""))]
    for (ln, _lt) in leafs:
        for cn, cf in carriers:
            for order in (0, 1):
                a, b = "Dn%s%s%d" % (ln[-1], cn, order), "De%s%s%d" % (ln[-1], cn, order)
                ta, ra = cf(("ref", 1, b))
                tb, rb = cf(("ref", 1, a))
                A = dict(kind="struct", name=a, complete=True, annos=[], fields=[fl(1, "edges", ta, ra), fl(2, "weight", ("ref", 1, ln), "required")])
                B = dict(kind="struct", name=b, complete=True, annos=[], fields=[fl(1, "targets", tb, rb)])
                f1["items"] += [A, B] if order == 0 else [B, A]
    f0["items"] += [
        dict(kind="struct", name="Top", complete=True, annos=[], fields=[fl(1, "r", ("ref", 1, "Rec"), "optional"), fl(2, "l", ("ref", 2, "Leaf"), "required"),
                                                                      fl(3, "c", ("ref", 2, "Color")), fl(4, "k", ("ref", 1, "KwFields"), "optional"),
                                                                      dict(id=5, name="lim", ty=i32, req="", default="f2.LIMIT", annos=[]),
                                                                      dict(id=6, name="col", ty=("ref", 2, "Color"), req="", default="f2.Color.fooBar", annos=[])]),
        dict(kind="exception", name="Oops", complete=True, annos=[], fields=[fl(1, "why", ("base", "string"))]),
        dict(kind="service", name="KwSvc", extends=None, methods=[
            dict(name=k, args=[fl(1, kws[(j + 1) % len(kws)], i32), fl(2, "x", ("ref", 1, "Collide"))], ret=("ref", 2, "Leaf") if j % 2 else None, throws=[], oneway=False)
            for j, k in enumerate(kws[:12])] + [
            dict(name="fail", args=[fl(1, "t", ("ref", 0, "Top"))], ret=("ref", 1, "MutA"), throws=[fl(1, "e", ("ref", 0, "Oops"))], oneway=False)]),
    ]
    return d


def collision_block(fi, tag, leaf=None):
    """items of one file that collide after case conversion in every scope pilota-build converts names in: two services whose
    names coincide after UpperCamel conversion and that share method names (their helper items <Service><Method>ArgsSend ... are
    told apart only by ThriftLower.service_name_duplicates), a third pair spelled with an underscore, methods that collide inside one
    service (function_name_duplicates), structs, fields, enum members, consts.  `leaf` = (file index, struct name) of a type of
    another file to refer to."""
    fl = lambda i, n, t, req="": dict(id=i, name=n, ty=t, req=req, default=None, annos=[])
    i32, s = ("base", "i32"), ("base", "string")
    other = ("ref", leaf[0], leaf[1]) if leaf else i32
    req = ("ref", fi, "Req" + tag)
    items = [
        dict(kind="struct", name="Req" + tag, complete=True, annos=[], fields=[fl(1, "fooBar", i32), fl(2, "foo_bar", s), fl(3, "FooBar", i32), fl(4, "far", other, "optional")]),
        dict(kind="struct", name="fooItem" + tag, complete=True, annos=[], fields=[fl(1, "x", i32)]),
        dict(kind="struct", name="foo_item" + tag, complete=True, annos=[], fields=[fl(1, "x", s)]),
        dict(kind="struct", name="FooItem" + tag, complete=True, annos=[], fields=[fl(1, "x", ("ref", fi, "fooItem" + tag), "optional")]),
        dict(kind="enum", name="Mode" + tag, complete=True, members=[("fastPath", 1), ("fast_path", 2), ("FastPath", 3)]),
        dict(kind="const", name="MaxLen" + tag, ty=i32, value="7"),
        dict(kind="const", name="MAX_LEN" + tag, ty=i32, value="8"),
        dict(kind="exception", name="Oops" + tag, complete=True, annos=[], fields=[fl(1, "why", s)]),
    ]

    def svc(name, methods):
        return dict(kind="service", name=name, extends=None, methods=[
            dict(name=m, args=[fl(1, "req", req), fl(2, "Req", i32)] if j == 0 else [fl(1, "q", other)], ret=req if j % 2 == 0 else None,
                 throws=[fl(1, "e", ("ref", fi, "Oops" + tag))] if j == 0 else [], oneway=False) for j, m in enumerate(methods)])
    items += [svc("Search" + tag, ["query", "ping", "getItem", "get_item"]), svc("search" + tag, ["query", "ping", "GetItem"]),
              svc("user_svc" + tag, ["query"]), svc("UserSvc" + tag, ["query", "Query"])]
    return items


def collision_include_docs():
    """directed documents: collision features x include -- the collisions in the including file only, in the included file only,
    in both (a chain main -> f1 -> f2 where the middle file is including and included at once), and a diamond"""
    fl = lambda i, n, t, req="": dict(id=i, name=n, ty=t, req=req, default=None, annos=[])
    leaf = lambda name: dict(kind="struct", name=name, complete=True, annos=[], fields=[fl(1, "v", ("base", "i64"), "required")])
    plain_user = lambda fi, target: dict(kind="struct", name="Holder%d" % fi, complete=True, annos=[],
                                         fields=[fl(1, "x", ("ref", target[0], target[1]), "required"), fl(2, "xs", ("list", ("ref", target[0], target[1])))])
    out = []

    def mk(name, layout):
        d = Doc()
        for i, (ns, inc) in enumerate(layout):
            d.files.append(dict(name="main.thrift" if i == 0 else "f%d.thrift" % i, ns=ns, includes=inc, items=[], other_ns=False))
        out.append((name, d))
        return d
    # 1. collisions in the including file
    d = mk("ci_including", [(["ci", "top"], [1]), (["ci", "leafs"], [])])
    d.files[1]["items"] += [leaf("Leaf")]
    d.files[0]["items"] += collision_block(0, "", (1, "Leaf"))
    # 2. collisions in the included file only
    d = mk("ci_included", [(["cj", "top"], [1]), (["cj", "lib"], [])])
    d.files[1]["items"] += collision_block(1, "")
    d.files[0]["items"] += [plain_user(0, (1, "Req")), dict(kind="service", name="Front", extends=("ref", 1, "Search"), methods=[])]
    # 3. both, as a chain: main (collisions, includes f1) -> f1 (collisions, includes f2) -> f2 (plain); no namespace in f1
    d = mk("ci_chain", [(["ck"], [1]), (None, [2]), (["ck", "deep", "leafs"], [])])
    d.files[2]["items"] += [leaf("Leaf")]
    d.files[1]["items"] += collision_block(1, "", (2, "Leaf"))
    d.files[0]["items"] += collision_block(0, "", (1, "Req"))
    # 4. diamond: main includes f1 and f2, both include f3; collisions in main and in f2, main's services declared BEFORE and the
    #    collision partner AFTER other items
    d = mk("ci_diamond", [(["cd", "a"], [1, 2]), (["cd", "b"], [3]), (["cd", "a", "b"], [3]), (["cd"], [])])
    d.files[3]["items"] += [leaf("Leaf")]
    d.files[1]["items"] += [plain_user(1, (3, "Leaf"))]
    d.files[2]["items"] += collision_block(2, "X", (3, "Leaf"))
    blk = collision_block(0, "", (2, "ReqX"))
    d.files[0]["items"] += [x for x in blk if x["kind"] == "service"][:1] + [x for x in blk if x["kind"] != "service"] + [x for x in blk if x["kind"] == "service"][1:]
    return out


ANNO_LIB = 'namespace rs an.lib\n\nstruct Leaf {\n  1: required i64 v (pilota.name = "value64"),\n} (pilota.name = "LeafNode")\n\nexception Denied {\n  1: string why,\n  2: optional i32 code (pilota.name = "status_code"),\n} (pilota.name = "AccessDenied")\n\nenum Level {\n  low = 1 (pilota.name = "Lowest"),\n  high = 2,\n} (pilota.name = "Severity")\n\nconst i32 LIMIT = 7 (pilota.name = "HARD_LIMIT")\n\nservice Base {\n  Leaf fetch(1: i32 id (pilota.name = "ident")) throws (1: Denied d) (pilota.name = "load"),\n  void ping(),\n} (pilota.name = "BaseService")\n'

ANNO_MAIN = 'namespace rs an.top\ninclude "lib.thrift"\n\ntypedef map<set<i32>, string> Index (pilota.rust_type = "btree")\ntypedef string Label (pilota.name = "Caption")\ntypedef list<lib.Leaf> Leaves (pilota.rust_wrapper_arc = "true")\n\nenum Color {\n  red = 1 (pilota.name = "Crimson"),\n  green = 2 (pilota.name = "dark_green"),\n  blue,\n} (pilota.name = "Paint")\n\nconst i32 MAX = 10 (pilota.name = "UPPER_BOUND")\nconst map<i32, list<string>> TABLE = {1: ["a"], 2: []} (pilota.rust_type = "btree")\nconst Color FAVOURITE = Color.red (pilota.name = "FAV")\n\nstruct Item {\n  1: required string id (pilota.name = "ident", pilota.rust_type = "string"),\n  2: optional string note (pilota.rust_type = "string"),\n  3: binary raw (pilota.rust_type = "vec"),\n  4: map<i32, double> weights = {1: 1.5} (pilota.rust_type = "btree", pilota.name = "weight_table"),\n  5: set<string> tags = ["x", "y"] (pilota.rust_type = "btree"),\n  6: optional lib.Leaf leaf (pilota.rust_wrapper_arc = "true", pilota.name = "shared_leaf"),\n  7: list<lib.Leaf> leaves (pilota.rust_wrapper_arc = "true"),\n  8: map<string, lib.Leaf> by_name (pilota.rust_wrapper_arc = "true", pilota.rust_type = "btree"),\n  9: Color color = Color.green (pilota.name = "paint"),\n  10: i32 limit = MAX (pilota.name = "cap"),\n  11: i32 lib_limit = lib.LIMIT,\n  12: optional Item next (pilota.name = "successor"),\n  13: string fooBar (pilota.name = "foo_bar"),\n  14: string foo_bar (pilota.name = "fooBar"),\n  15: string plain = "dflt" (pilota.serde_attribute = "#[serde(default)]"),\n  16: lib.Level level = lib.Level.low,\n  17: Label label = "cap" (pilota.name = "caption"),\n} (pilota.name = "StockItem", pilota.serde_attribute = "#[serde(rename_all = \\"camelCase\\")]")\n\nunion Choice {\n  1: Item item (pilota.name = "Stock"),\n  2: string text (pilota.rust_type = "string", pilota.name = "free_text"),\n  3: lib.Leaf leaf (pilota.rust_wrapper_arc = "true"),\n} (pilota.name = "Selection")\n\nexception Conflict {\n  1: string why (pilota.name = "reason"),\n} (pilota.name = "WriteConflict")\n\nexception Missing {\n  1: string key,\n}\n\nservice Store extends lib.Base {\n  Item put(1: Item item (pilota.name = "stock"), 2: i32 ttl) throws (1: Conflict c, 2: lib.Denied d) (pilota.name = "upsert"),\n  oneway void hint(1: string key) (pilota.name = "prefetch"),\n  Item getItem(1: string key) throws (1: Missing m) (pilota.name = "get_item"),\n  list<Item> scan(1: Color color (pilota.name = "paint")) (pilota.name = "scan_all"),\n  void ScanAll(),\n  Item (pilota.rust_wrapper_arc = "true") shared(1: Item item (pilota.rust_wrapper_arc = "true")) throws (1: Missing m) (pilota.name = "shared_item"),\n  Choice choose(1: Choice c) throws (1: Conflict c2),\n  void plain() throws (1: Missing m),\n} (pilota.name = "Warehouse")\n\nservice store {\n  Item put(1: Item item) throws (1: Conflict c) (pilota.name = "Upsert"),\n}\n'


def annotation_docs():
    """directed documents (raw text, no AST): the four pilota annotations on every position the grammar allows them -- pilota.name on
    structs / exceptions / unions / enums / enum members / typedefs / consts / services / functions / arguments / fields / variants,
    pilota.rust_type (string, vec, btree) on fields, variants, typedefs and consts, pilota.rust_wrapper_arc on fields (plain, list, map
    value), variants, typedefs, a return type and an argument, pilota.serde_attribute on a field and a struct -- each combined with the
    other features of the same item: function x throws (own and included exception, renamed exceptions) / oneway / a renamed function
    whose name equals another function after conversion / `extends` of a renamed service of the included file / case-colliding services;
    field x default (literal, enum member of a renamed enum, renamed const, const of the included file) / optional / recursion /
    swapped names; const x reference from a default.  -> [(name, files, entry)]"""
    only_main = ANNO_MAIN.replace('include "lib.thrift"\n', "")
    return [("anno_include", {"main.thrift": ANNO_MAIN, "lib.thrift": ANNO_LIB}, "main.thrift"),
            # the included file alone as the entry (a renamed function with `throws` in a file without includes)
            ("anno_single", {"main.thrift": ANNO_LIB}, "main.thrift")]


def split_name_docs():
    """directed documents for split mode (one file per item, named {kind}_{name}.rs, case-insensitively unique per module): items of
    every kind whose names collide ignoring case (2-way and 3-way) TOGETHER with items literally named like the suffixed forms
    (X_2, x_2, X_2_2, x_3), in three declaration orders.  -> [(name, Doc)]"""
    fl = lambda i, n, t, req="": dict(id=i, name=n, ty=t, req=req, default=None, annos=[])
    i32, s = ("base", "i32"), ("base", "string")

    def items():
        st = lambda n, k: dict(kind="struct", name=n, complete=True, annos=[], fields=[fl(1, "f%d" % k, i32), fl(2, "g", s, "optional")])
        ex = lambda n, k: dict(kind="exception", name=n, complete=True, annos=[], fields=[fl(1, "why%d" % k, s)])
        en = lambda n, k: dict(kind="enum", name=n, complete=True, members=[("A%d" % k, 0), ("B%d" % k, k + 1)])
        un = lambda n, k: dict(kind="union", name=n, complete=True, annos=[], fields=[fl(1, "a%d" % k, i32), fl(2, "b", s)])
        td = lambda n, k: dict(kind="typedef", name=n, ty=("list", ("base", "i64")) if k % 2 else s, complete=True, annos=[])
        co = lambda n, k: dict(kind="const", name=n, ty=i32, value=str(k))
        sv = lambda n, k: dict(kind="service", name=n, extends=None, methods=[
            dict(name="ping%d" % k, args=[fl(1, "x", i32)], ret=i32, throws=[], oneway=False)])
        out = []
        # messages (struct + exception share the prefix `message`): 3-way collision + the literal suffixed forms
        out += [st("Ab", 0), st("ab", 1), ex("AB", 2), st("Ab_2", 3), st("ab_2", 4), ex("Ab_2_2", 5), st("ab_3", 6)]
        # enums (enum + union share the prefix `enum`): 2-way + suffixed forms
        out += [en("Mode", 0), un("MODE", 1), en("Mode_2", 2), un("MODE_2", 3), en("Mode_3", 4)]
        # typedefs (new_type), consts, services
        out += [td("Tag", 0), td("TAG", 1), td("Tag_2", 2), td("TAG_2_2", 3)]
        out += [co("Limit", 0), co("LIMIT", 1), co("LIMIT_2", 2), co("Limit_2", 3), co("Limit_3", 4)]
        out += [sv("Svc", 0), sv("svc", 1), sv("SVC", 2), sv("svc_2", 3), sv("Svc_2", 4), sv("svc_3", 5)]
        return out
    docs = []
    for tag, order in (("decl", lambda l: l), ("rev", lambda l: list(reversed(l))), ("mix", lambda l: l[1::2] + l[0::2])):
        d = Doc()
        d.files.append(dict(name="main.thrift", ns=["sn", tag], includes=[], items=order(items()), other_ns=False))
        docs.append(("split_names_" + tag, d))
    return docs


def gen_thrift_doc(rng, **kw):
    return ThriftGen(rng, **kw).gen()


# ------------------------------------------------------------------------------------------- protobuf
PB_SCALARS = ["double", "float", "int32", "int64", "uint32", "uint64", "sint32", "sint64", "fixed32", "fixed64",
              "sfixed32", "sfixed64", "bool", "string", "bytes"]
PB_KEYS = ["int32", "int64", "uint32", "uint64", "sint32", "sint64", "fixed32", "fixed64", "sfixed32", "sfixed64", "bool", "string"]
PB_RESERVED = {"message", "enum", "service", "rpc", "returns", "stream", "syntax", "package", "import", "option", "repeated",
               "optional", "required", "oneof", "map", "reserved", "extensions", "extend", "group", "to", "max", "public",
               "weak", "true", "false", "inf", "nan"} | set(PB_SCALARS)


class ProtoGen:
    """one or two files; messages nested to depth 3 with several sibling nested messages and enums"""
    def __init__(self, rng, exotic=0.4, n_top=4, n_nested=3, package=True, proto2=False, n_files=1, services=2):
        self.r, self.exotic = rng, exotic
        self.n_top, self.n_nested, self.package, self.proto2, self.n_files, self.services = n_top, n_nested, package, proto2, n_files, services
        self.json_seen = {}
        self.msgs = []      # fully qualified names of messages usable as field types (this file or the imported one)
        self.enums = []

    def name(self, names, camel=False):
        for _ in range(100):
            s = names.fresh()
            low = s.replace("_", "").lower()
            if low in self.json_seen.setdefault(id(names), set()):
                continue
            self.json_seen[id(names)].add(low)
            if s.upper() in ("B", "T"):
                continue        # generic parameters of the emitted code (finding F-14m)
            if s not in PB_RESERVED and not s.startswith("_") and "__" not in s and not s[0].isdigit():
                return s
        return "n%d" % self.r.randrange(10000)

    def field_type(self, scope_msgs):
        r = self.r
        k = r.random()
        if k < 0.55 or not (scope_msgs or self.msgs):
            return r.choice(PB_SCALARS), "scalar"
        if k < 0.7 and self.enums:
            return r.choice(self.enums), "enum"
        return r.choice(scope_msgs + self.msgs), "msg"

    def message(self, name, fq, depth, out, ind):
        r = self.r
        pad = "  " * ind
        out.append("%smessage %s {" % (pad, name))
        names = Names(r, self.exotic, colliders=False)   # protoc: JSON names of sibling fields must differ
        nested_fq = []
        nn = Names(r, self.exotic * 0.5)
        taken = {name}
        if depth < 3:
            for _ in range(r.choice([0, self.n_nested, self.n_nested]) if depth < 2 else r.choice([0, 1])):
                cn = self.name(nn)
                cn = cn[0].upper() + cn[1:]
                if cn in PB_RESERVED or cn in taken:
                    continue
                taken.add(cn)
                self.message(cn, fq + "." + cn, depth + 1, out, ind + 1)
                nested_fq.append(fq + "." + cn)
            for _ in range(r.choice([0, 1, 2])):
                en = self.name(nn)
                en = "E" + en
                if en in taken:
                    continue
                taken.add(en)
                self.enum(en, out, ind + 1)
                self.enums.append(fq + "." + en)
        # protoc: fields, oneofs and nested types of a message share one scope
        names.used |= taken
        num = 0
        used_nums = set()

        def next_num():
            nonlocal num
            num = r.choice([num + 1, num + 1, num + r.randrange(1, 40), r.choice([1000, 18999, 20000, (1 << 29) - 1 - len(used_nums)])])
            while num in used_nums or 19000 <= num <= 19999 or num >= (1 << 29):
                num = (num % ((1 << 29) - 2)) + 1
                if 19000 <= num <= 19999:
                    num = 20000 + len(used_nums)
            used_nums.add(num)
            return num
        for _ in range(r.choice([0, 1, 3, 5, 8])):
            fn = self.name(names)
            t, kind = self.field_type(nested_fq + [fq])
            q = r.random()
            if q < 0.15:
                kt = r.choice(PB_KEYS)
                out.append("%s  map<%s, %s> %s = %d;" % (pad, kt, t, fn, next_num()))
            elif q < 0.35:
                out.append("%s  repeated %s %s = %d;" % (pad, t, fn, next_num()))
            elif q < 0.5 and (not self.proto2):
                out.append("%s  optional %s %s = %d;" % (pad, t, fn, next_num()))
            else:
                lab = ""
                if self.proto2:
                    lab = r.choice(["optional ", "optional ", "required "]) if not (kind == "msg") else "optional "
                out.append("%s  %s%s %s = %d;" % (pad, lab, t, fn, next_num()))
        for _ in range(r.choice([0, 0, 1, 2])):
            on = self.name(names)
            out.append("%s  oneof %s {" % (pad, on))
            for _ in range(r.choice([1, 2, 4])):
                # a oneof member of the enclosing message's own type makes BoxedPlugin box the oneof field, which the
                # emitted merge code does not expect (finding F-14q): members are never self-recursive here
                t, kind = self.field_type(nested_fq)
                out.append("%s    %s %s = %d;" % (pad, t, self.name(names), next_num()))
            out.append("%s  }" % pad)
        out.append("%s}" % pad)
        self.msgs.append(fq)

    def enum(self, name, out, ind):
        r = self.r
        pad = "  " * ind
        out.append("%senum %s {" % (pad, name))
        # enum value names share the enclosing scope in protobuf: make them unique with the enum's name
        vals = [0] + sorted(set(r.randrange(1, 100) for _ in range(r.choice([0, 1, 3, 6]))))
        for i, v in enumerate(vals):
            out.append("%s  %s_%s = %d;" % (pad, name.upper(), r.choice(["A", "B", "VAL", "type", "Self", "x"]) + str(i), v))
        out.append("%s}" % pad)

    def gen(self):
        r = self.r
        files = {}
        pkgs = []
        for fi in reversed(range(self.n_files)):
            out = ['syntax = "%s";' % ("proto2" if self.proto2 else "proto3")]
            pkg = None
            if self.package:
                pkg = r.choice([["a"], ["a", "b"], ["pkg", "v1"], ["x", "type"], ["top", "mod", "deep"]]) + (["f%d" % fi] if self.n_files > 1 else [])
                out.append("package %s;" % ".".join(pkg))
            if fi + 1 < self.n_files:
                out.append('import "p%d.proto";' % (fi + 1))
            else:
                self.msgs, self.enums = [], []
            pre = "." + ".".join(pkg) if pkg else ""
            out.append("")
            tn = Names(r, self.exotic * 0.5)
            taken = set()
            for _ in range(r.choice([0, 1, 2])):
                en = "T" + self.name(tn)
                if en in taken:
                    continue
                taken.add(en)
                self.enum(en, out, 0)
                self.enums.append(pre + "." + en)
            tops = []
            for _ in range(self.n_top):
                mn = self.name(tn)
                mn = mn[0].upper() + mn[1:]
                if mn in PB_RESERVED or mn in taken:
                    continue
                taken.add(mn)
                self.message(mn, pre + "." + mn, 1, out, 0)
                tops.append(pre + "." + mn)
            for si in range(self.services):
                if not self.msgs:
                    break
                out.append("service %s {" % ("Svc%d%s" % (si, r.choice(["", "Type", "_x"]))))
                mn = Names(r, self.exotic)
                for _ in range(r.choice([1, 2, 4])):
                    a, b = r.choice(self.msgs), r.choice(self.msgs)
                    out.append("  rpc %s (%s%s) returns (%s%s);" % (self.name(mn), r.choice(["", "", "stream "]), a, r.choice(["", "", "stream "]), b))
                out.append("}")
            files["p%d.proto" % fi] = "\n".join(out) + "\n"
        return files


PB_SWEEP_P0 = 'syntax = "proto3";\npackage sweep.api;\nimport "p1.proto";\n\nmessage Request {\n  string self = 1;\n  int32 super = 2;\n  bool crate = 3;\n  string fn = 4;\n  repeated string loop = 5;\n  optional int32 match = 6;\n  optional sweep.lib.type.Leaf leaf = 7;\n  map<int32, sweep.lib.type.Outer> outers = 8;\n  map<string, sweep.lib.type.Mode> modes = 9;\n  map<uint64, bytes> blobs = 10;\n  sweep.lib.type.Outer.Inner.Deep deep = 11;\n  repeated sweep.lib.type.Outer.Inner.Kind kinds = 12;\n  oneof payload {\n    sweep.lib.type.Leaf one = 13;\n    string two = 14;\n    sint64 three = 15;\n    fixed32 four = 16;\n  }\n  oneof type {\n    bool flag = 17;\n    bytes data = 18;\n  }\n  message Nested {\n    Request parent = 1;\n    repeated Nested siblings = 2;\n    float weight = 3;\n  }\n  Nested nested = 19;\n  sfixed64 fooBar = 20;\n  sfixed32 IDs = 21;\n}\n\nmessage Response {\n  repeated Request echoes = 1;\n  Response next = 2;\n  enum Status {\n    STATUS_OK = 0;\n    STATUS_type = 1;\n  }\n  Status status = 3;\n  double score = 4;\n  float ratio = 5;\n}\n\nservice Gateway {\n  rpc Call (Request) returns (Response);\n  rpc type (stream Request) returns (Response);\n  rpc Watch (Request) returns (stream Response);\n  rpc Chat (stream Request) returns (stream sweep.lib.type.Outer);\n}\n'

PB_SWEEP_P1 = 'syntax = "proto3";\npackage sweep.lib.type;\n\nenum Mode {\n  MODE_UNSPECIFIED = 0;\n  MODE_match = 1;\n  MODE_Self = 2;\n}\n\nmessage Leaf {\n  int64 v = 1;\n  string type = 2;\n  bytes raw = 3;\n}\n\nmessage Outer {\n  message Inner {\n    message Deep {\n      repeated Leaf leaves = 1;\n      map<string, Leaf> by_name = 2;\n    }\n    Deep deep = 1;\n    Mode mode = 2;\n    enum Kind {\n      KIND_A = 0;\n      KIND_fn = 1;\n    }\n    Kind kind = 3;\n  }\n  Inner inner = 1;\n  repeated Inner.Deep deeps = 2;\n  oneof choice {\n    string text = 3;\n    Leaf leaf = 4;\n    Inner.Kind kind = 5;\n    double ratio = 6;\n  }\n}\n'

PB_SWEEP_PROTO2 = 'syntax = "proto2";\npackage sweep.legacy;\n\nmessage Old {\n  required int32 id = 1;\n  optional string name = 2;\n  repeated int64 values = 3 [packed = true];\n  optional Old child = 4;\n  enum Color { RED = 0; GREEN = 1; }\n  optional Color color = 5 [default = GREEN];\n  oneof alt { string s = 6; int32 i = 7; }\n  map<string, Old> index = 8;\n}\n'


def proto_sweep_docs():
    """directed protobuf documents: Rust keywords and path-segment keywords as field / message / enum value / rpc names, three-segment
    packages with a keyword segment, an import used through every carrier (singular, optional, repeated, map value, oneof member,
    nested type names three levels deep, rpc argument / result, streaming in both directions), two oneofs per message (one called
    `type`), recursion through a nested message, maps with message / enum / bytes values, case-colliding field names; a proto2 file
    with required / optional / packed / default / oneof / map / nested enum.  -> [(name, files, entry)]"""
    return [("pb_sweep", {"p0.proto": PB_SWEEP_P0, "p1.proto": PB_SWEEP_P1}, "p0.proto"),
            ("pb_proto2", {"p0.proto": PB_SWEEP_PROTO2}, "p0.proto")]


def gen_proto_doc(rng, **kw):
    return ProtoGen(rng, **kw).gen()


# ------------------------------------------------------------------------------------------- C17 corpora
def c17_thrift_corpus(rng, n_files=8, items=8):
    """many modules (nested and sibling namespaces, keyword segments), includes forming a DAG, colliding names,
    several services per file; two entry files (for workspace mode: two crates + common)"""
    g = ThriftGen(rng, exotic=0.6, max_fields=6, max_items=items, n_files=n_files, defaults=True, annotations=True)
    nss = [["top"], ["top", "a"], ["top", "a", "deep"], ["top", "b"], ["other"], ["other", "type"], ["z", "self"], ["m"],
           ["m", "x"], ["m", "x", "y"], ["k9"], ["top", "c", "d", "e"], ["top", "b", "deep"], ["m", "x", "z"], ["m", "w", "y"]]
    rng.shuffle(nss)
    # several files per namespace (one module fed from several source files) next to namespaces of their own
    shared = nss[:2]
    pick = [shared[j % 2] if j % 3 == 2 else nss[2 + j % (len(nss) - 2)] for j in range(n_files)]
    pick[0], pick[min(3, n_files - 1)] = shared[0], shared[0]
    orig_ns = g.namespace
    g.namespace = lambda i: pick[i % len(pick)]
    doc = g.gen()
    # guarantee several services in the entry files
    for fi in (0, 1 % len(doc.files)):
        for k in range(2):
            g.gen_service(fi, "ExtraSvc%d_%d" % (fi, k))
    doc.files[0]["name"] = "main.thrift"
    return doc


def c17_dedup_corpus(rng, n_modules=10):
    """corpus for Builder::dedup: the intended use (two files sharing one namespace that both declare the same BaseResp / Empty) plus
    the common layout "every file has its own BaseResp": structurally equal items called BaseResp (def_id_equal compares field ids,
    kinds and types, not field names) in n_modules different namespaces -- siblings, nested (svc.m1 / svc.m1.inner) and keyword
    segments -- and once more inside a module that has two of them.  Two entry files (workspace mode: several crates + common).
    -> (files, entries, dedup names)"""
    r = rng
    base = lambda tag: "struct BaseResp {\n  1: i32 status_%s,\n  2: string text_%s,\n  255: optional map<string, string> extra_%s,\n}\n" % (tag, tag, tag)
    empty = "struct Empty {\n}\n"
    files = {}
    files["a.thrift"] = "namespace rs shared\n\n" + base("a") + "\n" + empty + "\nstruct OnlyA {\n  1: BaseResp r,\n}\n"
    files["b.thrift"] = "namespace rs shared\n\n" + base("b") + "\n" + empty + "\nstruct OnlyB {\n  1: BaseResp r,\n  2: Empty e,\n}\n"
    nss = ["svc.m%d" % i for i in range(1, n_modules + 1)]
    extra = ["svc.m1.inner", "svc.type", "other.self.deep", "z"]
    r.shuffle(extra)
    nss += extra[:r.choice([2, 3, 4])]
    mods = []
    for i, ns in enumerate(nss):
        fn = "m%d.thrift" % i
        body = "namespace rs %s\n\n" % ns + base("m%d" % i) + "\n"
        if r.random() < 0.5:
            body += empty + "\n"
        # an item that is NOT structurally equal to the others, and a user of the local BaseResp
        body += "struct Detail%d {\n  1: BaseResp base,\n  2: list<i64> ids,\n  3: optional string note_%d,\n}\n" % (i, i)
        if r.random() < 0.4:
            body += "\nstruct BaseReq {\n  1: i32 page,\n  2: string token,\n}\n"
        files[fn] = body
        mods.append(fn)
    r.shuffle(mods)
    half = len(mods) // 2
    inc = lambda fns: "".join('include "%s"\n' % f for f in fns)
    stem = lambda f: f[:-len(".thrift")]
    files["main.thrift"] = ("namespace rs api.front\n" + inc(["a.thrift", "b.thrift"] + mods) + "\n" + base("main") + "\nservice Front {\n" +
                            "".join("  %s.BaseResp call_%s(1: %s.Detail%s req, 2: a.OnlyA x, 3: b.OnlyB y),\n" % (stem(f), stem(f), stem(f), stem(f)[1:]) for f in mods) + "}\n")
    files["other.thrift"] = ("namespace rs api.back\n" + inc(["a.thrift"] + mods[half:]) + "\n" + base("other") + "\nservice Back {\n" +
                             "".join("  %s.BaseResp get_%s(1: BaseResp own),\n" % (stem(f), stem(f)) for f in mods[half:]) + "}\n")
    return files, ["main.thrift", "other.thrift"], ["BaseResp", "Empty", "BaseReq"]


def c17_touch_corpus(rng, n_files=5, items=100, share=0.4):
    """corpus for ignore_unused (the Builder's default) + Builder::touch: n_files library files of `items` items each (structs that
    refer to a few later items of their file, enums, typedefs), two of them sharing one namespace; a small entry file whose service
    uses a handful of items, so that without `touch` almost nothing is emitted; `share` of every library file's items are touched
    (touch list in file order, one entry per file and a second entry for file 0 -- "a file touched from several places").  The used
    items are a fraction of all items, in several files: the situation in which the iteration order of the set of used items (a
    function of its insertion history) becomes visible in the emission order.
    -> (files, entries, [(file, [names])])"""
    r = rng
    files, touches = {}, []
    graph = {}      # item name -> names collect visits from it, in field order (for the Collect.v correspondence)
    nss = ["tc.shared", "tc.shared", "tc.lib.deep", "tc.type", "tc.z9", "tc.lib"]
    for fi in range(n_files):
        fn = "t%d.thrift" % fi
        names = ["T%dItem%d" % (fi, k) for k in range(items)]
        out = ["namespace rs %s" % nss[fi % len(nss)], ""]
        for k, nm in enumerate(names):
            q = r.random()
            graph[nm] = []
            if q < 0.15:
                out.append("enum %s {\n  A%d = 0,\n  B%d = %d,\n}\n" % (nm, k, k, k + 1))
            elif q < 0.22:
                out.append("typedef list<i64> %s\n" % nm)
            else:
                fields = ["  1: i32 id_%d," % k, "  2: optional string note,"]
                later = names[k + 1:k + 12]
                for j in range(r.choice([0, 0, 1, 1, 2])):
                    if later:
                        tgt = r.choice(later)
                        graph[nm].append(tgt)
                        fields.append("  %d: optional %s ref_%d," % (3 + j, tgt, j))
                out.append("struct %s {\n%s\n}\n" % (nm, "\n".join(fields)))
        files[fn] = "\n".join(out)
        picked = sorted(r.sample(range(items), int(items * share)))
        if fi == 0:
            half = len(picked) // 2
            touches.append((fn, [names[k] for k in picked[:half]]))
            touches.append(("t1.thrift", []))       # placeholder, filled below (keeps the list interleaved)
            touches.append((fn, [names[k] for k in picked[half:]]))
        elif fi == 1:
            touches[1] = (fn, [names[k] for k in picked])
        else:
            touches.append((fn, [names[k] for k in picked]))
    inc = "".join('include "t%d.thrift"\n' % fi for fi in range(n_files))
    files["main.thrift"] = ("namespace rs tc.api\n" + inc + "\nstruct Req {\n  1: t0.T0Item%d a,\n  2: optional t%d.T%dItem%d b,\n}\n\nservice Front {\n  Req call(1: Req r),\n}\n"
                            % (items - 1, n_files - 1, n_files - 1, items - 2))
    files["other.thrift"] = ("namespace rs tc.back\n" + 'include "t1.thrift"\ninclude "t2.thrift"\n' +
                             "\nservice Back {\n  t1.T1Item%d get(1: t2.T2Item%d q),\n}\n" % (items - 1, items - 3))
    graph["Req"] = ["T0Item%d" % (items - 1), "T%dItem%d" % (n_files - 1, items - 2)]
    graph["Front"] = ["Req"]
    return files, ["main.thrift", "other.thrift"], touches, dict(roots=["Front"], graph=graph)


def c17_proto_corpus(rng, n_top=5, n_nested=6):
    return ProtoGen(rng, exotic=0.4, n_top=n_top, n_nested=n_nested, package=True, n_files=2, services=3).gen()
