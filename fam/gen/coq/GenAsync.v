(* L3 (async): the `decode_async` bodies pilota-build emits (the same templates of
   pilota-build/src/codegen/thrift/{mod.rs, ty.rs, decode_helper.rs} instantiated with
   DecodeHelper { is_async: true }), over the asynchronous primitive readers of PV.Thrift.Async and the
   asynchronous skipper of PV.Thrift.Skip.  Differences from the sync templates (Gen.v), clause by clause:

     decode_helper.rs  protocol_len!  / codegen_field_begin_len : `if self.is_async { Default::default() }`
                       -> NO field_begin_len / field_end_len / field_stop_len call
     ty.rs codegen_decode_ty, ty::Vec : `Vec::with_capacity(n); for _ in 0..n { val.push(elem) }`   (safe code)
     mod.rs codegen_decode / codegen_decode_fields / codegen_enum_impl : every `keep && !helper.is_async`
                       guard is false -> no pointer recording, no get_bytes, no `_UnknownFields` variant,
                       `_unknown_fields: LinkedBytes::new()` built at the end (the plain template)
     decode_helper.rs  codegen_skip_ttype : `__protocol.skip(tt).await?`  -> TAsyncInputProtocol::skip
     decode_helper.rs  codegen_item_decode : `<T as Message>::decode_async(__protocol).await?`

   A stream is modelled by the byte string it delivers (tokio's read_exact contract, PV.Thrift.Async); the
   chunked view and its independence of the chunk boundaries are at the end of the file.
   Model only, no proofs. *)
From PV Require Export Thrift.Skip.
From PVGen Require Export Gen.
Open Scope Z_scope.

Section ADecLoops.
  Variable S : schema.
  Variable p : pk.
  Variable fuel_skip : nat.
  Variable rec : ty -> rst -> res (gval * rst).

  (* list (push) / set (insert) / map (insert): the element loops only call the element decoder -- they are
     Gen.dec_elems / Gen.dec_pairs with the asynchronous element decoder plugged in *)

  (* codegen_decode_fields with is_async: read_field_begin; Stop -> break; match (id, ttype) or skip; read_field_end *)
  Fixpoint adec_fields (m : nat) (fs : list field) (vars : list (option gval)) (s : rst) {struct m}
    : res (list (option gval) * rst) :=
    match m with
    | O => Err EOutOfFuel
    | Datatypes.S m' =>
        let* (h, s) := a_field_begin p s in
        if ttype_eqb (fst h) TStop then Ok (vars, s)
        else
          let* (vars, s) :=
            match match_field S fs O (snd h) (fst h) with
            | Some (i, f) => let* (x, s) := rec (f_ty f) s in Ok (set_nth i (Some x) vars, s)
            | None => let* (_, s) := askip p fuel_skip (fst h) s in Ok (vars, s)
            end in
          adec_fields m' fs vars s
    end.

  (* the union loop: match on the id ONLY; no decode_len (`if helper.is_async { Default::default() }`) *)
  Fixpoint adec_variants (m : nat) (vs : list (Z * ty)) (ret : option (Z * gval)) (s : rst) {struct m}
    : res (option (Z * gval) * rst) :=
    match m with
    | O => Err EOutOfFuel
    | Datatypes.S m' =>
        let* (h, s) := a_field_begin p s in
        if ttype_eqb (fst h) TStop then Ok (ret, s)
        else
          let known := match snd h with
                       | Some id => match find_variant vs id with
                                    | Some vt => if is_void (resolve S vt) then None else Some (id, vt)
                                    | None => None
                                    end
                       | None => None
                       end in
          match known with
          | Some (id, vt) =>
              match ret with
              | None => let* (x, s) := rec vt s in adec_variants m' vs (Some (id, x)) s
              | Some _ => Err EInvalidData      (* received multiple fields for union *)
              end
          | None =>
              let* (_, s) := askip p fuel_skip (fst h) s in
              adec_variants m' vs ret s
          end
    end.
End ADecLoops.

Fixpoint gen_decode_async (S : schema) (p : pk) (fuel : nat) (t : ty) (s : rst) {struct fuel} : res (gval * rst) :=
  match fuel with
  | O => Err EOutOfFuel
  | Datatypes.S f =>
      match resolve S t with
      | TyBool => let* (b, s) := a_bool p s in Ok (GBool b, s)
      | TyI8 => let* (z, s) := a_i8 s in Ok (GI8 z, s)
      | TyI16 => let* (z, s) := a_i16 p s in Ok (GI16 z, s)
      | TyI32 => let* (z, s) := a_i32 p s in Ok (GI32 z, s)
      | TyI64 => let* (z, s) := a_i64 p s in Ok (GI64 z, s)
      | TyDouble => let* (z, s) := a_double p s in Ok (GDouble z, s)
      | TyString | TyBinary => let* (l, s) := a_bytes p s in Ok (GBytes l, s)
      | TyUuid => let* (l, s) := a_uuid s in Ok (GUuid l, s)
      | TyVoid =>
          let* (_, s) := a_struct_begin p s in
          let* (_, s) := a_struct_end p s in Ok (GVoid, s)
      | TyList et =>
          let* (h, s) := a_coll_begin p s in
          let* (l, s) := dec_elems (gen_decode_async S p f) (Datatypes.S f) et (snd h) s [] in
          Ok (GList l, s)
      | TySet et =>
          let* (h, s) := a_coll_begin p s in
          let* (l, s) := dec_elems (gen_decode_async S p f) (Datatypes.S f) et (snd h) s [] in
          Ok (GSet l, s)
      | TyMap kt vt =>
          let* (h, s) := a_map_begin p s in
          let* (l, s) := dec_pairs (gen_decode_async S p f) (Datatypes.S f) kt vt (snd h) s [] in
          Ok (GMap l, s)
      | TyRef n =>
          match lookup S n with
          | Some (DEnum _) => let* (z, s) := a_i32 p s in Ok (GEnum z, s)
          | Some (DStruct fs _ _) =>
              let* (_, s) := a_struct_begin p s in
              let* (vars, s) := adec_fields S p f (gen_decode_async S p f) (Datatypes.S f) fs (map init_var fs) s in
              let* (_, s) := a_struct_end p s in
              let* out := finish_fields fs vars in
              Ok (GStruct out [], s)
          | Some (DUnion vs void_ok _) =>
              let* (_, s) := a_struct_begin p s in
              let* (ret, s) := adec_variants S p f (gen_decode_async S p f) (Datatypes.S f) vs None s in
              let* (_, s) := a_struct_end p s in
              match ret with
              | Some (id, x) => Ok (GUnion id x, s)
              | None =>
                  if void_ok then
                    match vs with
                    | (id0, _) :: _ => Ok (GUnion id0 GVoid, s)
                    | [] => Err EInvalidData
                    end
                  else Err EInvalidData
              end
          | Some (DTypedef _) => Err EOther
          | None => Err EOther
          end
      end
  end.

(* ---------- streams as chunk lists ---------- *)
(* what the stream hands out: a list of chunks (every poll_read may deliver any non-negative number of the
   remaining bytes; Pending wake-ups deliver nothing and are invisible to read_exact's result).
   tokio's AsyncReadExt::read_exact(n) loops on poll_read until n bytes have arrived or EOF: [pull] is that loop. *)
Fixpoint pull (n : nat) (cs : list (list byte)) {struct cs} : option (list byte * list (list byte)) :=
  match n with
  | O => Some ([], cs)
  | Datatypes.S _ =>
      match cs with
      | [] => None                                   (* EOF before n bytes: UnexpectedEof *)
      | c :: r =>
          if Nat.leb n (length c) then Some (firstn n c, skipn n c :: r)
          else match pull (n - length c) r with
               | Some (a, r') => Some (c ++ a, r')
               | None => None
               end
      end
  end.

(* T::decode_async on a fresh protocol object over a stream that delivers the chunks [cs] *)
Definition gen_decode_async_stream (S : schema) (p : pk) (fuel : nat) (t : ty) (cs : list (list byte))
  : res (gval * rst) :=
  gen_decode_async S p fuel t (mkS (concat cs) r0).

(* top-level entry used by the runner: value and the bytes NOT pulled from the stream *)
Definition gen_decode_async_top (S : schema) (p : pk) (t : ty) (l : list byte) : res (gval * list byte) :=
  let* (v, s) := gen_decode_async S p (length l + 80) t (mkS l r0) in Ok (v, rbuf s).
