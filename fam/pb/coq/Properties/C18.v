(* C18 -- Protobuf merge semantics, on the schema-directed model of the generated decoders (Msg.v).
   Only statements, each closed by [exact] of a lemma proved in Proofs/, with Print Assumptions beneath. *)
From PVPb Require Import Wire Codec Msg Proofs.WireP Proofs.CodecP Proofs.TotalP Proofs.DepthP Proofs.ShapeP Proofs.MergeP Proofs.MergeCor Proofs.UnknownP Proofs.UnknownMapP Proofs.InterleaveP Conform Proofs.EngineP Proofs.ConformP Proofs.InterleaveAllP.
Open Scope Z_scope.

(* C18_concat: decoding e1 ++ e2 is decoding e1 and merging e2 into the result -- every schema, every message,
   ALL byte strings e1 that decode successfully, all byte strings e2 (valid or not: the outcomes are equal,
   errors and the allocation ghost counter included).  By the left-fold shape of Message::merge plus the frame
   property (a decoder that succeeds on a buffer does the same with bytes appended). *)
Theorem C18_concat : forall sc i e1 e2 a x s1,
  msg_decode sc i (mkR e1 a) = OOk x s1 ->
  msg_decode sc i (mkR (e1 ++ e2) a) = msg_merge sc i x (mkR e2 (ra s1)).
Proof. exact decode_concat. Qed.
Print Assumptions C18_concat.

(* the same with Message::merge into any start value on both sides *)
Theorem C18_concat_merge : forall sc i x0 e1 e2 a x s1,
  msg_merge sc i x0 (mkR e1 a) = OOk x s1 ->
  msg_merge sc i x0 (mkR (e1 ++ e2) a) = msg_merge sc i x (mkR e2 (ra s1)).
Proof. exact merge_concat. Qed.
Print Assumptions C18_concat_merge.

(* ... in the bind form of the property text *)
Theorem C18_concat_bind : forall sc i e1 e2 a, is_ok (msg_decode sc i (mkR e1 a)) = true ->
  msg_decode sc i (mkR (e1 ++ e2) a) = bind (msg_decode sc i) (merge_into sc i e2) (mkR e1 a).
Proof. exact decode_concat_bind. Qed.
Print Assumptions C18_concat_bind.

(* the frame property of merge_field (every schema, message, value, field number, wire type, budget) *)
Theorem C18_frame : forall d sc i x tag wt c, framed (merge_field d sc i x tag wt c).
Proof. exact framed_merge_field. Qed.
Print Assumptions C18_frame.

(* skip_field consumes exactly one well-formed record -- varint, fixed64, fixed32, length-delimited, or a group
   whose content is well nested -- provided the DecodeContext budget covers its levels (1 for a scalar, +1 per
   group level), and charges nothing: the protobuf analogue of C07 *)
Theorem C18_skip_exact : forall u tag ctx d r a,
  uwf u -> tag_ok tag -> ulevels u <= ctx -> ctx < Z.of_nat d ->
  skip_field d (wt_of u) tag ctx (mkR (enc_upay tag u ++ r) a) = OOk tt (mkR r a).
Proof. exact skip_field_exact. Qed.
Print Assumptions C18_skip_exact.

(* C18_unknown: a well-formed record whose field number the message does not declare, of every wire type incl.
   well-nested groups (at most RECURSION_LIMIT levels), inserted at -- or deleted from -- a record boundary does
   not change the outcome (value, error, ghost counter), whatever follows *)
Theorem C18_unknown : forall (sc : schema) i (fs : msgdesc) e1 e2 t u a,
  nth_error sc i = Some fs -> find_field fs t = None -> tag_ok t -> uwf u -> ulevels u <= recursion_limit ->
  is_ok (msg_decode sc i (mkR e1 a)) = true ->
  msg_decode sc i (mkR (e1 ++ urecord t u ++ e2) a) = msg_decode sc i (mkR (e1 ++ e2) a).
Proof. exact unknown_insert_decode. Qed.
Print Assumptions C18_unknown.

(* at every nesting level: [wrap ls inner] = at each level arbitrary complete records [pre], then the record of a
   message-typed field (singular / optional / repeated / oneof member) holding the next level, then arbitrary bytes
   [post]; the unknown record sits in the innermost body behind complete records b1.  All the enclosing length
   prefixes change with the insertion; the outcomes are equal (same value and reader state, or the same error
   class).  Side condition = the recursion budget left at that level covers the record (F-18a below is its
   failure).  [runs] = "complete records that merge successfully into every value of that message type". *)
Theorem C18_unknown_nested_partial : forall sc, schema_ok sc = true ->
  forall i ls jn (fs : msgdesc) b1 b2 t u a,
    chain sc depth_fuel i ctx_default ls jn -> nth_error sc jn = Some fs -> find_field fs t = None -> tag_ok t -> uwf u ->
    ulevels u <= recursion_limit - Z.of_nat (length ls) ->
    runs sc (depth_fuel - length ls) jn (ctx_default - Z.of_nat (length ls)) b1 ->
    sizes_ok ls (b1 ++ urecord t u ++ b2) -> sizes_ok ls (b1 ++ b2) -> (i < length sc)%nat ->
    oeq (msg_decode sc i (mkR (wrap ls (b1 ++ urecord t u ++ b2)) a)) (msg_decode sc i (mkR (wrap ls (b1 ++ b2)) a)).
Proof. exact unknown_insert_nested. Qed.
Print Assumptions C18_unknown_nested_partial.
(* (the name is kept: this is the statement for levels through message-typed fields only; C18_unknown_nested below covers
   the levels through map-entry values as well) *)

(* C18_unknown_nested, the full statement: a level is either the record of a message-typed field (LMsg pre t post, as
   above) or the record of a map<K, Message> field holding one entry (LMap pre t epre epost post: complete records of the
   enclosing message before; inside the entry complete records [epre] -- e.g. the key -- before the VALUE record (field 2)
   that holds the next level, arbitrary bytes [epost] after it; arbitrary bytes [post] after the entry).  A message
   level costs one unit of the recursion budget, a map level two (the entry and its value both enter): the unknown
   record must fit what is left, ulevels u <= RECURSION_LIMIT - cost ls.  chain2: the schema allows the chain and the
   records before the embedded one merge, at every level; sizes_ok2: every enclosed body is shorter than 2^64. *)
Theorem C18_unknown_nested : forall sc, schema_ok sc = true ->
  forall i ls jn (fs : msgdesc) b1 b2 t u a,
    chain2 sc depth_fuel i ctx_default ls jn -> nth_error sc jn = Some fs -> find_field fs t = None -> tag_ok t -> uwf u ->
    ulevels u <= recursion_limit - cost ls ->
    runs sc (depth_fuel - length ls) jn (ctx_default - cost ls) b1 ->
    sizes_ok2 ls (b1 ++ urecord t u ++ b2) -> sizes_ok2 ls (b1 ++ b2) -> (i < length sc)%nat ->
    oeq (msg_decode sc i (mkR (wrap2 ls (b1 ++ urecord t u ++ b2)) a)) (msg_decode sc i (mkR (wrap2 ls (b1 ++ b2)) a)).
Proof. exact unknown_insert_nested2. Qed.
Print Assumptions C18_unknown_nested.
(* non-vacuity: Proofs/UnknownMapP.v unknown_nested_map_hypotheses (a map level whose entry has its key record before and an
   unknown field behind the value record, then a message level; an unknown group with a nested group innermost). *)

(* the loop-level fact behind it (any budget c, limit = what lies behind the body) *)
Theorem C18_unknown_in_loop : forall d (sc : schema) i (fs : msgdesc) xs t u c tail a limit f f',
  nth_error sc i = Some fs -> find_field fs t = None -> tag_ok t -> uwf u -> ulevels u <= c <= recursion_limit ->
  c < Z.of_nat (S d) -> (limit <= length tail)%nat -> (length (urecord t u ++ tail) < f)%nat -> (length tail < f')%nat ->
  while_remaining f limit (fun x => let+ (tag, wt) := decode_key in merge_field (S d) sc i x tag wt c) (VL NMsg xs)
    (mkR (urecord t u ++ tail) a)
  = while_remaining f' limit (fun x => let+ (tag, wt) := decode_key in merge_field (S d) sc i x tag wt c) (VL NMsg xs)
    (mkR tail a).
Proof. exact record_loop_unknown. Qed.
Print Assumptions C18_unknown_in_loop.

(* F-18a: the statement WITHOUT the budget condition is false -- inside the 100th nesting level (which is
   accepted) the budget is 0 and skip_field rejects even an unknown varint *)
Theorem C18_unknown_at_limit_refuted :
  let u := UVarint 5 in let t := 77 in let path := repeat (PMsg 2) 100 in
  uwf u /\ tag_ok t /\ ulevels u = 1 /\
  find_field [FSingular 1 (TScalar TYPE_INT32); FOptional 2 (TMsg 0); FMap 4 TYPE_STRING (TMsg 0)] t = None /\
  path_cost path = recursion_limit /\
  is_ok (msg_decode tree_schema 0 (mkR (nest path []) 0)) = true /\
  exists s', msg_decode tree_schema 0 (mkR (nest path (urecord t u)) 0) = OErr PRecursion s'.
Proof. exact unknown_at_limit_refuted. Qed.
Print Assumptions C18_unknown_at_limit_refuted.

(* ---- corollaries: what one more record does to a decoded value (k puts the new field value back) *)
Theorem C18_last_wins : forall (sc : schema) i (fs : msgdesc), nth_error sc i = Some fs ->
  forall e1 a xs s1, msg_decode sc i (mkR e1 a) = OOk (VL NMsg xs) s1 ->
  forall t t' p m v k xold,
    locate fs xs t = Some (FSingular t' (TScalar p), xold, k) -> scalar_module p = Some m -> scalar_mod m = true ->
    tag_ok t -> mod_value_okb m v = true ->
    msg_decode sc i (mkR (e1 ++ encode_scalar m t v) a) = OOk (VL NMsg (k v)) (mkR [] (ra s1 + payload_cost m v)).
Proof. exact last_wins_singular. Qed.
Print Assumptions C18_last_wins.

Theorem C18_last_wins_optional : forall (sc : schema) i (fs : msgdesc), nth_error sc i = Some fs ->
  forall e1 a xs s1, msg_decode sc i (mkR e1 a) = OOk (VL NMsg xs) s1 ->
  forall t t' p m v k xold,
    locate fs xs t = Some (FOptional t' (TScalar p), xold, k) -> scalar_module p = Some m -> scalar_mod m = true ->
    tag_ok t -> mod_value_okb m v = true ->
    msg_decode sc i (mkR (e1 ++ encode_scalar m t v) a) = OOk (VL NMsg (k (VL NSome [v]))) (mkR [] (ra s1 + payload_cost m v)).
Proof. exact last_wins_optional. Qed.
Print Assumptions C18_last_wins_optional.

Theorem C18_repeated_order : forall (sc : schema) i (fs : msgdesc), nth_error sc i = Some fs ->
  forall e1 a xs s1, msg_decode sc i (mkR e1 a) = OOk (VL NMsg xs) s1 ->
  forall t t' p m v k vs,
    locate fs xs t = Some (FRepeated t' (TScalar p), VL NRep vs, k) -> scalar_module p = Some m -> scalar_mod m = true ->
    tag_ok t -> mod_value_okb m v = true ->
    msg_decode sc i (mkR (e1 ++ encode_scalar m t v) a)
    = OOk (VL NMsg (k (VL NRep (vs ++ [v])))) (mkR [] (ra s1 + payload_cost m v + 1)).
Proof. exact repeated_order. Qed.
Print Assumptions C18_repeated_order.

Theorem C18_repeated_order_packed : forall (sc : schema) i (fs : msgdesc), nth_error sc i = Some fs ->
  forall e1 a xs s1, msg_decode sc i (mkR e1 a) = OOk (VL NMsg xs) s1 ->
  forall t t' p m vs' k vs,
    locate fs xs t = Some (FRepeated t' (TScalar p), VL NRep vs, k) -> scalar_module p = Some m -> numeric_mod m = true ->
    tag_ok t -> vs' <> [] -> Forall (fun v => mod_value_okb m v = true) vs' -> zlen (flat_map (payload m) vs') < two64 ->
    msg_decode sc i (mkR (e1 ++ encode_packed m t vs') a)
    = OOk (VL NMsg (k (VL NRep (vs ++ vs')))) (mkR [] (ra s1 + Z.of_nat (length vs'))).
Proof. exact repeated_order_packed. Qed.
Print Assumptions C18_repeated_order_packed.

Theorem C18_oneof_replace : forall (sc : schema) i (fs : msgdesc), nth_error sc i = Some fs ->
  forall e1 a xs s1, msg_decode sc i (mkR e1 a) = OOk (VL NMsg xs) s1 ->
  forall t ms idx p m v k cur,
    locate fs xs t = Some (FOneof ms, cur, k) -> find_member ms t 0 = Some (idx, TScalar p) ->
    scalar_module p = Some m -> scalar_mod m = true -> tag_ok t -> mod_value_okb m v = true ->
    msg_decode sc i (mkR (e1 ++ encode_scalar m t v) a)
    = OOk (VL NMsg (k (VL (NOne idx) [v]))) (mkR [] (ra s1 + payload_cost m v)).
Proof. exact oneof_replace. Qed.
Print Assumptions C18_oneof_replace.

Theorem C18_map_replace : forall (sc : schema) i (fs : msgdesc) e1 a xs s1 t t' kp vp mk mv kv vv k es,
  nth_error sc i = Some fs -> msg_decode sc i (mkR e1 a) = OOk (VL NMsg xs) s1 ->
  locate fs xs t = Some (FMap t' kp (TScalar vp), VL NMap es, k) ->
  scalar_module kp = Some mk -> scalar_module vp = Some mv -> scalar_mod mk = true -> scalar_mod mv = true ->
  tag_ok t -> mod_value_okb mk kv = true -> mod_value_okb mv vv = true -> zlen (map_entry_bytes mk mv kv vv) < two64 ->
  msg_decode sc i (mkR (e1 ++ map_record t mk mv kv vv) a)
  = OOk (VL NMsg (k (VL NMap (map_insert kv vv es)))) (mkR [] (ra s1 + payload_cost mk kv + payload_cost mv vv + 1)).
Proof. exact map_replace. Qed.
Print Assumptions C18_map_replace.

(* ... where map_insert is AHashMap::insert: the key then maps to the new value, and an entry that was present is
   replaced in place, not duplicated *)
Theorem C18_map_insert_lookup : forall k v, key_eqb k k = true -> forall es, map_lookup k (map_insert k v es) = Some v.
Proof. exact map_insert_lookup. Qed.
Print Assumptions C18_map_insert_lookup.

Theorem C18_map_insert_present : forall k v es, map_lookup k es <> None -> length (map_insert k v es) = length es.
Proof. exact map_insert_present_length. Qed.
Print Assumptions C18_map_insert_present.

(* embedded messages merge field-wise: a second record of an optional message field is merged INTO the
   sub-message already there (inner_run = the record loop of the body at the inner budget, started from y) *)
Theorem C18_embedded_merge : forall (sc : schema) i (fs : msgdesc) e1 a xs s1 t t' j k y b y' s',
  nth_error sc i = Some fs -> msg_decode sc i (mkR e1 a) = OOk (VL NMsg xs) s1 ->
  locate fs xs t = Some (FOptional t' (TMsg j), VL NSome [y], k) -> tag_ok t -> zlen b < two64 ->
  inner_run sc j y b (ra s1) = OOk y' s' ->
  msg_decode sc i (mkR (e1 ++ embedded_record t b) a) = OOk (VL NMsg (k (VL NSome [y']))) (mkR [] (ra s')).
Proof. exact embedded_merge. Qed.
Print Assumptions C18_embedded_merge.

(* C18_interleave, the generating step: two adjacent records that are routed to different struct fields commute --
   anywhere behind a successfully decoded prefix, whatever follows.  [record sc d c fs t w pl p f cur v k] = the bytes
   key(t, w) ++ pl are one record for slot p: the field merge takes the slot from cur to v, consumes exactly pl and
   charges k, whatever follows.  (A record reads and writes its own slot only: merge_in_fields_pos.) *)
Theorem C18_interleave_swap : forall (sc : schema) i (fs : msgdesc) e1 e2 a xs s1 t1 w1 pl1 p1 f1 v1 k1 t2 w2 pl2 p2 f2 v2 k2,
  nth_error sc i = Some fs -> msg_decode sc i (mkR e1 a) = OOk (VL NMsg xs) s1 ->
  record sc (Z.to_nat recursion_limit) ctx_default fs t1 w1 pl1 p1 f1 (nth p1 xs (VI 0)) v1 k1 ->
  record sc (Z.to_nat recursion_limit) ctx_default fs t2 w2 pl2 p2 f2 (nth p2 xs (VI 0)) v2 k2 ->
  p1 <> p2 -> (p1 < length xs)%nat -> (p2 < length xs)%nat ->
  let R1 := encode_key t1 w1 ++ pl1 in let R2 := encode_key t2 w2 ++ pl2 in
  msg_decode sc i (mkR (e1 ++ R1 ++ R2 ++ e2) a) = msg_decode sc i (mkR (e1 ++ R2 ++ R1 ++ e2) a).
Proof. exact decode_swap. Qed.
Print Assumptions C18_interleave_swap.

(* C18_interleave: the closure.  Records are the abstract records of Conform.v (scalar / packed run / length-delimited /
   unknown, enc_crec = their bytes); [mpos fs r] is the struct slot a record is routed to (the position of the field
   whose number it carries -- all members of a oneof share one slot -- or None for an undeclared number);
   [proj (mpos fs) p rs] is the subsequence of the records of slot p.  Behind ANY successfully decoded prefix e1, two
   record lists with the same per-slot subsequences -- i.e. any permutation that keeps the relative order of the
   records of the same field (same oneof); unknown records may go anywhere -- decode to the same message, provided
   the records are accepted at all: slot by slot, the chain of merge_field arms runs on the records of that slot in
   their order ([fchain (mstep ...)], x p = what it makes of slot p), and undeclared records are skippable unknown
   fields.  The allocation ghost counters may differ (a' existential): the order of allocations changes. *)
Theorem C18_interleave : forall (sc : schema) i (fs : msgdesc), nth_error sc i = Some fs ->
  forall e1 a xs s1 rs rs' (x : nat -> val),
    msg_decode sc i (mkR e1 a) = OOk (VL NMsg xs) s1 -> length xs = length fs ->
    well_routed fs rs -> well_routed fs rs' ->
    (forall p, (p < length fs)%nat -> proj (mpos fs) p rs = proj (mpos fs) p rs') ->
    (forall p, (p < length fs)%nat ->
       fchain (mstep sc inner_depth ctx_default fs) p (nth p xs (VI 0)) (proj (mpos fs) p rs) (x p)) ->
    exists v a1 a2, msg_decode sc i (mkR (e1 ++ enc_crecs rs) a) = OOk v (mkR [] a1) /\
                    msg_decode sc i (mkR (e1 ++ enc_crecs rs') a) = OOk v (mkR [] a2).
Proof. exact decode_interleave. Qed.
Print Assumptions C18_interleave.

(* the same for the rearrangements generated by adjacent swaps of two records that are not routed to the same slot
   (induction over the swaps: each one keeps every per-slot subsequence) *)
Theorem C18_interleave_swaps : forall (sc : schema) i (fs : msgdesc), nth_error sc i = Some fs ->
  forall e1 a xs s1 rs rs' (x : nat -> val),
    msg_decode sc i (mkR e1 a) = OOk (VL NMsg xs) s1 -> length xs = length fs -> well_routed fs rs -> reorder fs rs rs' ->
    (forall p, (p < length fs)%nat ->
       fchain (mstep sc inner_depth ctx_default fs) p (nth p xs (VI 0)) (proj (mpos fs) p rs) (x p)) ->
    exists v a1 a2, msg_decode sc i (mkR (e1 ++ enc_crecs rs) a) = OOk v (mkR [] a1) /\
                    msg_decode sc i (mkR (e1 ++ enc_crecs rs') a) = OOk v (mkR [] a2).
Proof. exact decode_reorder. Qed.
Print Assumptions C18_interleave_swaps.

(* the engine behind both (and behind C06_in): any loop body over a tuple of slots whose records are routed *)
Theorem C18_engine : forall (sc : schema) dm j c (fs : msgdesc), nth_error sc j = Some fs -> c <= recursion_limit ->
  forall rs xs0 (x : nat -> val), length xs0 = length fs ->
    Forall (routed (length fs) (mpos fs) (mskip c)) rs -> Forall (fun r => tag_ok (tag_of r)) rs ->
    (forall p, (p < length fs)%nat -> fchain (mstep sc dm c fs) p (nth p xs0 (VI 0)) (proj (mpos fs) p rs) (x p)) ->
    exists xs', rsteps (rbody sc (S dm) j c) (VL NMsg xs0) rs (VL NMsg xs') /\ length xs' = length fs /\
                forall p, (p < length fs)%nat -> nth p xs' (VI 0) = x p.
Proof. exact msg_engine. Qed.
Print Assumptions C18_engine.
(* non-vacuity: Proofs/InterleaveAllP.v interleave_nonvacuous (ten records of demo_schema rearranged, equal projections,
   different bytes, same decode result). *)

(* NOT PROVED (validated by the reference merge_spec on every run):
   C18_merge_spec : msg_decode sc i (enc_msg x ++ enc_msg y) = OK (merge_spec x y) for typed values x y (the per-field
     content of merge_spec is C18_last_wins / _repeated_order / _oneof_replace / _map_replace / _embedded_merge). *)
