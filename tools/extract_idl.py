#!/usr/bin/env python3
"""Translator plug-in of family `idl` (loaded by tools/extract.py).

Re-reads pilota-thrift-parser/src/parser/*.rs and regenerates fam/idl/coq/Generated/IdlConsts.v:
every string the nom parser matches on -- each `tag("..")` / `tag_no_case("..")` literal of every parser
file, the `one_of` / `none_of` character sets (list separators, the escape set of literal.rs and its control
character), the `take_until` / `take_till` delimiters of the comment parser, the keyword -> item dispatch
table of thrift.rs -- so that a changed keyword / separator / escape in the Rust source changes the model.

Each parser file has an EXPECTED SHAPE: the ordered list of (call kind, role name) of its literal sites
outside `#[cfg(test)]`.  The values are taken from the source, the roles from the shape; if the kinds or
their number differ the translator fails loudly (exit 2) -- it never keeps an old value.

A second generated file, IdlUnicode.v, holds the table of non-ASCII code points for which Rust's
`char::is_alphanumeric` is true (used by exactly one parser: `alphanumeric_or_underscore` under
`peek(not(..))`).  It is dumped from the toolchain's std by compiling and running a 20-line Rust program
with the `rustc` on PATH (cached under /verif/.cache/idl_unicode by rustc version).
"""
import hashlib, os, re, subprocess, sys

PARSER_DIR = "pilota-thrift-parser/src/parser"


def die(msg):
    print("extract_idl.py: " + msg, file=sys.stderr)
    sys.exit(2)


def read(repo, rel):
    p = os.path.join(repo, rel)
    try:
        return open(p, encoding="utf-8").read()
    except OSError as e:
        die(f"cannot read {p}: {e}")


def check_test_tail(tail, what):
    """the part of a file that is dropped as tests consists of `#[cfg(test)] mod x { .. }` / `#[test] fn x() { .. }` items only
    (a function defined after the test module would otherwise never be read)"""
    code = strip_tests_and_comments(tail, tests=False)
    last = 0
    for header, body in blocks(code):
        h = " ".join(header.split())
        if not re.match(r"^(#\[cfg\(test\)\] mod \w+|#\[test\] fn \w+\(\))$", h):
            die(f"{what}: after the first test item something else than a test item follows: `{h[:80]}`")
    depth, i = 0, 0
    while i < len(code):
        j = _skip_literal(code, i)
        if j is not None:
            i = j
            continue
        if code[i] == "{":
            depth += 1
        elif code[i] == "}":
            depth -= 1
            if depth == 0:
                last = i + 1
        i += 1
    if code[last:].strip():
        die(f"{what}: text after the last test item: `{code[last:].strip()[:80]}`")


def strip_tests_and_comments(src, tests=True, what=None):
    # drop everything from the first `#[cfg(test)]` / `#[test]` on (test items sit at the end of each file; that nothing
    # but test items follows is checked)
    m = re.search(r"^#\[(cfg\(test\)|test)\]", src, flags=re.M)
    if m and tests:
        if what is not None:
            check_test_tail(src[m.start():], what)
        src = src[:m.start()]
    out = []
    i, n = 0, len(src)
    # remove // comments but not inside string literals
    while i < n:
        c = src[i]
        if c == '"':
            j = i + 1
            while j < n and src[j] != '"':
                j += 2 if src[j] == "\\" else 1
            out.append(src[i:j + 1]); i = j + 1
        elif src.startswith('r#"', i):
            j = src.index('"#', i + 3)
            out.append(src[i:j + 2]); i = j + 2
        elif c == "'" and i + 2 < n and (src[i + 2] == "'" or (src[i + 1] == "\\" and i + 3 < n and src[i + 3] == "'")):
            j = i + (3 if src[i + 1] != "\\" else 4)
            out.append(src[i:j]); i = j
        elif src.startswith("//", i):
            j = src.find("\n", i)
            i = n if j < 0 else j
        elif src.startswith("/*", i):
            j = src.find("*/", i + 2)
            i = n if j < 0 else j + 2
        else:
            out.append(c); i += 1
    return "".join(out)


def unescape(lit):
    """Rust "..." or r#"..."# literal -> bytes"""
    if lit.startswith('r#"'):
        return lit[3:-2].encode("utf-8")
    body = lit[1:-1]
    out = bytearray()
    i = 0
    while i < len(body):
        c = body[i]
        if c == "\\":
            e = body[i + 1]
            m = {"n": 10, "t": 9, "r": 13, "\\": 92, "'": 39, '"': 34, "0": 0}
            if e not in m:
                die(f"unsupported escape \\{e} in {lit}")
            out.append(m[e]); i += 2
        else:
            out += c.encode("utf-8"); i += 1
    return bytes(out)


def unescape_char(lit):
    b = unescape('"' + lit[1:-1] + '"')
    if len(b) != 1:
        die(f"non-ASCII or multi-byte char literal {lit}")
    return b


STR = r'(r#".*?"#|"(?:[^"\\]|\\.)*")'
CHR = r"('(?:[^'\\]|\\.)')"
SITE = re.compile(
    r"\b(tag_no_case|tag|one_of|take_until)\(\s*" + STR + r"\s*\)"          # 1,2
    r"|\b(take_till)\(\s*\|c\|\s*c\s*==\s*" + CHR + r"\s*\)"                # 3,4
    r"|\b(none_of)\(\s*concat!\(\s*" + STR + r"\s*,\s*\$char\s*\)\s*\)"     # 5,6
    r"|\b(tag)\(\s*\$char\s*\)"                                             # 7
    r"|\b(escaped)\("                                                       # 8
    r"|(gen_parse_quote)!\(\s*\w+\s*,\s*" + STR + r"\s*\)"                  # 9,10
    r"|" + STR + r"\s*=>\s*(unpack)!\((\w+)\)"                              # 11,12,13
    r"|\.(scope)\.0\s*==\s*" + STR,                                       # 14,15
    flags=re.S)


ANY_LITERAL = re.compile(r'r#".*?"#|"(?:[^"\\]|\\.)*"|\'(?:[^\'\\]|\\.)\'', re.S)


def check_literals_accounted(fn, src):
    """every string / char literal of a parser file lies inside a recognised literal site or a pinned clause: a literal
    handed to a combinator this translator does not know (char('x'), is_a(".."), a new match arm ...) fails here"""
    spans = [m.span() for m in SITE.finditer(src)]
    for m in SITE.finditer(src):
        if m.group(8):          # escaped(normal, 'c', escapable): the control character
            mm = re.compile(r"\)\s*,\s*" + CHR + r"\s*,").search(src, m.end())
            if mm:
                spans.append(mm.span())
    for f, rx, _ in PINNED:
        if f == fn:
            spans += [m.span() for m in re.finditer(rx, src)]
    for m in ANY_LITERAL.finditer(src):
        a, b = m.span()
        if not any(x <= a and b <= y for x, y in spans):
            die(f"{fn}: literal {m.group(0)} (after `{src[max(0, a - 40):a].strip()[-40:]}`) is at no site this translator reads")


def check_match_arms(src):
    """thrift.rs: the item dispatch `match keyword { .. }` has exactly the ten keyword arms and the `_` arm"""
    for header, body in blocks(src):
        if header.startswith("impl Parser for Item"):
            inner = blocks(body)[0][1]
            i = inner.find("match keyword")
            if i < 0:
                die("thrift.rs: `match keyword` not found")
            mb = None
            for h2, b2 in blocks(inner[i:]):
                if h2.startswith("match keyword"):
                    mb = b2
                    break
            if mb is None:
                die("thrift.rs: body of `match keyword` not found")
            depth, arms, k = 0, 0, 0
            while k < len(mb):
                j = _skip_literal(mb, k)
                if j is not None:
                    k = j
                    continue
                if mb[k] in "{(":
                    depth += 1
                elif mb[k] in "})":
                    depth -= 1
                elif mb.startswith("=>", k) and depth == 0:
                    arms += 1
                k += 1
            if arms != 11 or re.search(r"\bif\b[^=]*=>|\|[^|=]*=>", re.sub(r'"[^"]*"', '""', mb.split("_ =>")[0])):
                die(f"thrift.rs: the item dispatch has {arms} arms (expected 10 keywords and `_`), or a guarded / or-pattern arm")
            return
    die("thrift.rs: impl Parser for Item not found")


def sites(src):
    out = []
    for m in SITE.finditer(src):
        if m.group(1):
            out.append((m.group(1), unescape(m.group(2))))
        elif m.group(3):
            out.append(("take_till", unescape_char(m.group(4))))
        elif m.group(5):
            out.append(("none_of_concat", unescape(m.group(6))))
        elif m.group(7):
            out.append(("tag_char", b""))
        elif m.group(8):
            # escaped(normal, 'c', escapable): pick the control char that follows the first argument
            mm = re.compile(r"\)\s*,\s*" + CHR + r"\s*,").search(src, m.end())
            if not mm:
                die("escaped(..): control character not found")
            out.append(("escaped_ctrl", unescape_char(mm.group(1))))
        elif m.group(9):
            out.append(("quote", unescape(m.group(10))))
        elif m.group(12):
            out.append(("arm:" + m.group(13), unescape(m.group(11))))
        elif m.group(14):
            out.append(("scope_eq", unescape(m.group(15))))
    return out


# expected shape of every parser file: (kind, role)
SHAPES = {
    "mod.rs": [("tag", "sym_path_dot"), ("one_of", "set_list_separator"),
               ("tag", "cmt_line_open"), ("take_till", "cmt_line_stop"),
               ("tag", "cmt_block_open"), ("take_until", "cmt_block_until"), ("tag", "cmt_block_close"),
               ("tag", "cmt_hash_open"), ("take_till", "cmt_hash_stop")],
    "identifier.rs": [],
    "literal.rs": [("escaped_ctrl", "lit_ctrl"), ("none_of_concat", "lit_ctrl_in_none_of"),
                   ("one_of", "set_escapable"), ("tag", "lit_empty"), ("tag_char", None), ("tag_char", None),
                   ("quote", "lit_quote_single"), ("quote", "lit_quote_double")],
    "annotation.rs": [("tag", "sym_ann_open"), ("tag", "sym_ann_eq"), ("tag", "sym_ann_close")],
    "include.rs": [("tag", "kw_include"), ("tag", "kw_cpp_include")],
    "namespace.rs": [("tag", "kw_namespace")] + [("tag", "scope_%d" % i) for i in range(18)],
    "typedef.rs": [("tag", "kw_typedef")],
    "ty.rs": [("tag", "kw_cpp_type"),
              ("tag", "kw_ty_string"), ("tag", "kw_ty_void"), ("tag", "kw_ty_byte"), ("tag", "kw_ty_bool"),
              ("tag", "kw_ty_binary"), ("tag", "kw_ty_i8"), ("tag", "kw_ty_i16"), ("tag", "kw_ty_i32"),
              ("tag", "kw_ty_i64"), ("tag", "kw_ty_double"), ("tag", "kw_ty_uuid"),
              ("tag", "kw_ty_list"), ("tag", "sym_list_lt"), ("tag", "sym_list_gt"),
              ("tag", "kw_ty_set"), ("tag", "sym_set_lt"), ("tag", "sym_set_gt"),
              ("tag", "kw_ty_map"), ("tag", "sym_map_lt"), ("tag", "sym_map_gt")],
    "constant.rs": [("tag", "kw_true"), ("tag", "kw_false"),
                    ("tag", "sym_clist_open"), ("tag", "sym_clist_close"),
                    ("tag", "sym_cmap_open"), ("tag", "sym_cmap_colon"), ("tag", "sym_cmap_close"),
                    ("tag", "kw_const"), ("tag", "sym_const_eq"),
                    ("tag", "sym_int_minus"), ("tag", "sym_int_hex"),
                    ("tag", "sym_dbl_minus"), ("tag", "sym_dbl_plus"),
                    ("tag", "sym_dbl_dot_a"), ("tag_no_case", "sym_dbl_exp_a"),
                    ("tag", "sym_dbl_dot_b"), ("tag_no_case", "sym_dbl_exp_b"),
                    ("tag_no_case", "sym_dbl_exp_c")],
    "field.rs": [("tag", "kw_required"), ("tag", "kw_optional"), ("tag", "sym_field_colon"), ("tag", "sym_field_eq")],
    "struct_.rs": [("tag", "kw_struct"), ("tag", "kw_union"), ("tag", "kw_exception"),
                   ("tag", "sym_struct_open"), ("tag", "sym_struct_close")],
    "enum_.rs": [("tag", "sym_enum_eq"), ("tag", "kw_enum"), ("tag", "sym_enum_open"), ("tag", "sym_enum_close")],
    "function.rs": [("tag", "kw_oneway"), ("tag", "sym_fn_open"), ("tag", "sym_fn_close"),
                    ("tag", "kw_throws"), ("tag", "sym_throws_open"), ("tag", "sym_throws_close")],
    "service.rs": [("tag", "kw_service"), ("tag", "kw_extends"), ("tag", "sym_service_open"), ("tag", "sym_service_close")],
    "thrift.rs": [("arm:Include", "arm_include"), ("arm:CppInclude", "arm_cpp_include"),
                  ("arm:Namespace", "arm_namespace"), ("arm:Typedef", "arm_typedef"), ("arm:Constant", "arm_const"),
                  ("arm:Enum", "arm_enum"), ("arm:Struct", "arm_struct"), ("arm:Union", "arm_union"),
                  ("arm:Exception", "arm_exception"), ("arm:Service", "arm_service"),
                  ("scope_eq", "package_scope")],
}

# character-class closures and other code-like sites whose text is pinned (a change means the hand model
# of that clause must be re-read): (file, regex that must match exactly `count` times)
PINNED = [
    ("identifier.rs", r"satisfy\(\|c\| c\.is_ascii_alphabetic\(\) \|\| c == '_'\)", 1),
    ("identifier.rs", r"take_while\(\|c: char\| c\.is_ascii_alphanumeric\(\) \|\| c == '_'\)", 1),
    ("annotation.rs", r"satisfy\(\|c\| c\.is_ascii_alphabetic\(\) \|\| c == '_'\)", 1),
    ("annotation.rs", r"take_while\(\|c: char\| c\.is_ascii_alphanumeric\(\) \|\| c == '_' \|\| c == '\.'\)", 1),
    ("thrift.rs", r"satisfy\(\|c\| c\.is_ascii_alphabetic\(\)\)", 1),
    ("thrift.rs", r"take_while\(\|c: char\| c\.is_ascii_alphanumeric\(\) \|\| c == '_'\)", 1),
    ("thrift.rs", r"let \(input, _\) = opt\(blank\)\(input\)\?;\s*let \(remain, items\) = many_till\(", 1),
    ("mod.rs", r"satisfy\(\|c: char\| c\.is_alphanumeric\(\) \|\| c == '_'\)", 1),
    ("field.rs", r"id\.parse::<i32>\(\)", 1),
    ("constant.rs", r"i64::from_str_radix\(d, 16\)", 1),
    # the operand of the one negation of the parser files comes from an UNSIGNED conversion of a digit run
    ("constant.rs", r"map_res\(hex_digit1, \|d\| i64::from_str_radix\(d, 16\)\.map\(IntConstant\)\)", 1),
    ("constant.rs", r"map_res\(digit1, \|d\| \{\s*let d = FromStr::from_str\(d\)\?;\s*Ok::<_, ParseIntError>\(IntConstant\(d\)\)\s*\}\)", 1),
    ("constant.rs", r"Ok\(\(input, if minus % 2 == 1 \{ IntConstant\(-v\.0\) \} else \{ v \}\)\)", 1),
]


def coq_bytes(b):
    """Coq term of type list byte"""
    return "[" + "; ".join('x%02x' % c for c in b) + "]"


def comment_of(b):
    s = b.decode("latin-1")
    s = "".join(ch if 32 <= ord(ch) < 127 and ch not in "*()\"" else "?" for ch in s)
    return s


def gen_consts(repo):
    out = ["(* GENERATED by tools/extract_idl.py from pilota-thrift-parser/src/parser/*.rs -- do not edit *)",
           "From Coq Require Import List.", "From Coq.Strings Require Import Byte.", "Import ListNotations.", ""]
    allvals = {}
    for fn in sorted(SHAPES):
        src = strip_tests_and_comments(read(repo, os.path.join(PARSER_DIR, fn)), what=fn)
        got = sites(src)
        want = SHAPES[fn]
        check_literals_accounted(fn, src)
        if [k for k, _ in got] != [k for k, _ in want]:
            die(f"{fn}: unexpected shape: literal sites {[k for k, _ in got]} (expected {[k for k, _ in want]})")
        out.append(f"(* {fn} *)")
        for (kind, val), (_, role) in zip(got, want):
            if role is None:
                continue
            if role in allvals:
                die(f"duplicate role {role}")
            allvals[role] = val
            out.append(f"Definition {role} : list byte := {coq_bytes(val)}.  (* {kind} <{comment_of(val)}> *)")
        out.append("")
    check_match_arms(strip_tests_and_comments(read(repo, os.path.join(PARSER_DIR, "thrift.rs"))))
    for fn, rx, cnt in PINNED:
        src = strip_tests_and_comments(read(repo, os.path.join(PARSER_DIR, fn)))
        n = len(re.findall(rx, src))
        if n != cnt:
            die(f"{fn}: pinned clause /{rx}/ found {n} times (expected {cnt}); the hand model of this clause must be re-read")
    # every parser file is accounted for
    have = sorted(f for f in os.listdir(os.path.join(repo, PARSER_DIR)) if f.endswith(".rs"))
    if have != sorted(SHAPES):
        die(f"parser files changed: {have}")
    # derived tables
    scopes = [allvals["scope_%d" % i] for i in range(18)]
    out.append("Definition scope_tags : list (list byte) :=\n  [" + ";\n   ".join(coq_bytes(s) for s in scopes) + "].\n")
    # the none_of set of a quote parser = concat!(prefix, quote char)
    for q in ("single", "double"):
        v = allvals["lit_ctrl_in_none_of"] + allvals["lit_quote_" + q]
        out.append(f"Definition set_none_of_{q} : list byte := {coq_bytes(v)}.")
    if len(allvals["lit_quote_single"]) != 1 or len(allvals["lit_quote_double"]) != 1:
        die("quote delimiters are expected to be single bytes")
    for r in ("cmt_line_stop", "cmt_hash_stop", "lit_ctrl"):
        if len(allvals[r]) != 1:
            die(f"{r}: expected one byte")
    return "\n".join(out) + "\n"


DUMP_RS = r"""
fn main() {
    // ranges [lo, hi] of code points >= 0x80 with char::is_alphanumeric
    let mut start: Option<u32> = None;
    let mut prev = 0u32;
    for cp in 0x80u32..=0x110000 {
        let a = cp <= 0x10FFFF && char::from_u32(cp).map(|c| c.is_alphanumeric()).unwrap_or(false);
        match (a, start) {
            (true, None) => start = Some(cp),
            (false, Some(s)) => { println!("{} {}", s, prev); start = None; }
            _ => {}
        }
        prev = cp;
    }
}
"""


def unicode_ranges():
    root = os.path.join(os.path.dirname(os.path.abspath(__file__)), "..", ".cache", "idl_unicode")
    os.makedirs(root, exist_ok=True)
    try:
        ver = subprocess.run(["rustc", "--version", "--verbose"], capture_output=True, text=True, check=True).stdout
    except Exception as e:
        die(f"rustc not runnable: {e}")
    key = hashlib.sha256((ver + DUMP_RS).encode()).hexdigest()[:16]
    cache = os.path.join(root, key + ".txt")
    if not os.path.exists(cache):
        src = os.path.join(root, key + ".rs")
        exe = os.path.join(root, key + ".exe")
        open(src, "w").write(DUMP_RS)
        p = subprocess.run(["rustc", "-O", "-o", exe, src], capture_output=True, text=True)
        if p.returncode != 0:
            die("rustc failed on the unicode dump program: " + p.stderr[-400:])
        p = subprocess.run([exe], capture_output=True, text=True)
        if p.returncode != 0 or not p.stdout.strip():
            die("unicode dump program failed")
        tmp = cache + ".tmp%d" % os.getpid()
        open(tmp, "w").write("# " + ver.splitlines()[0] + "\n" + p.stdout)
        os.replace(tmp, cache)
        for f in (src, exe):
            try: os.remove(f)
            except OSError: pass
    lines = open(cache).read().splitlines()
    rs = [tuple(int(x) for x in l.split()) for l in lines if l and not l.startswith("#")]
    if len(rs) < 100 or any(lo > hi or lo < 0x80 for lo, hi in rs):
        die("implausible unicode table")
    return lines[0], rs


def gen_unicode(repo):
    ver, rs = unicode_ranges()
    n = sum(hi - lo + 1 for lo, hi in rs)
    # FNV-1a over the little-endian u32 of every member, the same digest pv-harness-idl's selftest prints
    h = 0xcbf29ce484222325
    for lo, hi in rs:
        for cp in range(lo, hi + 1):
            for b in cp.to_bytes(4, "little"):
                h ^= b
                h = (h * 0x100000001b3) & 0xFFFFFFFFFFFFFFFF
    out = ["(* GENERATED by tools/extract_idl.py by running the toolchain's char::is_alphanumeric over all code points",
           f"   >= 0x80 ({ver.lstrip('# ')}); {len(rs)} ranges, {n} code points, fnv={h:016x} -- do not edit *)",
           "From Coq Require Import NArith List.", "Import ListNotations.", "Open Scope N_scope.", "",
           f"Definition unicode_alnum_count : N := {n}.",
           "Definition unicode_alnum_ranges : list (N * N) :=", "  ["]
    out.append(";\n".join("   (%d, %d)" % r for r in rs))
    out.append("  ].")
    return "\n".join(out) + "\n"


def unicode_digest():
    """(count, fnv) of the generated table, for comparison with the harness selftest"""
    ver, rs = unicode_ranges()
    n = sum(hi - lo + 1 for lo, hi in rs)
    h = 0xcbf29ce484222325
    for lo, hi in rs:
        for cp in range(lo, hi + 1):
            for b in cp.to_bytes(4, "little"):
                h ^= b
                h = (h * 0x100000001b3) & 0xFFFFFFFFFFFFFFFF
    return n, "%016x" % h


# --------------------------------------------------------------------------- repetition sites and recursion (C16)
# Which combinator carries each repetition, and which parser functions can re-enter themselves.  The stack half of C16
# rests on: every repetition is one of nom's loop combinators (stack use independent of the number of iterations) and the
# only native recursion is Ty::parse <-> Type::parse and ConstValue::parse (bounded by the nesting).  Nothing here is
# expected: the inventory is emitted as found, fam/idl/coq/Proofs/RepSites.v proves it equal to the inventory computed
# from the model's definitions (Parser.v) -- a repetition rewritten as self-recursion changes both tables.

REP_COMBINATORS = {   # nom 7 combinators that apply a sub-parser repeatedly: name -> file of nom's source that defines it
    "many0": "multi/mod.rs", "many1": "multi/mod.rs", "many_till": "multi/mod.rs", "many_m_n": "multi/mod.rs",
    "many0_count": "multi/mod.rs", "many1_count": "multi/mod.rs", "count": "multi/mod.rs", "fill": "multi/mod.rs",
    "fold_many0": "multi/mod.rs", "fold_many1": "multi/mod.rs", "fold_many_m_n": "multi/mod.rs",
    "separated_list0": "multi/mod.rs", "separated_list1": "multi/mod.rs", "length_count": "multi/mod.rs",
    "escaped": "bytes/complete.rs", "escaped_transform": "bytes/complete.rs",
}


def _skip_literal(src, i):
    """index after the string / raw string / char literal starting at i, or None if there is none"""
    n = len(src)
    c = src[i]
    if c == '"':
        j = i + 1
        while j < n and src[j] != '"':
            j += 2 if src[j] == "\\" else 1
        return j + 1
    if src.startswith('r#"', i):
        return src.index('"#', i + 3) + 2
    if c == "'" and i + 2 < n and (src[i + 2] == "'" or (src[i + 1] == "\\" and i + 3 < n and src[i + 3] == "'")):
        return i + (3 if src[i + 1] != "\\" else 4)
    return None


def blocks(src):
    """the `{ ... }` blocks at brace depth 0 of src: [(header, body)], header = the text between the end of the previous
    block (or the last `;` at depth 0) and the opening brace; braces inside literals are skipped"""
    out, i, n, depth, hstart, bstart = [], 0, len(src), 0, 0, 0
    while i < n:
        j = _skip_literal(src, i)
        if j is not None:
            i = j
            continue
        c = src[i]
        if c == "{":
            if depth == 0:
                header, bstart = src[hstart:i], i + 1
            depth += 1
        elif c == "}":
            depth -= 1
            if depth < 0:
                die("unbalanced braces")
            if depth == 0:
                out.append((header.strip(), src[bstart:i]))
                hstart = i + 1
        elif c == ";" and depth == 0:
            hstart = i + 1
        i += 1
    if depth != 0:
        die("unbalanced braces")
    return out


def parser_functions(repo):
    """{function name: (file, body text)} of every function of the parser files (tests stripped), `X::parse` for
    `impl Parser for X`, the bare name for a free fn, `name!` for a top-level macro that defines functions; and
    {alias: function} for the functions a macro invocation defines"""
    fns, alias, order = {}, {}, []
    for fn in sorted(SHAPES):
        src = strip_tests_and_comments(read(repo, os.path.join(PARSER_DIR, fn)), what=fn)
        before = len(order)
        has_trait = 0
        for header, body in blocks(src):
            if re.search(r"#!?\[", header):
                die(f"{fn}: attribute on a top-level item (`{' '.join(header.split())[:80]}`): conditional compilation is not modelled")
            h = header.strip()
            m = re.match(r"impl\s+Parser\s+for\s+(\w+)$", h)
            if m:
                inner = blocks(body)
                if len(inner) != 1 or not re.match(r"fn\s+parse\s*\(", inner[0][0]):
                    die(f"{fn}: impl Parser for {m.group(1)}: expected exactly `fn parse`")
                name = m.group(1) + "::parse"
                body = inner[0][1]
            elif re.match(r"(pub(\([a-z]+\))?\s+)?fn\s+(\w+)\s*[<(]", h):
                name = re.match(r"(pub(\([a-z]+\))?\s+)?fn\s+(\w+)", h).group(3)
            elif re.match(r"macro_rules!\s*(\w+)$", h):
                mac = re.match(r"macro_rules!\s*(\w+)$", h).group(1)
                name = mac + "!"
                found = re.findall(r"^\s*" + mac + r"!\(\s*(\w+)\s*,", src, flags=re.M)
                if len(found) != len(re.findall(r"\b" + mac + r"!\s*[\(\[\{]", src)):
                    die(f"{fn}: an invocation of {mac}! is not of the form `{mac}!(name, ..)`")
                for a in found:
                    alias[a] = name
            elif re.match(r"(pub\s+)?use\b", h):
                continue
            elif re.match(r"(pub(\([a-z]+\))?\s+)?trait\s+Parser\b", h):
                has_trait += len(re.findall(r"\bfn\s+\w+", body))
                if blocks(body):
                    die(f"{fn}: trait Parser has a method with a body")
                continue
            else:
                die(f"{fn}: top-level block not understood: `{h[:80]}`")
            if name in fns:
                die(f"duplicate parser function {name}")
            fns[name] = (fn, body)
            order.append(name)
        # every `fn` of the file is one of the scanned functions (a nested or otherwise unlisted helper is not silently
        # folded into / left out of the inventories)
        nfn = len(re.findall(r"\bfn\s+[\w$]+", src))
        if nfn != len(order) - before + has_trait:
            die(f"{fn}: {nfn} `fn` items, {len(order) - before} scanned functions (+{has_trait} trait signatures): a function is not scanned on its own")
    return fns, alias, order


def rep_inventory(repo):
    """([(function, [(combinator, count)])] for every parser function, [functions that can call themselves])"""
    fns, alias, order = parser_functions(repo)
    types = {n[:-7] for n in fns if n.endswith("::parse")}
    free = {n for n in fns if "::" not in n and not n.endswith("!")}
    table, calls = [], {}
    for name in order:
        body = fns[name][1]
        # strip literals: a combinator / function name inside a string is not a call
        out, i = [], 0
        while i < len(body):
            j = _skip_literal(body, i)
            if j is not None:
                out.append('""'); i = j
            else:
                out.append(body[i]); i += 1
        code = "".join(out)
        cnt = {}
        for m in re.finditer(r"\b(\w+)\s*(?:::<[^()]*>)?\s*\(", code):
            if m.group(1) in REP_COMBINATORS:
                cnt[m.group(1)] = cnt.get(m.group(1), 0) + 1
        # a combinator mentioned without being called (passed as a value, renamed by `use .. as`) is not understood
        for c in REP_COMBINATORS:
            if len(re.findall(r"\b%s\b" % c, code)) != cnt.get(c, 0):
                die(f"{name}: `{c}` is mentioned other than as a direct call")
        table.append((name, sorted(cnt.items())))
        cs = set()
        for m in re.finditer(r"(?<![\w$])(\w+)::parse\b", code):
            t = m.group(1)
            if t == "Self":
                t = name[:-7] if name.endswith("::parse") else die(f"{name}: Self::parse outside an impl")
            if t in types:
                cs.add(t + "::parse")
            else:
                die(f"{name}: call of {t}::parse, which is not a parser of these files")
        if re.search(r"\$\w+\s*::\s*parse\b", code):
            # a local macro that calls `$x::parse`: its invocations name the callee
            for mm in re.finditer(r"macro_rules!\s*(\w+)", code):
                for t in re.findall(r"\b%s!\(\s*(\w+)\s*\)" % mm.group(1), code):
                    if t not in types:
                        die(f"{name}: {mm.group(1)}!({t}): not a parser of these files")
                    cs.add(t + "::parse")
        if re.search(r"<\s*\w+\s+as\s+Parser\s*>|\bParser::parse\b|\bT::parse\b", code):
            die(f"{name}: indirect parser call not understood")
        for f in free:
            if re.search(r"(?<![\w:.])%s\b(?!\s*!)" % f, code):
                cs.add(f)
        for a, target in alias.items():
            if re.search(r"(?<![\w:.])%s\b" % a, code):
                cs.add(target)
        calls[name] = cs
    # functions that can reach themselves
    def reach(a):
        seen, todo = set(), list(calls[a])
        while todo:
            x = todo.pop()
            if x not in seen:
                seen.add(x)
                todo += calls[x]
        return seen
    rec = sorted(n for n in order if n in reach(n))
    return table, rec, calls


def nom_loops(repo, used):
    """[(combinator, True iff its body in the nom source named by Cargo.lock is a `loop` / `for` / `while` and does not
    call itself)] for the combinators the parser uses"""
    lock = read(repo, "Cargo.lock")
    ms = re.findall(r'name = "nom"\nversion = "([^"]+)"', lock)
    if len(ms) != 1:
        die(f"Cargo.lock names {len(ms)} versions of nom (expected 1)")
    m = re.search(r'name = "nom"\nversion = "([^"]+)"', lock)
    import glob
    roots = sorted(glob.glob(os.path.expanduser("~/.cargo/registry/src/*/nom-" + m.group(1))))
    if not roots:
        die(f"source of nom {m.group(1)} not found under ~/.cargo/registry/src")
    out = []
    for c in used:
        src = strip_tests_and_comments(open(os.path.join(roots[0], "src", REP_COMBINATORS[c]), encoding="utf-8").read(), tests=False)
        body = None
        for header, b in blocks(src):
            if re.search(r"\bpub fn %s\s*<" % c, header):
                body = b
        if body is None:
            die(f"nom {m.group(1)}: pub fn {c} not found")
        it = bool(re.search(r"\b(loop|while|for)\b", body)) and not re.search(r"\b%s\s*(::<[^()]*>)?\s*\(" % c, body)
        out.append((c, it))
    return m.group(1), out


def coq_str(s):
    return '"' + s.replace('"', '""') + '"'


def gen_reps(repo):
    table, rec, calls = rep_inventory(repo)
    used = sorted({c for _, cs in table for c, _ in cs})
    ver, loops = nom_loops(repo, used)
    out = ["(* GENERATED by tools/extract_idl.py from pilota-thrift-parser/src/parser/*.rs and the source of nom " + ver,
           "   -- do not edit.  src_rep_sites: for every function of the parser files, the nom combinators that apply a",
           "   sub-parser repeatedly and how often the function calls each; src_recursive: the functions that can reach",
           "   themselves in the call graph; nom_loop_combinators: is the body of that combinator in nom's source a loop",
           "   that does not call itself *)",
           "From Coq Require Import String List.", "Import ListNotations.", "Open Scope string_scope.", "",
           "Definition src_rep_sites : list (string * list (string * nat)) :=", "  ["]
    out.append(";\n".join("   (%s, [%s])" % (coq_str(n), "; ".join("(%s, %d)" % (coq_str(c), k) for c, k in cs)) for n, cs in table))
    out.append("  ].\n")
    out.append("Definition src_recursive : list string :=\n  [" + "; ".join(coq_str(n) for n in rec) + "].\n")
    out.append("Definition nom_loop_combinators : list (string * bool) :=\n  [" +
               "; ".join("(%s, %s)" % (coq_str(c), "true" if b else "false") for c, b in loops) + "].\n")
    out.append("(* call graph, for the reader:")
    for n, _ in table:
        out.append("   %s -> %s" % (n, ", ".join(sorted(calls[n])) or "-"))
    out.append("*)")
    return "\n".join(out) + "\n"


# --------------------------------------------------------------------------- panic-capable sites (C16)
# Every place of the parser files where Rust code CAN panic, with the function it stands in: unwrap / expect, the panic
# macros, indexing and slicing (s[i], &s[a..b], split_at), unary minus on a value (debug build: overflow), binary + - *
# and the compound assignments (debug build: overflow), / and % by anything but a non-zero literal.  Result-returning
# conversions (from_str_radix, parse::<T>(), FromStr::from_str) are not sites unless unwrapped.  The inventory is emitted
# as found; fam/idl/coq/Proofs/PanicSites.v proves it equal to the partial operations the model uses (Comb.checked_neg /
# slice_p / map_unwrap, counted in the definitions of Parser.v) -- a new site has no modelled operation and breaks it.
PANIC_MACROS = r"\b(?:unreachable|panic|todo|unimplemented|assert|assert_eq|assert_ne|debug_assert|debug_assert_eq|debug_assert_ne)!"


def _code_of(body):
    out, i = [], 0
    while i < len(body):
        j = _skip_literal(body, i)
        if j is not None:
            out.append('""'); i = j
        else:
            out.append(body[i]); i += 1
    return "".join(out)


def panic_sites_of(code):
    cnt = {}

    def add(k, n=1):
        if n:
            cnt[k] = cnt.get(k, 0) + n
    add("unwrap", len(re.findall(r"\.\s*(?:unwrap|expect|unwrap_err|expect_err)\s*\(", code)))
    add("panic", len(re.findall(PANIC_MACROS, code)))
    add("slice", len(re.findall(r"[\w)\]]\s*\[", code)) + len(re.findall(r"\.\s*split_at(?:_mut)?\s*\(", code)))
    # methods that panic on a bad index / overflow / zero / double borrow
    add("call", len(re.findall(r"\.\s*(?:abs|pow|neg|remove|swap_remove|drain|insert|split_off|copy_from_slice|clone_from_slice|chunks|"
                               r"chunks_exact|windows|step_by|rem_euclid|div_euclid|borrow_mut|borrow|swap|rotate_left|rotate_right|"
                               r"from_digit|unwrap_unchecked|next_power_of_two|ilog2|ilog10|isqrt)\s*\(", code)))
    add("arith", len(re.findall(r"[\w)\]]\s*(?:<<|>>)=?\s*[\w(]", code)))
    n = len(code)
    for m in re.finditer(r"[-+*/%]", code):
        i, ch = m.start(), m.group(0)
        nxt = code[i + 1:i + 2]
        if ch == "-" and nxt == ">":
            continue                                    # ->
        if ch == "/" and (nxt == "/" or nxt == "*"):
            continue                                    # comments are stripped already; be safe
        j = i - 1
        while j >= 0 and code[j].isspace():
            j -= 1
        prev = code[j] if j >= 0 else ""
        k = i + 1
        if nxt == "=":
            k += 1                                      # compound assignment
        while k < n and code[k].isspace():
            k += 1
        rest = code[k:]
        binary = bool(prev) and (prev.isalnum() or prev in "_)]")
        if not binary:
            if ch == "-" and not re.match(r"\d", rest):
                add("neg")                              # unary minus on a value (a negative literal cannot overflow)
            continue                                    # unary * is a dereference, & * in patterns, `use x::*`
        if ch in "/%":
            if re.match(r"[1-9]\d*\b(?!\.)", rest) or re.match(r"0x[0-9a-fA-F]*[1-9a-fA-F]", rest):
                continue                                # by a non-zero literal: cannot panic
            add("div")
        else:
            # `a + b` in a trait bound / `impl A + B` is not arithmetic: the parser files have none inside function
            # bodies; anything found here is counted
            add("arith")
    return sorted(cnt.items())


def panic_inventory(repo):
    fns, alias, order = parser_functions(repo)
    return [(name, panic_sites_of(_code_of(fns[name][1]))) for name in order]


def gen_panics(repo):
    table = panic_inventory(repo)
    out = ["(* GENERATED by tools/extract_idl.py from pilota-thrift-parser/src/parser/*.rs -- do not edit.",
           "   src_panic_sites: for every function of the parser files the places where the Rust code can panic (unwrap = unwrap /",
           "   expect; panic = panic macros; slice = indexing, slicing, split_at; neg = unary minus on a value; arith = binary",
           "   + - * and compound assignments; div = / % by anything but a non-zero literal), with multiplicity *)",
           "From Coq Require Import String List.", "Import ListNotations.", "Open Scope string_scope.", "",
           "Definition src_panic_sites : list (string * list (string * nat)) :=", "  ["]
    out.append(";\n".join("   (%s, [%s])" % (coq_str(n), "; ".join("(%s, %d)" % (coq_str(c), k) for c, k in cs)) for n, cs in table))
    out.append("  ].")
    return "\n".join(out) + "\n"


GENERATORS = {
    "fam/idl/coq/Generated/IdlConsts.v": gen_consts,
    "fam/idl/coq/Generated/IdlUnicode.v": gen_unicode,
    "fam/idl/coq/Generated/IdlReps.v": gen_reps,
    "fam/idl/coq/Generated/IdlPanics.v": gen_panics,
}

if __name__ == "__main__":
    repo = sys.argv[1] if len(sys.argv) > 1 else "/repo"
    sys.stdout.write(gen_panics(repo) if "--panics" in sys.argv else gen_reps(repo) if "--reps" in sys.argv else gen_consts(repo))
