(* C16 -- the Thrift IDL parser is total on arbitrary text.
   Only statements, each closed by [exact] of a lemma proved in Proofs/, with Print Assumptions beneath.
   [parse_file s] is the Gallina port of [File::parse] (Parser.v); its outcome type has, besides nom's three results,
   [PPanic] (a Rust panic: an unwrap on a failed conversion) and [PFuel] (loop / depth fuel exhausted).
   [p_file lf df] is the same parser with explicit loop fuel [lf] (handed to every nom loop) and depth fuel [df],
   decremented exactly where the Rust code recurses natively: Ty::parse -> Type::parse -> Ty::parse and
   ConstValue::parse -> ConstValue::parse; [parse_file s = p_file (|s|+1) (|s|+1) s]. *)
From PVIdl Require Import Comb Ast Parser Proofs.Nesting Proofs.Total.

(* on every byte string (a superset of all &str) the parser returns a parse result, a recoverable error or a
   failure: never a panic (the i32 / i64 conversions are modelled with their real ranges), and the fuel
   [length s + 1] never runs out *)
Theorem C16_total : forall s : list byte,
  match parse_file s with
  | POk _ _ | PErr _ _ | PFail _ _ => True
  | PPanic _ | PFuel _ => False
  end.
Proof. exact parse_total. Qed.
Print Assumptions C16_total.

(* the logic half of the stack claim: the native recursion is never deeper than [nesting s + 1] activations of the
   Ty / ConstValue knots, where [nesting s] (Proofs/Nesting.v: a seven-state scanner that skips the three comment
   styles and the two quote styles) is the deepest nesting of '<' '[' '{' against '>' ']' '}' in s: depth fuel above
   the nesting is never exhausted (c = 1 knot activation per level, c' = 1).  The bytes of stack per activation are
   measured by the harness (pv/props/c16.py, evidence stack_probe). *)
Theorem C16_depth : forall (lf df : nat) (s : list byte),
  (length s < lf)%nat -> (nesting s < Z.of_nat df)%Z ->
  match p_file lf df s with
  | POk _ _ | PErr _ _ | PFail _ _ => True
  | PPanic _ | PFuel _ => False
  end.
Proof. exact parse_depth_bound. Qed.
Print Assumptions C16_depth.

(* the nesting of a text is at most its length (so that C16_total is the instance df = |s|+1 of C16_depth) and
   never negative *)
Theorem C16_nesting_range : forall s : list byte, (0 <= nesting s <= Z.of_nat (length s))%Z.
Proof. exact nesting_range. Qed.
Print Assumptions C16_nesting_range.
