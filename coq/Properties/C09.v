(* C09 -- safe Thrift decoders are total: arbitrary bytes give a value or an error (primitive
   level: the in-memory readers of binary / binary-LE / compact driven by the self-describing value
   interpreter; generated decoders are covered at the generated-code level).
   [forall l : list byte] ranges over ALL byte strings: every truncation, bit flip and corrupted
   length/size/type/id is an instance. *)
From PV Require Import Thrift.Interp Proofs.HeaderP Proofs.RoundtripP Proofs.TotalP Proofs.PrefixP.
Open Scope Z_scope.

(* no panic, no hang: with fuel [length l + 1] the reader returns Ok or a genuine error, for every
   byte string, every requested type, every protocol and every initial reader context *)
Theorem C09_total : forall p ty (l : list byte) rcx,
  let o := read_val p (length l + 1) ty (mkS l rcx) in
  (forall st, o <> Panic st) /\ o <> Err EOutOfFuel.
Proof. exact read_val_total. Qed.
Print Assumptions C09_total.

(* memory in proportion to the input: what decoders preallocate from -- an accepted list/set size,
   an accepted map size, an accepted byte-string length -- never exceeds the bytes that remain *)
Theorem C09_list_size_bounded : forall p s et n s',
  r_coll_begin p s = Ok ((et, n), s') -> 0 <= n <= Z.of_nat (blen s').
Proof. exact coll_size_bounded. Qed.
Print Assumptions C09_list_size_bounded.

Theorem C09_map_size_bounded : forall p s kt vt n s',
  r_map_begin p s = Ok ((kt, vt, n), s') -> 0 <= n <= Z.of_nat (blen s').
Proof. exact map_size_bounded. Qed.
Print Assumptions C09_map_size_bounded.

Theorem C09_bytes_len_bounded : forall p s l s',
  r_bytes p s = Ok (l, s') -> (length l <= blen s)%nat.
Proof. exact r_bytes_bounded. Qed.
Print Assumptions C09_bytes_len_bounded.

(* every strict prefix of a valid encoding (of a struct or of any other value) is rejected with a
   genuine error -- not accepted, not a panic, not fuel exhaustion *)
Theorem C09_prefix_rejected : forall p k v c,
  wt v = true -> w_pend c = None ->
  exists ss, write_val p k v c = Ok (ss, c) /\
    forall n fuel rcx, (n < length (flat ss))%nat -> (vsize v <= fuel)%nat -> (n < fuel)%nat -> idle rcx ->
      exists e, read_val p fuel (ttype_of v) (mkS (firstn n (flat ss)) rcx) = Err e /\ e <> EOutOfFuel.
Proof. exact prefix_rejected. Qed.
Print Assumptions C09_prefix_rejected.

(* the lemma behind it, of independent interest: the readers are monotone in their input -- a read
   that succeeds on a buffer succeeds with the same value on every extension of it and leaves the
   extension unread (so a decoder never depends on what follows the message) *)
Theorem C09_reader_monotone : forall p f ty s v s' t,
  read_val p f ty s = Ok (v, s') -> read_val p f ty (ext s t) = Ok (v, ext s' t).
Proof. exact (fun p f ty => EXT_read_val p f ty). Qed.
Print Assumptions C09_reader_monotone.

(* tie to the code: the regenerated inventory of the panic-capable and allocation sites of the safe readers
   (Generated/ReaderSites.v: every unwrap / expect / panic! / assert! / split_to / advance / copy_to_slice /
   slice index / with_capacity / vec![0; n] / reserve / read_to_end / conversion / push / loop / integer cast /
   arithmetic / unsafe of the sync and async input protocols, their rw_ext / varint_ext helpers and the default
   skippers, in source order) is exactly the list Thrift/Sites.v accounts for, and every account is admissible
   for its kind of site (a site that can panic is guarded by a test the named model function transcribes, or is
   a Panic outcome of the model, or lies outside the readers; an allocation is charged by Thrift/Alloc.v or
   constant).  A new unwrap / index / allocation in a reader breaks this theorem. *)
From PV Require Import Generated.ReaderSites Thrift.Sites Proofs.SitesP.
Theorem C09_site_inventory :
  map fst accounted = reader_sites /\ forallb justified accounted = true.
Proof. exact (conj sites_accounted sites_justified). Qed.
Print Assumptions C09_site_inventory.

(* memory in proportion to the input, as ONE statement about whole runs of the interpreter: Thrift/Alloc.v threads
   a ghost allocation counter through the value interpreter (charged where the readers allocate from a
   wire-supplied number: read_bytes_vec / read_string of the in-memory readers after the length test; rw_ext
   read_exact_to_vec of the asynchronous readers -- min(len, PREALLOC_LIMIT) up front, then growth with the bytes
   received --; one unit per element / field / map entry the interpreter pushes; the compact id stack).
   Erasing the counter gives back read_val / aread_val (same value, state, error class) ... *)
From PV Require Import Thrift.Async Thrift.Alloc Proofs.AllocP.
Theorem C09_alloc_erase_sync : forall pre p f ty s a,
  fst (read_val_alloc pre p f ty s a) = read_val p f ty s.
Proof. exact alloc_erase_sync. Qed.
Print Assumptions C09_alloc_erase_sync.

Theorem C09_alloc_erase_async : forall pre p f ty s a,
  fst (aread_val_alloc pre p f ty s a) = aread_val p f ty s.
Proof. exact alloc_erase_async. Qed.
Print Assumptions C09_alloc_erase_async.

(* ... and for EVERY byte string, every requested type, protocol, initial reader context and fuel, whatever the
   outcome (value or error: what a failing read had requested counts), the counter of the in-memory readers is at
   most 2 * (length + 1) and that of the asynchronous readers at most 3 * (length + 1) + PREALLOC_LIMIT (the
   regenerated constant of rw_ext.rs: a short byte string is allocated before it is received) *)
Theorem C09_alloc : forall p f ty (l : list byte) rcx,
  alloc_of (read_val_alloc false p f ty (mkS l rcx) 0) <= 2 * (Z.of_nat (length l) + 1).
Proof. exact alloc_sync. Qed.
Print Assumptions C09_alloc.

Theorem C09_alloc_async : forall p f ty (l : list byte) rcx,
  alloc_of (aread_val_alloc false p f ty (mkS l rcx) 0) <= 3 * (Z.of_nat (length l) + 1) + prealloc_limit.
Proof. exact alloc_async. Qed.
Print Assumptions C09_alloc_async.

(* alloc <= c * (length + 1) with the single explicit constant c = 3 + PREALLOC_LIMIT, sync and async *)
Theorem C09_alloc_linear : forall p f ty (l : list byte) rcx,
  alloc_of (read_val_alloc false p f ty (mkS l rcx) 0) <= (3 + prealloc_limit) * (Z.of_nat (length l) + 1) /\
  alloc_of (aread_val_alloc false p f ty (mkS l rcx) 0) <= (3 + prealloc_limit) * (Z.of_nat (length l) + 1).
Proof. exact alloc_linear. Qed.
Print Assumptions C09_alloc_linear.

(* a client that preallocates from the container headers of the in-memory readers (Vec::with_capacity(size), what
   the emitted sync decoders do): a successful read requested at most 2 * (length + 1); a FAILING read may have
   requested one announced size per open nesting level -- depth budget times length, and Proofs/AllocP.v
   [alloc_sync_prealloc_superlinear] shows this is what happens (5 * k * (k - 1) / 2 slots for 5 * k bytes):
   checked_container_size bounds each announced size, not their sum over the nesting levels *)
Theorem C09_alloc_prealloc_ok : forall p f ty (l : list byte) rcx v s',
  fst (read_val_alloc true p f ty (mkS l rcx) 0) = Ok (v, s') ->
  alloc_of (read_val_alloc true p f ty (mkS l rcx) 0) <= 2 * (Z.of_nat (length l) + 1).
Proof. exact alloc_sync_prealloc_ok. Qed.
Print Assumptions C09_alloc_prealloc_ok.

Theorem C09_alloc_prealloc_depth : forall p f ty (l : list byte) rcx,
  alloc_of (read_val_alloc true p f ty (mkS l rcx) 0) <= (1 + Z.of_nat f) * (2 * Z.of_nat (length l) + 1) + 1.
Proof. exact alloc_sync_prealloc. Qed.
Print Assumptions C09_alloc_prealloc_depth.

(* ---- panic freedom as a proof, not by construction (Thrift/ProtoG.v, Proofs/GuardP.v) ----
   The reader model above is total: [r_take] answers a short buffer with an error, so no reader CAN
   produce Panic.  The Rust readers reach the same answer differently: a guard (assert_remaining!, a
   length test, `if depth == 0`) and then an operation of bytes / of a debug build that PANICS when
   its precondition fails (advance, copy_to_slice, split_to, chunk()[0], array index, usize `-`).
   ProtoG.v models those operations as partial (Panic SOob / SOverflow) and every panic-capable leaf
   of the in-memory readers and of the skippers as "guard, then partial operation"; a missing or
   too weak guard would make one of the equalities below false. *)
From PV Require Import Thrift.ProtoG Proofs.AsyncErrP Proofs.GuardP.

(* the guarded leaves equal the total ones on EVERY input: every theorem about the total model is a
   theorem about the guarded one *)
Theorem C09_guarded_eq :
  (forall n s, g_take n s = r_take n s) /\ (forall s, g_byte s = r_byte s) /\ (forall s, g_i8 s = r_i8 s) /\
  (forall n s, g_split n s = r_split n s) /\ (forall n s, g_adv n s = adv n s) /\
  (forall A (m : rm A) s, shrinks m -> g_via m s = via m s) /\
  (forall maxsize buf, (maxsize <= arr_len)%nat -> g_read_var_u64 maxsize buf = read_var_u64 maxsize buf) /\
  (forall p f d ty s, g_skip_val p f d ty s = skip_val p f d ty s) /\
  (forall p f d ty s, g_askip_val p f d ty s = askip_val p f d ty s).
Proof.
  exact (conj g_take_eq (conj g_byte_eq (conj g_i8_eq (conj g_split_eq (conj g_adv_eq
        (conj (fun A m s H => g_via_eq m s H) (conj (fun m b H => g_read_var_eq m b H) (conj g_skip_val_eq g_askip_val_eq)))))))).
Qed.
Print Assumptions C09_guarded_eq.

(* ... and never panic, on any byte string and from any state (the varint processor for every
   maxsize up to its array, i.e. every integer type: maxsizes_fit) *)
Theorem C09_no_panic :
  (forall n s, nopanic (g_take n s)) /\ (forall s, nopanic (g_byte s)) /\ (forall s, nopanic (g_i8 s)) /\
  (forall n s, nopanic (g_split n s)) /\ (forall n s, nopanic (g_adv n s)) /\
  (forall maxsize buf, (maxsize <= arr_len)%nat -> nopanic (g_read_var_u64 maxsize buf)) /\
  (forall p f d ty s, (blen s < f)%nat -> nopanic (g_skip_val p f d ty s)) /\
  (forall p f d ty s, npb s -> nopanic (g_askip_val p f d ty s)).
Proof.
  exact (conj g_take_np (conj g_byte_np (conj g_i8_np (conj g_split_np (conj g_adv_np
        (conj g_read_var_np (conj g_skip_val_np g_askip_val_np))))))).
Qed.
Print Assumptions C09_no_panic.

(* totality of the in-memory skippers on arbitrary bytes (the value readers: C09_total) *)
Theorem C09_skip_no_panic : forall p f d ty s, (blen s < f)%nat -> forall sp, skip_val p f d ty s <> Panic sp.
Proof. exact skip_val_np. Qed.
Print Assumptions C09_skip_no_panic.

(* the tie to the regenerated inventory: every site accounted as [Guarded fn _] names a model function
   that has an entry in [guard_table], and that entry -- the equality of the guarded leaf with the
   total function -- is proved.  The sentence in the account is commentary; this is the obligation. *)
Theorem C09_site_guards :
  Forall (fun sa => match snd sa with
                    | Guarded fn _ => exists P : Prop, In (fn, P) guard_table /\ P
                    | _ => True
                    end) accounted.
Proof. exact sites_guarded. Qed.
Print Assumptions C09_site_guards.

(* completeness side of the site inventory: EVERY top-level impl / trait / macro / fn item of the Thrift protocol files
   (regenerated: Generated/ThriftFns.v, with the fns each contains) is either scanned by the inventory or classified in
   Thrift/FnsKnown.v (writer side / unchecked codec / reads no input); a new helper fn, impl block or macro breaks this *)
From PV Require Import Generated.ThriftFns Thrift.FnsKnown Proofs.FnsP.
Theorem C09_fn_inventory :
  map (fun q => let '(f, h, fns, c) := q in (f, h, fns, is_scanned c)) known_items = thrift_items.
Proof. exact fns_accounted. Qed.
Print Assumptions C09_fn_inventory.
