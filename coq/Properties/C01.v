(* C01 -- Thrift runtime round trip on every protocol and buffer kind.
   Only statements, each closed by [exact] of a lemma proved in Proofs/, with
   Print Assumptions beneath.  p ranges over {binary, binary-LE, compact}, k over
   {BytesMut, LinkedBytes zero-copy off, LinkedBytes zero-copy on}; the unchecked binary codec
   is tied to the checked one by C11. *)
From PV Require Import Thrift.Interp Proofs.HeaderP Proofs.RoundtripP.
Open Scope Z_scope.

(* Every well-typed value tree, written with ANY writer context that has no bool field pending,
   - is written successfully and leaves the writer context exactly as it was (balanced),
   - is read back, from any reader context with nothing pending and with ARBITRARY trailing bytes
     [r], as the same value (up to the key/value types of an empty compact map, which are not on
     the wire), consuming exactly the bytes written (the remainder is [r]) and leaving the reader
     context exactly as it was -- so a following value is read as if the reader were fresh. *)
Theorem C01_roundtrip : forall p k v,
  wt v = true ->
  forall c, w_pend c = None ->
  exists ss, write_val p k v c = Ok (ss, c) /\ (1 <= length (flat ss))%nat /\
    forall fuel r rcx, (vsize v <= fuel)%nat -> idle rcx ->
      read_val p fuel (ttype_of v) (mkS (flat ss ++ r) rcx) = Ok (canon p v, mkS r rcx).
Proof. exact roundtrip_val. Qed.
Print Assumptions C01_roundtrip.

(* every sequence of values written back to back with one writer on one buffer and read with one
   reader *)
Theorem C01_sequence : forall p k vs,
  forallb wt vs = true ->
  forall c, w_pend c = None ->
  exists ss, write_vals p k vs c = Ok (ss, c) /\
    forall fuel r rcx, (forall v, In v vs -> (vsize v <= fuel)%nat) -> idle rcx ->
      read_vals p fuel (map ttype_of vs) (mkS (flat ss ++ r) rcx) = Ok (map (canon p) vs, mkS r rcx).
Proof. exact roundtrip_vals. Qed.
Print Assumptions C01_sequence.

(* the bytes (and the outcome) do not depend on the output buffer kind: contiguous, linked,
   zero-copy on or off, payloads on either side of the threshold *)
Theorem C01_bytes_buffer_independent : forall p k k' v c,
  fl (write_val p k v c) = fl (write_val p k' v c).
Proof. exact buffer_independent. Qed.
Print Assumptions C01_bytes_buffer_independent.

(* the writer is balanced (DESIGN 5.1 C01_writer_balanced): on a writer with no bool field pending, every
   well-typed value is written successfully and leaves the writer's delta context (last field id, id stack,
   pending slot) exactly as it found it -- for every protocol, buffer kind and STARTING context, so values can
   follow one another on one writer.  (It is the first conjunct of C01_roundtrip, stated on its own.) *)
From PV Require Import Proofs.BalanceP.
Theorem C01_writer_balanced : forall p k v, wt v = true -> forall c, w_pend c = None ->
  exists ss, write_val p k v c = Ok (ss, c).
Proof. exact writer_balanced. Qed.
Print Assumptions C01_writer_balanced.

Theorem C01_writer_balanced_seq : forall p k vs, forallb wt vs = true -> forall c, w_pend c = None ->
  exists ss, write_vals p k vs c = Ok (ss, c).
Proof. exact writer_balanced_seq. Qed.
Print Assumptions C01_writer_balanced_seq.

(* tie to the METHOD BODIES (regenerated): Generated/PrimOps.v is the table of the bodies of every TOutputProtocol writer
   (BytesMut and LinkedBytes flavours) and every TLengthProtocol method of binary.rs / binary_le.rs / compact.rs, lowered
   by the translator to the small language of Thrift/PrimOp.v.  For every row, the denotation of the body over the byte
   model (Thrift/PrimOpsSem.v) is the hand-written primitive of Proto.v / Len.v selected by the method's name -- same
   bytes and same final writer context (resp. same number), same error, same panic -- for the protocol of the row's
   struct, EVERY buffer kind, argument and writer context the Rust types allow.  A changed method body (write_f64_le
   turned into write_f64, write_i16 into write_i16_le ...) breaks this theorem, not only the differential run. *)
From Coq Require Import String.
From PV Require Import Thrift.Len Thrift.PrimOp Thrift.PrimOpsSem Generated.PrimOps Proofs.PrimOpsP Proofs.PrimOpsTableP.
Theorem C01_prim_ops_table : forall r, In r prim_ops ->
  forall p, pk_of (r_proto r) = Some p ->
  forall k a c, args_ok (r_method r) a c ->
    (r_class r = "write"%string -> exists w, wspec p k (r_method r) a = Some w /\ fl (run_w p k r a c) = fl (w c)) /\
    (r_class r = "len"%string -> exists l, lspec p (r_method r) a = Some l /\ run_l p r a c = l c).
Proof. exact prim_ops_model. Qed.
Print Assumptions C01_prim_ops_table.

(* buffer independence at the level of the regenerated bodies: the BytesMut and the LinkedBytes flavour of one
   (protocol, method), zero-copy on or off, denote the same bytes and the same final context *)
Theorem C01_prim_ops_flavours : forall r1 r2, In r1 prim_ops -> In r2 prim_ops ->
  r_class r1 = "write"%string -> r_class r2 = "write"%string ->
  r_proto r1 = r_proto r2 -> r_method r1 = r_method r2 ->
  forall p, pk_of (r_proto r1) = Some p ->
  forall k1 k2 a c, args_ok (r_method r1) a c ->
    fl (run_w p k1 r1 a c) = fl (run_w p k2 r2 a c).
Proof. exact prim_ops_flavour_independent. Qed.
Print Assumptions C01_prim_ops_flavours.

(* ... and every regenerated READER row (TInputProtocol / TAsyncInputProtocol methods of the three protocols that the
   translator lowers: all of binary / binary-LE except read_message_begin; the stateless compact methods) is the reader
   primitive of Proto.v / Async.v selected by its method name, on every reader state *)
From PV Require Import Thrift.Async Thrift.PrimOpsRSem.
Theorem C01_prim_ops_read : forall r, In r prim_ops -> r_class r = "read"%string ->
  forall p, pk_of (r_proto r) = Some p ->
  exists m, rspec (seqb (r_flavour r) "async") p (r_method r) = Some m /\
    forall s, run_r (seqb (r_flavour r) "async") p r s = m s.
Proof. exact prim_ops_model_read. Qed.
Print Assumptions C01_prim_ops_read.

(* message envelopes in sequences on one protocol object: every envelope is read back (every protocol, buffer kind, writer
   and reader context, trailing bytes), and several enveloped messages -- write_message_begin + value + write_message_end --
   written back to back with ONE writer are read back by ONE reader: same envelopes, same values, exactly the bytes written
   consumed, writer and reader contexts left as found (the unchecked codec: C11_message_eq) *)
From PV Require Import Thrift.AppMsg Proofs.AppMsgP.
Theorem C01_message_envelope : forall p k m c,
  len_ok (List.length (m_name m)) = true -> in_s 32 (m_seq m) ->
  exists ss, w_message_begin p k m c = Ok (ss, c) /\
    forall r rcx, r_message_begin p (mkS (flat ss ++ r) rcx) = Ok (m, mkS r rcx).
Proof. exact msg_roundtrip. Qed.
Print Assumptions C01_message_envelope.

Theorem C01_message_sequence : forall p k msgs, Forall msg_ok msgs ->
  forall c, w_pend c = None ->
  exists ss, write_msgs p k msgs c = Ok (ss, c) /\
    forall fuel r rcx, (forall q, In q msgs -> (vsize (snd q) <= fuel)%nat) -> idle rcx ->
      read_msgs p fuel (map (fun q => ttype_of (snd q)) msgs) (mkS (flat ss ++ r) rcx)
        = Ok (map (fun q => (fst q, canon p (snd q))) msgs, mkS r rcx).
Proof. exact message_sequence. Qed.
Print Assumptions C01_message_sequence.

(* the same for the UNCHECKED binary writer (binary_unsafe.rs write_message_begin + values): given room
   for them, the enveloped messages it writes back to back are read back -- envelopes and values,
   exactly the bytes written -- by the checked binary reader from any idle context and by the
   unchecked reader (the segments are those of the checked writer: C11_message_write_eq) *)
From PV Require Import Thrift.Unsafe Proofs.UnsafeP Proofs.UMsgWriteP.
Theorem C01_message_sequence_unchecked : forall k zc msgs cap,
  Forall msg_ok msgs ->
  (match k with BContig => True | BLinked z => z = zc end) ->
  exists ss, write_msgs PBinary k msgs w0 = Ok (ss, w0) /\
    (Z.of_nat (List.length (flat ss)) <= cap ->
     exists u', uwrite_msgs zc msgs (match k with BContig => uw_contig cap | BLinked _ => uw_linked cap end) = Ok (ss, u') /\
       forall fuel r, (forall q, In q msgs -> (vsize (snd q) <= fuel)%nat) ->
         (forall rcx, idle rcx ->
            read_msgs PBinary fuel (map (fun q => ttype_of (snd q)) msgs) (mkS (flat ss ++ r)%list rcx)
              = Ok (map (fun q => (fst q, canon PBinary (snd q))) msgs, mkS r rcx)) /\
         (exists u2, uread_msgs fuel (map (fun q => ttype_of (snd q)) msgs) (mkU (flat ss ++ r)%list 0)
                       = Ok (map (fun q => (fst q, canon PBinary (snd q))) msgs, u2) /\ urest u2 = r)).
Proof. exact unchecked_message_sequence. Qed.
Print Assumptions C01_message_sequence_unchecked.

(* completeness side of the PrimOps table: Generated/TraitMethods.v is regenerated from the trait
   definitions of pilota/src/thrift/mod.rs; for each of the 15 impls (3 protocols x {len, write over
   BytesMut, write over LinkedBytes, sync read, async read}) every REQUIRED method of its trait --
   minus the exceptions listed by name in [not_tabled]: accessors / plumbing, the skippers (C07), and the
   reader methods the translator does not lower (the stateful compact readers, the envelope readers) --
   has a row, so the `forall r, In r prim_ops` of the theorems above cannot shrink silently; and every
   row is a method of its impl's trait or a named helper, no key twice *)
From PV Require Import Generated.TraitMethods Proofs.PrimOpsCompleteP.
Theorem C01_prim_ops_complete :
  (forall k, In k expected_keys -> exists r, In r prim_ops /\ key_of r = k) /\
  forallb row_expected prim_ops = true /\ dup_free (map key_of prim_ops) = true.
Proof. exact (conj prim_ops_complete_In prim_ops_only_expected). Qed.
Print Assumptions C01_prim_ops_complete.
