(* Bytes, fixed-width integers, two's complement.  Model layer L0. *)
From Coq Require Export ZArith NArith List Lia Bool.
From Coq.Strings Require Export Byte.
From Coq Require Import ZifyN ZifyNat ZifyBool.
Export ListNotations.
Open Scope Z_scope.

Ltac Zify.zify_post_hook ::= Z.div_mod_to_equations.

Definition b2z (b : byte) : Z := Z.of_N (Byte.to_N b).

Definition z2b (z : Z) : byte :=
  match Byte.of_N (Z.to_N (z mod 256)) with
  | Some b => b
  | None => x00
  end.

Lemma b2z_range b : 0 <= b2z b < 256.
Proof.
  unfold b2z. pose proof (Byte.to_N_bounded b). lia.
Qed.

Lemma b2z_z2b z : b2z (z2b z) = z mod 256.
Proof.
  unfold b2z, z2b.
  destruct (Byte.of_N (Z.to_N (z mod 256))) eqn:E.
  - apply Byte.to_of_N in E. rewrite E. lia.
  - apply Byte.of_N_None_iff in E. lia.
Qed.

Lemma z2b_b2z b : z2b (b2z b) = b.
Proof.
  unfold z2b, b2z.
  pose proof (Byte.to_N_bounded b).
  replace (Z.to_N (Z.of_N (to_N b) mod 256)) with (to_N b) by lia.
  rewrite Byte.of_to_N. reflexivity.
Qed.

Lemma z2b_mod z : z2b (z mod 256) = z2b z.
Proof. unfold z2b. rewrite Z.mod_mod by lia. reflexivity. Qed.

(* little-endian and big-endian fixed width *)
Fixpoint le_bytes (n : nat) (z : Z) : list byte :=
  match n with
  | O => []
  | S k => z2b z :: le_bytes k (z / 256)
  end.

Fixpoint of_le (l : list byte) : Z :=
  match l with
  | [] => 0
  | b :: t => b2z b + 256 * of_le t
  end.

Definition be_bytes (n : nat) (z : Z) : list byte := rev (le_bytes n z).
Definition of_be (l : list byte) : Z := of_le (rev l).

Lemma le_bytes_length n z : length (le_bytes n z) = n.
Proof. revert z; induction n as [|n IH]; intros z; cbn [le_bytes length]; auto. Qed.

Lemma be_bytes_length n z : length (be_bytes n z) = n.
Proof. unfold be_bytes. rewrite rev_length. apply le_bytes_length. Qed.

Lemma of_le_le_bytes n z : 0 <= z < 256 ^ Z.of_nat n -> of_le (le_bytes n z) = z.
Proof.
  revert z; induction n as [|n IH]; intros z Hz.
  - cbn in *. lia.
  - cbn [le_bytes of_le]. rewrite b2z_z2b.
    rewrite IH.
    + lia.
    + rewrite Nat2Z.inj_succ, Z.pow_succ_r in Hz by lia. lia.
Qed.

Lemma of_be_be_bytes n z : 0 <= z < 256 ^ Z.of_nat n -> of_be (be_bytes n z) = z.
Proof.
  intros. unfold of_be, be_bytes. rewrite rev_involutive. apply of_le_le_bytes; auto.
Qed.

Lemma of_le_range l : 0 <= of_le l < 256 ^ Z.of_nat (length l).
Proof.
  induction l as [|b t IH].
  - cbn. lia.
  - cbn [of_le length]. rewrite Nat2Z.inj_succ, Z.pow_succ_r by lia.
    pose proof (b2z_range b). lia.
Qed.

Lemma le_bytes_of_le l : le_bytes (length l) (of_le l) = l.
Proof.
  induction l as [|b t IH]; cbn [le_bytes of_le length]; auto.
  pose proof (b2z_range b).
  replace (z2b (b2z b + 256 * of_le t)) with b.
  - replace ((b2z b + 256 * of_le t) / 256) with (of_le t).
    + now rewrite IH.
    + rewrite (Z.mul_comm 256), Z.div_add by lia. rewrite Z.div_small by lia. lia.
  - rewrite <- z2b_mod. replace ((b2z b + 256 * of_le t) mod 256) with (b2z b).
    + now rewrite z2b_b2z.
    + rewrite (Z.mul_comm 256), Z.mod_add by lia. rewrite Z.mod_small by lia. lia.
Qed.

(* two's complement views *)
Definition wrap_u (bits : Z) (z : Z) : Z := z mod 2 ^ bits.
Definition wrap_s (bits : Z) (z : Z) : Z :=
  let m := z mod 2 ^ bits in
  if m <? 2 ^ (bits - 1) then m else m - 2 ^ bits.

Definition in_s (bits : Z) (z : Z) : Prop := - 2 ^ (bits - 1) <= z < 2 ^ (bits - 1).
Definition in_sb (bits : Z) (z : Z) : bool := (- 2 ^ (bits - 1) <=? z) && (z <? 2 ^ (bits - 1)).

Lemma in_sb_spec bits z : in_sb bits z = true <-> in_s bits z.
Proof. unfold in_sb, in_s. lia. Qed.

Lemma wrap_s_wrap_u bits z : 0 < bits -> in_s bits z -> wrap_s bits (wrap_u bits z) = z.
Proof.
  intros Hb [H1 H2]. unfold wrap_s, wrap_u.
  rewrite Z.mod_mod by lia.
  assert (E : 2 ^ bits = 2 * 2 ^ (bits - 1)).
  { replace bits with (Z.succ (bits - 1)) at 1 by lia. rewrite Z.pow_succ_r by lia. lia. }
  assert (0 < 2 ^ (bits - 1)) by (apply Z.pow_pos_nonneg; lia).
  destruct (Z_lt_le_dec z 0) as [Hn|Hp].
  - assert (Em : z mod 2 ^ bits = z + 2 ^ bits).
    { symmetry. apply (Z.mod_unique_pos _ _ (-1)); lia. }
    rewrite Em. destruct (Z.ltb_spec (z + 2 ^ bits) (2 ^ (bits - 1))); lia.
  - rewrite Z.mod_small by lia.
    destruct (Z.ltb_spec z (2 ^ (bits - 1))); lia.
Qed.

Lemma wrap_u_range bits z : 0 <= bits -> 0 <= wrap_u bits z < 2 ^ bits.
Proof. intros. unfold wrap_u. apply Z.mod_pos_bound. apply Z.pow_pos_nonneg; lia. Qed.

Lemma wrap_s_range bits z : 0 < bits -> in_s bits (wrap_s bits z).
Proof.
  intros Hb. unfold wrap_s, in_s.
  assert (E : 2 ^ bits = 2 * 2 ^ (bits - 1)).
  { replace bits with (Z.succ (bits - 1)) at 1 by lia. rewrite Z.pow_succ_r by lia. lia. }
  assert (0 < 2 ^ (bits - 1)) by (apply Z.pow_pos_nonneg; lia).
  pose proof (Z.mod_pos_bound z (2 ^ bits) ltac:(lia)) as Hm.
  set (m := z mod 2 ^ bits) in *. clearbody m.
  destruct (Z.ltb_spec m (2 ^ (bits - 1))); lia.
Qed.

(* buffer helpers *)
Definition take (n : nat) (l : list byte) : option (list byte * list byte) :=
  if Nat.leb n (length l) then Some (firstn n l, skipn n l) else None.

Lemma take_app n a r : length a = n -> take n (a ++ r) = Some (a, r).
Proof.
  intros <-. unfold take. rewrite app_length.
  replace (Nat.leb (length a) (length a + length r)) with true by (symmetry; apply Nat.leb_le; lia).
  rewrite firstn_app, Nat.sub_diag, firstn_all, firstn_O, app_nil_r.
  rewrite skipn_app, Nat.sub_diag, skipn_all, skipn_O. reflexivity.
Qed.

Lemma take_some n l a r : take n l = Some (a, r) -> l = a ++ r /\ length a = n.
Proof.
  unfold take. destruct (Nat.leb n (length l)) eqn:E; [|discriminate].
  intros H; inversion H; subst. apply Nat.leb_le in E.
  split; [symmetry; apply firstn_skipn | apply firstn_length_le; auto].
Qed.
