fn main(){}
