"""C12 -- asynchronous decoding equals in-memory decoding for every delivery schedule (primitive level)."""
import itertools, random, re
from .. import core, thriftgen as tg, malform as mf
from . import c07, c09

PKS = ["binary", "binary_le", "compact"]


def schedules(rng, n, exhaustive_upto):
    """delivery schedules for an n-byte stream: cut positions (+ Pending injections)"""
    if n <= 1:
        return ["all", "all/p2"]
    if n <= exhaustive_upto:
        out = []
        for mask in range(1 << (n - 1)):
            cuts = [str(i + 1) for i in range(n - 1) if mask >> i & 1]
            out.append(",".join(cuts) if cuts else "all")
        return out
    out = ["all", "h", "h/p3", "all/p1"] + (["b1", "b1/p1"] if n <= 600 else [])
    if n > 4000:
        out += ["%d" % c for c in (4095, 4096, 4100, n - 3, n - 1) if 0 < c < n] + ["10,%d" % (n - 2)]
    for _ in range(4):
        k = rng.randrange(1, min(n, 6))
        cuts = sorted(set(rng.randrange(1, n) for _ in range(k)))
        out.append(",".join(map(str, cuts)) + rng.choice(["", "/p1", "/p2"]))
    return out


def gen_cases(rng, n, runner, exhaustive_upto):
    """list of (rd line, ard line, kind)"""
    valids = c09.valid_encodings(rng, max(40, n // 60), runner)
    # short messages for the exhaustive split enumeration
    short = []
    for pk in PKS:
        for v in ["S1 f1 i5", "S1 f1 b1", "S2 f1 b0 f2 y3", "L8,1 i7", "M3,3,1 y1 y2", "S1 f1 S0", "T2,2 b1 b0", "S1 f1 s6162",
                  "S0", "M11,8,0", "S1 f20 h-3"]:
            short.append((pk, v))
    outs = core.run_lines(runner, ["rt %s contig - 1 %s" % (pk, v) for pk, v in short])
    for (pk, v), o in zip(short, outs):
        if o.startswith("W "):
            hxs = o.split(" ")[1]
            valids.append((pk, {"S": 12, "L": 15, "T": 14, "M": 13}[v[0]], bytes.fromhex(hxs) if hxs != "-" else b"", v[0] == "S"))
    # payloads on both sides of the 4096-byte threshold of the async length-prefixed reads, followed by more fields
    big = []
    for pk in PKS:
        for n in (4095, 4096, 4097, 5000, 9000):
            big.append((pk, "S2 f1 s%s f2 i7" % ("ab" * n)))
            big.append((pk, "L11,2 s%s s6162" % ("cd" * n)))
    bouts = core.run_lines(runner, ["rt %s contig - 1 %s" % (pk, v) for pk, v in big])
    for (pk, v), o in zip(big, bouts):
        if o.startswith("W "):
            valids.append((pk, {"S": 12, "L": 15}[v[0]], bytes.fromhex(o.split(" ")[1]), v[0] == "S"))
    pairs = {}
    for pk, code, b, _ in valids:
        inputs = [(b, "valid")]
        trail = bytes(rng.randrange(256) for _ in range(rng.choice([1, 3, 7])))
        inputs.append((b + trail, "valid+trailing"))
        if len(b) > exhaustive_upto:
            inputs += mf.truncations(b, rng, cap=5) + mf.overwrites(b, pk, rng, cap=6) + mf.bitflips(b, rng, cap=4)
        else:
            inputs += [(b[:len(b) // 2], "trunc"), (b[:-1], "trunc")]
        for m, kind in inputs:
            hx = tg.hx(m)
            scheds = schedules(rng, len(m), exhaustive_upto)
            if len(m) > exhaustive_upto and kind not in ("valid", "valid+trailing"):
                scheds = rng.sample(scheds, 3)
            for sc in scheds:
                pairs.setdefault(("rd %s %d %s" % (pk, code, hx), "ard %s %d %s %s" % (pk, code, hx, sc)), kind)
    # skip in a field loop and ApplicationException::decode(_async): the callers that never call read_field_end (async
    # skipper's struct arm, the exception's unknown-field arm) on structs with bool fields followed by bool containers
    for pk in PKS:
        for st in c07.LOOP_STRUCTS + [[(1, "S3 f1 b1 f2 i5 f3 L2,2 b1 b0"), (2, "L2,1 b1")], [(1, "L12,1 S2 f1 b0 f2 T2,1 b1"), (2, "b1")]]:
            text = "S%d %s" % (len(st), " ".join("f%d %s" % (i, v) for i, v in st))
            oc = core.run_lines(runner, ["rt %s contig - 1 %s" % (pk, text)])[0]
            if not oc.startswith("W "):
                continue
            hx = oc.split(" ")[1]
            for ids in ([st[0][0]], [i for i, v in st if v[0] == "b"], [i for i, _ in st]):
                if not ids:
                    continue
                idl = ",".join(str(i) for i in ids)
                for sc in schedules(rng, len(hx) // 2, 0)[:5]:
                    pairs.setdefault(("rds %s sync %s %s" % (pk, hx, idl), "rds %s async:%s %s %s" % (pk, sc, hx, idl)), "loop")
        for extra in c07.APP_EXTRAS:
            for order in (0, 1, 2):
                base = [(1, "s626f6f6d"), (2, "i6")]
                fl = (base + extra) if order == 0 else ([base[0]] + extra + [base[1]]) if order == 1 else (extra + base)
                text = "S%d %s" % (len(fl), " ".join("f%d %s" % (i, v) for i, v in fl))
                oc = core.run_lines(runner, ["rt %s contig - 1 %s" % (pk, text)])[0]
                if not oc.startswith("W "):
                    continue
                b = bytes.fromhex(oc.split(" ")[1])
                for m, kind in [(b, "app"), (b + b"\x07\x08", "app+trailing"), (b[:-1], "app-trunc"), (b[:len(b) // 2], "app-trunc")]:
                    for sc in schedules(rng, len(m), 0)[:4]:
                        pairs.setdefault(("appr %s %s" % (pk, tg.hx(m)), "aappr %s %s %s" % (pk, tg.hx(m), sc)), kind)
    for m, kind in mf.randoms(rng, 60):
        pk = rng.choice(PKS)
        code = rng.choice([12, 13, 14, 15, 11, 16])
        pairs.setdefault(("rd %s %d %s" % (pk, code, tg.hx(m)), "ard %s %d %s %s" % (pk, code, tg.hx(m), rng.choice(["all", "b1", "b1/p1"]))), kind)
    items = [(a, b, k) for (a, b), k in pairs.items()]
    if len(items) > n:
        keep = [it for it in items if len(it[0]) > 8000 or it[2].startswith(("loop", "app"))]
        rest = [it for it in items if not (len(it[0]) > 8000 or it[2].startswith(("loop", "app")))]
        rng.shuffle(rest)
        items = keep + rest[:max(0, n - len(keep))]
    return items


def oracle(rd_out, ard_out):
    """C12 on the implementation alone: async outcome vs in-memory outcome on the same bytes"""
    a = re.sub(r"L1,1 l-?\d+", "L1,1 l*", c09.strip_impl(ard_out))
    s = re.sub(r"L1,1 l-?\d+", "L1,1 l*", c09.strip_impl(rd_out))
    if a.startswith("panic") or a.startswith("CRASH"):
        return "asynchronous decoder panicked / crashed"
    if a.startswith("HANG"):
        return "asynchronous decoder did not finish within its poll budget"
    if "ORACLE-FAIL" in ard_out:
        return "async read flavours disagree: " + ard_out[ard_out.index("ORACLE-FAIL"):]
    if s.startswith("ok "):
        if a != s:
            if a.startswith("ok "):
                sv, sr = s.rsplit(" REM ", 1)
                av, ar = a.rsplit(" REM ", 1)
                if sv != av:
                    return "asynchronous decoder returned a different value than the in-memory decoder"
                return "asynchronous decoder pulled %d bytes more from the stream than the message holds" % (int(sr) - int(ar))
            return "in-memory decoder returns a value, asynchronous decoder fails: " + a
    elif s.startswith("err "):
        if a.startswith("ok "):
            return "in-memory decoder reports an error (%s) but the asynchronous decoder returns a value" % s
    return None


def run_prim(chk, replay=None):
    gate, hb = core.std_setup(chk)
    rng = random.Random(chk.seed)
    n = 9000 if chk.tier == "quick" else 800000
    upto = 10 if chk.tier == "quick" else 14
    if replay is not None:
        items = [(replay["rd"], replay["ard"], "replay")]
    else:
        items = gen_cases(rng, n, core.RUNNER, upto)
    chk.cov["rule"] = ("pairs (rd, ard) on the same bytes: valid encodings (with and without trailing bytes), truncations, "
                       "boundary overwrites, bit flips, random strings x {binary, binary_le, compact} x delivery schedules: ALL "
                       "2^(n-1) split patterns for messages of <= %d bytes, otherwise whole / byte-at-a-time / halves / random "
                       "cuts, with 0-3 Pending wake-ups injected before every hand-out; plus (rds sync, rds async) pairs: field loops skipping bool / "
                       "struct / container fields before bool containers, and (appr, aappr) pairs: ApplicationException with unknown fields "
                       "of every type, truncated and with trailing bytes. non-trivial = derived from a valid "
                       "encoding; distinct by SHA-1 of the ard line" % upto)
    rd_lines = sorted(set(a for a, _, _ in items))
    ard_lines = [b for _, b, _ in items]
    have_model = gate is not None and core.os.path.exists(core.RUNNER)
    failing, mism, kinds, sched_kinds = [], [], {}, {}
    compared = oracled = 0
    for _, b, k in items:
        chk.count(b, k != "random")
        kinds[k] = kinds.get(k, 0) + 1
        sc = b.split(" ")[2][6:] if b.startswith("rds ") else b.split(" ")[3] if b.startswith("aappr ") else b.split(" ")[4]
        key = ("pending" if "/p" in sc else "") + ("b1" if sc.startswith("b1") else "all" if sc.startswith("all") else "h" if sc.startswith("h") else "cuts")
        sched_kinds[key] = sched_kinds.get(key, 0) + 1
    if hb:
        rd_out = dict(zip(rd_lines, core.run_lines(hb, rd_lines)))
        ard_out = core.run_lines(hb, ard_lines)
        for (a, b, k), o in zip(items, ard_out):
            oracled += 1
            why = oracle(rd_out[a], o)
            if why:
                failing.append((a, b, why, rd_out[a], o))
        if have_model:
            model = [re.sub(r"panic \w+", "panic", l) for l in core.run_lines(core.RUNNER, ard_lines)]
            for b, o, m in zip(ard_lines, ard_out, model):
                if not (c09.answered(o) and c09.answered(m)):
                    if c09.answered(o) != c09.answered(m):
                        mism.append((b, o, m))
                    continue
                compared += 1
                if c09.strip_impl(o) != m:
                    mism.append((b, o, m))
    for b in (ard_lines[0], ard_lines[len(ard_lines) // 2], ard_lines[-1]):
        chk.sample(b[:300])
    chk.cov["disagreements_checked"] = compared
    chk.cov["oracle_checked"] = oracled
    chk.cov["model_impl_mismatches"] = len(mism)
    chk.cov["distribution"] = dict(kinds=kinds, schedules=sched_kinds, exhaustive_split_enumeration_upto_bytes=upto)
    for a, b, why, ro, ao in failing[:3]:
        chk.violation("C12 fails on the implementation: " + why, dict(kind="case", rd=a, ard=b, rd_output=ro[:400], ard_output=ao[:400]))
    if not failing:
        if mism:
            b, o, m = mism[0]
            chk.violation("correspondence ard broken: async model and implementation disagree (%d cases) but async == sync "
                          "held on every case" % len(mism),
                          dict(kind="correspondence", correspondence="ard (coq/Thrift/Async.v vs pilota::thrift async readers)",
                               ard=b, rd=(b.replace("ard ", "rd ", 1).rsplit(" ", 1)[0] if b.startswith("ard ") else b), impl_output=o[:400], model_output=m[:400]), no_input=True)
        if not gate["ok"]:
            chk.violation("proof obligation broken: %s (%s)" % (gate.get("failed"), gate.get("error", "")[:300]),
                          dict(kind="proof", theorem_file="coq/Properties/C12.v", failed=gate.get("failed"),
                               error=gate.get("error"), theorems=gate["theorems"]), no_input=True)
    return chk.finish()


def run(chk, replay=None):
    """primitive level (value interpreter over the runtime API) + generated-code level (code emitted by the real
    pilota-build, gen family); a replay file belongs to exactly one of them"""
    from .. import genextra
    is_gen = replay is not None and isinstance(replay.get("case"), dict)
    parts = []
    if replay is None or not is_gen:
        parts.append(("primitive", lambda c: run_prim(c, replay)))
    if replay is None or is_gen:
        parts.append(("generated", lambda c: genextra.run_c12g(c, replay, prop="C12")))
    return chk.run_parts(parts)
