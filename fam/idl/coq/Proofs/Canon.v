(* C15, the domain: which DOCUMENTS (values of Ast.v) have a layout at all.

   The theorems of C15 quantify over concrete syntax trees; the documents they cover are the erasures of well-formed
   trees.  [doc_ok] characterises them on the abstract side, and [canon_file] is a canonical layout (one space where a
   blank is needed, ',' / ';' after every element, single quotes where possible, decimal integers):

       every_document_printable : doc_ok d = true -> wf_file (canon_file d) = true /\ erase_file (canon_file d) = d

   so that, with C15_roundtrip, every admissible document has a text that parses back to exactly it.  What [doc_ok]
   demands is listed with its reasons in fam/idl/NOTES.md. *)
From PVIdl Require Import Comb Ast Parser Print Proofs.RoundTok Proofs.RoundTy Proofs.RoundFile.
From Coq Require Import Lia ZArith List Bool.
From Coq Require String.
Import String.StringSyntax.
Import ListNotations.
Open Scope Z_scope.

Definition sp : blank := [BWs [x20]].
Definition comma : csep := SepSome false [].
Definition semi : csep := SepSome true [].

(* ---------- literals: the raw body must be writable between single or between double quotes ---------- *)
Definition ok_lit (s : Literal) : bool := lit_body_ok x27 s || lit_body_ok x22 s.
Definition cn_lit (s : Literal) : clit := mkLit (negb (lit_body_ok x27 s)) s.
Lemma cn_lit_ok s : ok_lit s = true -> wf_lit (cn_lit s) = true /\ erase_lit (cn_lit s) = s.
Proof.
  unfold ok_lit, cn_lit, wf_lit, erase_lit. cbn [l_dq l_body]. intros H. split; [|reflexivity].
  destruct (lit_body_ok x27 s) eqn:E; cbn [negb quote_of]; [exact E|exact H].
Qed.

(* ---------- identifiers and paths ---------- *)
Definition ok_path (p : Path) : bool := match p with [] => false | h :: t => is_ident h && forallb is_ident t end.
Definition cn_path (p : Path) : cpath :=
  match p with [] => mkCPath [] [] | h :: t => mkCPath h (map (fun s => (@nil batom, @nil batom, s)) t) end.
Lemma cn_path_ok p : ok_path p = true -> wf_path (cn_path p) = true /\ erase_path (cn_path p) = p.
Proof.
  destruct p as [|h t]; [discriminate|]. cbn [ok_path cn_path]. intros H. apply andb_prop in H. destruct H as [Hh Ht].
  unfold wf_path, erase_path. cbn [cp_head cp_tail]. rewrite Hh. split.
  - cbn [andb]. induction t as [|s t IH]; [reflexivity|]. cbn [forallb map fst snd wf_blank andb] in *.
    apply andb_prop in Ht. destruct Ht as [Hs Ht]. now rewrite Hs, (IH Ht).
  - f_equal. clear. induction t as [|s t IH]; [reflexivity|]. cbn [map snd]. now rewrite IH.
Qed.
Definition path_head (p : Path) : Ident := match p with h :: _ => h | [] => [] end.
Lemma cn_path_head p : cp_head (cn_path p) = path_head p.
Proof. destruct p; reflexivity. Qed.

(* ---------- annotations ---------- *)
Definition ok_ann (a : Annotation) : bool := is_annkey (a_key a) && ok_lit (a_value a).
Definition cn_ann (a : Annotation) : cann := mkCAnn [] (a_key a) [] [] (cn_lit (a_value a)) [] comma.
Definition ok_anns (l : Annotations) : bool := forallb ok_ann l.
Lemma cn_ann_ok a : ok_ann a = true -> wf_ann (cn_ann a) = true /\ erase_ann (cn_ann a) = a.
Proof.
  destruct a as [k v]. unfold ok_ann, cn_ann, wf_ann, erase_ann. cbn [a_key a_value ca_b1 ca_key ca_b2 ca_b3 ca_lit ca_b4 ca_sep].
  intros H. apply andb_prop in H. destruct H as [Hk Hv]. destruct (cn_lit_ok v Hv) as [W E]. rewrite Hk, W, E. split; reflexivity.
Qed.
Lemma cn_anns_ok l : ok_anns l = true -> wf_ann_list (map cn_ann l) = true /\ erase_anns (map cn_ann l) = l.
Proof.
  unfold ok_anns, erase_anns. induction l as [|a l IH]; [split; reflexivity|]. cbn [forallb map wf_ann_list]. intros H.
  apply andb_prop in H. destruct H as [Ha Hl]. destruct (cn_ann_ok a Ha) as [W E]. destruct (IH Hl) as [Wl El]. rewrite W, Wl, E, El.
  split; [|reflexivity]. destruct l; reflexivity.
Qed.
Definition cn_oanns (l : Annotations) : option (list cann) := match l with [] => None | _ => Some (map cn_ann l) end.
Lemma cn_oanns_ok l : ok_anns l = true -> wf_oanns (cn_oanns l) = true /\ erase_oanns (cn_oanns l) = l.
Proof.
  intros H. destruct l as [|a l]; [split; reflexivity|]. destruct (cn_anns_ok (a :: l) H) as [W E].
  unfold cn_oanns, wf_oanns, erase_oanns, wf_anns. rewrite W, E. split; reflexivity.
Qed.

(* ---------- types ---------- *)
Definition ok_ocpp (c : option Literal) : bool := match c with Some l => ok_lit l | None => true end.
Definition cn_ocpp (c : option Literal) : option ccpp := option_map (fun l => mkCCpp sp sp (cn_lit l)) c.
Lemma cn_ocpp_ok c : ok_ocpp c = true -> wf_ocpp (cn_ocpp c) = true /\ erase_ocpp (cn_ocpp c) = c.
Proof.
  destruct c as [l|]; [|split; reflexivity]. cbn [ok_ocpp cn_ocpp option_map wf_ocpp erase_ocpp]. intros H.
  destruct (cn_lit_ok l H) as [W E]. unfold wf_cpp. cbn [cc_b1 cc_b2 cc_lit]. rewrite W, E. split; reflexivity.
Qed.

Fixpoint ok_ty (t : Ty) : bool :=
  match t with
  | TList v c | TSet v c => ok_type v && ok_ocpp c
  | TMap k v c => ok_type k && ok_type v && ok_ocpp c
  | TPath p => ok_path p && negb (bytes_in (path_head p) base_words)
  | _ => true
  end
with ok_type (t : Type_) : bool := match t with MkType ty anns => ok_ty ty && ok_anns anns end.

Fixpoint cn_ty (t : Ty) : cty :=
  match t with
  | TString => CTBase BString | TVoid => CTBase BVoid | TByte => CTBase BByte | TBool => CTBase BBool | TBinary => CTBase BBinary
  | TI8 => CTBase BI8 | TI16 => CTBase BI16 | TI32 => CTBase BI32 | TI64 => CTBase BI64 | TDouble => CTBase BDouble | TUuid => CTBase BUuid
  | TList v c => CTList [] [] (cn_type v) [] (cn_ocpp c)
  | TSet v c => CTSet (cn_ocpp c) [] [] (cn_type v) []
  | TMap k v c => CTMap (cn_ocpp c) [] [] (cn_type k) [] false [] (cn_type v) []
  | TPath p => CTPath (cn_path p)
  end
with cn_type (t : Type_) : ctype :=
  match t with MkType ty anns => CType (cn_ty ty) (match anns with [] => None | _ => Some ([], map cn_ann anns) end) end.

Fixpoint cn_ty_ok (t : Ty) : ok_ty t = true -> wf_ty (cn_ty t) = true /\ erase_ty (cn_ty t) = t
with cn_type_ok (t : Type_) : ok_type t = true -> wf_type (cn_type t) = true /\ erase_type (cn_type t) = t.
Proof.
  - destruct t; cbn [ok_ty cn_ty wf_ty erase_ty base_ast]; intros H; try (split; reflexivity).
    + apply andb_prop in H. destruct H as [Hv Hc]. destruct (cn_type_ok value Hv) as [W E]. destruct (cn_ocpp_ok cpp_type Hc) as [Wc Ec].
      cbn [wf_blank andb]. rewrite W, E, Wc, Ec. split; reflexivity.
    + apply andb_prop in H. destruct H as [Hv Hc]. destruct (cn_type_ok value Hv) as [W E]. destruct (cn_ocpp_ok cpp_type Hc) as [Wc Ec].
      cbn [wf_blank andb]. rewrite W, E, Wc, Ec. split; reflexivity.
    + apply andb_prop in H. destruct H as [H Hc]. apply andb_prop in H. destruct H as [Hk Hv].
      destruct (cn_type_ok key Hk) as [Wk Ek]. destruct (cn_type_ok value Hv) as [W E]. destruct (cn_ocpp_ok cpp_type Hc) as [Wc Ec].
      cbn [wf_blank andb]. rewrite Wk, Ek, W, E, Wc, Ec. split; reflexivity.
    + apply andb_prop in H. destruct H as [Hp Hh]. destruct (cn_path_ok p Hp) as [W E]. rewrite W, E, cn_path_head, Hh. split; reflexivity.
  - destruct t as [ty anns]. cbn [ok_type cn_type]. intros H. apply andb_prop in H. destruct H as [Ht Ha].
    destruct (cn_ty_ok ty Ht) as [W E]. destruct anns as [|a anns]; cbn [wf_type erase_type].
    + rewrite W, E. split; reflexivity.
    + destruct (cn_anns_ok (a :: anns) Ha) as [Wa Ea]. unfold wf_anns. cbn [wf_blank andb]. rewrite W, E, Wa, Ea. split; reflexivity.
Qed.

(* the first word of a type that is a path *)
Definition ty_head (t : Type_) : option Ident := match t with MkType (TPath p) _ => Some (path_head p) | _ => None end.
Lemma cn_type_head t : type_path_head (cn_type t) = ty_head t.
Proof. destruct t as [[] anns]; cbn [cn_type cn_ty type_path_head ty_head]; try reflexivity. now rewrite cn_path_head. Qed.
Definition head_free (t : Type_) (ws : list (list byte)) : bool := match ty_head t with Some h => negb (bytes_in h ws) | None => true end.
Lemma cn_head_not_in t ws : head_not_in (cn_type t) ws = head_free t ws.
Proof. unfold head_not_in, head_free. now rewrite cn_type_head. Qed.

(* ---------- integers: within [-i64::MAX, i64::MAX] (the parser negates a magnitude: i64::MIN cannot be written) ---------- *)
Definition digit_byte (n : Z) : byte := nth (Z.to_nat n) [x30; x31; x32; x33; x34; x35; x36; x37; x38; x39] x30.
Fixpoint digs (fuel : nat) (n : Z) : list byte :=
  match fuel with
  | O => [x30]
  | S f => if n <? 10 then [digit_byte n] else digs f (n / 10) ++ [digit_byte (n mod 10)]
  end.
Definition dec (n : Z) : list byte := digs (S (Z.to_nat n)) n.

Lemma digit_byte_ok n : 0 <= n < 10 -> is_digit (digit_byte n) = true /\ digit_val (digit_byte n) = n.
Proof.
  intros H. assert (C : n = 0 \/ n = 1 \/ n = 2 \/ n = 3 \/ n = 4 \/ n = 5 \/ n = 6 \/ n = 7 \/ n = 8 \/ n = 9) by lia.
  repeat (destruct C as [-> | C]; [split; reflexivity|]). subst. split; reflexivity.
Qed.
Lemma digits_value_snoc r ds d : digits_value r (ds ++ [d]) = digits_value r ds * r + digit_val d.
Proof. unfold digits_value. now rewrite fold_left_app. Qed.
Lemma digs_ok : forall fuel n, 0 <= n < Z.of_nat fuel -> digs fuel n <> [] /\ is_digits (digs fuel n) = true /\ digits_value 10 (digs fuel n) = n.
Proof.
  induction fuel as [|f IH]; intros n H; [lia|]. cbn [digs]. destruct (n <? 10) eqn:E.
  - apply Z.ltb_lt in E. destruct (digit_byte_ok n ltac:(lia)) as [D V]. split; [discriminate|]. split; [unfold is_digits; cbn [forallb]; now rewrite D|].
    unfold digits_value. cbn [fold_left]. lia.
  - apply Z.ltb_ge in E. assert (Hq : 0 <= n / 10 < Z.of_nat f).
    { split; [apply Z.div_pos; lia|]. apply Z.div_lt_upper_bound; lia. }
    destruct (IH (n / 10) Hq) as [N [D V]]. destruct (digit_byte_ok (n mod 10) ltac:(apply Z.mod_pos_bound; lia)) as [D2 V2].
    split; [destruct (digs f (n / 10)); [contradiction|discriminate]|]. split.
    + unfold is_digits in *. rewrite forallb_app, D. cbn [forallb]. now rewrite D2.
    + rewrite digits_value_snoc, V, V2. pose proof (Z.div_mod n 10 ltac:(lia)). lia.
Qed.
Lemma dec_ok n : 0 <= n -> dec n <> [] /\ is_digits (dec n) = true /\ digits_value 10 (dec n) = n.
Proof. intros H. apply digs_ok. split; [exact H|]. rewrite Nat2Z.inj_succ, Z2Nat.id by exact H. lia. Qed.

Definition ok_int (z : Z) : bool := Z.abs z <=? 9223372036854775807.
Definition cn_int (z : Z) : cint := mkCInt (if z <? 0 then 1%nat else 0%nat) false (dec (Z.abs z)).
Lemma cn_int_ok z : ok_int z = true -> wf_int (cn_int z) = true /\ erase_int (cn_int z) = z.
Proof.
  unfold ok_int, cn_int, wf_int, erase_int, int_abs. cbn [ci_minus ci_hex ci_digits]. intros H.
  destruct (dec_ok (Z.abs z) (Z.abs_nonneg z)) as [N [D V]]. rewrite V. split.
  - unfold is_digits in D. rewrite D, H. destruct (dec (Z.abs z)); [contradiction|reflexivity].
  - destruct (z <? 0) eqn:E; [change (Nat.odd 1) with true; apply Z.ltb_lt in E|change (Nat.odd 0) with false; apply Z.ltb_ge in E]; cbv iota; lia.
Qed.

(* ---------- doubles are TEXT in the document: the text must have the syntax of a double constant ---------- *)
Fixpoint minus_count (s : list byte) : nat * list byte :=
  match s with b :: s' => if Byte.eqb b x2d then let '(n, r) := minus_count s' in (S n, r) else (O, s) | [] => (O, []) end.
Definition scan_int (s : list byte) : cint :=
  let '(n, r) := minus_count s in
  match r with
  | a :: b :: hs => if Byte.eqb a x30 && Byte.eqb b x78 && negb (is_nil hs) then mkCInt n true hs else mkCInt n false r
  | _ => mkCInt n false r
  end.
Definition scan_exp (s : list byte) : option (option cexp) :=
  match s with
  | [] => Some None
  | b :: s' => if Byte.eqb b x65 || Byte.eqb b x45 then Some (Some (mkCExp (Byte.eqb b x45) (scan_int s'))) else None
  end.
Definition scan_dbl (s : list byte) : option cdbl :=
  let '(m, s1) := match s with b :: r => if Byte.eqb b x2d then (true, r) else (false, s) | [] => (false, s) end in
  let '(p, s2) := match s1 with b :: r => if Byte.eqb b x2b then (true, r) else (false, s1) | [] => (false, s1) end in
  let '(ip, s3) := span is_digit s2 in
  match s3 with
  | b :: s4 =>
    if Byte.eqb b x2e then
      let '(fp, s5) := span is_digit s4 in
      match scan_exp s5 with
      | Some ex => Some (mkCDbl m p (if is_nil ip then DBodyB fp ex else DBodyA ip fp ex))
      | None => None
      end
    else match scan_exp s3 with Some (Some e) => Some (mkCDbl m p (DBodyC ip e)) | _ => None end
  | [] => None
  end.
(* the scanner needs no correctness proof: [ok_dbl] checks its answer (well-formed, and printing exactly the text) *)
Definition ok_dbl (s : str) : bool := match scan_dbl s with Some d => wf_dbl d && bytes_eq (pr_dbl d []) s | None => false end.
Definition cn_dbl (s : str) : cdbl := match scan_dbl s with Some d => d | None => mkCDbl false false (DBodyB [] None) end.
Lemma cn_dbl_ok s : ok_dbl s = true -> wf_dbl (cn_dbl s) = true /\ erase_dbl (cn_dbl s) = s.
Proof.
  unfold ok_dbl, cn_dbl, erase_dbl. destruct (scan_dbl s) as [d|]; [|discriminate]. intros H. apply andb_prop in H. destruct H as [W E].
  split; [exact W|now apply bytes_eq_eq].
Qed.
Example ok_dbl_examples :
  ok_dbl (txt "1.0") = true /\ ok_dbl (txt "-+12.E--0x1f") = true /\ ok_dbl (txt ".5e3") = true /\ ok_dbl (txt "5e3") = true /\
  ok_dbl (txt "1.") = true /\ ok_dbl (txt "1") = false /\ ok_dbl (txt "1.0 ") = false /\ ok_dbl (txt "1e") = false /\ ok_dbl (txt "1e99999999999999999999") = false.
Proof. vm_compute. repeat split. Qed.

(* ---------- constant values ---------- *)
Fixpoint ok_cv (v : ConstValue) : bool :=
  match v with
  | CBool _ => true
  | CPath p => ok_path p && negb (bytes_in (path_head p) [txt "true"; txt "false"])
  | CString l => ok_lit l
  | CInt z => ok_int z
  | CDouble t => ok_dbl t
  | CList l => forallb ok_cv l
  | CMap l => forallb (fun kv => ok_cv (fst kv) && ok_cv (snd kv)) l
  end.
Fixpoint cn_cv (v : ConstValue) : cconst :=
  match v with
  | CBool b => CCBool b
  | CPath p => CCPath (cn_path p)
  | CString l => CCLit (cn_lit l)
  | CInt z => CCInt (cn_int z)
  | CDouble t => CCDbl (cn_dbl t)
  | CList l => CCList [] (fold_right (fun x r => CLCons (cn_cv x) [] comma r) CLNil l)
  | CMap l => CCMap [] (fold_right (fun kv r => CMCons (cn_cv (fst kv)) [] [] (cn_cv (snd kv)) [] comma r) CMNil l)
  end.

Fixpoint cn_cv_ok (v : ConstValue) : ok_cv v = true -> wf_const (cn_cv v) = true /\ erase_const (cn_cv v) = v.
Proof.
  destruct v as [b|p|l|z|t|l|l]; cbn [ok_cv cn_cv wf_const erase_const]; intros H.
  - split; reflexivity.
  - apply andb_prop in H. destruct H as [Hp Hh]. destruct (cn_path_ok p Hp) as [W E]. rewrite W, E, cn_path_head, Hh. split; reflexivity.
  - destruct (cn_lit_ok l H) as [W E]. rewrite W, E. split; reflexivity.
  - destruct (cn_int_ok z H) as [W E]. rewrite W, E. split; reflexivity.
  - destruct (cn_dbl_ok t H) as [W E]. rewrite W, E. split; reflexivity.
  - cbn [wf_blank andb].
    assert (G : wf_clist (fold_right (fun x r => CLCons (cn_cv x) [] comma r) CLNil l) = true /\
                erase_clist (fold_right (fun x r => CLCons (cn_cv x) [] comma r) CLNil l) = l).
    { revert H. generalize l. fix go 1. intros l0 H0. destruct l0 as [|x l1]; [split; reflexivity|].
      cbn [forallb fold_right wf_clist erase_clist] in *. apply andb_prop in H0. destruct H0 as [Hx Hl].
      destruct (cn_cv_ok x Hx) as [W E]. destruct (go l1 Hl) as [Wl El]. rewrite W, E, Wl, El. split; reflexivity. }
    destruct G as [W E]. rewrite W, E. split; reflexivity.
  - cbn [wf_blank andb].
    assert (G : wf_cmapl (fold_right (fun kv r => CMCons (cn_cv (fst kv)) [] [] (cn_cv (snd kv)) [] comma r) CMNil l) = true /\
                erase_cmapl (fold_right (fun kv r => CMCons (cn_cv (fst kv)) [] [] (cn_cv (snd kv)) [] comma r) CMNil l) = l).
    { revert H. generalize l. fix go 1. intros l0 H0. destruct l0 as [|[k x] l1]; [split; reflexivity|].
      cbn [forallb fold_right wf_cmapl erase_cmapl fst snd] in *. apply andb_prop in H0. destruct H0 as [Hx Hl]. apply andb_prop in Hx. destruct Hx as [Hk Hx].
      destruct (cn_cv_ok k Hk) as [Wk Ek]. destruct (cn_cv_ok x Hx) as [W E]. destruct (go l1 Hl) as [Wl El]. rewrite Wk, Ek, W, E, Wl, El. split; reflexivity. }
    destruct G as [W E]. rewrite W, E. split; reflexivity.
Qed.

(* ---------- fields ---------- *)
Definition ok_field (f : Field) : bool :=
  (0 <=? f_id f) && (f_id f <=? 2147483647) && is_ident (f_name f) && ok_type (f_ty f) &&
  match f_attribute f with ADefault => head_free (f_ty f) [txt "required"; txt "optional"] | _ => true end &&
  match f_default f with Some v => ok_cv v | None => true end && ok_anns (f_annotations f).
Definition cn_anns2 (l : Annotations) : option (list cann * blank) := match l with [] => None | _ => Some (map cn_ann l, []) end.
Definition cn_field (f : Field) : cfield :=
  mkCField (dec (f_id f)) [] []
           (match f_attribute f with ARequired => Some (true, sp) | AOptional => Some (false, sp) | ADefault => None end)
           (cn_type (f_ty f)) sp (f_name f) []
           (match f_default f with Some v => Some ([], cn_cv v, []) | None => None end)
           (cn_anns2 (f_annotations f)) semi.
Lemma cn_field_ok f : ok_field f = true -> wf_field (cn_field f) = true /\ erase_field (cn_field f) = f /\ field_ends_word (cn_field f) = false.
Proof.
  destruct f as [id name attr ty def anns]. unfold ok_field, cn_field, wf_field, erase_field, field_ends_word.
  cbn [f_id f_name f_attribute f_ty f_default f_annotations cf_id cf_b1 cf_b2 cf_attr cf_type cf_b3 cf_name cf_b4 cf_default cf_anns cf_sep].
  intros H. repeat (apply andb_prop in H; let H' := fresh "K" in destruct H as [H H']).
  apply Z.leb_le in H. destruct (dec_ok id H) as [N [D V]]. destruct (cn_type_ok ty K2) as [Wt Et].
  split; [|split; [|unfold cn_anns2; reflexivity]].
  - rewrite D, V, K4, Wt, K3. destruct (dec id); [contradiction|]. cbn [is_nil negb wf_blank andb sp wf_atom adj_ok forallb is_space].
    assert (Wa : wf_attr (match attr with ARequired => Some (true, sp) | AOptional => Some (false, sp) | ADefault => None end) (cn_type ty) = true).
    { destruct attr; cbn [wf_attr]; try reflexivity. rewrite cn_head_not_in. exact K1. }
    rewrite Wa.
    assert (Wd : wf_default (match def with Some v => Some ([], cn_cv v, []) | None => None end) = true).
    { destruct def as [v|]; cbn [wf_default]; [|reflexivity]. destruct (cn_cv_ok v K0) as [W _]. now rewrite W. }
    rewrite Wd.
    assert (W2 : wf_tail2 false (cn_anns2 anns) semi = true).
    { unfold cn_anns2. destruct anns as [|a anns]; [reflexivity|]. destruct (cn_anns_ok (a :: anns) K) as [W _]. unfold wf_tail2, wf_anns. now rewrite W. }
    rewrite W2. rewrite orb_true_r. reflexivity.
  - rewrite V, Et. f_equal.
    + destruct attr; reflexivity.
    + destruct def as [v|]; cbn [erase_default]; [|reflexivity]. destruct (cn_cv_ok v K0) as [_ E]. now rewrite E.
    + unfold cn_anns2. destruct anns as [|a anns]; [reflexivity|]. destruct (cn_anns_ok (a :: anns) K) as [_ E]. cbn [erase_anns2 option_map unwrap_anns fst]. exact E.
Qed.
Definition ok_fields (l : list Field) : bool := forallb ok_field l.
Lemma cn_fields_ok l : ok_fields l = true -> wf_fields (map cn_field l) = true /\ map erase_field (map cn_field l) = l.
Proof.
  unfold ok_fields. induction l as [|f l IH]; [split; reflexivity|]. cbn [forallb map wf_fields]. intros H. apply andb_prop in H. destruct H as [Hf Hl].
  destruct (cn_field_ok f Hf) as [W [E Ew]]. destruct (IH Hl) as [Wl El]. rewrite W, E, Ew, Wl, El. cbn [negb]. rewrite orb_true_r. split; reflexivity.
Qed.

Definition cn_tail (anns : Annotations) : ctail := mkTail [] (cn_oanns anns) semi.
Lemma cn_tail_ok eof anns : ok_anns anns = true ->
  wf_tail eof (cn_tail anns) = true /\ erase_oanns (t_anns (cn_tail anns)) = anns /\ tail_bare (cn_tail anns) = false /\ tail_open (cn_tail anns) = true.
Proof.
  intros H. destruct (cn_oanns_ok anns H) as [W E]. unfold cn_tail, wf_tail, tail_bare, tail_open. cbn [t_b t_anns t_sep sep_none semi wf_sep_at].
  rewrite W, E, !andb_false_r. destruct eof; repeat split; reflexivity.
Qed.

(* ---------- struct / union / exception, enum ---------- *)
Definition ok_struct (s : StructLike) : bool := is_ident (s_name s) && ok_fields (s_fields s) && ok_anns (s_annotations s).
Definition cn_struct (s : StructLike) : cstruct := mkCStruct (s_name s) [] [] (map cn_field (s_fields s)) (cn_tail (s_annotations s)).
Lemma cn_struct_ok eof s : ok_struct s = true -> wf_struct eof (cn_struct s) = true /\ erase_struct (cn_struct s) = s.
Proof.
  destruct s as [name fs anns]. unfold ok_struct, cn_struct, wf_struct, erase_struct. cbn [s_name s_fields s_annotations cs_name cs_b1 cs_b0 cs_fields cs_tail].
  intros H. apply andb_prop in H. destruct H as [H Ha]. apply andb_prop in H. destruct H as [Hn Hf].
  destruct (cn_fields_ok fs Hf) as [Wf Ef]. destruct (cn_tail_ok eof anns Ha) as [Wt [Et _]]. rewrite Hn, Wf, Ef, Wt, Et. split; reflexivity.
Qed.

Definition ok_enumval (e : EnumValue) : bool :=
  is_ident (ev_name e) && match ev_value e with Some z => ok_int z | None => true end && ok_anns (ev_annotations e).
Definition cn_enumval (e : EnumValue) : cenumval :=
  mkCEnumVal (ev_name e) [] (match ev_value e with Some z => Some ([], cn_int z, []) | None => None end) (cn_oanns (ev_annotations e)) comma [].
Lemma cn_enumval_ok e : ok_enumval e = true ->
  wf_enumval (cn_enumval e) = true /\ erase_enumval (cn_enumval e) = e /\ enumval_ends_word (cn_enumval e) = false.
Proof.
  destruct e as [name v anns]. unfold ok_enumval, cn_enumval, wf_enumval, erase_enumval, enumval_ends_word.
  cbn [ev_name ev_value ev_annotations ev_cname ev_b1 ev_val ev_canns ev_sep ev_b4]. intros H.
  apply andb_prop in H. destruct H as [H Ha]. apply andb_prop in H. destruct H as [Hn Hv].
  destruct (cn_oanns_ok anns Ha) as [Wa Ea]. rewrite Hn, Wa, Ea. split; [|split; [|reflexivity]].
  - destruct v as [z|]; [destruct (cn_int_ok z Hv) as [W _]; rewrite W|]; reflexivity.
  - destruct v as [z|]; [destruct (cn_int_ok z Hv) as [_ E]; rewrite E|]; reflexivity.
Qed.
Definition ok_enum (e : Enum) : bool := is_ident (e_name e) && forallb ok_enumval (e_values e) && ok_anns (e_annotations e).
Definition cn_enum (e : Enum) : cenum := mkCEnum sp (e_name e) [] [] (map cn_enumval (e_values e)) [] (cn_oanns (e_annotations e)).
Lemma cn_enumvals_ok l : forallb ok_enumval l = true -> wf_enumvals (map cn_enumval l) = true /\ map erase_enumval (map cn_enumval l) = l.
Proof.
  induction l as [|e l IH]; [split; reflexivity|]. cbn [forallb map wf_enumvals]. intros H. apply andb_prop in H. destruct H as [He Hl].
  destruct (cn_enumval_ok e He) as [W [E Ew]]. destruct (IH Hl) as [Wl El]. rewrite W, E, Wl, El. split; [|reflexivity].
  destruct l as [|e' l']; [reflexivity|]. cbn [map]. unfold enumval_glue. rewrite Ew. reflexivity.
Qed.
Lemma cn_enum_ok eof e : ok_enum e = true -> wf_enum eof (cn_enum e) = true /\ erase_enum (cn_enum e) = e.
Proof.
  destruct e as [name vs anns]. unfold ok_enum, cn_enum, wf_enum, erase_enum. cbn [e_name e_values e_annotations ce_b1 ce_name ce_b2 ce_b0 ce_vals ce_b3 ce_anns].
  intros H. apply andb_prop in H. destruct H as [H Ha]. apply andb_prop in H. destruct H as [Hn Hv].
  destruct (cn_enumvals_ok vs Hv) as [Wv Ev]. destruct (cn_oanns_ok anns Ha) as [Wa Ea]. rewrite Hn, Wv, Ev, Wa, Ea.
  split; [|reflexivity]. destruct (eof && is_none (cn_oanns anns)); reflexivity.
Qed.

(* ---------- functions and services ---------- *)
Definition not_default (f : Field) : bool := match f_attribute f with ADefault => false | _ => true end.
(* a result type that is the bare word oneway cannot be written for a function that is not oneway *)
Definition result_ok (oneway : bool) (t : Type_) : bool :=
  oneway || match t with MkType (TPath [h]) [] => negb (bytes_eq h (txt "oneway")) | _ => true end.
Definition ok_function (f : Function) : bool :=
  is_ident (fn_name f) && ok_type (fn_result_type f) && result_ok (fn_oneway f) (fn_result_type f) &&
  ok_fields (fn_arguments f) && forallb not_default (fn_arguments f) && ok_fields (fn_throws f) && ok_anns (fn_annotations f).
Definition cn_throws (l : list Field) : option cthrows := match l with [] => None | _ => Some (mkCThrows [] [] (map cn_field l) []) end.
Definition cn_function (f : Function) : cfunction :=
  mkCFunction (if fn_oneway f then Some sp else None) (cn_type (fn_result_type f)) sp (fn_name f) [] [] (map cn_field (fn_arguments f)) []
              (cn_throws (fn_throws f))
              (cn_oanns (fn_annotations f)) semi.
Lemma arg_required_id l : forallb not_default l = true -> map arg_required l = l.
Proof.
  induction l as [|f l IH]; [reflexivity|]. cbn [forallb map]. intros H. apply andb_prop in H. destruct H as [Hf Hl]. rewrite (IH Hl). f_equal.
  destruct f as [id name attr ty def anns]. unfold not_default, arg_required in *. cbn [f_attribute] in *. destruct attr; try reflexivity. discriminate.
Qed.
Lemma cn_oneway_head t : ok_type t = true -> result_ok false t = true -> oneway_head_ok (cn_type t) = true.
Proof.
  destruct t as [ty anns]. cbn [result_ok orb cn_type oneway_head_ok]. destruct ty; try reflexivity. cbn [cn_ty]. intros _ H.
  destruct p as [|h [|h2 t]]; cbn [cn_path cp_head cp_tail map]; try (now rewrite orb_true_r).
  - reflexivity.
  - destruct anns; [exact (eq_trans (orb_false_r _) H)|]. now rewrite orb_true_r.
Qed.
Lemma cn_function_ok f : ok_function f = true -> wf_function (cn_function f) = true /\ erase_function (cn_function f) = f.
Proof.
  destruct f as [name ow ty args th anns]. unfold ok_function, cn_function, wf_function, erase_function.
  cbn [fn_name fn_oneway fn_result_type fn_arguments fn_throws fn_annotations fn_coneway fn_type fn_b1 fn_cname fn_b2 fn_b0 fn_args fn_b3 fn_cthrows fn_canns fn_sep].
  intros H. repeat (apply andb_prop in H; let H' := fresh "K" in destruct H as [H H']).
  destruct (cn_type_ok ty K4) as [Wt Et]. destruct (cn_fields_ok args K2) as [Wg Eg]. destruct (cn_oanns_ok anns K) as [Wa Ea].
  split.
  - rewrite Wt, H, Wg, Wa. cbn [wf_blank sp is_nil negb andb wf_atom adj_ok forallb is_space wf_sep semi].
    assert (Wo : match (if ow then Some sp else None) with Some b => wf_blank b && negb (is_nil b) | None => oneway_head_ok (cn_type ty) end = true).
    { destruct ow; [reflexivity|]. apply cn_oneway_head; assumption. }
    rewrite Wo.
    assert (Wth : wf_throws (cn_throws th) = true).
    { unfold cn_throws. destruct th as [|x th]; [reflexivity|]. destruct (cn_fields_ok (x :: th) K0) as [W _]. unfold wf_throws. cbn [th_b1 th_b0 th_fields th_b2]. now rewrite W. }
    rewrite Wth. reflexivity.
  - rewrite Et, Eg, Ea, (arg_required_id args K1). f_equal.
    + destruct ow; reflexivity.
    + unfold cn_throws. destruct th as [|x th]; [reflexivity|]. destruct (cn_fields_ok (x :: th) K0) as [_ E]. cbn [th_fields]. exact E.
Qed.

Definition ok_service (s : Service) : bool :=
  is_ident (sv_name s) && match sv_extends s with Some p => ok_path p | None => true end && forallb ok_function (sv_functions s) &&
  ok_anns (sv_annotations s).
Definition cn_service (s : Service) : cservice :=
  mkCService sp (sv_name s) (match sv_extends s with Some p => Some (sp, sp, cn_path p) | None => None end) []
             (map (fun f => (@nil batom, cn_function f)) (sv_functions s)) [] (cn_tail (sv_annotations s)).
Lemma cn_fns_ok l pc : forallb ok_function l = true ->
  wf_fns pc (map (fun f => (@nil batom, cn_function f)) l) = true /\ map (fun x => erase_function (snd x)) (map (fun f => (@nil batom, cn_function f)) l) = l.
Proof.
  revert pc. induction l as [|f l IH]; intros pc; [split; reflexivity|]. cbn [forallb map wf_fns snd]. intros H. apply andb_prop in H. destruct H as [Hf Hl].
  destruct (cn_function_ok f Hf) as [W E]. destruct (IH (function_closed (cn_function f)) Hl) as [Wl El]. rewrite W, E, Wl, El.
  cbn [wf_blank is_nil]. rewrite orb_true_r. split; reflexivity.
Qed.
Lemma cn_service_ok eof s : ok_service s = true -> wf_service eof (cn_service s) = true /\ erase_service (cn_service s) = s.
Proof.
  destruct s as [name ext fns anns]. unfold ok_service, cn_service, wf_service, erase_service.
  cbn [sv_name sv_extends sv_functions sv_annotations sv_b1 sv_cname sv_cextends sv_b2 sv_fns sv_b3 sv_tail].
  intros H. repeat (apply andb_prop in H; let H' := fresh "K" in destruct H as [H H']).
  destruct (cn_fns_ok fns true K0) as [Wf Ef]. destruct (cn_tail_ok eof anns K) as [Wt [Et _]]. split.
  - rewrite H, Wf, Wt. cbn [wf_blank sp is_nil negb andb wf_atom adj_ok forallb is_space]. rewrite orb_true_r.
    destruct ext as [p|]; [|reflexivity]. destruct (cn_path_ok p K1) as [W _]. unfold wf_extends. now rewrite W.
  - f_equal; [|exact Ef|exact Et]. destruct ext as [p|]; [|reflexivity]. destruct (cn_path_ok p K1) as [_ E]. now rewrite E.
Qed.

(* ---------- namespace, typedef, const, items, file ---------- *)
Definition ok_namespace (n : Namespace) : bool :=
  bytes_in (ns_scope n) scope_words && ok_path (ns_name n) &&
  match ns_annotations n with Some [] => false | Some l => ok_anns l | None => true end.
Definition cn_namespace (n : Namespace) : cnamespace :=
  mkCNamespace sp (ns_scope n) sp (cn_path (ns_name n)) [] (match ns_annotations n with Some l => Some (map cn_ann l, []) | None => None end) semi.
Lemma cn_namespace_ok eof n : ok_namespace n = true -> wf_namespace eof (cn_namespace n) = true /\ erase_namespace (cn_namespace n) = n.
Proof.
  destruct n as [sc p anns]. unfold ok_namespace, cn_namespace, wf_namespace, erase_namespace.
  cbn [ns_scope ns_name ns_annotations ns_b1 ns_cscope ns_b2 ns_path ns_b3 ns_canns ns_sep]. intros H.
  apply andb_prop in H. destruct H as [H Ha]. apply andb_prop in H. destruct H as [Hs Hp]. destruct (cn_path_ok p Hp) as [W E]. rewrite Hs, W, E.
  cbn [wf_blank sp is_nil negb andb wf_atom adj_ok forallb is_space sep_none semi]. rewrite !andb_false_r. cbn [wfb wf_blank].
  destruct anns as [[|a l]|]; [discriminate| |destruct eof; split; reflexivity].
  destruct (cn_anns_ok (a :: l) Ha) as [Wa Ea]. unfold wf_tail2, wf_anns, erase_anns2. cbn [option_map fst sep_none semi]. rewrite Wa, Ea, andb_false_r.
  destruct eof; split; reflexivity.
Qed.

Definition ok_typedef (t : Typedef) : bool := ok_type (td_type t) && is_ident (td_alias t) && ok_anns (td_annotations t).
Definition cn_typedef (t : Typedef) : ctypedef := mkCTypedef sp (cn_type (td_type t)) sp (td_alias t) (cn_tail (td_annotations t)).
Lemma cn_typedef_ok eof t : ok_typedef t = true -> wf_typedef eof (cn_typedef t) = true /\ erase_typedef (cn_typedef t) = t.
Proof.
  destruct t as [ty al anns]. unfold ok_typedef, cn_typedef, wf_typedef, erase_typedef. cbn [td_type td_alias td_annotations ctd_b1 ctd_type ctd_b2 ctd_alias ctd_tail].
  intros H. apply andb_prop in H. destruct H as [H Ha]. apply andb_prop in H. destruct H as [Ht Hn].
  destruct (cn_type_ok ty Ht) as [W E]. destruct (cn_tail_ok eof anns Ha) as [Wt [Et _]]. rewrite W, E, Hn, Wt, Et. split; reflexivity.
Qed.

Definition ok_constant (c : Constant) : bool := is_ident (c_name c) && ok_type (c_type c) && ok_cv (c_value c) && ok_anns (c_annotations c).
Definition cn_constant (c : Constant) : cconstant := mkCConstant sp (cn_type (c_type c)) sp (c_name c) [] [] (cn_cv (c_value c)) (cn_tail (c_annotations c)).
Lemma cn_constant_ok eof c : ok_constant c = true -> wf_constant eof (cn_constant c) = true /\ erase_constant (cn_constant c) = c.
Proof.
  destruct c as [name ty v anns]. unfold ok_constant, cn_constant, wf_constant, erase_constant.
  cbn [c_name c_type c_value c_annotations ck_b1 ck_type ck_b2 ck_name ck_b3 ck_b4 ck_val ck_tail].
  intros H. repeat (apply andb_prop in H; let H' := fresh "K" in destruct H as [H H']).
  destruct (cn_type_ok ty K1) as [W E]. destruct (cn_cv_ok v K0) as [Wv Ev]. destruct (cn_tail_ok eof anns K) as [Wt [Et _]].
  rewrite W, E, H, Wv, Ev, Wt, Et. split; reflexivity.
Qed.

Definition ok_item (it : Item) : bool :=
  match it with
  | IInclude l | ICppInclude l => ok_lit l
  | INamespace n => ok_namespace n
  | ITypedef t => ok_typedef t
  | IConstant c => ok_constant c
  | IEnum e => ok_enum e
  | IStruct s | IUnion s | IException s => ok_struct s
  | IService s => ok_service s
  end.
Definition cn_item (it : Item) : citem :=
  match it with
  | IInclude l => CIInclude sp (cn_lit l) semi
  | ICppInclude l => CICppInclude sp (cn_lit l) semi
  | INamespace n => CINamespace (cn_namespace n)
  | ITypedef t => CITypedef (cn_typedef t)
  | IConstant c => CIConst (cn_constant c)
  | IEnum e => CIEnum (cn_enum e)
  | IStruct s => CIStruct SKStruct sp (cn_struct s)
  | IUnion s => CIStruct SKUnion sp (cn_struct s)
  | IException s => CIStruct SKException sp (cn_struct s)
  | IService s => CIService (cn_service s)
  end.
Lemma cn_item_ok eof it : ok_item it = true ->
  wf_item eof (cn_item it) = true /\ erase_item (cn_item it) = it /\ item_ends_word (cn_item it) = false.
Proof.
  destruct it; cbn [ok_item cn_item wf_item erase_item item_ends_word]; intros H.
  - destruct (cn_lit_ok path H) as [W E]. rewrite W, E. destruct eof; repeat split; reflexivity.
  - destruct (cn_lit_ok path H) as [W E]. rewrite W, E. destruct eof; repeat split; reflexivity.
  - destruct (cn_namespace_ok eof n H) as [W E]. rewrite W, E. repeat split. unfold cn_namespace. cbn [ns_b3 ns_canns ns_sep sep_none semi]. now rewrite andb_false_r.
  - destruct (cn_typedef_ok eof t H) as [W E]. rewrite W, E. repeat split. unfold typedef_ends_word, cn_typedef. cbn [ctd_tail]. unfold tail_bare, cn_tail. cbn [t_b t_anns t_sep sep_none semi]. now rewrite andb_false_r.
  - destruct (cn_constant_ok eof c H) as [W E]. rewrite W, E. repeat split. unfold constant_ends_word, cn_constant. cbn [ck_tail]. unfold tail_bare, cn_tail. cbn [t_b t_anns t_sep sep_none semi]. now rewrite !andb_false_r.
  - destruct (cn_enum_ok eof e H) as [W E]. rewrite W, E. repeat split.
  - destruct (cn_struct_ok eof s H) as [W E]. rewrite W, E. repeat split.
  - destruct (cn_struct_ok eof s H) as [W E]. rewrite W, E. repeat split.
  - destruct (cn_struct_ok eof s H) as [W E]. rewrite W, E. repeat split.
  - destruct (cn_service_ok eof s H) as [W E]. rewrite W, E. repeat split.
Qed.

(* ---------- files ---------- *)
Fixpoint path_eqb (a b : Path) : bool :=
  match a, b with [], [] => true | x :: a', y :: b' => bytes_eq x y && path_eqb a' b' | _, _ => false end.
Lemma path_eqb_eq a : forall b, path_eqb a b = true -> a = b.
Proof.
  induction a as [|x a IH]; intros [|y b] H; cbn [path_eqb] in H; try discriminate; [reflexivity|].
  apply andb_prop in H. destruct H as [H1 H2]. apply bytes_eq_eq in H1. subst. f_equal. auto.
Qed.
Definition opath_eqb (a b : option Path) : bool :=
  match a, b with None, None => true | Some x, Some y => path_eqb x y | _, _ => false end.

(* THE DOMAIN OF C15: the documents that have a layout *)
Definition doc_ok (d : File) : bool :=
  forallb ok_item (file_items d) && opath_eqb (file_package d) (package_of_items (file_items d)).
Definition canon_file (d : File) : cfile := mkCFile [] (map (fun it => (cn_item it, @nil batom)) (file_items d)).

Lemma cn_items_ok l : forallb ok_item l = true ->
  wf_items (map (fun it => (cn_item it, @nil batom)) l) = true /\ erase_items (map (fun it => (cn_item it, @nil batom)) l) = l.
Proof.
  unfold erase_items. induction l as [|it l IH]; [split; reflexivity|]. cbn [forallb map wf_items fst]. intros H.
  apply andb_prop in H. destruct H as [Hi Hl]. destruct (IH Hl) as [Wl El].
  pose proof (fun eof => proj1 (cn_item_ok eof it Hi)) as Wi. destruct (cn_item_ok false it Hi) as [_ [E Ew]].
  rewrite (Wi _), E, Wl, El. split; [|reflexivity]. rewrite orb_true_r.
  destruct l as [|it' l']; [reflexivity|]. cbn [map is_nil wfb wf_blank negb orb andb]. unfold item_glue. rewrite Ew. reflexivity.
Qed.

Theorem every_document_printable d : doc_ok d = true -> wf_file (canon_file d) = true /\ erase_file (canon_file d) = d.
Proof.
  destruct d as [pkg items]. unfold doc_ok, canon_file, wf_file, erase_file. cbn [file_package file_items fl_b0 fl_items]. intros H.
  apply andb_prop in H. destruct H as [Hi Hp]. destruct (cn_items_ok items Hi) as [W E]. rewrite W, E. split.
  - destruct (is_nil _); reflexivity.
  - f_equal. destruct pkg as [p|], (package_of_items items) as [q|]; cbn [opath_eqb] in Hp; try discriminate; [|reflexivity].
    apply path_eqb_eq in Hp. now subst.
Qed.

Corollary document_printable d : doc_ok d = true -> exists c, wf_file c = true /\ erase_file c = d.
Proof. intros H. exists (canon_file d). now apply every_document_printable. Qed.

(* with C15_roundtrip: every admissible document has a text that parses back to exactly it *)
Corollary document_parses_back d : doc_ok d = true -> parse_file (pr_file (canon_file d) []) = POk [] d.
Proof. intros H. destruct (every_document_printable d H) as [W E]. rewrite <- E at 2. now apply roundtrip_file. Qed.

(* non-vacuity: the keyword-prefix document and the example document of RoundFile.v are admissible; their canonical text;
   and documents outside the domain *)
Example doc_ok_examples :
  doc_ok (erase_file keyword_prefix_file) = true /\ doc_ok (erase_file example_file) = true /\
  pr_file (canon_file (mkFile None [IConstant (mkConstant (txt "c") (MkType (TList (MkType TI8 []) None) []) (CList [CInt (-5); CDouble (txt "1.0"); CPath [txt "a"; txt "b"]]) [])])) []
    = txt "const list<i8> c=[-5,1.0,a.b,];" /\
  (* i64::MIN is not an integer constant of the grammar (a magnitude is negated) *)
  doc_ok (mkFile None [IConstant (mkConstant (txt "c") (MkType TI64 []) (CInt (-9223372036854775808)) [])]) = false /\
  doc_ok (mkFile None [IConstant (mkConstant (txt "c") (MkType TI64 []) (CInt (-9223372036854775807)) [])]) = true /\
  (* doubles are text: 1.0 and 1.00 are different documents, both admissible; 1 is not a double *)
  doc_ok (mkFile None [IConstant (mkConstant (txt "c") (MkType TDouble []) (CDouble (txt "1.00")) [])]) = true /\
  doc_ok (mkFile None [IConstant (mkConstant (txt "c") (MkType TDouble []) (CDouble (txt "1")) [])]) = false /\
  (* an empty annotation list cannot be written; a package that is not the first rs namespace cannot be the result of a parse *)
  doc_ok (mkFile None [INamespace (mkNamespace (txt "go") [txt "a"] (Some []))]) = false /\
  doc_ok (mkFile (Some [txt "a"]) []) = false /\
  (* reserved words: a type named i32, a path constant true.x *)
  doc_ok (mkFile None [ITypedef (mkTypedef (MkType (TPath [txt "i32"]) []) (txt "T") [])]) = false /\
  doc_ok (mkFile None [ITypedef (mkTypedef (MkType (TPath [txt "list"]) []) (txt "T") [])]) = true.
Proof. vm_compute. repeat split. Qed.
