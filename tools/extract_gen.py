#!/usr/bin/env python3
"""Translator plug-in of the gen family (loaded by tools/extract.py).

Regenerates fam/gen/coq/Generated/GenTable.v from /repo's Rust sources:
  pilota-build/src/codegen/thrift/ty.rs   ThriftBackend::ttype  (type kind -> TType; the Path arm by item kind)
  pilota-build/src/codegen/thrift/ty.rs   codegen_field_size    (which kinds go through struct_field_len, i.e. announce
                                          TType::Struct in the size pass whatever the target is)
  pilota-build/src/parser/thrift/mod.rs   lower_field            (IDL requiredness -> FieldKind)
  pilota-thrift-parser/src/parser/function.rs  (default requiredness of arguments becomes Required)
  inventory of unsafe / set_len / as_mut_ptr / with_capacity sites in the decode templates (C19, C09)
Fails loudly (exit 2) when something is not found or has an unexpected shape.
"""
import os, re, sys


def die(msg):
    print("extract_gen.py: " + msg, file=sys.stderr)
    sys.exit(2)


def read(repo, rel):
    p = os.path.join(repo, rel)
    try:
        return open(p, encoding="utf-8").read()
    except OSError as e:
        die("cannot read %s: %s" % (p, e))


def strip_comments(s):
    s = re.sub(r"/\*.*?\*/", "", s, flags=re.S)
    return re.sub(r"//[^\n]*", "", s)


def fn_body(src, header_re, what):
    m = re.search(header_re, src)
    if not m:
        die("%s not found" % what)
    i = src.index("{", m.end() - 1)
    depth, j = 0, i
    while j < len(src):
        if src[j] == "{":
            depth += 1
        elif src[j] == "}":
            depth -= 1
            if depth == 0:
                return src[i + 1:j]
        j += 1
    die("%s: unbalanced braces" % what)


KINDS = {"String": "KString", "FastStr": "KFastStr", "Void": "KVoid", "U8": "KU8", "Bool": "KBool", "BytesVec": "KBytesVec",
         "Bytes": "KBytes", "I8": "KI8", "I16": "KI16", "I32": "KI32", "I64": "KI64", "F64": "KF64", "OrderedF64": "KOrderedF64",
         "Uuid": "KUuid", "Vec": "KVec", "Set": "KSet", "BTreeSet": "KBTreeSet", "Map": "KMap", "BTreeMap": "KBTreeMap"}
TT = {"Stop": "TStop", "Void": "TVoid", "Bool": "TBool", "I8": "TI8", "Double": "TDouble", "I16": "TI16", "I32": "TI32",
      "I64": "TI64", "Binary": "TBinary", "Struct": "TStruct", "Map": "TMap", "Set": "TSet", "List": "TList", "Uuid": "TUuid"}


def args_entry_points(repo):
    """resolve.rs: which calls of lower_type / lower_type_for_hash_key pass is_args = true.  The `args` set (db.is_arg: with
    keep_unknown_fields such a struct's decoder takes the rest of the input as unknown fields once every declared field was seen)
    must hold exactly the types NAMED as a method's parameter / result type, which is what pv/gengen.py lower_docs marks with the
    flag `a` and what the model's is_arg reads: the two entry points in lower_service pass true, the recursion into the components
    of a container passes false, the Path arms forward the flag to lower_path, which is the only writer of `args`."""
    rs = strip_comments(read(repo, "pilota-build/src/resolve.rs"))
    calls = re.findall(r"self\.(lower_type|lower_type_for_hash_key)\(\s*([^,()]+?)\s*,\s*(\w+)\s*\)", rs)
    true_calls = sorted((f, a) for f, a, fl in calls if fl == "true")
    if true_calls != [("lower_type", "&a.ty"), ("lower_type", "&m.ret")]:
        die("resolve.rs: is_args = true is passed by %r (model: the type of a method's parameter `&a.ty` and its result `&m.ret` only)" % (true_calls,))
    other = sorted(set(fl for f, a, fl in calls if fl not in ("true", "false")))
    if other:
        die("resolve.rs: a call of lower_type / lower_type_for_hash_key forwards a flag (%s): the components of a container-typed "
            "parameter would become argument types (model: is_args = false below a container)" % ", ".join(other))
    for fn in ("lower_type", "lower_type_for_hash_key"):
        body = fn_body(rs, r"fn\s+%s\s*\(\s*&mut\s+self\s*,\s*ty\s*:\s*&ir::Ty\s*,\s*is_args\s*:\s*bool\s*\)" % fn, "Resolver::" + fn)
        inner = re.findall(r"self\.(?:lower_type|lower_type_for_hash_key)\(\s*\w+\s*,\s*(\w+)\s*\)", body)
        if len(inner) != 4 or any(x != "false" for x in inner):
            die("resolve.rs %s: the Vec / Set / Map arms no longer recurse with is_args = false (%r)" % (fn, inner))
        if len(re.findall(r"ir::TyKind::Path\(p\)\s*=>\s*ty::Path\(self\.lower_path\(p,\s*Namespace::Ty,\s*is_args\)\)", body)) != 1:
            die("resolve.rs %s: the Path arm no longer forwards is_args to lower_path" % fn)
    lp = fn_body(rs, r"fn\s+lower_path\s*\(", "Resolver::lower_path")
    ins = re.findall(r"if\s+is_args\s*\{\s*self\.args\.insert\(def_id\);\s*\}", lp)
    if len(ins) != 2 or len(re.findall(r"\.args\.insert\(", rs)) != 2:
        die("resolve.rs: `args` is no longer written exactly by lower_path under `if is_args`")
    return true_calls


def gen_table(repo):
    args_entry_points(repo)
    ty_rs = strip_comments(read(repo, "pilota-build/src/codegen/thrift/ty.rs"))
    body = fn_body(ty_rs, r"fn\s+ttype\s*\(\s*&self\s*,\s*ty\s*:\s*&Ty\s*\)\s*->\s*FastStr\s*", "ThriftBackend::ttype")
    table = {}
    # EVERY arm of `match &ty.kind` is accounted for: simple arms `ty::A | ty::B(_) => "::pilota::thrift::TType::X".into()` (every
    # alternative a known kind, no guard, no kind twice), the Path arm, the Arc arm, the final `_ => unimplemented!()`
    arms = match_arms(the_match(body, r"match\s+&ty\.kind\s*\{", "ttype()"), "ttype()")
    path, n_simple, seen_special = None, 0, []
    for pat, rhs in arms:
        if re.search(r"\bif\b", blank_literals(pat)):
            die("ttype(): guarded arm `%s`" % " ".join(pat.split()))
        if pat == "ty::Path(path)":
            path = rhs; seen_special.append("Path"); continue
        if pat == "ty::Arc(ty)":
            if not re.fullmatch(r"self\.ttype\(ty\)", rhs.strip().rstrip(",").strip()):
                die("ttype(): Arc arm is no longer `self.ttype(ty)`")
            seen_special.append("Arc"); continue
        if pat == "_":
            if not re.fullmatch(r"unimplemented!\(\)", rhs.strip().rstrip(",").strip()) or (pat, rhs) != arms[-1]:
                die("ttype(): the wildcard arm is no longer the last arm `_ => unimplemented!()`")
            seen_special.append("_"); continue
        mr = re.fullmatch(r"\"::pilota::thrift::TType::(\w+)\"\.into\(\)", rhs.strip().rstrip(",").strip())
        if not mr or mr.group(1) not in TT:
            die("ttype(): arm `%s` does not answer a known TType constant: %s" % (" ".join(pat.split()), rhs.strip()[:80]))
        for alt in pat.split("|"):
            ma = re.fullmatch(r"ty::(\w+)(?:\((?:_|_,\s*_)\))?", alt.strip())
            if not ma or ma.group(1) not in KINDS:
                die("ttype(): pattern alternative `%s` is no kind the model knows" % alt.strip())
            if KINDS[ma.group(1)] in table:
                die("ttype(): kind %s is matched by two arms" % ma.group(1))
            table[KINDS[ma.group(1)]] = TT[mr.group(1)]
        n_simple += 1
    if sorted(seen_special) != ["Arc", "Path", "_"] or n_simple + 3 != len(arms):
        die("ttype(): %d arms, accounted for %d simple arms + %r" % (len(arms), n_simple, seen_special))
    missing = [k for k in KINDS.values() if k not in table]
    if missing:
        die("ttype(): no arm found for " + ", ".join(missing))
    # the Path arm: `match &*item` with exactly Message, Enum (repr / no repr), NewType, `_ => panic!`
    parms = match_arms(the_match(path, r"match\s+&\*item\s*\{", "ttype() Path arm"), "ttype() Path arm")
    if [" ".join(p.split()) for p, _ in parms] != ["rir::Item::Message(_)", "rir::Item::Enum(e)", "rir::Item::NewType(t)", "_"] \
            or not re.match(r"\s*panic!\(", parms[3][1]):
        die("ttype(): the Path arm no longer matches exactly Message / Enum / NewType / `_ => panic!`: %r" % ([p for p, _ in parms],))
    mm = re.search(r"rir::Item::Message\(_\)\s*=>\s*\"::pilota::thrift::TType::(\w+)\"", path)
    if not mm:
        die("ttype(): Path/Message arm not found")
    table["KMessage"] = TT[mm.group(1)]
    mm = re.search(r"rir::Item::Enum\(e\)\s*=>\s*\{\s*if\s+e\.repr\.is_some\(\)\s*\{\s*\"::pilota::thrift::TType::(\w+)\"\.into\(\)\s*\}\s*else\s*\{\s*\"::pilota::thrift::TType::(\w+)\"", path)
    if not mm:
        die("ttype(): Path/Enum arm not found")
    table["KEnumRepr"], table["KEnumNoRepr"] = TT[mm.group(1)], TT[mm.group(2)]
    if not re.search(r"rir::Item::NewType\(t\)\s*=>\s*self\.ttype\(&t\.ty\)", path):
        die("ttype(): Path/NewType arm is no longer `self.ttype(&t.ty)`")
    out = ["(* GENERATED by tools/extract_gen.py from pilota-build/src/codegen/thrift/ty.rs (ThriftBackend::ttype, codegen_field_size),",
           "   parser/thrift/mod.rs and pilota-thrift-parser -- do not edit *)",
           "From PVGen Require Import Kinds.", "",
           "Definition kind_ttype (k : kind) : ttype :=", "  match k with"]
    order = ["KString", "KFastStr", "KVoid", "KU8", "KBool", "KBytesVec", "KBytes", "KI8", "KI16", "KI32", "KI64", "KF64",
             "KOrderedF64", "KUuid", "KVec", "KSet", "KBTreeSet", "KMap", "KBTreeMap", "KMessage", "KEnumRepr", "KEnumNoRepr"]
    for k in order:
        out.append("  | %s => %s" % (k, table[k]))
    out += ["  end.", ""]
    # ---- size pass: the Path arms of codegen_field_size
    fs = fn_body(ty_rs, r"fn\s+codegen_field_size\s*\(", "codegen_field_size")
    enum_first = re.search(r"ty::Path\(p\)\s+if\s+self\.is_i32_enum\(p\.did\)\s*=>\s*\{\s*format!\(\"__protocol\.i32_field_len\(", fs)
    generic = re.search(r"ty::Path\(_\)\s*=>\s*format!\(\"__protocol\.(\w+)\(Some\(\{id\}\), \{ident\}\)\"\)", fs)
    if not enum_first or not generic:
        die("codegen_field_size: Path arms not found")
    # every arm accounted for: one arm per kind of the table (no alternatives), the guarded enum Path arm directly before the
    # generic Path arm, Arc, `_ => unimplemented!()`; no other guard
    farms = match_arms(the_match(fs, r"match\s+&ty\.kind\s*\{", "codegen_field_size"), "codegen_field_size")
    fpats = [" ".join(p.split()) for p, _ in farms]
    fk = [re.fullmatch(r"ty::(\w+)(?:\(\w+(?:,\s*\w+)?\))?", x) for x in fpats[:-4]]
    if fpats[-4:] != ["ty::Path(p) if self.is_i32_enum(p.did)", "ty::Path(_)", "ty::Arc(ty)", "_"] or not all(fk) \
            or sorted(m.group(1) for m in fk) != sorted(KINDS) or len(farms) != len(KINDS) + 4:
        die("codegen_field_size: %d arms; expected one per kind (%d), then Path-if-enum, Path, Arc, `_`: %r" % (len(farms), len(KINDS), fpats))
    # which TType does TLengthProtocolExt::<generic> announce?
    mod_rs = strip_comments(read(repo, "pilota/src/thrift/mod.rs"))
    b = fn_body(mod_rs, r"fn\s+%s\s*<M:\s*Message>\s*\(" % generic.group(1), "TLengthProtocolExt::" + generic.group(1))
    mm = re.search(r"self\.field_begin_len\(TType::(\w+),\s*id\)", b)
    if not mm:
        die("TLengthProtocolExt::%s: field_begin_len call not found" % generic.group(1))
    out.append("(* codegen_field_size sends every non-enum Path (struct, union, TYPEDEF) through `%s`, which announces: *)" % generic.group(1))
    out.append("Definition path_field_len_ttype : ttype := %s." % TT[mm.group(1)])
    # write side: write_struct_field announces the ttype handed in by the template (ttype of the typedef target)
    ef = fn_body(ty_rs, r"fn\s+codegen_encode_field\s*\(", "codegen_encode_field")
    if not re.search(r"rir::Item::NewType\(nt\)\s*=>\s*\{\s*let\s+ttype\s*=\s*self\.ttype\(&nt\.ty\);", ef):
        die("codegen_encode_field: a field of typedef type is no longer written with the TType of the typedef's target "
            "(Gen.v enc_field announces ttype_of_ty, which resolves typedefs)")
    out.append("")
    # ---- requiredness lowering
    lower = strip_comments(read(repo, "pilota-build/src/parser/thrift/mod.rs"))
    lf = fn_body(lower, r"fn\s+lower_field_with_tags\s*\(", "lower_field_with_tags")
    if not re.search(r"thrift_parser::Attribute::Required\s*=>\s*FieldKind::Required\s*,\s*_\s*=>\s*FieldKind::Optional", lf):
        die("lower_field_with_tags: requiredness lowering changed shape")
    # (IDL requiredness -> FieldKind: required stays required, optional AND default become optional: pv/gengen.py lower_field)
    fun = strip_comments(read(repo, "pilota-thrift-parser/src/parser/function.rs"))
    if not re.search(r"if\s+f\.attribute\s*==\s*Attribute::Default\s*\{\s*f\.attribute\s*=\s*Attribute::Required", fun):
        die("pilota-thrift-parser function.rs: an argument of default requiredness is no longer made required "
            "(pv/gengen.py lower_docs: the fields of <Service><Method>ArgsSend / ArgsRecv)")
    # ---- inventory of raw-pointer / preallocation sites in the decode templates (C19 / C09)
    dec = fn_body(ty_rs, r"fn\s+codegen_decode_ty\s*\(", "codegen_decode_ty") + ty_rs[ty_rs.index("fn decode_set"):]
    inv = {k: len(re.findall(rx, dec)) for k, rx in [("unsafe_blocks", r"unsafe\s*\{\{"), ("set_len", r"\.set_len\("),
                                                      ("as_mut_ptr", r"\.as_mut_ptr\(\)"), ("with_capacity", r"with_capacity\("),
                                                      ("mem_forget", r"mem::forget"), ("from_raw_parts", r"from_raw_parts")]}
    # consumed by Own.v (C19_retention_inventory pins the raw-pointer sites); the preallocation sites are the four of finding
    # F-09e / F-19 (Vec sync, Vec / set / map async): a fifth one would be a site no C09 / C19 case was written for
    if inv["with_capacity"] != 4:
        die("codegen_decode_ty: %d with_capacity sites in the decode templates (the checks C09 / C19 account for 4)" % inv["with_capacity"])
    for k in ("unsafe_blocks", "set_len", "as_mut_ptr", "mem_forget", "from_raw_parts"):
        out.append("Definition decode_template_%s_sites : nat := %d." % (k, inv[k]))
    return "\n".join(out) + "\n"


# ------------------------------------------------------------------ literal lowering (C20): Generated/LitTable.v
#
# The `match (lit, ty)` arm lists of Context::lit_into_ty / lit_as_rvalue / ident_into_ty
# (pilota-build/src/middle/context.rs) in SOURCE ORDER, with or-patterns as alternatives of one arm and the
# `bool /* const? */` each arm returns; the operators / casts inside the arms whose meaning the model takes from
# here (int -> bool test, int -> float cast type); CodegenTy::should_lazy_static and the ConstTyTransformer
# overrides (middle/ty.rs).  fam/gen/coq/Lit.v DISPATCHES on these lists; Proofs/LitP.v pins them by computation.

LPAT = {"Path": "LPPath", "Bool": "LPBool", "String": "LPString", "Int": "LPInt", "Float": "LPFloat", "List": "LPList",
        "Map": "LPMap"}
CPAT = {"FastStr": "CPFastStr", "String": "CPString", "Str": "CPStr", "Void": "CPVoid", "U8": "CPU8", "Bool": "CPBool",
        "I8": "CPI8", "I16": "CPI16", "I32": "CPI32", "I64": "CPI64", "UInt32": "CPUInt32", "UInt64": "CPUInt64", "F32": "CPF32",
        "F64": "CPF64", "OrderedF64": "CPOrderedF64", "Uuid": "CPUuid", "Bytes": "CPBytes", "LazyStaticRef": "CPLazyStaticRef",
        "StaticRef": "CPStaticRef", "Vec": "CPVec", "Array": "CPArray", "Set": "CPSet", "BTreeSet": "CPBTreeSet", "Map": "CPMap",
        "BTreeMap": "CPBTreeMap", "Arc": "CPArc"}
ADT = {"Struct": "CPAdtStruct", "Enum": "CPAdtEnum", "NewType": "CPAdtNewType"}
# arm guards the model understands: (regex on the guard text, the refined kind the guarded component becomes)
GUARDS = [(r"matches!\(\s*\*\*map\s*,\s*CodegenTy::Map\(_,\s*_\)\s*\|\s*CodegenTy::BTreeMap\(_,\s*_\)\s*\)", "CPLazyStaticRef", "CPLazyMap"),
          (r"matches!\(\s*\*\*inner\s*,\s*CodegenTy::Set\(_\)\s*\|\s*CodegenTy::BTreeSet\(_\)\s*\|\s*CodegenTy::Map\(_,\s*_\)\s*\|\s*CodegenTy::BTreeMap\(_,\s*_\)\s*,?\s*\)",
           "CPStaticRef", "CPStaticRefColl"),
          # `(String, Vec(inner)) if matches!(**inner, U8)`: stays kind Vec; the model's arm body looks at the element type itself
          (r"matches!\(\s*\*\*inner\s*,\s*CodegenTy::U8\s*\)", "CPVec", "CPVec")]


def blank_literals(src):
    """same length as src; the contents of string / raw string / char literals replaced by spaces, so that brackets
    and commas inside them do not count"""
    out = list(src)
    i, n = 0, len(src)
    while i < n:
        c = src[i]
        if c == 'r' and re.match(r'r#*"', src[i:i + 8]) and (i == 0 or not (src[i - 1].isalnum() or src[i - 1] == '_')):
            m = re.match(r'r(#*)"', src[i:])
            end = src.find('"' + m.group(1), i + len(m.group(0)))
            if end < 0:
                die("unterminated raw string literal")
            for j in range(i + len(m.group(0)), end):
                out[j] = ' '
            i = end + 1 + len(m.group(1))
        elif c == '"':
            j = i + 1
            while j < n and src[j] != '"':
                j += 2 if src[j] == '\\' else 1
            if j >= n:
                die("unterminated string literal")
            for k in range(i + 1, j):
                out[k] = ' '
            i = j + 1
        elif c == "'":
            m = re.match(r"'(\\.|[^\\'])'", src[i:])
            if m:
                for k in range(i + 1, i + len(m.group(0)) - 1):
                    out[k] = ' '
                i += len(m.group(0))
            else:
                i += 1          # a lifetime
        else:
            i += 1
    return ''.join(out)


OPEN, CLOSE = "([{", ")]}"


def balanced_end(blank, i):
    """blank[i] is an opening bracket; index of the matching closing bracket"""
    depth = 0
    for j in range(i, len(blank)):
        if blank[j] in OPEN:
            depth += 1
        elif blank[j] in CLOSE:
            depth -= 1
            if depth == 0:
                return j
    die("unbalanced brackets")


def split_top(text, blank, sep):
    """split text at the occurrences of sep that are outside every bracket (blank = text with literals blanked)"""
    parts, depth, last, i = [], 0, 0, 0
    while i < len(blank):
        ch = blank[i]
        if ch in OPEN:
            depth += 1
        elif ch in CLOSE:
            depth -= 1
        elif depth == 0 and blank.startswith(sep, i) and not (sep == '|' and blank.startswith('||', i)):
            parts.append((text[last:i], blank[last:i]))
            last = i + len(sep)
            i += len(sep) - 1
        i += 1
    parts.append((text[last:], blank[last:]))
    return parts


def match_arms(body, what):
    """body: the text between the braces of a `match .. { }`; -> [(pattern text, arm body text)] in source order"""
    blank = blank_literals(body)
    arms, i, n = [], 0, len(body)
    while True:
        while i < n and body[i].isspace():
            i += 1
        if i >= n:
            break
        # pattern: up to `=>` outside brackets
        depth, j = 0, i
        while j < n:
            if blank[j] in OPEN:
                depth += 1
            elif blank[j] in CLOSE:
                depth -= 1
            elif depth == 0 and blank.startswith("=>", j):
                break
            j += 1
        if j >= n:
            die("%s: arm without `=>` near %r" % (what, body[i:i + 60]))
        pat = body[i:j].strip()
        k = j + 2
        while k < n and body[k].isspace():
            k += 1
        if k < n and blank[k] == '{':
            e = balanced_end(blank, k)
            arm_body = body[k:e + 1]
            k = e + 1
            while k < n and body[k].isspace():
                k += 1
            if k < n and body[k] == ',':
                k += 1
        else:
            depth, e = 0, k
            while e < n:
                if blank[e] in OPEN:
                    depth += 1
                elif blank[e] in CLOSE:
                    depth -= 1
                elif depth == 0 and blank[e] == ',':
                    break
                e += 1
            arm_body = body[k:e]
            k = e + 1
        arms.append((pat, arm_body))
        i = k
    return arms


def lit_kind(txt, what):
    txt = txt.strip()
    m = re.match(r"Literal::(\w+)", txt)
    if m:
        if m.group(1) not in LPAT:
            die("%s: unknown Literal::%s" % (what, m.group(1)))
        return LPAT[m.group(1)]
    if re.fullmatch(r"[a-z_][a-z0-9_]*", txt):
        return "LPAny"
    die("%s: literal pattern not understood: %r" % (what, txt))


def cty_kind(txt, what):
    txt = txt.strip()
    m = re.match(r"CodegenTy::(\w+)", txt)
    if m:
        k = m.group(1)
        if k == "Adt":
            mm = re.search(r"AdtKind::(\w+)", txt)
            if not mm or mm.group(1) not in ADT:
                die("%s: Adt pattern without a known AdtKind: %r" % (what, txt))
            return ADT[mm.group(1)]
        if k not in CPAT:
            die("%s: unknown CodegenTy::%s" % (what, k))
        return CPAT[k]
    if re.fullmatch(r"[a-z_][a-z0-9_]*", txt):
        return "CPAny"
    die("%s: type pattern not understood: %r" % (what, txt))


def pattern_alts(pat, left_kind, what):
    """`(A | B, C | D)` or `(A, C) | (B, D)` or `_`  ->  [(left, right)]"""
    if pat.strip() == "_":
        return None
    guard = None
    mg = re.search(r"\)\s+if\s+", pat)
    if mg:
        pat, guard = pat[:mg.start() + 1], pat[mg.end():].strip()
    alts = []
    for t, b in split_top(pat, blank_literals(pat), "|"):
        t = t.strip()
        if not (t.startswith("(") and t.endswith(")")):
            die("%s: arm pattern is not a pair: %r" % (what, t))
        inner = t[1:-1]
        comps = [c for c in split_top(inner, blank_literals(inner), ",") if c[0].strip()]
        if len(comps) != 2:
            die("%s: arm pattern is not a pair: %r" % (what, t))
        ls = [left_kind(x[0], what) for x in split_top(comps[0][0], comps[0][1], "|")]
        rs = [cty_kind(x[0], what) for x in split_top(comps[1][0], comps[1][1], "|")]
        alts += [(l, r) for l in ls for r in rs]
    if guard is not None:
        for rx, frm, to in GUARDS:
            if re.fullmatch(rx, guard) and all(r == frm for _, r in alts):
                alts = [(l, to) for l, _ in alts]
                break
        else:
            die("%s: arm guard not understood: `if %s`" % (what, guard))
    return alts


FLAG_RE = re.compile(r",\s*(true|false|is_const)\s*,?\s*\)")


def arm_flag(body):
    fl = FLAG_RE.findall(body)
    return {"true": "FTrue", "false": "FFalse", "is_const": "FDyn"}[fl[-1]] if fl else "FDyn"


def the_match(fn_text, scrutinee_re, what):
    m = re.search(scrutinee_re, fn_text)
    if not m:
        die("%s: `match` not found" % what)
    blank = blank_literals(fn_text)
    o = m.end() - 1
    return fn_text[o + 1:balanced_end(blank, o)]


def coq_arms(name, arms, comment):
    out = ["(* %s *)" % comment, "Definition %s : list arm :=" % name]
    rows = ["    ([%s], %s)" % ("; ".join("(%s, %s)" % a for a in alts), fl) for alts, fl in arms]
    out.append("  [\n" + ";\n".join(rows) + "\n  ].")
    return out


def lit_table(repo):
    ctx = strip_comments(read(repo, "pilota-build/src/middle/context.rs"))
    # ---- lit_into_ty
    lit_fn = fn_body(ctx, r"fn\s+lit_into_ty\s*\(", "Context::lit_into_ty")
    body = the_match(lit_fn, r"Ok\(\s*match\s*\(\s*lit\s*,\s*ty\s*\)\s*\{", "lit_into_ty")
    raw = match_arms(body, "lit_into_ty")
    if not raw or raw[-1][0].strip() != "_" or not re.match(r"\s*panic!\(\s*\"unexpected literal", raw[-1][1]):
        die("lit_into_ty: the last arm is no longer `_ => panic!(\"unexpected literal ..\")`")
    into = []
    for pat, b in raw[:-1]:
        alts = pattern_alts(pat, lit_kind, "lit_into_ty")
        if alts is None:
            die("lit_into_ty: a wildcard arm before the end")
        into.append((alts, arm_flag(b), b))
    # the Arc arm (repair of defaults on `pilota.rust_wrapper_arc` fields): only as the LAST arm, so that no index moves
    arc_into = [k for k, (alts, fl, b) in enumerate(into) if any(c == "CPArc" for _, c in alts)]
    if arc_into:
        alts, fl, b = into[arc_into[0]]
        if arc_into != [len(into) - 1] or alts != [("LPAny", "CPArc")] or fl != "FFalse" \
                or not re.search(r"let\s*\(stream,\s*_\)\s*=\s*self\.lit_as_rvalue\(l,\s*inner_ty\)\?;", b) \
                or not re.search(r"format!\(\"::std::sync::Arc::new\(\{stream\}\)\"\)", b):
            die("lit_into_ty: the Arc arm is not the last arm `(l, Arc(inner_ty)) => (Arc::new(lit_as_rvalue(l, inner_ty)), false)`")

    def arms_with(lk, cks):
        return [(alts, fl, b) for alts, fl, b in into if any(l == lk and c in cks for l, c in alts)]
    # int -> float: the `as` cast and the literal suffix
    casts = []
    for alts, fl, b in arms_with("LPInt", ("CPF32", "CPF64", "CPOrderedF64")):
        mc = re.search(r"\(\s*\*i\s*\)\s+as\s+(f32|f64)\b", b)
        if not mc:
            die("lit_into_ty: (Int, F32/F64/OrderedF64) arm without `(*i) as f32|f64`")
        ms = re.search(r"format!\s*[({]\s*\"(?:::pilota::OrderedFloat\()?\{f\}(f32|f64|\{ty\})\)?\"", b)
        if not ms:
            die("lit_into_ty: (Int, F32/F64/OrderedF64) arm: literal suffix not understood")
        for l, c in alts:
            if l == "LPInt" and c in ("CPF32", "CPF64", "CPOrderedF64"):
                want = "f32" if c == "CPF32" else "f64"
                if ms.group(1) not in (want, "{ty}"):
                    die("lit_into_ty: (Int, %s) arm prints the suffix %s" % (c, ms.group(1)))
                if (c == "CPOrderedF64") != ("::pilota::OrderedFloat(" in b):
                    die("lit_into_ty: (Int, %s) arm: OrderedFloat wrapper" % c)
                casts.append((c, "CPF32" if mc.group(1) == "f32" else "CPF64"))
    if sorted(c for c, _ in casts) != ["CPF32", "CPF64", "CPOrderedF64"]:
        die("lit_into_ty: expected exactly one (Int, F32), (Int, F64), (Int, OrderedF64) alternative each, found %r" % (casts,))
    # int -> bool
    ab = arms_with("LPInt", ("CPBool",))
    if len(ab) != 1:
        die("lit_into_ty: (Int, Bool) arm not found")
    mb = re.search(r"let\s+b\s*=\s*\*i\s*(!=|==)\s*(-?\d+)\s*;", ab[0][2])
    if not mb or not re.search(r"format!\s*\{\s*\"\{b\}\"\s*\}", ab[0][2]):
        die("lit_into_ty: (Int, Bool) arm is no longer `let b = *i <op> <n>; format!{\"{b}\"}`")
    # int -> iN: `{i}iN`
    for ck, sfx in (("CPI8", "i8"), ("CPI16", "i16"), ("CPI32", "i32"), ("CPI64", "i64")):
        a = arms_with("LPInt", (ck,))
        if len(a) != 1 or not re.search(r"format!\s*\{\s*\"\{i\}%s\"\s*\}" % sfx, a[0][2]):
            die("lit_into_ty: (Int, %s) arm is no longer `{i}%s`" % (ck, sfx))
    # int -> enum: the member whose discriminant IS the number
    ae = arms_with("LPInt", ("CPAdtEnum",))
    if len(ae) != 1 or not re.search(r"\.find\(\s*\|v\|\s*v\.discr\s*==\s*Some\(\s*\*i\s*\)\s*\)", ae[0][2]) \
            or not re.search(r"panic!\(\s*\"invalid enum value\"\s*\)", ae[0][2]):
        die("lit_into_ty: (Int, Adt Enum) arm is no longer `variants.find(|v| v.discr == Some(*i))` / panic")
    # ... and it is NAMED the way the enum's definition names it: the member's own path (cur_related_item_path -> the path
    # resolver -> Context::rust_name(member): pilota.name, change_case, the name-collision fallback), which is what
    # codegen/mod.rs prints in `pub const {name}: Self`.  Any other way of spelling the member (a case conversion of the raw
    # name, a formatted path) regenerates the flag as false and breaks C20_arm_tables.
    enum_number_member_path = bool(re.search(
        r"\.find\(\s*\|v\|\s*v\.discr\s*==\s*Some\(\s*\*i\s*\)\s*\)\s*\.map_or_else\(\s*\|\|\s*panic!\(\s*\"invalid enum value\"\s*\)\s*,\s*"
        r"\|v\|\s*self\.cur_related_item_path\(v\.did\)\s*,?\s*\)", ae[0][2])) \
        and not re.search(r"const_ident|format!|\.name\b", ae[0][2])
    cg_mod = strip_comments(read(repo, "pilota-build/src/codegen/mod.rs"))
    if not re.search(r"let\s+name\s*=\s*self\.rust_name\(v\.did\);[^;]*;[^;]*;\s*\(\s*format!\(\"pub const \{name\}: Self = Self\(\{discr\}\);\"\)", cg_mod):
        die("codegen/mod.rs: an enum member is no longer defined as `pub const {rust_name(member)}: Self = Self(discr);`")
    rs = strip_comments(read(repo, "pilota-build/src/middle/resolver.rs"))
    pf = fn_body(rs, r"fn\s+path_for_def_id\s*\(", "path_for_def_id")
    if not re.search(r"_\s*=>\s*cx\.rust_name\(def_id\)", pf):
        die("resolver.rs path_for_def_id no longer names a path segment by Context::rust_name")
    if not re.search(r"let\s+other_item_path\s*=\s*self\.item_path\(b\);", fn_body(ctx, r"pub\s+fn\s+related_item_path\s*\(", "related_item_path")):
        die("Context::related_item_path changed shape")
    # float text -> f64
    # the text is parsed by `f.parse::<f64>().unwrap()` (one sign only: `-+1.5` panics), or, after the repair, by
    # parse_double, which gives `-+x` the value -(+x)
    sign_forms = set()
    for ck in ("CPF64", "CPOrderedF64"):
        a = arms_with("LPFloat", (ck,))
        if len(a) != 1 or not re.search(r"f64_literal\(", a[0][2]):
            die("lit_into_ty: (Float, %s) arm no longer prints through f64_literal" % ck)
        if re.search(r"f\.parse::<f64>\(\)\.unwrap\(\)", a[0][2]):
            sign_forms.add("plain")
        elif re.search(r"parse_double\(f\)", a[0][2]):
            sign_forms.add("sign-run")
        else:
            die("lit_into_ty: (Float, %s) arm parses its text neither by `f.parse::<f64>().unwrap()` nor by parse_double(f)" % ck)
    if len(sign_forms) != 1:
        die("lit_into_ty: the two Float arms parse their text differently")
    double_sign_run_ok = sign_forms == {"sign-run"}
    double_exponent_ok = False
    if double_sign_run_ok:
        pd = fn_body(lit_fn, r"fn\s+parse_double\s*\(", "parse_double")
        # repair double-exponent-form: before anything else, an exponent with several `-` signs or 0x digits is rewritten
        # (sign parity, decimal digits of the value) and the rewritten text parsed by parse_double again
        EXP = (r"if\s+let\s+Some\(\(mantissa,\s*exponent\)\)\s*=\s*text\.split_once\(\['e',\s*'E'\]\)\s*\{\s*"
               r"let\s+digits\s*=\s*exponent\.trim_start_matches\('-'\);\s*"
               r"let\s+signs\s*=\s*exponent\.len\(\)\s*-\s*digits\.len\(\);\s*"
               r"if\s+signs\s*>\s*1\s*\|\|\s*digits\.starts_with\(\"0x\"\)\s*\{\s*"
               r"let\s+magnitude\s*=\s*match\s+digits\.strip_prefix\(\"0x\"\)\s*\{\s*"
               r"Some\(hex\)\s*=>\s*i64::from_str_radix\(hex,\s*16\)\.unwrap\(\),\s*"
               r"None\s*=>\s*digits\.parse::<i64>\(\)\.unwrap\(\),?\s*\};\s*"
               r"let\s+sign\s*=\s*if\s+signs\s*%\s*2\s*==\s*1\s*\{\s*\"-\"\s*\}\s*else\s*\{\s*\"\"\s*\};\s*"
               r"return\s+parse_double\(&format!\(\"\{mantissa\}e\{sign\}\{magnitude\}\"\)\);\s*\}\s*\}\s*")
        pd_code = re.sub(r"//[^\n]*", "", pd)
        m_exp = re.search(EXP, pd_code)
        if m_exp:
            double_exponent_ok = True
            if pd_code[:m_exp.start()].strip() or not re.match(r"\s*match\s+text\.strip_prefix", pd_code[m_exp.end():]):
                die("parse_double: the exponent rewriting is not the first statement of the body, followed by the sign match")
            pd = pd_code[m_exp.end():]
        elif re.search(r"split_once|trim_start_matches|from_str_radix", pd_code):
            die("parse_double rewrites the exponent in a shape the translator does not know")
        if not re.search(r"match\s+text\.strip_prefix\(\"-\+\"\)\s*\{\s*Some\(magnitude\)\s*=>\s*-magnitude\.parse::<f64>\(\)\.unwrap\(\)\s*,\s*"
                         r"None\s*=>\s*text\.parse::<f64>\(\)\.unwrap\(\)\s*,?\s*\}", pd):
            die("parse_double changed shape (`-+x` = -(x parsed), else the text parsed)")
    fl_fn = fn_body(lit_fn, r"fn\s+f64_literal\s*\(", "f64_literal")
    if not re.search(r"if\s+f\.is_finite\(\)\s*\{\s*format!\(\"\{f\}f64\"\)\s*\}\s*else\s+if\s+f\.is_nan\(\)\s*\{\s*\"f64::NAN\"\.into\(\)\s*\}\s*"
                     r"else\s+if\s+f\s*>\s*0\.0\s*\{\s*\"f64::INFINITY\"\.into\(\)\s*\}\s*else\s*\{\s*\"f64::NEG_INFINITY\"\.into\(\)\s*\}", fl_fn):
        die("f64_literal changed shape (finite: `{f}f64`, else f64::NAN / INFINITY / NEG_INFINITY)")
    # bool
    a = arms_with("LPBool", ("CPBool",))
    if len(a) != 1 or not re.search(r"format!\s*\{\s*\"\{b\}\"\s*\}", a[0][2]):
        die("lit_into_ty: (Bool, Bool) arm changed shape")
    # strings: every string arm pastes escape_double_quotes(s) between double quotes
    for ck in ("CPStr", "CPString", "CPFastStr", "CPBytes"):
        a = arms_with("LPString", (ck,))
        if len(a) != 1 or not re.search(r"let\s+s\s*=\s*escape_double_quotes\(s\)\s*;", a[0][2]) or '\\"{s}\\"' not in a[0][2]:
            die("lit_into_ty: (String, %s) arm no longer pastes escape_double_quotes(s) between quotes" % ck)
    # repair string-at-bytesvec: `(String(s), Vec(inner)) if matches!(**inner, U8) => ("\"{s}\".as_bytes().to_vec()", false)`, only as the arm
    # right after the struct-literal arm (index 25, before the Arc arm), so that no index moves
    a = arms_with("LPString", ("CPVec",))
    string_at_bytesvec_ok = bool(a)
    if a:
        k = [i for i, x in enumerate(into) if any(l == "LPString" and c == "CPVec" for l, c in x[0])]
        if len(a) != 1 or a[0][0] != [("LPString", "CPVec")] or a[0][1] != "FFalse" or k != [25] \
                or not re.search(r"matches!\(\s*\*\*inner\s*,\s*CodegenTy::U8\s*\)", raw[25][0]) \
                or not re.search(r"let\s+s\s*=\s*escape_double_quotes\(s\)\s*;", a[0][2]) \
                or not re.search(r'format!\s*\{\s*"\\"\{s\}\\"\.as_bytes\(\)\.to_vec\(\)"\s*\}', a[0][2]):
            die("lit_into_ty: the (String, Vec) arm is not arm 25 `(String(s), Vec(inner)) if matches!(**inner, U8) => (\"..\".as_bytes().to_vec(), false)`")
    esc = fn_body(lit_fn, r"fn\s+escape_double_quotes\s*\(", "escape_double_quotes")
    if not (re.search(r"'\\\\'\s*=>\s*\{\s*out\.push\(c\);\s*if\s+let\s+Some\(next\)\s*=\s*chars\.next\(\)\s*\{\s*out\.push\(next\);\s*\}\s*\}", esc)
            and re.search(r"'\"'\s*=>\s*out\.push_str\(\"\\\\\\\"\"\)", esc) and re.search(r"_\s*=>\s*out\.push\(c\)", esc)):
        die("escape_double_quotes changed shape")
    # struct literal: members looked up by name, Some(..) for optional, None / Default::default() when not mentioned
    a = arms_with("LPMap", ("CPAdtStruct",))
    if len(a) != 1:
        die("lit_into_ty: (Map, Adt Struct) arm not found")
    sb = a[0][2]
    for rx, whatx in [(r"if\s+\*\*k\s*==\s*\*\*f\.name\s*\{\s*Some\(v\)\s*\}\s*else\s*\{\s*None\s*\}", "member lookup by field name"),
                      (r"self\.lit_as_rvalue\(v,\s*&self\.codegen_item_ty\(f\.ty\.kind\.clone\(\)\)\)", "member lowered by lit_as_rvalue at codegen_item_ty"),
                      (r"if\s+f\.is_optional\(\)\s*\{\s*v\s*=\s*format!\(\"Some\(\{v\}\)\"\)", "Some(..) for optional members"),
                      (r"else\s+if\s+f\.is_optional\(\)\s*\{\s*anyhow::Ok\(\(format!\(\"\{name\}: None\"\),\s*true\)\)", "None for absent optional members"),
                      (r"anyhow::Ok\(\(format!\(\"\{name\}: Default::default\(\)\"\),\s*false\)\)", "Default::default() for absent required members")]:
        if not re.search(rx, sb):
            die("lit_into_ty: struct-literal arm: %s changed shape" % whatx)
    # the NewType arm recurses with the same literal
    a = [x for x in into if any(c == "CPAdtNewType" for _, c in x[0])]
    if len(a) != 1 or a[0][0] != [("LPAny", "CPAdtNewType")] or not re.search(r"self\.lit_as_rvalue\(l,\s*inner_ty\)\?", a[0][2]):
        die("lit_into_ty: the NewType arm is no longer `(l, Adt NewType(inner_ty)) => self.lit_as_rvalue(l, inner_ty)`")
    # containers
    for ck, ctor in (("CPVec", "::std::vec!["), ("CPSet", "::pilota::AHashSet::from(["), ("CPBTreeSet", "::std::collections::BTreeSet::from([")):
        a = arms_with("LPList", (ck,))
        if len(a) != 1 or not re.search(r"self\.list_stream\(els,\s*inner\)\?", a[0][2]) or ctor not in a[0][2]:
            die("lit_into_ty: (List, %s) arm changed shape" % ck)
    ls = fn_body(ctx, r"fn\s+list_stream\s*\(", "Context::list_stream")
    if not re.search(r"Ok\(\s*els\s*\.iter\(\)\s*\.map\(\|el\|\s*self\.lit_as_rvalue\(el,\s*inner\)\)\s*\.try_collect::<_,\s*Vec<_>,\s*_>\(\)\?"
                     r"\s*\.into_iter\(\)\s*\.map\(\|\(s,\s*_\)\|\s*s\)\s*\.join\(\",\"\)\)", ls):
        die("list_stream no longer lowers the elements left to right through lit_as_rvalue")
    a = arms_with("LPList", ("CPArray",))
    if len(a) != 1 or not re.search(r"\.map\(\|el\|\s*self\.lit_into_ty\(el,\s*inner\)\)", a[0][2]):
        die("lit_into_ty: (List, Array) arm changed shape")
    # the Path arm
    a = [x for x in into if any(l == "LPPath" for l, _ in x[0])]
    if len(a) != 1 or a[0][0] != [("LPPath", "CPAny")]:
        die("lit_into_ty: the Path arm changed shape")
    if re.search(r"let\s+ident_ty\s*=\s*self\.codegen_ty\(p\.did\);\s*self\.ident_into_ty\(p\.did,\s*&ident_ty,\s*ty\)", a[0][2]):
        const_inline_present = False
    elif re.search(r"let\s+ident_ty\s*=\s*self\.codegen_ty\(p\.did\);\s*if\s+ident_ty\s*!=\s*\*ty\s*&&\s*matches!\(\s*ident_ty\s*,\s*CodegenTy::Array\(_,\s*_\)\s*\|\s*"
                   r"CodegenTy::LazyStaticRef\(_\)\s*,?\s*\)\s*\{\s*if\s+let\s+Some\(Item::Const\(c\)\)\s*=\s*self\.item\(p\.did\)\.as_deref\(\)\s*\{\s*"
                   r"return\s+self\.lit_as_rvalue\(&c\.lit,\s*ty\);\s*\}\s*\}\s*self\.ident_into_ty\(p\.did,\s*&ident_ty,\s*ty\)", a[0][2]):
        # a reference to a const of container type (Array / LazyStaticRef) at another type: the const's literal at the target
        const_inline_present = True
    else:
        die("lit_into_ty: the Path arm changed shape")
    # the StaticRef arm goes through def_lit at LazyStaticRef
    a = arms_with("LPMap", ("CPStaticRef",))
    if len(a) != 1 or not re.search(r"self\.def_lit\(\"INNER_MAP\",\s*lit,\s*&mut\s+CodegenTy::LazyStaticRef\(map\.clone\(\)\)\)\?", a[0][2]):
        die("lit_into_ty: (Map, StaticRef) arm changed shape")

    # a set literal / `[]` nested in a const container: def_lit at LazyStaticRef(inner), like the map arm
    a = arms_with("LPList", ("CPStaticRefColl",))
    if len(a) != 1 or not re.search(r"self\.def_lit\(\"INNER\",\s*lit,\s*&mut\s+CodegenTy::LazyStaticRef\(inner\.clone\(\)\)\)\?", a[0][2]):
        die("lit_into_ty: (List, StaticRef(set | map)) arm changed shape")

    # ---- lit_as_rvalue
    rv_fn = fn_body(ctx, r"fn\s+lit_as_rvalue\s*\(", "Context::lit_as_rvalue")
    body = the_match(rv_fn, r"anyhow::Ok\(\s*match\s*\(\s*lit\s*,\s*ty\s*\)\s*\{", "lit_as_rvalue")
    raw = match_arms(body, "lit_as_rvalue")
    if not raw or raw[-1][0].strip() != "_" or not re.match(r"\s*self\.lit_into_ty\(lit,\s*ty\)\?", raw[-1][1]):
        die("lit_as_rvalue: the last arm is no longer `_ => self.lit_into_ty(lit, ty)?`")
    rvalue = []
    for pat, b in raw[:-1]:
        alts = pattern_alts(pat, lit_kind, "lit_as_rvalue")
        if alts is None:
            die("lit_as_rvalue: a wildcard arm before the end")
        if any(l == "LPList" for l, _ in alts) and alts != [("LPList", "CPLazyStaticRef")] and not re.search(r"assert!\(l\.is_empty\(\)\)", b):
            die("lit_as_rvalue: a (List, map type) arm without assert!(l.is_empty())")
        if alts == [("LPList", "CPLazyStaticRef")] and not re.search(r"\(\s*self\.lit_into_ty\(lit,\s*set\)\?\.0\s*,\s*false\s*\)", b):
            die("lit_as_rvalue: the unguarded (List, LazyStaticRef) arm is no longer `(self.lit_into_ty(lit, set)?.0, false)`")
        rvalue.append((alts, arm_flag(b)))
    mk = re.search(r"let\s+k\s*=\s*self\.(lit_into_ty|lit_as_rvalue)\(k,\s*k_ty\)\?\.0;\s*let\s+v\s*=\s*self\.lit_as_rvalue\(v,\s*v_ty\)\?\.0;", rv_fn)
    if not mk:
        die("lit_as_rvalue: mk_map no longer lowers keys through lit_into_ty (or, repaired, lit_as_rvalue) and values through lit_as_rvalue")
    # repair map-key-rvalue: keys through lit_as_rvalue (a key that is a map literal finds the map arms)
    map_key_rvalue = mk.group(1) == "lit_as_rvalue"

    # ---- ident_into_ty
    id_fn = fn_body(ctx, r"fn\s+ident_into_ty\s*\(", "Context::ident_into_ty")
    if not re.search(r"if\s+ident_ty\s*==\s*target\s*\{\s*let\s+stream\s*=\s*self\.cur_related_item_path\(did\);\s*return\s*\(stream,\s*true\);\s*\}", id_fn):
        die("ident_into_ty: the `ident_ty == target` test changed shape")
    body = the_match(id_fn, r"match\s*\(\s*ident_ty\s*,\s*target\s*\)\s*\{", "ident_into_ty")
    raw = match_arms(body, "ident_into_ty")
    if not raw or raw[-1][0].strip() != "_" or not re.match(r"\s*panic!\(\s*\"invalid convert", raw[-1][1]):
        die("ident_into_ty: the last arm is no longer `_ => panic!(\"invalid convert ..\")`")
    ident = []
    for pat, b in raw[:-1]:
        alts = pattern_alts(pat, cty_kind, "ident_into_ty")
        if alts is None:
            die("ident_into_ty: a wildcard arm before the end")
        if any(l == "CPAdtEnum" for l, _ in alts) and not re.search(r"\(\{stream\}\.inner\(\) as \{target\}\)", b):
            die("ident_into_ty: enum -> int arm is no longer `(path.inner() as iN)`")
        if alts == [("CPAny", "CPAdtNewType")] and not (re.search(r"self\.ident_into_ty\(did,\s*ident_ty,\s*inner_ty\)", b)
                                                        and re.search(r"format!\(\"\{ident\}\(\{stream\}\)\"\)", b)):
            die("ident_into_ty: the NewType arm is no longer `Name(ident_into_ty(did, ident_ty, inner_ty))`")
        if alts == [("CPStr", "CPString")] and not re.search(r"format!\(\"\{stream\}\.to_string\(\)\"\)", b):
            die("ident_into_ty: (Str, String) arm is no longer `path.to_string()`")
        ident.append((alts, arm_flag(b)))
    arc_ident = [k for k, (alts, fl) in enumerate(ident) if any(c == "CPArc" for _, c in alts)]
    if arc_ident:
        alts, fl = ident[arc_ident[0]]
        b = raw[arc_ident[0]][1]
        if arc_ident != [len(ident) - 1] or alts != [("CPAny", "CPArc")] or fl != "FFalse" \
                or not re.search(r"let\s*\(stream,\s*_\)\s*=\s*self\.ident_into_ty\(did,\s*ident_ty,\s*inner_ty\);", b) \
                or not re.search(r"format!\(\"::std::sync::Arc::new\(\{stream\}\)\"\)", b):
            die("ident_into_ty: the Arc arm is not the last arm `(_, Arc(inner_ty)) => (Arc::new(ident_into_ty(.., inner_ty)), false)`")
    if bool(arc_into) != bool(arc_ident):
        die("lit_into_ty and ident_into_ty disagree about the Arc arm (one has it, the other not)")

    # ---- default_val / def_lit / codegen_ty of a const
    dv = fn_body(ctx, r"pub\s+fn\s+default_val\s*\(", "Context::default_val")
    if not re.search(r"let\s+ty\s*=\s*self\.codegen_item_ty\(f\.ty\.kind\.clone\(\)\);", dv) or not re.search(r"\.lit_as_rvalue\(d,\s*&ty\)", dv):
        die("default_val no longer is lit_as_rvalue(default, codegen_item_ty(field type))")
    dl = fn_body(ctx, r"fn\s+def_lit\s*\(", "Context::def_lit")
    if not re.search(r"if\s+should_lazy_static\s*\{\s*let\s+lit\s*=\s*self\.lit_as_rvalue\(lit,\s*ty\)\?\.0;", dl) \
            or not re.search(r"else\s*\{\s*let\s*\(lit,\s*is_const\)\s*=\s*self\.lit_into_ty\(lit,\s*ty\)\?;", dl):
        die("def_lit changed shape")
    db = strip_comments(read(repo, "pilota-build/src/db.rs"))
    cg = fn_body(db, r"fn\s+codegen_ty\s*\(\s*db", "db::codegen_ty")
    if not re.search(r"let\s+mut\s+ty\s*=\s*db\.codegen_const_ty\(c\.ty\.kind\.clone\(\)\);\s*if\s+let\s+CodegenTy::StaticRef\(inner\)\s*=\s*ty\s*\{\s*ty\s*=\s*CodegenTy::LazyStaticRef\(inner\)", cg):
        die("db::codegen_ty: the Const arm changed shape")
    if not re.search(r"rir::NodeKind::Variant\(_\)\s*=>\s*CodegenTy::Adt\(AdtDef\s*\{\s*did:\s*node\.parent\.unwrap\(\),\s*kind:\s*AdtKind::Enum", cg):
        die("db::codegen_ty: the Variant arm changed shape")

    # ---- middle/ty.rs: should_lazy_static, ConstTyTransformer
    tyrs = strip_comments(read(repo, "pilota-build/src/middle/ty.rs"))
    sl = fn_body(tyrs, r"pub\s+fn\s+should_lazy_static\s*\(", "CodegenTy::should_lazy_static")
    raw = match_arms(the_match(sl, r"match\s+self\s*\{", "should_lazy_static"), "should_lazy_static")
    lazy = []
    for pat, b in raw:
        if pat.strip() == "_":
            if b.strip() != "false":
                die("should_lazy_static: `_ => false` expected")
            continue
        ks = [cty_kind(x[0], "should_lazy_static") for x in split_top(pat, blank_literals(pat), "|")]
        if b.strip() == "true":
            lazy += ks
        elif ks == ["CPAdtNewType"] and re.fullmatch(r"inner\.should_lazy_static\(\)", b.strip()):
            pass
        else:
            die("should_lazy_static: arm not understood: %r => %r" % (pat, b))
    if "CPAdtNewType" in lazy or not any(p.strip().startswith("CodegenTy::Adt") for p, _ in raw):
        die("should_lazy_static: the NewType arm is no longer `inner.should_lazy_static()`")
    cm = re.search(r"impl\s+TyTransformer\s+for\s+ConstTyTransformer<'_>\s*\{", tyrs)
    if not cm:
        die("ConstTyTransformer impl not found")
    cimpl = tyrs[cm.end() - 1:balanced_end(blank_literals(tyrs), cm.end() - 1)]
    over = []
    for fname, item_kind in (("string", "CPString"), ("faststr", "CPFastStr"), ("vec", "CPVec"), ("set", "CPSet"),
                             ("btree_set", "CPBTreeSet"), ("map", "CPMap"), ("btree_map", "CPBTreeMap")):
        if not re.search(r"fn\s+%s\s*\(" % fname, cimpl):
            die("ConstTyTransformer::%s not found" % fname)
        b = fn_body(cimpl, r"fn\s+%s\s*\([^)]*\)\s*->\s*CodegenTy\s*" % fname, "ConstTyTransformer::" + fname)
        ks = re.findall(r"CodegenTy::(\w+)", b)
        if not ks:
            die("ConstTyTransformer::%s: no constructor" % fname)
        over.append((item_kind, [CPAT[k] for k in ks]))
    others = set(re.findall(r"fn\s+(\w+)\s*\(", cimpl)) - {"string", "faststr", "vec", "set", "btree_set", "map", "btree_map", "get_db"}
    if others:
        die("ConstTyTransformer overrides more methods than the model knows: %s" % sorted(others))
    vb = fn_body(cimpl, r"fn\s+vec\s*\([^)]*\)\s*->\s*CodegenTy\s*", "ConstTyTransformer::vec")
    if not re.search(r"CodegenTy::Array\(\s*Arc::from\(\s*self\.dyn_codegen_item_ty\(&ty\.kind\)\s*\)\s*,\s*0\s*\)", vb):
        die("ConstTyTransformer::vec no longer is Array(dyn_codegen_item_ty(element), 0)")
    dyn = fn_body(tyrs, r"fn\s+dyn_codegen_item_ty\s*\(", "ConstTyTransformer::dyn_codegen_item_ty")
    if not re.search(r"if\s+let\s+CodegenTy::Array\(_inner,\s*_\)\s*=\s*ty\s*\{\s*ty\s*=\s*CodegenTy::Vec\(_inner\);", dyn):
        die("dyn_codegen_item_ty changed shape")

    # ---- ImplDefaultPlugin: Some(..) for optional fields with a default, Default::default() otherwise
    plug = strip_comments(read(repo, "pilota-build/src/plugin/mod.rs"))
    pm = re.search(r"impl\s+Plugin\s+for\s+ImplDefaultPlugin\s*\{", plug)
    if not pm:
        die("ImplDefaultPlugin not found")
    pimpl = plug[pm.end() - 1:balanced_end(blank_literals(plug), pm.end() - 1)]
    for rx, whatx in [(r"if\s+m\.fields\.iter\(\)\.all\(\|f\|\s*cx\.default_val\(f\)\.is_none\(\)\)", "derive(Default) iff no field has a default"),
                      (r"if\s+f\.is_optional\(\)\s*\{\s*val\s*=\s*format!\(\"Some\(\{val\}\)\"\)", "Some(..) for optional fields"),
                      (r"format!\(\"\{name\}: ::std::default::Default::default\(\)\"\)", "Default::default() for fields without default")]:
        if not re.search(rx, pimpl):
            die("ImplDefaultPlugin: %s changed shape" % whatx)

    out = ["(* GENERATED by tools/extract_gen.py from pilota-build/src/middle/context.rs (lit_into_ty, lit_as_rvalue, ident_into_ty,",
           "   default_val, def_lit), middle/ty.rs (should_lazy_static, ConstTyTransformer), db.rs (codegen_ty), plugin/mod.rs",
           "   (ImplDefaultPlugin) -- do not edit *)",
           "From PVGen Require Import LitKinds.", "Open Scope Z_scope.", ""]
    out += coq_arms("lit_into_ty_arms", [(a, f) for a, f, _ in into],
                    "Context::lit_into_ty: arms of `match (lit, ty)` in source order; the fall-through is panic!(\"unexpected literal\")")
    out.append("")
    out += coq_arms("lit_as_rvalue_arms", rvalue,
                    "Context::lit_as_rvalue: arms before the fall-through `_ => self.lit_into_ty(lit, ty)?`; the List arms at map types assert l.is_empty(), (List, LazyStaticRef) is the set const; CPLazyMap = LazyStaticRef guarded by `matches!( **map, Map | BTreeMap)`")
    out.append("")
    out += ["(* Context::ident_into_ty after the test `ident_ty == target`: arms of `match (ident_ty, target)` (both components are CodegenTy",
            "   kinds; the first is stored in an lpat-free pair list below); fall-through panic!(\"invalid convert\") *)",
            "Definition ident_into_ty_arms : list (list (cpat * cpat) * flagk) :=",
            "  [\n" + ";\n".join("    ([%s], %s)" % ("; ".join("(%s, %s)" % a for a in alts), fl) for alts, fl in ident) + "\n  ].", ""]
    out += ["(* (Int, F32 / F64) alternatives: (target kind, type of the `( *i) as ..` cast) *)",
            "Definition int_float_casts : list (cpat * cpat) := [%s]." % "; ".join("(%s, %s)" % c for c in sorted(casts)), "",
            "(* (Int, Bool): `let b = *i <op> <n>` as (op is `!=`, n) *)",
            "Definition int_bool_test : bool * Z := (%s, %s)." % ("true" if mb.group(1) == "!=" else "false",
                                                                  mb.group(2) if not mb.group(2).startswith("-") else "(%s)" % mb.group(2)), "",
            "(* the Path arm lowers the LITERAL of a const of container type (CodegenTy Array / LazyStaticRef) at the target type when the",
            "   two types differ (repair container-const-reference); false: every path goes to ident_into_ty *)",
            "Definition const_inline_present : bool := %s." % ("true" if const_inline_present else "false"), "",
            "(* double constants are parsed by parse_double: `-+x` = -(x) (repair double-sign-run); false: f.parse::<f64>().unwrap() *)",
            "Definition double_sign_run_ok : bool := %s." % ("true" if double_sign_run_ok else "false"), "",
            "(* the (Int, Adt Enum) arm names the member it found by the member's own path, i.e. by Context::rust_name as the enum's",
            "   definition does (pilota.name, change_case(false), name-collision fallback); false: spelled some other way *)",
            "Definition enum_number_member_path : bool := %s." % ("true" if enum_number_member_path else "false"), "",
            "(* mk_map lowers a map KEY through lit_as_rvalue (repair map-key-rvalue); false: through lit_into_ty, where a map literal has no arm *)",
            "Definition map_key_rvalue : bool := %s." % ("true" if map_key_rvalue else "false"), "",
            "(* arm 25 of lit_into_ty is (String, Vec) guarded by the element type U8 (repair string-at-bytesvec); false: no such arm *)",
            "Definition string_at_bytesvec_ok : bool := %s." % ("true" if string_at_bytesvec_ok else "false"), "",
            "(* parse_double first rewrites an exponent with several `-` signs or 0x digits: sign parity, decimal digits of the value",
            "   (repair double-exponent-form); false: the exponent text reaches f64::from_str as written *)",
            "Definition double_exponent_ok : bool := %s." % ("true" if double_exponent_ok else "false"), "",
            "(* CodegenTy::should_lazy_static: kinds answered `true` (Adt NewType: as its inner type; everything else false) *)",
            "Definition lazy_static_kinds : list cpat := [%s]." % "; ".join(lazy), "",
            "(* ConstTyTransformer: (kind the default transformer yields, constructors the override builds, outermost first) *)",
            "Definition const_ty_overrides : list (cpat * list cpat) :=",
            "  [" + ";\n   ".join("(%s, [%s])" % (k, "; ".join(v)) for k, v in over) + "]."]
    return "\n".join(out) + "\n"


def retain_table(repo):
    """C19: inventory of process-wide / thread-local retention sites of pilota/src/thrift (tools/gen_retain_inventory.py)"""
    sys.path.insert(0, os.path.dirname(os.path.abspath(__file__)))
    import gen_retain_inventory
    return gen_retain_inventory.retain_table(repo)


def template_sites(repo):
    """C19 / C09 (generated level): inventory of the emitted text of the Thrift templates (tools/gen_template_inventory.py)"""
    sys.path.insert(0, os.path.dirname(os.path.abspath(__file__)))
    import gen_template_inventory
    return gen_template_inventory.template_sites(repo)


GENERATORS = {"fam/gen/coq/Generated/GenTable.v": gen_table, "fam/gen/coq/Generated/LitTable.v": lit_table,
              "fam/gen/coq/Generated/RetainTable.v": retain_table, "fam/gen/coq/Generated/TemplateSites.v": template_sites}

if __name__ == "__main__":
    sys.stdout.write(gen_table(sys.argv[1] if len(sys.argv) > 1 else "/repo"))
