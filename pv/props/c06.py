"""C06 -- Protobuf wire format conforms to the protobuf encoding spec (interop)."""
from .. import pbcodec as pc


def groups(rng, tier):
    n = 4000 if tier == "quick" else 80000
    def out_oracle(case, out):
        # pilota's bytes are the reference encoder's bytes, and they read back
        return pc.oracle_spec_out(case, out) or pc.oracle_rt(case, out)
    # in direction at codec level: bytes of the independent reference encoder through merge / merge_repeated
    incases = []
    while len(incases) < n // 2:
        mod = rng.choice(pc.ALL_MODS)
        trail = pc.gen_trail(rng)
        if mod in pc.NUM and rng.random() < 0.5:
            toks = [pc.gen_value(rng, mod) for _ in range(rng.choice([1, 2, 3, 17, 60]))]
            body = b"".join(pc.ref_payload(mod, t) for t in toks)
            incases.append("mrgr %s 2 %s #%d %s" % (mod, pc.hx(pc.ref_varint(len(body)) + body + trail), len(trail), " ".join(toks)))
        else:
            tok = pc.gen_value(rng, mod)
            cmd = rng.choice(["mrg", "mrgr"])
            incases.append("%s %s %d %s #%d %s" % (cmd, mod, pc.wire_type_of(mod), pc.hx(pc.ref_payload(mod, tok) + trail), len(trail), tok))
    def in_oracle(case, out):
        line, note = case.split(" #")
        nt = note.split()
        trail, want = int(nt[0]), nt[1:]
        if "ORACLE-FAIL" in out:
            return out[out.index("ORACLE-FAIL"):][:200]
        o = pc.strip_tail(out).split()
        if not o or o[0] != "OK":
            return "a conforming encoding was not accepted: " + out[:200]
        got = [x for x in o[1:-1] if x not in ("[", "]")]
        if got != want:
            return "a conforming encoding was read as a different value"
        if o[-1] != "R%d" % trail:
            return "decoder left %s, expected R%d" % (o[-1], trail)
        return None
    return [("spec-out", pc.gen_rt_cases(rng, n), out_oracle), ("spec-in", incases, in_oracle)]


RULE = ("codec level: spec-out = rt/rtr/rtp cases (every codec module x tags x values x single/repeated/packed): the bytes written "
        "must equal the bytes of an independent Python reference encoder written from the encoding guide (zigzag, sign-extended "
        "int32, LE fixed widths, LEN strings, packed records) and read back; spec-in = reference-encoded payloads (single values and "
        "packed bodies, with trailing bytes) through merge / merge_repeated; generated-message level = pv/pbgen.run_c06: pilota's "
        "bytes reference-decode to the value, and every style of the reference encoder (shuffled records, packed / unpacked / mixed, "
        "defaults present or omitted, map entry value before key) decodes to the value, every scalar type in singular, optional, "
        "repeated, map-key, map-value and oneof position; group-holder-in = reference-built encodings of the hand-written "
        "GroupHolder<M> (group records shuffled, the optional group split over two records, unknown fields in between) read "
        "through encoding::group; every decode entry point (Message::decode / merge / decode_length_delimited / "
        "merge_length_delimited, decode_length_delimiter, and at codec level every merge / merge_repeated, decode_key, "
        "decode_varint) also over NON-CONTIGUOUS buffers holding the same bytes -- a multi-chunk Buf cut in two at every "
        "position of short inputs (after every continuation byte and at pseudo-random positions of long ones), Buf::chain, "
        "pieces of 1 / 2 / 3 / 7 bytes, a VecDeque<u8> that wraps around -- which must give the contiguous answer (value or "
        "error class); plus the finite lemma C06_module_table over the regenerated ty_module / lower_ty tables and "
        "C06_chunk_independent over the regenerated loop bound of decode_varint_slow")


def run(chk, replay=None):
    return pc.engine(chk, "C06", replay, groups, RULE, gen_fn="run_c06")
