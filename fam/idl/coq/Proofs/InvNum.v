(* C15, converse direction: integer and double constants read backwards. *)
From PVIdl Require Import Comb Ast Parser Print Proofs.Total Proofs.RoundTok Proofs.RoundPath Proofs.RoundAnn Proofs.RoundTy
  Proofs.RoundKit Proofs.Lex Proofs.RoundNum Proofs.InvKit Proofs.InvTok.
From Coq Require Import ZifyN ZifyNat ZifyBool.
From Coq Require String.
Import String.StringSyntax.
Open Scope nat_scope.

Lemma parse_unsigned_inv radix max ds v : (1 <= radix)%Z -> (0 <= max)%Z -> parse_unsigned radix max ds = Some v ->
  v = digits_value radix ds /\ (digits_value radix ds <= max)%Z.
Proof.
  intros Hr Hm H. unfold parse_unsigned in H. rewrite (digits_val_fold radix max Hr ds 0%Z) in H by lia.
  change (fold_left (stepf radix) ds 0%Z) with (digits_value radix ds) in H.
  destruct (digits_value radix ds <=? max)%Z eqn:E; inversion H; subst. split; [reflexivity|lia].
Qed.

Lemma iter_minus n r : Nat.iter n (fun k => sym_int_minus ++ k) r = minus_run n r.
Proof.
  induction n; [reflexivity|].
  change (Nat.iter (S n) (fun k => sym_int_minus ++ k) r) with (sym_int_minus ++ Nat.iter n (fun k => sym_int_minus ++ k) r).
  rewrite IHn. reflexivity.
Qed.

(* ---------- what does not fail ---------- *)
Definition nperr {A} (r : pres A) : Prop := ~ is_perr r.

(* the hexadecimal alternative reads "0x" and hexadecimal digits within i64 *)
Lemma hex_continues_ok ds r : is_zero ds = true -> hex_continues r = true -> nperr (int_hex (ds ++ r)).
Proof.
  intros Hz Hh. destruct ds as [|d [|? ?]]; try discriminate. cbn [is_zero] in Hz. apply byte_dec_bl in Hz. subst d.
  destruct r as [|b r]; [discriminate|]. cbn [hex_continues] in Hh. apply andb_prop in Hh. destruct Hh as [Hb Hh].
  apply byte_dec_bl in Hb. subst b. apply andb_prop in Hh. destruct Hh as [Hn Hv].
  unfold int_hex. change ([x30] ++ x78 :: r) with (sym_int_hex ++ r). rewrite tag_ok. cbn [pbind].
  unfold map_res, hex_digit1, span1. destruct (span_run is_hexdigit r) as [r' [-> _]].
  destruct (run is_hexdigit r) as [|h hs]; [discriminate|]. cbn [is_nil].
  rewrite parse_unsigned_value by (try lia; unfold i64_max; lia). intros C. exact C.
Qed.

Lemma many0_count_minus : forall fuel n t, hd_is (fun b => Byte.eqb b x2d) t = false ->
  many0_count fuel (tag sym_int_minus) (minus_run n t) = POk t n \/ many0_count fuel (tag sym_int_minus) (minus_run n t) = PFuel FLoop.
Proof.
  induction fuel as [|f IH]; intros n t Ht; [right; reflexivity|]. destruct n as [|n]; cbn [minus_run many0_count].
  - left. assert (E : is_perr (tag sym_int_minus t)).
    { destruct t as [|b r]; [exact I|]. apply tag_hd_ne. exact Ht. }
    destruct (tag sym_int_minus t); cbn in E; try contradiction. reflexivity.
  - change (x2d :: minus_run n t) with (sym_int_minus ++ minus_run n t). rewrite tag_ok.
    rewrite (same_len_app_false sym_int_minus) by discriminate.
    destruct (IH n t Ht) as [-> | ->]; [left|right]; reflexivity.
Qed.

(* where an integer constant starts (Print.int_starts), the parser does not answer Error *)
Lemma int_starts_nperr lf k : int_starts k = true -> nperr (p_int_constant lf k).
Proof.
  intros Hs. unfold int_starts in Hs. destruct (skip_minus_spec k) as [n [Ek Hm]]. set (t := skip_minus k) in *.
  apply andb_prop in Hs. destruct Hs as [Hne Hv].
  rewrite p_int_eq, Ek. destruct (many0_count_minus lf n t Hm) as [-> | ->]; [|intros C; exact C]. cbn [pbind].
  destruct (span_run is_digit t) as [r [Es [Et [Hr Hd]]]].
  assert (Ed : map_res digit1 (parse_unsigned 10 i64_max) t = POk r (digits_value 10 (run is_digit t))).
  { unfold map_res, digit1, span1. rewrite Es. destruct (run is_digit t); [discriminate|]. cbn [is_nil].
    rewrite parse_unsigned_value by (try lia; unfold i64_max; lia). reflexivity. }
  unfold int_alts. set (dec := map_res digit1 (parse_unsigned 10 i64_max)) in *. cbn [alt]. unfold int_hex at 1.
  destruct (tag sym_int_hex t) as [i1 a| | | |] eqn:E1; cbn [pbind].
  - unfold map_res, hex_digit1, span1. destruct (span is_hexdigit i1) as [hs r2]. destruct (is_nil hs).
    + rewrite Ed. intros C; exact C.
    + destruct (parse_unsigned 16 i64_max hs); [intros C; exact C|]. rewrite Ed. intros C; exact C.
  - rewrite Ed. intros C; exact C.
  - unfold tag in E1. destruct (strip_prefix sym_int_hex t); discriminate.
  - unfold tag in E1. destruct (strip_prefix sym_int_hex t); discriminate.
  - unfold tag in E1. destruct (strip_prefix sym_int_hex t); discriminate.
Qed.

(* where an exponent starts, the exponent parser does not answer Error *)
Lemma exp_starts_nperr lf e0 k : e0 = [x65] -> exp_starts k = true -> nperr (p_exponent lf e0 k).
Proof.
  intros -> Hs. destruct k as [|b k]; [discriminate|]. cbn [exp_starts] in Hs. apply andb_prop in Hs. destruct Hs as [Hb Hs].
  destruct (e_cases b Hb) as [u ->]. unfold p_exponent. rewrite (tag_nc_e [x65] u k eq_refl). cbn [pbind].
  pose proof (int_starts_nperr lf k Hs) as N. destruct (p_int_constant lf k); cbn [pbind]; intros C; try exact C. apply N. exact I.
Qed.
Lemma exp_err_starts lf e0 k : e0 = [x65] -> is_perr (p_exponent lf e0 k) -> exp_starts k = false.
Proof. intros E0 H. destruct (exp_starts k) eqn:E; [|reflexivity]. exfalso. exact (exp_starts_nperr lf e0 k E0 E H). Qed.

Theorem int_inv lf i r v : p_int_constant lf i = POk r v ->
  exists c, i = pr_int c r /\ erase_int c = v /\ wf_int c = true /\
            hd_sat (fun b => negb (if ci_hex c then is_hexdigit b else is_digit b)) r = true /\ int_stops c r = true.
Proof.
  rewrite p_int_eq. intros H. binv H. inversion H; subst.
  apply many0_count_tag_inv in E. destruct E as [-> _]. rewrite iter_minus.
  unfold int_alts in E0. apply alt_cons_inv in E0. destruct E0 as [E0|[Ehex E0]].
  - unfold int_hex in E0. apply pbind_ok in E0. destruct E0 as [i1 [t [E1 E0]]]. apply tag_inv in E1. destruct E1 as [-> _].
    apply map_res_inv in E0. destruct E0 as [ds [E0 P]]. unfold hex_digit1 in E0. apply span1_inv in E0.
    destruct E0 as [-> [Hne [Hd Hr]]]. destruct (parse_unsigned_inv 16 i64_max ds a0 ltac:(lia) ltac:(unfold i64_max; lia) P) as [-> Hv].
    exists (mkCInt a true ds). unfold pr_int, erase_int, int_abs, wf_int. cbn [ci_minus ci_hex ci_digits].
    change sym_int_hex with (txt "0x"). repeat split; auto.
    + rewrite Hd. destruct ds; [contradiction|]. cbn [is_nil negb andb]. unfold i64_max in Hv. apply Z.leb_le. exact Hv.
    + unfold int_stops. cbn [ci_hex]. now rewrite (hd_sat_is _ _ Hr).
  - apply alt_one_inv in E0. apply map_res_inv in E0. destruct E0 as [ds [E0 P]]. unfold digit1 in E0. apply span1_inv in E0.
    destruct E0 as [-> [Hne [Hd Hr]]]. destruct (parse_unsigned_inv 10 i64_max ds a0 ltac:(lia) ltac:(unfold i64_max; lia) P) as [-> Hv].
    exists (mkCInt a false ds). unfold pr_int, erase_int, int_abs, wf_int. cbn [ci_minus ci_hex ci_digits app].
    repeat split; auto.
    + rewrite Hd. destruct ds; [contradiction|]. cbn [is_nil negb andb]. unfold i64_max in Hv. apply Z.leb_le. exact Hv.
    + unfold int_stops. cbn [ci_hex ci_digits]. rewrite (hd_sat_is _ _ Hr). cbn [negb andb].
      destruct (is_zero ds && hex_continues r) eqn:Ez; [|reflexivity]. exfalso. apply andb_prop in Ez. destruct Ez as [Ez Eh].
      exact (hex_continues_ok ds r Ez Eh Ehex).
Qed.

Lemma tag_nc_e_inv e i r m : e = [x65] -> tag_no_case e i = POk r m -> exists u, i = ebyte u :: r.
Proof.
  intros -> H. unfold tag_no_case in H. destruct i as [|b i]; cbn [strip_prefix_nc] in H; [discriminate|].
  destruct (Byte.eqb (lower_ascii b) (lower_ascii x65)) eqn:E; [|discriminate]. inversion H; subst.
  assert (Hb : b = x65 \/ b = x45) by (revert E; clear; destruct b; vm_compute; intro H; try discriminate H; tauto).
  destruct Hb as [-> | ->]; [exists false|exists true]; reflexivity.
Qed.

Section Dbl.
Variable lf : nat.

Lemma exp_inv e0 i r u : e0 = [x65] -> p_exponent lf e0 i = POk r u ->
  exists ce, i = pr_exp ce r /\ wf_exp ce = true /\ int_stops (ce_int ce) r = true.
Proof.
  intros E0 H. unfold p_exponent in H. binv H. destruct (tag_nc_e_inv _ _ _ _ E0 E) as [up ->].
  destruct (int_inv _ _ _ _ E1) as [ci [-> [_ [Wi [_ Si]]]]]. inversion H; subst. exists (mkCExp up ci). unfold pr_exp, wf_exp. cbn [ce_upper ce_int].
  split; [destruct up; reflexivity|]. split; [exact Wi|exact Si].
Qed.

Lemma oexp_inv e0 i r o : e0 = [x65] -> opt (p_exponent lf e0) i = POk r o ->
  exists ce, i = pr_oexp ce r /\ wf_oexp ce = true /\ oexp_stops ce r = true.
Proof.
  intros E0 H. apply opt_inv in H. destruct H as [[u [-> H]]|[-> [-> Herr]]].
  - destruct (exp_inv _ _ _ _ E0 H) as [ce [-> [W Si]]]. exists (Some ce). auto.
  - exists None. cbn [pr_oexp wf_oexp oexp_stops]. repeat split. now rewrite (exp_err_starts lf e0 i E0 Herr).
Qed.

Lemma digit1_inv i r ds : digit1 i = POk r ds -> i = ds ++ r /\ ds <> [] /\ is_digits ds = true /\ hd_is is_digit r = false.
Proof. unfold digit1. intros H. apply span1_inv in H. destruct H as [H1 [H2 [H3 H4]]]. repeat split; auto. now apply hd_sat_is. Qed.

Lemma digit1_err_hd i : is_perr (digit1 i) -> hd_is is_digit i = false.
Proof.
  unfold digit1, span1. destruct i as [|b i]; [reflexivity|]. cbn [span hd_is]. destruct (is_digit b); [|reflexivity].
  destruct (span is_digit i). cbn [is_nil]. intros C. contradiction.
Qed.

Lemma odigit1_inv i r o : opt digit1 i = POk r o ->
  exists ds, i = ds ++ r /\ is_digits ds = true /\ (o = None -> ds = []) /\ hd_is is_digit r = false.
Proof.
  intros H. apply opt_inv in H. destruct H as [[ds [-> H]]|[-> [-> Herr]]].
  - destruct (digit1_inv _ _ _ H) as [-> [_ [Hd Hr]]]. exists ds. repeat split; auto. discriminate.
  - exists []. repeat split; auto. now apply digit1_err_hd.
Qed.

Lemma oexp_stops_body ce r : hd_is is_digit (pr_oexp ce r) = false -> oexp_stops ce r = true ->
  match ce with None => negb (hd_is is_digit r) && negb (exp_starts r) | Some e => int_stops (ce_int e) r end = true.
Proof. destruct ce as [e|]; cbn [pr_oexp oexp_stops]; intros H1 H2; [exact H2|]. now rewrite H1, H2. Qed.

Lemma dbody_inv i r u : alt (dbl_alts lf) i = POk r u -> exists b, i = pr_dbody b r /\ wf_dbody b = true /\ dbody_stops b r = true.
Proof.
  unfold dbl_alts. intros H. apply alt_cons_inv in H. destruct H as [H|[_ H]]; [|apply alt_cons_inv in H; destruct H as [H|[_ H]]].
  - unfold dbl_a in H. binv H. destruct (digit1_inv _ _ _ E) as [-> [Hne [Hd _]]]. apply tag_inv in E0. destruct E0 as [-> _].
    destruct (odigit1_inv _ _ _ E1) as [fp [-> [Hf [_ Hr]]]]. destruct (oexp_inv _ _ _ _ eq_refl E2) as [ce [-> [We Se]]]. inversion H; subst.
    exists (DBodyA a fp ce). cbn [pr_dbody wf_dbody dbody_stops]. split; [reflexivity|]. split.
    + rewrite Hd, Hf, We. destruct a; [contradiction|reflexivity].
    + pose proof (oexp_stops_body ce r Hr Se) as B. destruct ce; exact B.
  - unfold dbl_b in H. binv H. destruct (odigit1_inv _ _ _ E) as [ip [-> [Hi [Hn _]]]]. apply tag_inv in E0. destruct E0 as [-> _].
    destruct (digit1_inv _ _ _ E1) as [-> [Hne [Hd Hr]]]. destruct (oexp_inv _ _ _ _ eq_refl E2) as [ce [-> [We Se]]]. inversion H; subst.
    pose proof (oexp_stops_body ce r Hr Se) as B.
    destruct ip as [|d0 ip].
    + exists (DBodyB a1 ce). cbn [pr_dbody wf_dbody app dbody_stops]. split; [reflexivity|]. split; [|destruct ce; exact B].
      rewrite Hd, We. destruct a1; [contradiction|reflexivity].
    + (* digits before the dot: the first alternative would have read them -- the same text is also of the first form *)
      exists (DBodyA (d0 :: ip) a1 ce). cbn [pr_dbody wf_dbody dbody_stops]. split; [reflexivity|]. split; [now rewrite Hi, Hd, We|destruct ce; exact B].
  - apply alt_one_inv in H. unfold dbl_c in H. binv H. destruct (digit1_inv _ _ _ E) as [-> [Hne [Hd _]]].
    destruct (tag_nc_e_inv _ _ _ _ eq_refl E0) as [up ->]. destruct (int_inv _ _ _ _ E1) as [ci [-> [_ [Wi [_ Si]]]]]. inversion H; subst.
    exists (DBodyC a (mkCExp up ci)). cbn [pr_dbody wf_dbody dbody_stops]. unfold pr_exp, wf_exp. cbn [ce_upper ce_int].
    split; [destruct up; reflexivity|]. split; [|exact Si]. rewrite Hd, Wi. destruct a; [contradiction|reflexivity].
Qed.

Theorem dbl_inv i r s : p_double_constant lf i = POk r s ->
  exists d, i = pr_dbl d r /\ erase_dbl d = s /\ wf_dbl d = true /\ dbl_stops d r = true.
Proof.
  rewrite p_dbl_eq. intros H. apply map_res_inv in H. destruct H as [s' [H Es]]. inversion Es; subst s'.
  apply recognize_inv in H. destruct H as [u [H ->]]. unfold dbl_inner in H. binv H.
  destruct (dbody_inv _ _ _ H) as [b [-> [Wb Sb]]].
  assert (Em : exists m : bool, i = (if m then [x2d] else []) ++ i0).
  { apply opt_inv in E. destruct E as [[t [-> E]]|[-> [-> _]]]; [apply tag_inv in E; destruct E as [-> _]; exists true|exists false]; reflexivity. }
  assert (Ep : exists p : bool, i0 = (if p then [x2b] else []) ++ pr_dbody b r).
  { apply opt_inv in E0. destruct E0 as [[t [-> E0]]|[-> [-> _]]]; [apply tag_inv in E0; destruct E0 as [-> _]; exists true|exists false]; reflexivity. }
  destruct Em as [m ->]. destruct Ep as [p ->].
  exists (mkCDbl m p b). unfold erase_dbl, wf_dbl. cbn [cd_body].
  assert (Epr : (if m then [x2d] else []) ++ (if p then [x2b] else []) ++ pr_dbody b r = pr_dbl (mkCDbl m p b) r) by reflexivity.
  rewrite Epr. split; [reflexivity|]. split; [|split; [exact Wb|exact Sb]].
  rewrite (pr_dbl_app (mkCDbl m p b) r) at 1. now rewrite consumed_app.
Qed.

End Dbl.
