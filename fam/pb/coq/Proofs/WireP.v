(* Wire level: monadic round trips (varint, key), key_len, and the soundness invariant
   (no panic, no fuel exhaustion, the buffer never grows, ghost allocation + remaining bytes never
   grows) for the loops and skip_field. *)
From PVPb Require Import Wire Proofs.BitsP Proofs.VarintP.
From Coq Require Import ZifyN ZifyNat ZifyBool.
Open Scope Z_scope.

(* ------------------------------------------------------------------ monad plumbing *)
Lemma bind_ok {A B} (m : M A) (f : A -> M B) s a s' : m s = OOk a s' -> bind m f s = f a s'.
Proof. unfold bind. intros ->. reflexivity. Qed.

Lemma bind_err {A B} (m : M A) (f : A -> M B) s e s' : m s = OErr e s' -> bind m f s = OErr e s'.
Proof. unfold bind. intros ->. reflexivity. Qed.

Lemma bind_ret {A B} (a : A) (f : A -> M B) s : bind (ret a) f s = f a s.
Proof. reflexivity. Qed.

(* ------------------------------------------------------------------ varint, lifted *)
Theorem decode_varint_rt v r a : 0 <= v < two64 ->
  decode_varint (mkR (encode_varint v ++ r) a) = OOk v (mkR r a).
Proof.
  intros Hv. unfold decode_varint, lift_v. cbn [rb ra]. rewrite decode_varint_encode by auto. reflexivity.
Qed.

Theorem decode_varint_slow_rt v r a : 0 <= v < two64 ->
  decode_varint_slow (mkR (encode_varint v ++ r) a) = OOk v (mkR r a).
Proof.
  intros Hv. unfold decode_varint_slow, lift_v. cbn [rb ra]. rewrite decode_varint_slow_encode by auto. reflexivity.
Qed.

Theorem decode_varint_chunk_rt clen v r a : (1 <= clen)%nat -> 0 <= v < two64 ->
  decode_varint_chunk clen (mkR (encode_varint v ++ r) a) = OOk v (mkR r a).
Proof.
  intros Hc Hv. unfold decode_varint_chunk, lift_v. cbn [rb ra]. rewrite decode_varint_chunk_encode by auto. reflexivity.
Qed.

Theorem decode_varint_paths_agree clen s : (1 <= clen)%nat ->
  decode_varint_chunk clen s = decode_varint s /\ decode_varint_slow s = decode_varint s.
Proof.
  intros Hc. unfold decode_varint_chunk, decode_varint_slow, decode_varint, lift_v.
  rewrite chunk_is_spec by auto. rewrite slow_is_spec, decode_varint_is_spec. auto.
Qed.

(* what a successful decode_varint tells about the state *)
Lemma varint_spec_inv buf v rest : varint_spec buf = Some (v, rest) ->
  0 <= v < two64 /\ (length rest < length buf)%nat /\ (length buf <= length rest + 10)%nat /\
  exists p, buf = p ++ rest.
Proof.
  unfold varint_spec. intros H.
  pose proof (leb_scan_bounds 10 0 0 0%nat buf ltac:(lia) ltac:(cbn; lia)) as B.
  pose proof (leb_scan_suffix 10 0 0 0%nat buf) as Sf.
  destruct (leb_scan 10 0 0 0 buf) as [v' r c| |]; try discriminate.
  destruct (Z.ltb_spec v' two64); [|discriminate]. inversion H; subst.
  destruct B as (B1 & B2 & B3 & B4). destruct Sf as (S1 & S2 & S3). rewrite Nat.sub_0_r in *.
  split; [lia|]. split; [lia|]. split; [lia|].
  exists (firstn c buf). rewrite <- S3. symmetry. apply firstn_skipn.
Qed.

Lemma decode_varint_ok_inv s v s' : decode_varint s = OOk v s' ->
  0 <= v < two64 /\ ra s' = ra s /\ (length (rb s') < length (rb s))%nat /\
  (length (rb s) <= length (rb s') + 10)%nat /\ exists p, rb s = p ++ rb s'.
Proof.
  unfold decode_varint, lift_v. rewrite decode_varint_is_spec.
  destruct (varint_spec (rb s)) as [[v' rest]|] eqn:E; [|discriminate].
  intros H; inversion H; subst. cbn [rb ra].
  destruct (varint_spec_inv _ _ _ E) as (H1 & H2 & H3 & H4). auto.
Qed.

Lemma decode_varint_cases s :
  (exists v s', decode_varint s = OOk v s') \/ decode_varint s = OErr PVarint s.
Proof.
  unfold decode_varint, lift_v. rewrite decode_varint_is_spec.
  destruct (varint_spec (rb s)) as [[v rest]|]; eauto.
Qed.

(* ------------------------------------------------------------------ keys *)
Lemma wire_code_range wt : 0 <= wire_type_code wt < 8.
Proof. destruct wt; cbn; lia. Qed.

Lemma wire_of_code wt : wire_type_of_code (wire_type_code wt) = Some wt.
Proof. destruct wt; reflexivity. Qed.

Lemma tag_ok_range tag : tag_ok tag -> 1 <= tag < 2 ^ 29.
Proof. unfold tag_ok. change min_tag with 1. change max_tag with (2 ^ 29 - 1). lia. Qed.

Lemma tag_okb_spec tag : tag_okb tag = true <-> tag_ok tag.
Proof. unfold tag_okb, tag_ok. lia. Qed.

Definition key_of (tag : Z) (wt : wire_type) : Z := tag * 8 + wire_type_code wt.

Lemma key_of_range tag wt : tag_ok tag -> 8 <= key_of tag wt < two32.
Proof.
  intros H. apply tag_ok_range in H. pose proof (wire_code_range wt). unfold key_of, two32.
  change (2 ^ 29) with 536870912 in H. change (2 ^ 32) with 4294967296. lia.
Qed.

Lemma encode_key_eq tag wt : tag_ok tag -> encode_key tag wt = encode_varint (key_of tag wt).
Proof.
  intros H. pose proof (tag_ok_range _ H) as Hr. pose proof (wire_code_range wt).
  unfold encode_key, key_of. change key_shift with 3.
  rewrite shl32_small by (change (2 ^ 3) with 8; unfold two32; change (2 ^ 29) with 536870912 in Hr; change (2 ^ 32) with 4294967296; lia).
  rewrite lor_low_high by (change (2 ^ 3) with 8; lia). reflexivity.
Qed.

Theorem decode_key_rt tag wt r a : tag_ok tag ->
  decode_key (mkR (encode_key tag wt ++ r) a) = OOk (tag, wt) (mkR r a).
Proof.
  intros H. pose proof (key_of_range tag wt H) as Hk. pose proof (wire_code_range wt) as Hw.
  pose proof (tag_ok_range _ H) as Hr.
  rewrite encode_key_eq by auto. unfold decode_key.
  rewrite (bind_ok _ _ _ _ _ (decode_varint_rt (key_of tag wt) r a ltac:(unfold two64, two32 in *; change (2 ^ 64) with 18446744073709551616; change (2 ^ 32) with 4294967296 in Hk; lia))).
  replace (two32 - 1 <? key_of tag wt) with false by lia.
  change key_wt_mask with 7. rewrite land_7.
  replace (key_of tag wt mod 8) with (wire_type_code wt) by (unfold key_of; lia).
  rewrite wire_of_code. rewrite u32_small by lia.
  change key_tag_shift with 3. rewrite shiftr_div by lia. change (2 ^ 3) with 8.
  replace (key_of tag wt / 8) with tag by (unfold key_of; lia).
  change min_tag with 1. replace (tag <? 1) with false by lia. reflexivity.
Qed.

Theorem key_len_correct tag wt : tag_ok tag -> key_len tag = Z.of_nat (length (encode_key tag wt)).
Proof.
  intros H. pose proof (key_of_range tag wt H) as Hk. pose proof (wire_code_range wt) as Hw.
  pose proof (tag_ok_range _ H) as Hr.
  rewrite encode_key_eq by auto.
  assert (H64 : two32 <= two64) by (unfold two32, two64; apply Z.pow_le_mono_r; lia).
  rewrite encode_varint_length by lia.
  unfold key_len. change key_len_shift with 3.
  rewrite shl32_small by (change (2 ^ 3) with 8; unfold two32; change (2 ^ 29) with 536870912 in Hr; change (2 ^ 32) with 4294967296; lia).
  change (2 ^ 3) with 8.
  rewrite encoded_len_varint_nbytes by (unfold two32 in *; change (2 ^ 29) with 536870912 in Hr; change (2 ^ 32) with 4294967296 in *; lia).
  unfold nbytes, key_of.
  change (2 ^ 7) with 128. change (2 ^ 14) with 16384. change (2 ^ 21) with 2097152. change (2 ^ 28) with 268435456.
  change (2 ^ 35) with 34359738368. change (2 ^ 42) with 4398046511104. change (2 ^ 49) with 562949953421312.
  change (2 ^ 56) with 72057594037927936. change (2 ^ 63) with 9223372036854775808.
  repeat match goal with
  | |- context [if tag * 8 <? ?k then _ else _] => destruct (Z.ltb_spec (tag * 8) k)
  end; try (exfalso; change (2 ^ 29) with 536870912 in Hr; lia); repeat decide_if; reflexivity.
Qed.

Lemma key_len_range tag : tag_ok tag -> 1 <= key_len tag <= 5.
Proof.
  intros H. rewrite (key_len_correct tag Varint H). rewrite encode_key_eq by auto.
  pose proof (key_of_range tag Varint H) as Hk.
  assert (H64 : two32 <= two64) by (unfold two32, two64; apply Z.pow_le_mono_r; lia).
  rewrite encode_varint_length by lia. unfold nbytes. unfold two32 in Hk. change (2 ^ 32) with 4294967296 in Hk.
  change (2 ^ 7) with 128. change (2 ^ 14) with 16384. change (2 ^ 21) with 2097152. change (2 ^ 28) with 268435456.
  change (2 ^ 35) with 34359738368.
  repeat match goal with |- context [if key_of tag Varint <? ?k then _ else _] => destruct (Z.ltb_spec (key_of tag Varint) k) end; lia.
Qed.

Lemma encode_key_dbg_ok tag wt : tag_ok tag -> encode_key_dbg tag wt = inl (encode_key tag wt).
Proof. intros H. unfold encode_key_dbg. apply tag_okb_spec in H. rewrite H. reflexivity. Qed.

Lemma encode_key_nonempty tag wt : encode_key tag wt <> [].
Proof. unfold encode_key, encode_varint. cbn [enc_varint]. destruct (_ <? _); discriminate. Qed.

Lemma decode_key_ok_inv s tag wt s' : decode_key s = OOk (tag, wt) s' ->
  1 <= tag < 2 ^ 29 /\ ra s' = ra s /\ (length (rb s') < length (rb s))%nat /\ exists p, rb s = p ++ rb s'.
Proof.
  unfold decode_key, bind.
  destruct (decode_varint s) as [key s1|e s1|p] eqn:E; try discriminate.
  apply decode_varint_ok_inv in E. destruct E as (Hk & Ha & Hl & _ & Hp).
  destruct (Z.ltb_spec (two32 - 1) key); [discriminate|].
  destruct (wire_type_of_code (Z.land key key_wt_mask)); [|discriminate].
  change key_tag_shift with 3. rewrite shiftr_div by lia. change (2 ^ 3) with 8.
  change min_tag with 1.
  destruct (Z.ltb_spec (u32 key / 8) 1); [discriminate|].
  unfold ret. intros HH. inversion HH; subst.
  rewrite u32_small in * by (unfold two32 in *; lia).
  split; [|auto]. unfold two32 in *. change (2 ^ 32) with 4294967296 in *. change (2 ^ 29) with 536870912. lia.
Qed.

(* ------------------------------------------------------------------ soundness invariant *)
Definition pot (s : rd) : Z := ra s + Z.of_nat (length (rb s)).

(* s' is reachable from s by consuming bytes and charging at most what was consumed *)
Definition st_le (s' s : rd) : Prop := (length (rb s') <= length (rb s))%nat /\ pot s' <= pot s /\ ra s <= ra s'.
Definition st_lt (s' s : rd) : Prop := (length (rb s') < length (rb s))%nat /\ pot s' <= pot s /\ ra s <= ra s'.

Definition sound {A} (s : rd) (r : out A) : Prop :=
  match r with
  | OOk _ s' => st_le s' s
  | OErr e s' => e <> POutOfFuel /\ st_le s' s
  | OPanic _ => False
  end.

(* same, and a success consumes at least one byte *)
Definition sound_prog {A} (s : rd) (r : out A) : Prop :=
  match r with
  | OOk _ s' => st_lt s' s
  | OErr e s' => e <> POutOfFuel /\ st_le s' s
  | OPanic _ => False
  end.

Lemma st_le_refl s : st_le s s.
Proof. unfold st_le. lia. Qed.

Lemma st_le_trans a b c : st_le a b -> st_le b c -> st_le a c.
Proof. unfold st_le. lia. Qed.

Lemma st_lt_le a b : st_lt a b -> st_le a b.
Proof. unfold st_lt, st_le. lia. Qed.

Lemma st_lt_le_trans a b c : st_lt a b -> st_le b c -> st_lt a c.
Proof. unfold st_lt, st_le. lia. Qed.

Lemma st_le_lt_trans a b c : st_le a b -> st_lt b c -> st_lt a c.
Proof. unfold st_lt, st_le. lia. Qed.

Lemma sound_prog_sound {A} s (r : out A) : sound_prog s r -> sound s r.
Proof. destruct r; cbn; auto using st_lt_le. Qed.

Lemma sound_weaken {A} s0 s (r : out A) : st_le s s0 -> sound s r -> sound s0 r.
Proof.
  intros H. destruct r; cbn; auto.
  - intros; eapply st_le_trans; eauto.
  - intros [? ?]; split; auto. eapply st_le_trans; eauto.
Qed.

Lemma sound_bind {A B} (m : M A) (f : A -> M B) s :
  sound s (m s) -> (forall a s', m s = OOk a s' -> sound s' (f a s')) -> sound s (bind m f s).
Proof.
  unfold bind. destruct (m s) as [a s'|e s'|p]; cbn; auto.
  intros H1 H2. eapply sound_weaken; eauto.
Qed.

Lemma sound_prog_bind_l {A B} (m : M A) (f : A -> M B) s :
  sound_prog s (m s) -> (forall a s', m s = OOk a s' -> sound s' (f a s')) -> sound_prog s (bind m f s).
Proof.
  unfold bind. destruct (m s) as [a s'|e s'|p]; cbn; auto.
  intros H1 H2. specialize (H2 a s' eq_refl).
  destruct (f a s') as [b s''|e s''|p]; cbn in *; auto.
  - eapply st_le_lt_trans; eauto.
  - destruct H2; split; auto. eapply st_le_trans; eauto using st_lt_le.
Qed.

Lemma sound_prog_bind_r {A B} (m : M A) (f : A -> M B) s :
  sound s (m s) -> (forall a s', m s = OOk a s' -> sound_prog s' (f a s')) -> sound_prog s (bind m f s).
Proof.
  unfold bind. destruct (m s) as [a s'|e s'|p]; cbn; auto.
  intros H1 H2. specialize (H2 a s' eq_refl).
  destruct (f a s') as [b s''|e s''|p]; cbn in *; auto.
  - eapply st_lt_le_trans; eauto.
  - destruct H2; split; auto. eapply st_le_trans; eauto.
Qed.

Lemma sound_ret {A} (a : A) s : sound s (ret a s).
Proof. cbn. apply st_le_refl. Qed.

Lemma sound_fail {A} e s : e <> POutOfFuel -> sound s (@fail A e s).
Proof. cbn. auto using st_le_refl. Qed.

Lemma sound_remaining s : sound s (remaining s).
Proof. cbn. apply st_le_refl. Qed.

Lemma sound_prog_decode_varint s : sound_prog s (decode_varint s).
Proof.
  destruct (decode_varint_cases s) as [(v & s' & E)|E]; rewrite E; cbn.
  - apply decode_varint_ok_inv in E. destruct E as (_ & Ha & Hl & _). unfold st_lt, pot. lia.
  - split; [discriminate|apply st_le_refl].
Qed.

Lemma sound_prog_decode_key s : sound_prog s (decode_key s).
Proof.
  unfold decode_key. apply sound_prog_bind_l; [apply sound_prog_decode_varint|].
  intros key s' _. destruct (_ <? _); [apply sound_fail; discriminate|].
  destruct (wire_type_of_code _); [|apply sound_fail; discriminate].
  destruct (_ <? _); [apply sound_fail; discriminate|apply sound_ret].
Qed.

Lemma sound_check_wire_type e a s : sound s (check_wire_type e a s).
Proof. unfold check_wire_type. destruct (wire_type_eqb e a); [apply sound_ret|apply sound_fail; discriminate]. Qed.

Lemma sound_limit_reached ctx s : sound s (limit_reached ctx s).
Proof. unfold limit_reached. destruct (ctx =? 0); [apply sound_fail; discriminate|apply sound_ret]. Qed.

Lemma limit_reached_ok ctx s u s' : limit_reached ctx s = OOk u s' -> ctx <> 0 /\ s' = s.
Proof. unfold limit_reached. destruct (Z.eqb_spec ctx 0); cbn; intros H; inversion H; auto. Qed.

Lemma sound_enter_recursion ctx s : 0 < ctx -> sound s (enter_recursion ctx s).
Proof. intros. unfold enter_recursion. replace (ctx <? 1) with false by lia. apply sound_ret. Qed.

Lemma enter_recursion_ok ctx s c s' : enter_recursion ctx s = OOk c s' -> c = ctx - 1 /\ s' = s.
Proof. unfold enter_recursion. destruct (ctx <? 1); cbn; intros H; inversion H; auto. Qed.

(* charging for bytes that are then consumed keeps the invariant *)
Lemma sound_advance n s : (n <= length (rb s))%nat -> sound s (advance n s).
Proof.
  intros H. unfold advance. replace (Nat.ltb (length (rb s)) n) with false by (symmetry; apply Nat.ltb_ge; lia).
  cbn. unfold st_le, pot. cbn [rb ra]. rewrite skipn_length. lia.
Qed.

(* ------------------------------------------------------------------ loops *)
Lemma while_remaining_sound {T} (body : T -> M T) limit :
  (forall v s, sound_prog s (body v s)) ->
  forall fuel v s, (length (rb s) < fuel)%nat -> sound s (while_remaining fuel limit body v s).
Proof.
  intros Hb. induction fuel as [|f IH]; intros v s Hf; [lia|].
  cbn [while_remaining]. destruct (Nat.ltb limit (length (rb s))); [|apply sound_ret].
  apply sound_bind; [apply sound_prog_sound, Hb|].
  intros v' s' E. apply IH. specialize (Hb v s). rewrite E in Hb. cbn in Hb. unfold st_lt in Hb. lia.
Qed.

Lemma while_rem_sound {T} (body : T -> M T) limit v s :
  (forall v s, sound_prog s (body v s)) -> sound s (while_rem limit body v s).
Proof.
  intros Hb. unfold while_rem. apply sound_bind; [apply sound_remaining|].
  intros rem s' E. inversion E; subst. apply while_remaining_sound; auto.
Qed.

Lemma merge_loop_sound {T} (body : T -> M T) v s :
  (forall v s, sound_prog s (body v s)) -> sound_prog s (merge_loop body v s).
Proof.
  intros Hb. unfold merge_loop. apply sound_prog_bind_l; [apply sound_prog_decode_varint|].
  intros len s1 _. apply sound_bind; [apply sound_remaining|]. intros rem s2 E. inversion E; subst.
  destruct (_ <? _); [apply sound_fail; discriminate|].
  apply sound_bind; [apply while_rem_sound; auto|]. intros v' s3 _.
  apply sound_bind; [apply sound_remaining|]. intros rem' s4 E'. inversion E'; subst.
  destruct (Nat.eqb _ _); [apply sound_ret|apply sound_fail; discriminate].
Qed.

Lemma group_loop_f_sound {T} (body : T -> Z -> wire_type -> M T) tag :
  (forall v t w s, sound s (body v t w s)) ->
  forall fuel v s, (length (rb s) < fuel)%nat -> sound s (group_loop_f fuel tag body v s).
Proof.
  intros Hb. induction fuel as [|f IH]; intros v s Hf; [lia|].
  cbn [group_loop_f]. apply sound_bind; [apply sound_prog_sound, sound_prog_decode_key|].
  intros [ftag fwt] s1 E.
  pose proof (sound_prog_decode_key s) as Hp. rewrite E in Hp. cbn in Hp.
  assert (Hgo : sound s1 (bind (body v ftag fwt) (fun v' => group_loop_f f tag body v') s1)).
  { apply sound_bind; [apply Hb|]. intros v' s2 E2. apply IH.
    specialize (Hb v ftag fwt s1). rewrite E2 in Hb. cbn in Hb. unfold st_lt, st_le in *. lia. }
  destruct fwt; try exact Hgo.
  destruct (ftag =? tag); [apply sound_ret|apply sound_fail; discriminate].
Qed.

Lemma group_loop_sound {T} (body : T -> Z -> wire_type -> M T) tag v s :
  (forall v t w s, sound s (body v t w s)) -> sound s (group_loop tag body v s).
Proof.
  intros Hb. unfold group_loop. apply sound_bind; [apply sound_remaining|].
  intros rem s' E. inversion E; subst. apply group_loop_f_sound; auto.
Qed.

(* ------------------------------------------------------------------ skip_field: total and bounded *)
Theorem skip_field_sound : forall d wt tag ctx s,
  0 <= ctx < Z.of_nat d -> sound s (skip_field d wt tag ctx s).
Proof.
  induction d as [|d IH]; intros wt tag ctx s Hc; [lia|].
  cbn [skip_field].
  apply sound_bind; [apply sound_limit_reached|]. intros u s1 E1.
  apply limit_reached_ok in E1. destruct E1 as [Hnz ->].
  apply sound_bind.
  - destruct wt.
    + apply sound_bind; [apply sound_prog_sound, sound_prog_decode_varint|]. intros; apply sound_ret.
    + apply sound_ret.
    + apply sound_prog_sound, sound_prog_decode_varint.
    + apply sound_bind; [|intros; apply sound_ret].
      apply group_loop_sound. intros [] t w s2.
      apply sound_bind; [apply sound_enter_recursion; lia|]. intros c s3 E3.
      apply enter_recursion_ok in E3. destruct E3 as [-> ->]. apply IH. lia.
    + apply sound_fail; discriminate.
    + apply sound_ret.
  - intros len s2 _. apply sound_bind; [apply sound_remaining|]. intros rem s3 E. inversion E; subst.
    destruct (Z.ltb_spec (Z.of_nat (length (rb s3))) len); [apply sound_fail; discriminate|].
    destruct (Z_le_gt_dec 0 len); [apply sound_advance; lia|].
    replace (Z.to_nat len) with 0%nat by lia. apply sound_advance. lia.
Qed.

(* nesting beyond the context's budget is rejected *)
Lemma skip_field_limit d wt tag s : skip_field (S d) wt tag 0 s = OErr PRecursion s.
Proof. reflexivity. Qed.
