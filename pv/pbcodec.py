"""Codec-level case generators and implementation-only oracles of the protobuf family
(pilota::prost::encoding called directly).  Used by pv/props/c05.py c06.py c10.py c18.py.

Case lines (same for fam/pb/runner/runner and the Rust harness pv-harness-pb):
  vi <hex> | ve <u64> | key <tag> <wt> | dkey <hex> | ld <hex>
  enc|encr|encp <module> <tag> <values..>          -> <hex> L<len>
  rt|rtr|rtp <module> <tag> <trailing hex> <values..> -> <hex> L<len> OK [K<tag>,<wt>] <value(s)> R<rem> | .. ERR <class>
  mrg|mrgr <module> <wt> <hex>                     -> OK <value(s)> R<rem> | ERR <class>
  skip <wt> <tag> <hex>                            -> OK R<rem> | ERR <class>
values: i<decimal> (bool 0/1, float/double = IEEE bit pattern) | b<hex> ; trailing token A<units> (model)
or P<peak bytes> (implementation)."""
import random, struct

NUM = {   # module -> (lo, hi) inclusive
    "bool": (0, 1), "int32": (-2**31, 2**31 - 1), "int64": (-2**63, 2**63 - 1), "uint32": (0, 2**32 - 1),
    "uint64": (0, 2**64 - 1), "sint32": (-2**31, 2**31 - 1), "sint64": (-2**63, 2**63 - 1),
    "float": (0, 2**32 - 1), "double": (0, 2**64 - 1), "fixed32": (0, 2**32 - 1), "fixed64": (0, 2**64 - 1),
    "sfixed32": (-2**31, 2**31 - 1), "sfixed64": (-2**63, 2**63 - 1),
}
LEN = ["string", "faststr", "bytes", "bytesvec"]
VARINT_MODS = ["bool", "int32", "int64", "uint32", "uint64", "sint32", "sint64"]
FIXED32 = ["float", "fixed32", "sfixed32"]
FIXED64 = ["double", "fixed64", "sfixed64"]
ALL_MODS = list(NUM) + LEN
TAGS = [1, 2, 15, 16, 2047, 2048, 262143, 262144, 33554431, 33554432, 536870911]
WT = {"varint": 0, "f64": 1, "len": 2, "sgroup": 3, "egroup": 4, "f32": 5}


def hx(b):
    return b.hex() if b else "-"


def wire_type_of(mod):
    if mod in VARINT_MODS: return 0
    if mod in FIXED32: return 5
    if mod in FIXED64: return 1
    return 2


def gen_tag(rng):
    r = rng.random()
    if r < 0.5: return rng.choice(TAGS)
    if r < 0.8: return rng.randint(1, 2**29 - 1)
    return max(1, min(2**29 - 1, (1 << rng.randint(0, 29)) + rng.randint(-2, 2)))


def gen_int(rng, lo, hi):
    r = rng.random()
    if r < 0.35:
        c = [lo, hi, 0, 1, -1, lo + 1, hi - 1, 127, 128, 255, 256, 2**31 - 1, 2**31, -2**31, 2**32 - 1, 2**32, 2**63 - 1,
             2**63, -2**63, 2**64 - 1, 2**21 - 1, 2**21, 2**28, 2**35, 2**42, 2**49, 2**56, -128, -129]
        v = rng.choice(c)
    elif r < 0.7:
        k = rng.randint(0, 64)
        v = (1 << k) + rng.randint(-3, 3)
        if rng.random() < 0.5: v = -v
    else:
        v = rng.randint(lo, hi)
    return max(lo, min(hi, v))


UTF8_PIECES = ["", "a", "hello", "é", "€", "\U0001f600", "\x00", "\x7f", "ࠀ", "￿", "\U00010000", "\U0010ffff", "z" * 127, "y" * 128, "x" * 300]


def gen_bytes(rng, utf8):
    if utf8:
        return "".join(rng.choice(UTF8_PIECES) for _ in range(rng.choice([0, 1, 1, 2, 3]))).encode("utf-8")
    n = rng.choice([0, 0, 1, 2, 3, 10, 127, 128, 129, 300])
    return bytes(rng.randrange(256) for _ in range(n))


def gen_value(rng, mod):
    if mod in NUM:
        if mod in ("float", "double") and rng.random() < 0.4:
            if mod == "float":
                return "i%d" % rng.choice([0, 0x80000000, 0x7f800000, 0xff800000, 0x7fc00000, 0x7fc00001, 0xffc00000, 1, 0x3f800000])
            return "i%d" % rng.choice([0, 1 << 63, 0x7ff0000000000000, 0xfff0000000000000, 0x7ff8000000000000, 0x7ff8000000000001, 1, 0x3ff0000000000000])
        lo, hi = NUM[mod]
        return "i%d" % gen_int(rng, lo, hi)
    return "b" + hx(gen_bytes(rng, utf8=mod in ("string", "faststr")))


def gen_trail(rng):
    return bytes(rng.randrange(256) for _ in range(rng.choice([0, 0, 1, 2, 7])))


# ---------------------------------------------------------------- independent reference encoder (spec)
def ref_varint(u):
    assert 0 <= u < 2**64
    out = bytearray()
    while True:
        b = u & 0x7f
        u >>= 7
        if u:
            out.append(b | 0x80)
        else:
            out.append(b)
            return bytes(out)


def ref_key(tag, wt):
    return ref_varint((tag << 3) | wt)


def ref_payload(mod, tok):
    """bytes after the key, per the protobuf encoding guide"""
    if mod in NUM:
        v = int(tok[1:])
        if mod == "bool": return ref_varint(1 if v else 0)
        if mod in ("int32", "int64"): return ref_varint(v & (2**64 - 1))
        if mod in ("uint32", "uint64"): return ref_varint(v)
        if mod == "sint32": return ref_varint((2 * v) if v >= 0 else (-2 * v - 1))
        if mod == "sint64": return ref_varint((2 * v) if v >= 0 else (-2 * v - 1))
        if mod in ("float", "fixed32"): return struct.pack("<I", v)
        if mod in ("double", "fixed64"): return struct.pack("<Q", v)
        if mod == "sfixed32": return struct.pack("<i", v)
        if mod == "sfixed64": return struct.pack("<q", v)
    b = bytes.fromhex(tok[1:]) if tok[1:] != "-" else b""
    return ref_varint(len(b)) + b


def ref_encode(mod, tag, tok):
    return ref_key(tag, wire_type_of(mod)) + ref_payload(mod, tok)


def ref_encode_packed(mod, tag, toks):
    if not toks: return b""
    body = b"".join(ref_payload(mod, t) for t in toks)
    return ref_key(tag, 2) + ref_varint(len(body)) + body


# ---------------------------------------------------------------- case generation
def gen_rt_cases(rng, n):
    cases = []
    # every module x boundary tags, deterministic head
    for mod in ALL_MODS:
        for tag in (1, 15, 16, 2047, 2048, 536870911):
            cases.append("rt %s %d - %s" % (mod, tag, gen_value(rng, mod)))
    for v in (-1, -2**31, 2**31 - 1, 0):
        cases.append("rt int32 1 ff i%d" % v)
        cases.append("rt sint32 1 ff i%d" % v)
    for v in (-1, -2**63, 2**63 - 1, 0):
        cases.append("rt int64 1 ff i%d" % v)
        cases.append("rt sint64 1 ff i%d" % v)
    while len(cases) < n:
        mod = rng.choice(ALL_MODS)
        tag = gen_tag(rng)
        trail = hx(gen_trail(rng))
        r = rng.random()
        if r < 0.45:
            cases.append("rt %s %d %s %s" % (mod, tag, trail, gen_value(rng, mod)))
        elif r < 0.75 or mod in LEN:
            k = rng.choice([0, 1, 2, 3, 5, 17])
            cases.append(("rtr %s %d %s %s" % (mod, tag, trail, " ".join(gen_value(rng, mod) for _ in range(k)))).rstrip())
        else:
            k = rng.choice([0, 1, 2, 3, 5, 17, 40, 130])
            cases.append(("rtp %s %d %s %s" % (mod, tag, trail, " ".join(gen_value(rng, mod) for _ in range(k)))).rstrip())
    return cases


def gen_wire_cases(rng, n):
    """varints (every length, overflow edge), keys"""
    cases = []
    for v in [0, 1, 127, 128, 300, 16383, 16384, 2**21 - 1, 2**21, 2**28 - 1, 2**28, 2**35 - 1, 2**35, 2**42 - 1, 2**42,
              2**49 - 1, 2**49, 2**56 - 1, 2**56, 2**63 - 1, 2**63, 2**64 - 1]:
        cases.append("ve %d" % v)
        cases.append("vi %s" % hx(ref_varint(v) + b"\x05"))
    cases += ["vi -", "vi 80", "vi ff", "vi ffffffffffffffffff01", "vi ffffffffffffffffff02", "vi ffffffffffffffffff7f",
              "vi ffffffffffffffffffff01", "vi 8080808080808080808000", "vi 80808080808080808000", "vi 8000", "vi 808000"]
    for tag in TAGS:
        for wt in range(6):
            cases.append("key %d %d" % (tag, wt))
    cases += ["dkey 00", "dkey 06", "dkey 07", "dkey 0f", "dkey 08", "dkey ffffffff0f", "dkey ffffffff1f", "dkey 8080808010", "dkey -"]
    while len(cases) < n:
        r = rng.random()
        if r < 0.3:
            cases.append("ve %d" % gen_int(rng, 0, 2**64 - 1))
        elif r < 0.65:
            k = rng.randint(0, 12)
            b = bytes((rng.randrange(128) | (0x80 if i < k - 1 and rng.random() < 0.9 else 0)) for i in range(k)) + gen_trail(rng)
            cases.append("vi %s" % hx(b))
        elif r < 0.8:
            cases.append("key %d %d" % (gen_tag(rng), rng.randrange(6)))
        else:
            v = gen_int(rng, 0, 2**36)
            cases.append("dkey %s" % hx(ref_varint(v) + gen_trail(rng)))
    return cases


def ref_unknown_record(rng, tag, depth, wts=(0, 1, 2, 3, 5)):
    """a well-formed record with the given tag (any wire type, groups well nested); returns (wire type, bytes after the key)"""
    wt = rng.choice(wts if depth > 0 else [w for w in wts if w != 3] or [0])
    if wt == 0: return wt, ref_varint(gen_int(rng, 0, 2**64 - 1))
    if wt == 1: return wt, bytes(rng.randrange(256) for _ in range(8))
    if wt == 5: return wt, bytes(rng.randrange(256) for _ in range(4))
    if wt == 2:
        b = gen_bytes(rng, False)
        return wt, ref_varint(len(b)) + b
    body = b""
    for _ in range(rng.choice([0, 1, 2, 3])):
        t = gen_tag(rng)
        w, p = ref_unknown_record(rng, t, depth - 1)
        body += ref_key(t, w) + p
    return 3, body + ref_key(tag, 4)


def nested_groups(tag, depth):
    return b"".join(ref_key(tag, 3) for _ in range(depth - 1)) + b"".join(ref_key(tag, 4) for _ in range(depth))


def gen_skip_cases(rng, n):
    cases = []
    for d in [1, 2, 50, 98, 99, 100, 101, 102, 150, 300]:
        cases.append("skip 3 7 %s" % hx(nested_groups(7, d) + b"\x01"))
    cases += ["skip 4 1 -", "skip 3 1 0c", "skip 3 1 14", "skip 3 1 -", "skip 0 1 -", "skip 1 1 00000000000000", "skip 5 1 000000",
              "skip 2 1 05aabbccdd", "skip 2 1 ffffffffffffffffff01", "skip 2 1 ffffffffffffffffff7f"]
    while len(cases) < n:
        tag = gen_tag(rng)
        wt, p = ref_unknown_record(rng, tag, rng.choice([0, 1, 2, 4]))
        trail = gen_trail(rng)
        data = p + trail
        r = rng.random()
        if r < 0.6:
            pass
        elif r < 0.8 and data:
            data = data[:rng.randrange(len(data))]
        elif data:
            i = rng.randrange(len(data))
            data = data[:i] + bytes([data[i] ^ (1 << rng.randrange(8))]) + data[i + 1:]
        cases.append("skip %d %d %s #%d" % (wt, tag, hx(data), len(trail) if r < 0.6 else -1))
    return cases


def gen_malformed_cases(rng, n):
    """arbitrary bytes, truncations, bit flips and length corruptions against every merge function"""
    cases = []
    for mod in ALL_MODS:
        for wt in range(6):
            cases.append("mrg %s %d -" % (mod, wt))
            cases.append("mrg %s %d %s" % (mod, wt, hx(bytes(rng.randrange(256) for _ in range(12)))))
            cases.append("mrgr %s %d %s" % (mod, wt, hx(bytes(rng.randrange(256) for _ in range(12)))))
    for mod in LEN:
        cases.append("mrg %s 2 ffffffffffffffffff01" % mod)        # length 2^64-1
        cases.append("mrg %s 2 ffffffff0f" % mod)                   # 4 GiB
        cases.append("mrg %s 2 8080808010aabb" % mod)               # 2^32 (usize truncation on 32-bit)
        cases.append("mrg %s 2 05aabbccdd" % mod)                   # one byte short
        cases.append("mrgr %s 2 05aabbccdd" % mod)
    for mod in NUM:
        cases.append("mrgr %s 2 ffffffffffffffffff01" % mod)
        cases.append("mrgr %s 2 ffffffff0f00" % mod)
        cases.append("mrgr %s 2 05aabbccdd" % mod)
        cases.append("mrgr %s 2 03ffffff" % mod)
        cases.append("mrgr %s 2 0affffffffffffffffff01" % mod)     # packed 10-byte varint
        cases.append("mrgr %s 2 0bffffffffffffffffff0101" % mod)
    while len(cases) < n:
        mod = rng.choice(ALL_MODS)
        r = rng.random()
        if r < 0.25:
            data = bytes(rng.randrange(256) for _ in range(rng.choice([0, 1, 2, 3, 5, 9, 10, 11, 20, 40])))
            cmd, wt = rng.choice([("mrg", rng.randrange(6)), ("mrgr", rng.randrange(6))])
        else:
            # start from a valid payload
            if mod in NUM and rng.random() < 0.5:
                toks = [gen_value(rng, mod) for _ in range(rng.choice([1, 2, 5, 20]))]
                body = b"".join(ref_payload(mod, t) for t in toks)
                data = ref_varint(len(body)) + body
                cmd, wt = "mrgr", 2
            else:
                data = ref_payload(mod, gen_value(rng, mod))
                cmd, wt = rng.choice(["mrg", "mrgr"]), wire_type_of(mod)
            data += gen_trail(rng)
            k = rng.random()
            if k < 0.3 and data:
                data = data[:rng.randrange(len(data))]
            elif k < 0.6 and data:
                i = rng.randrange(len(data))
                data = data[:i] + bytes([data[i] ^ (1 << rng.randrange(8))]) + data[i + 1:]
            elif k < 0.75:
                data = ref_varint(gen_int(rng, 0, 2**64 - 1)) + data[1:]
            if rng.random() < 0.1:
                wt = rng.randrange(6)
        cases.append("%s %s %d %s" % (cmd, mod, wt, hx(data)))
    return cases


# ---------------------------------------------------------------- outputs
def strip_tail(line):
    """drops the trailing A<units> / P<bytes> token and any ORACLE-FAIL note"""
    i = line.find(" ORACLE-FAIL")
    if i >= 0:
        line = line[:i]
    t = line.rsplit(" ", 1)
    if len(t) == 2 and len(t[1]) > 1 and t[1][0] in "AP" and t[1][1:].isdigit():
        return t[0]
    return line


def tail_num(line, letter):
    t = line.rsplit(" ", 1)
    if len(t) == 2 and t[1][:1] == letter and t[1][1:].isdigit():
        return int(t[1][1:])
    return None


def norm_model(line):
    # the implementation cannot name the panic site
    if line.startswith("PANIC"): return "PANIC"
    return strip_tail(line)


def norm_impl(line):
    if line.startswith("PANIC"): return "PANIC"
    return strip_tail(line)


def case_line(case):
    """the part of a generated case that is sent to the runners (generator notes follow ' #')"""
    return case.split(" #")[0]


def canon_floats(mod, toks):
    return toks


def oracle_rt(case, out):
    """C05 on the implementation alone: round trip, consumed exactly, len = bytes written"""
    t = case_line(case).split()
    cmd, mod, tag, trail = t[0], t[1], int(t[2]), t[3]
    vals = t[4:]
    o = strip_tail(out).split()
    if out.startswith("PANIC") or out.startswith("CRASH") or out.startswith("HANG") or out.startswith("BADCASE"):
        return "encode/decode of a valid value did not complete: " + out[:200]
    if "ORACLE-FAIL" in out:
        return out[out.index("ORACLE-FAIL"):]
    if len(o) < 3 or not o[1].startswith("L"):
        return "malformed output"
    nbytes = 0 if o[0] == "-" else len(o[0]) // 2
    if int(o[1][1:]) != nbytes:
        return "encoded_len reports %s but %d bytes were written" % (o[1][1:], nbytes)
    if o[2] != "OK":
        return "decoding the bytes just written failed: " + " ".join(o[2:])
    rest = o[3:]
    if cmd == "rt":
        if rest[0] != "K%d,%d" % (tag, wire_type_of(mod)):
            return "key read back as %s" % rest[0]
        got, rem = rest[1:-1], rest[-1]
    else:
        if rest[0] != "[" or rest[-2] != "]":
            return "malformed output"
        got, rem = rest[1:-2], rest[-1]
    if got != vals:
        return "value read back differs from value written"
    want_rem = 0 if trail == "-" else len(trail) // 2
    if rem != "R%d" % want_rem:
        return "decoder left %s, %d trailing bytes were appended" % (rem, want_rem)
    return None


def oracle_spec_out(case, out):
    """C06 (out direction) on the implementation alone: the bytes written are the spec's bytes"""
    t = case_line(case).split()
    cmd, mod, tag = t[0], t[1], int(t[2])
    vals = t[4:]
    o = out.split()
    if not o:
        return "no output"
    if cmd == "rt":
        want = ref_encode(mod, tag, vals[0])
    elif cmd == "rtr":
        want = b"".join(ref_encode(mod, tag, v) for v in vals)
    else:
        want = ref_encode_packed(mod, tag, vals)
    if o[0] != hx(want):
        return "bytes written differ from the reference encoding %s" % hx(want)[:120]
    return None


def oracle_total(case, out, inlen):
    """C10 on the implementation alone"""
    if out.startswith("PANIC") or out.startswith("CRASH") or out.startswith("HANG"):
        return "decoder did not return: " + out[:200]
    if "ORACLE-FAIL" in out:
        return out[out.index("ORACLE-FAIL"):]
    p = tail_num(out, "P")
    if p is not None and p > 64 * inlen + 65536:
        return "peak allocation %d bytes for %d input bytes" % (p, inlen)
    return None


def nontrivial(case):
    t = case_line(case).split()
    return len(t) > 3 and t[-1] not in ("-",)


# ---------------------------------------------------------------- check engine shared by C05 C06 C10 C18
def engine(chk, prop, replay, groups_fn, rule, gen_fn=None, need_edv=True):
    """groups_fn(rng, tier) -> list of (group name, cases, oracle(case, impl_out) -> None | reason).
    gen_fn = pbgen.run_cXX (generated-message level) or None.  Handles set-up, the model/implementation
    comparison, the implementation-only oracles, replay and reporting."""
    import os
    from . import core
    fam = core.Family("pb")
    gate, hb = core.std_setup(chk, fam=fam)
    rng = random.Random(chk.seed)
    chk.cov["rule"] = rule
    chk.cov["checker_cmd"] = ("make -C fam/pb/coq Properties/%s.vo && coqc -Q coq PV -Q fam/pb/coq PVPb Properties/%s.v "
                              "(Print Assumptions allowlist, forbidden-vernacular grep)" % (prop, prop))
    runner = fam.runner if os.path.exists(fam.runner) else None
    failing, mism, dist = [], [], {}
    groups = groups_fn(rng, chk.tier)
    if replay is not None:
        if replay.get("level", "codec") == "codec":
            groups = [(g, [replay["case"]], o) for g, _, o in groups if g == replay.get("group")]
        else:
            groups = []
    ncodec = 0
    for gname, cases, oracle in groups:
        lines = [case_line(c) for c in cases]
        impl = core.run_lines(hb, lines) if hb else None
        model = core.run_lines(runner, lines) if runner else None
        dist[gname] = len(cases)
        ncodec += len(cases)
        for i, c in enumerate(cases):
            chk.count(c, nontrivial(c))
            if impl is not None:
                why = oracle(c, impl[i])
                if why:
                    failing.append((dict(kind="case", level="codec", group=gname, case=c, impl_output=impl[i][:2000]), why))
                if model is not None and norm_impl(impl[i]) != norm_model(model[i]):
                    mism.append(dict(kind="correspondence", level="codec", group=gname, case=c, impl_output=impl[i][:2000],
                                     model_output=model[i][:2000],
                                     correspondence="pb-codec (fam/pb/coq/{Wire,Codec}.v vs pilota::prost::encoding)"))
        if cases:
            chk.sample(cases[0]); chk.sample(cases[len(cases) // 2])
    # generated-message level
    ngen = 0
    if gen_fn is not None and (replay is None or replay.get("level") == "gen"):
        try:
            from . import pbgen
            bins = {}
            if hb:
                g = os.path.join(os.path.dirname(hb), "pv-gen-pb")
                if os.path.exists(g):
                    bins["plain"] = g
            if need_edv and hb:
                fam2 = core.Family("pb")
                fam2.target = fam.target + "_edv"
                ok, hb2, log = core.build_harness(fam=fam2, features="edv")
                if ok:
                    g2 = os.path.join(os.path.dirname(hb2), "pv-gen-pb")
                    if os.path.exists(g2):
                        bins["edv"] = g2
                else:
                    chk.violation("harness (feature pb-encode-default-value) does not build against the working tree: " + log[-300:],
                                  dict(kind="harness-build", output=log), no_input=True)
            if bins and not hasattr(pbgen, gen_fn):
                chk.notes.append("generated-message level not available: pbgen.%s missing" % gen_fn)
            elif bins:
                corpus = pbgen.load_corpus()
                f2, m2, n2 = getattr(pbgen, gen_fn)(chk, prop, corpus, bins, runner, rng, chk.tier, replay)
                ngen = n2
                for case, why, out in f2:
                    failing.append((dict(kind="case", level="gen", case=case, impl_output=str(out)[:2000]), why))
                for m in m2:
                    d = m if isinstance(m, dict) else dict(case=str(m))
                    d.setdefault("kind", "correspondence"); d["level"] = "gen"
                    d.setdefault("correspondence", "pb-gen (fam/pb/coq/Msg.v vs code emitted by pilota-build)")
                    mism.append(d)
        except ImportError as e:
            chk.notes.append("generated-message level not available: %s" % e)
    dist["generated_message_cases"] = ngen
    chk.cov.setdefault("distribution", {}).update(dist)
    chk.cov["disagreements_checked"] = ncodec + ngen
    chk.cov["model_impl_mismatches"] = len(mism)
    # known findings are reported once per class through cls=; anything else is a violation
    shown = 0
    for rep, why in failing:
        cls = why.split(":", 1)[0].strip() if rep.get("level") == "gen" else None
        if cls is not None and chk.known_finding(cls) is not None:
            chk.violation(prop + " fails on the implementation: " + why, rep, cls=cls)
            continue
        if shown < 3:
            chk.violation(prop + " fails on the implementation: " + why, rep)
        shown += 1
    failing = [f for f in failing if not (f[0].get("level") == "gen" and chk.known_finding(f[1].split(":", 1)[0].strip()) is not None)]
    if not failing:
        if mism:
            chk.violation("correspondence %s broken: model and implementation disagree (%d cases) but the property "
                          "oracle found no failing input" % (mism[0].get("correspondence", "pb"), len(mism)), mism[0], no_input=True)
        if gate is not None and not gate["ok"]:
            chk.violation("proof obligation broken: %s (%s)" % (gate.get("failed"), (gate.get("error") or "")[:300]),
                          dict(kind="proof", theorem_file="fam/pb/coq/Properties/%s.v" % prop, failed=gate.get("failed"),
                               error=gate.get("error"), theorems=gate["theorems"]), no_input=True)
    return chk.finish()
