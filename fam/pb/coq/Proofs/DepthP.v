(* C10, recursion: the native recursion depth of the decoders is bounded by the DecodeContext budget
   (merge_field_sound / skip_field_sound of TotalP.v / WireP.v: a depth budget of ctx + 1 activations is
   never exhausted), the depth argument of skip_field is irrelevant once it exceeds the budget, and
   nesting beyond the budget -- embedded messages through singular / optional / repeated / oneof fields,
   map entries with message values (two units per level), unknown groups -- yields the
   "recursion limit reached" error. *)
From PVPb Require Import Msg Proofs.BitsP Proofs.VarintP Proofs.WireP Proofs.CastP Proofs.CodecP Proofs.TotalP.
From Coq Require Import ZifyN ZifyNat ZifyBool.
Open Scope Z_scope.

(* ------------------------------------------------------------------ congruences *)
Lemma bind_ext_l {A B} (m1 m2 : M A) (f : A -> M B) s : m1 s = m2 s -> bind m1 f s = bind m2 f s.
Proof. unfold bind. intros ->. reflexivity. Qed.

Lemma bind_ext_r {A B} (m : M A) (f1 f2 : A -> M B) s :
  (forall a s', m s = OOk a s' -> f1 a s' = f2 a s') -> bind m f1 s = bind m f2 s.
Proof. unfold bind. intros H. destruct (m s); auto. Qed.

Lemma bind_ret_r {A} (m : M A) s : bind m ret s = m s.
Proof. unfold bind, ret. destruct (m s); reflexivity. Qed.

Lemma group_loop_f_ext {T} (b1 b2 : T -> Z -> wire_type -> M T) tag :
  (forall v t w s, b1 v t w s = b2 v t w s) ->
  forall f v s, group_loop_f f tag b1 v s = group_loop_f f tag b2 v s.
Proof.
  intros H. induction f as [|f IH]; intros v s; cbn [group_loop_f]; [reflexivity|].
  apply bind_ext_r. intros [ftag fwt] s1 _.
  destruct fwt; try reflexivity; (rewrite (bind_ext_l _ _ _ _ (H v ftag _ s1)); apply bind_ext_r; intros; apply IH).
Qed.

(* ------------------------------------------------------------------ skip_field: the depth argument is a bound, not an input *)
Theorem skip_field_depth_irrelevant : forall d1 d2 wt tag ctx s,
  0 <= ctx < Z.of_nat d1 -> ctx < Z.of_nat d2 -> skip_field d1 wt tag ctx s = skip_field d2 wt tag ctx s.
Proof.
  induction d1 as [|d1 IH]; intros d2 wt tag ctx s H1 H2; [lia|]. destruct d2 as [|d2]; [lia|].
  cbn [skip_field]. apply bind_ext_r. intros u s1 E. apply limit_reached_ok in E. destruct E as [Hnz _].
  destruct wt; try reflexivity.
  apply bind_ext_l. apply bind_ext_l. unfold group_loop. apply bind_ext_r. intros rem s2 _.
  apply group_loop_f_ext. intros [] t w s3. apply bind_ext_r. intros c s4 E.
  apply enter_recursion_ok in E. destruct E as [-> _]. apply IH; lia.
Qed.

Corollary skip_field_native_depth wt tag ctx s : 0 <= ctx <= recursion_limit ->
  skip_field depth_fuel wt tag ctx s = skip_field (S (Z.to_nat ctx)) wt tag ctx s.
Proof. intros H. apply skip_field_depth_irrelevant; unfold depth_fuel; lia. Qed.

(* ------------------------------------------------------------------ groups nested beyond the budget *)
Definition group_starts (tags : list Z) : list byte := flat_map (fun t => encode_key t StartGroup) tags.

Theorem skip_groups_rejected : forall tags d tag ctx r a,
  Forall tag_ok tags -> 0 <= ctx <= Z.of_nat (length tags) -> ctx < Z.of_nat d ->
  exists s', skip_field d StartGroup tag ctx (mkR (group_starts tags ++ r) a) = OErr PRecursion s'.
Proof.
  induction tags as [|t ts IH]; intros d tag ctx r a Ht Hc Hd; (destruct d as [|d]; [lia|]).
  - cbn [length] in Hc. assert (ctx = 0) by lia. subst. eexists. apply skip_field_limit.
  - destruct (Z.eq_dec ctx 0) as [->|Hn]; [eexists; apply skip_field_limit|].
    inversion Ht as [|? ? Htt Hts]; subst. cbn [length] in Hc.
    destruct (IH d t (ctx - 1) r a Hts ltac:(lia) ltac:(lia)) as [s' E]. exists s'.
    cbn [skip_field].
    assert (Hl : limit_reached ctx (mkR (group_starts (t :: ts) ++ r) a) = OOk tt (mkR (group_starts (t :: ts) ++ r) a)).
    { unfold limit_reached. replace (ctx =? 0) with false by lia. reflexivity. }
    rewrite (bind_ok _ _ _ _ _ Hl). apply bind_err. apply bind_err.
    unfold group_loop. rewrite (bind_ok _ _ _ _ _ (remaining_eq _)). cbn [group_loop_f].
    unfold group_starts. cbn [flat_map]. rewrite <- app_assoc.
    rewrite (bind_ok _ _ _ _ _ (decode_key_rt t StartGroup _ a Htt)).
    apply bind_err.
    assert (He : forall s, enter_recursion ctx s = OOk (ctx - 1) s).
    { intros s. unfold enter_recursion. replace (ctx <? 1) with false by lia. reflexivity. }
    rewrite (bind_ok _ _ _ _ _ (He _)). exact E.
Qed.

(* ------------------------------------------------------------------ nests of embedded messages and map entries *)
Fixpoint find_field (fs : list field) (tag : Z) : option field :=
  match fs with
  | [] => None
  | f :: fs' => if existsb (Z.eqb tag) (field_tags f) then Some f else find_field fs' tag
  end.

(* field number [tag] of [f] holds an embedded message of type #j *)
Definition child_msg (f : field) (tag : Z) : option nat :=
  match f with
  | FSingular _ (TMsg j) | FOptional _ (TMsg j) | FRepeated _ (TMsg j) => Some j
  | FOneof ms => match find_member ms tag 0 with Some (_, TMsg j) => Some j | _ => None end
  | _ => None
  end.

Inductive pstep := PMsg (t : Z) | PMap (t : Z).

(* the schema allows the path: message #i has a message-typed field (or a map with message values) with
   that number, and so on *)
Fixpoint msg_path (sc : schema) (i : nat) (path : list pstep) : Prop :=
  match path with
  | [] => True
  | PMsg t :: p => tag_ok t /\ exists fs f j, nth_error sc i = Some fs /\ find_field fs t = Some f /\
                                               child_msg f t = Some j /\ msg_path sc j p
  | PMap t :: p => tag_ok t /\ exists fs t' k j, nth_error sc i = Some fs /\ find_field fs t = Some (FMap t' k (TMsg j)) /\
                                                  msg_path sc j p
  end.

(* the conforming encoding of the nest (value = field 2 of a map entry) around [leaf] *)
Fixpoint nest (path : list pstep) (leaf : list byte) : list byte :=
  match path with
  | [] => leaf
  | PMsg t :: p => let b := nest p leaf in encode_key t LengthDelimited ++ encode_varint (zlen b) ++ b
  | PMap t :: p =>
      let b := nest p leaf in
      let e := encode_key 2 LengthDelimited ++ encode_varint (zlen b) ++ b in
      encode_key t LengthDelimited ++ encode_varint (zlen e) ++ e
  end.

(* units of the recursion budget a step needs: message::merge takes one, a map entry one more *)
Definition cost (st : pstep) : Z := match st with PMsg _ => 1 | PMap _ => 2 end.
Definition path_cost (p : list pstep) : Z := sumZ (map cost p).

Lemma path_cost_nonneg p : 0 <= path_cost p.
Proof. induction p as [|[t|t] p IH]; unfold path_cost, sumZ in *; cbn [map fold_right cost] in *; lia. Qed.

Lemma nest_nonempty p leaf : 0 < path_cost p -> nest p leaf <> [].
Proof.
  destruct p as [|[t|t] p]; [unfold path_cost; cbn; lia| |]; intros _ H; cbn [nest] in H;
    apply app_eq_nil in H; destruct H as [H _]; exact (encode_key_nonempty _ _ H).
Qed.

Lemma merge_in_fields_found_err rec dflt (g : field -> val) t wt ctx s e s' : forall fs f,
  find_field fs t = Some f -> merge_fieldval rec dflt f (g f) t wt ctx s = OErr e s' ->
  merge_in_fields rec dflt fs (map g fs) t wt ctx s = OErr e s'.
Proof.
  induction fs as [|f0 fs IH]; intros f Hf He; cbn [find_field] in Hf; [discriminate|].
  cbn [map merge_in_fields]. destruct (existsb (Z.eqb t) (field_tags f0)).
  - inversion Hf; subst. apply bind_err. exact He.
  - apply bind_err. eapply IH; eauto.
Qed.

Lemma merge_in_fields_unknown_err rec dflt (g : field -> val) t wt ctx s e s' : forall fs,
  find_field fs t = None -> skip_field depth_fuel wt t ctx s = OErr e s' ->
  merge_in_fields rec dflt fs (map g fs) t wt ctx s = OErr e s'.
Proof.
  induction fs as [|f0 fs IH]; intros Hf He; cbn [find_field] in Hf; cbn [map merge_in_fields].
  - apply bind_err. exact He.
  - destruct (existsb (Z.eqb t) (field_tags f0)); [discriminate|]. apply bind_err. apply IH; auto.
Qed.

(* merge_loop fails the way its first element fails *)
Lemma merge_loop_first_err {T} (body : T -> M T) v b r a e s' :
  b <> [] -> zlen b < two64 -> body v (mkR (b ++ r) a) = OErr e s' ->
  merge_loop body v (mkR (encode_varint (zlen b) ++ b ++ r) a) = OErr e s'.
Proof.
  intros Hb Hl He. pose proof (zlen_nonneg b). unfold merge_loop.
  rewrite (bind_ok _ _ _ _ _ (decode_varint_rt (zlen b) _ a ltac:(lia))).
  rewrite (bind_ok _ _ _ _ _ (remaining_eq _)). cbn [rb]. rewrite app_length.
  replace (Z.of_nat (length b + length r) <? zlen b) with false by (unfold zlen; lia).
  apply bind_err. unfold while_rem. rewrite (bind_ok _ _ _ _ _ (remaining_eq _)). cbn [rb while_remaining].
  rewrite app_length.
  replace (Nat.ltb (length b + length r - Z.to_nat (zlen b)) (length b + length r)) with true.
  - apply bind_err. exact He.
  - symmetry. apply Nat.ltb_lt. unfold zlen. destruct b; [congruence|]. cbn [length]. lia.
Qed.

Lemma message_merge_first_err {T} (mf : T -> Z -> wire_type -> Z -> M T) x ctx b r a e s' :
  1 <= ctx -> b <> [] -> zlen b < two64 ->
  (let+ (tag, fwt) := decode_key in mf x tag fwt (ctx - 1)) (mkR (b ++ r) a) = OErr e s' ->
  message_merge mf LengthDelimited x ctx (mkR (encode_varint (zlen b) ++ b ++ r) a) = OErr e s'.
Proof.
  intros Hc Hb Hl He. unfold message_merge.
  rewrite (bind_ok _ _ _ _ _ (check_wire_type_same _ _)).
  assert (Hlim : forall s, limit_reached ctx s = OOk tt s).
  { intros s. unfold limit_reached. replace (ctx =? 0) with false by lia. reflexivity. }
  rewrite (bind_ok _ _ _ _ _ (Hlim _)).
  assert (Hent : forall s, enter_recursion ctx s = OOk (ctx - 1) s).
  { intros s. unfold enter_recursion. replace (ctx <? 1) with false by lia. reflexivity. }
  rewrite (bind_ok _ _ _ _ _ (Hent _)).
  apply merge_loop_first_err; assumption.
Qed.

Lemma message_merge_zero_err {T} (mf : T -> Z -> wire_type -> Z -> M T) x s :
  message_merge mf LengthDelimited x 0 s = OErr PRecursion s.
Proof. reflexivity. Qed.

Section FieldErr.
  Variable rec : nat -> val -> Z -> wire_type -> Z -> M val.
  Variable dflt : ty -> val.
  Variable DT : ty -> val.

  (* a message-typed field of a default value: the error of message::merge is the error of merge_field *)
  Lemma fieldval_msg_err f t j ctx s e :
    child_msg f t = Some j ->
    (forall cur, cur = DT (TMsg j) \/ cur = dflt (TMsg j) ->
                 exists s', message_merge (rec j) LengthDelimited cur ctx s = OErr e s') ->
    exists s', merge_fieldval rec dflt f (default_field DT f) t LengthDelimited ctx s = OErr e s'.
  Proof.
    intros Hc Hm. destruct f as [t0 ty|t0 ty|t0 ty|t0 k vt|ms]; cbn [child_msg] in Hc; try discriminate Hc.
    - destruct ty as [p|j']; [discriminate|]. inversion Hc; subst.
      cbn [merge_fieldval default_field merge_ty]. apply Hm. auto.
    - destruct ty as [p|j']; [discriminate|]. inversion Hc; subst.
      cbn [merge_fieldval default_field merge_ty]. destruct (Hm (dflt (TMsg j)) ltac:(auto)) as [s' E].
      exists s'. apply bind_err. exact E.
    - destruct ty as [p|j']; [discriminate|]. inversion Hc; subst.
      cbn [merge_fieldval default_field merge_rep]. destruct (Hm (dflt (TMsg j)) ltac:(auto)) as [s' E].
      exists s'. apply bind_err. rewrite (bind_ok _ _ _ _ _ (check_wire_type_same _ _)). apply bind_err. exact E.
    - cbn [merge_fieldval default_field]. unfold merge_oneof.
      destruct (find_member ms t 0) as [[idx ty]|]; [|discriminate]. destruct ty as [p|j']; [discriminate|].
      inversion Hc; subst. cbn [merge_ty]. destruct (Hm (dflt (TMsg j)) ltac:(auto)) as [s' E].
      exists s'. apply bind_err. exact E.
  Qed.
End FieldErr.

Lemma default_msg_unfold n sc i fs : nth_error sc i = Some fs ->
  default_msg (S n) sc i =
  VL NMsg (map (default_field (fun t => match t with TScalar p => default_scalar p | TMsg j => default_msg n sc j end)) fs).
Proof. intros H. cbn [default_msg]. rewrite H. reflexivity. Qed.

Lemma tag_ok_2 : tag_ok 2.
Proof. unfold tag_ok. vm_compute. split; congruence. Qed.

Lemma zlen_app3 a b c : zlen (a ++ b ++ c) = zlen a + zlen b + zlen c.
Proof. rewrite !zlen_app. lia. Qed.

(* the record at the head of the buffer is a nest that needs more budget than there is *)
Theorem nest_rejected : forall path sc i d n ctx leaf r a,
  msg_path sc i path -> 0 <= ctx < path_cost path -> ctx < Z.of_nat d -> ctx < Z.of_nat n ->
  zlen (nest path leaf) < two64 ->
  exists s', (let+ (tag, wt) := decode_key in merge_field d sc i (default_msg n sc i) tag wt ctx)
               (mkR (nest path leaf ++ r) a) = OErr PRecursion s'.
Proof.
  induction path as [|st p IH]; intros sc i d n ctx leaf r a Hp Hc Hd Hn Hz.
  - unfold path_cost in Hc. cbn in Hc. lia.
  - destruct d as [|d]; [lia|]. destruct n as [|n]; [lia|].
    unfold path_cost in Hc. cbn [map sumZ fold_right] in Hc. fold (sumZ (map cost p)) in Hc. fold (path_cost p) in Hc.
    pose proof (path_cost_nonneg p) as Hpc.
    destruct st as [t|t]; cbn [msg_path] in Hp; cbn [cost] in Hc; cbn [nest] in Hz |- *.
    + (* embedded message *)
      destruct Hp as (Ht & fs & f & j & Hnth & Hff & Hch & Hrest).
      rewrite zlen_app3 in Hz. pose proof (zlen_nonneg (encode_key t LengthDelimited)). pose proof (zlen_nonneg (encode_varint (zlen (nest p leaf)))).
      rewrite <- !app_assoc. rewrite (bind_ok _ _ _ _ _ (decode_key_rt t LengthDelimited _ a Ht)).
      cbn [merge_field]. rewrite Hnth. rewrite (default_msg_unfold n sc i fs Hnth).
      set (DT := fun t0 => match t0 with TScalar p0 => default_scalar p0 | TMsg j0 => default_msg n sc j0 end).
      assert (G : exists s', merge_fieldval (merge_field d sc) (default_ty d sc) f (default_field DT f) t LengthDelimited ctx
                               (mkR (encode_varint (zlen (nest p leaf)) ++ nest p leaf ++ r) a) = OErr PRecursion s').
      { apply fieldval_msg_err with (j := j); [exact Hch|]. intros cur Hcur.
        destruct (Z.eq_dec ctx 0) as [->|Hnz]; [eexists; apply message_merge_zero_err|].
        assert (Hcur' : exists n', cur = default_msg n' sc j /\ ctx - 1 < Z.of_nat n').
        { destruct Hcur as [->| ->]; [exists n|exists d]; (split; [reflexivity|lia]). }
        destruct Hcur' as (n' & -> & Hn').
        destruct (IH sc j d n' (ctx - 1) leaf r a Hrest ltac:(lia) ltac:(lia) Hn' ltac:(lia)) as [s' E].
        exists s'. apply message_merge_first_err; [lia|apply nest_nonempty; lia|lia|exact E]. }
      destruct G as [s' G]. exists s'. apply bind_err. eapply merge_in_fields_found_err; eauto.
    + (* map entry with a message value *)
      destruct Hp as (Ht & fs & t' & k & j & Hnth & Hff & Hrest).
      set (b := nest p leaf) in *.
      set (e := encode_key 2 LengthDelimited ++ encode_varint (zlen b) ++ b) in *.
      rewrite zlen_app3 in Hz. pose proof (zlen_nonneg (encode_key t LengthDelimited)). pose proof (zlen_nonneg (encode_varint (zlen e))).
      assert (Hze : zlen e = zlen (encode_key 2 LengthDelimited) + zlen (encode_varint (zlen b)) + zlen b) by (unfold e; apply zlen_app3).
      pose proof (zlen_nonneg (encode_key 2 LengthDelimited)). pose proof (zlen_nonneg (encode_varint (zlen b))). pose proof (zlen_nonneg b).
      rewrite <- !app_assoc. rewrite (bind_ok _ _ _ _ _ (decode_key_rt t LengthDelimited _ a Ht)).
      cbn [merge_field]. rewrite Hnth. rewrite (default_msg_unfold n sc i fs Hnth).
      set (DT := fun t0 => match t0 with TScalar p0 => default_scalar p0 | TMsg j0 => default_msg n sc j0 end).
      assert (G : exists s', merge_fieldval (merge_field d sc) (default_ty d sc) (FMap t' k (TMsg j)) (default_field DT (FMap t' k (TMsg j)))
                               t LengthDelimited ctx (mkR (encode_varint (zlen e) ++ e ++ r) a) = OErr PRecursion s').
      { cbn [merge_fieldval default_field]. unfold merge_map.
        destruct (Z.eq_dec ctx 0) as [->|Hnz]; [eexists; reflexivity|].
        (* budget for the entry, then message::merge of the value at ctx - 1 *)
        assert (Hv : exists s', merge_ty (merge_field d sc) (TMsg j) LengthDelimited (default_ty d sc (TMsg j)) (ctx - 1)
                                  (mkR (encode_varint (zlen b) ++ b ++ r) a) = OErr PRecursion s').
        { cbn [merge_ty default_ty]. destruct (Z.eq_dec (ctx - 1) 0) as [E0|Hnz1]; [rewrite E0; eexists; apply message_merge_zero_err|].
          assert (Hzb : zlen (nest p leaf) < two64) by (fold b; lia).
          destruct (IH sc j d d (ctx - 1 - 1) leaf r a Hrest ltac:(lia) ltac:(lia) ltac:(lia) Hzb) as [s' E].
          exists s'. apply message_merge_first_err; [lia|apply nest_nonempty; lia|lia|exact E]. }
        destruct Hv as [s' Hv]. exists s'. apply bind_err. apply bind_err. unfold map_entry_merge.
        assert (Hlim : forall s, limit_reached ctx s = OOk tt s).
        { intros s. unfold limit_reached. replace (ctx =? 0) with false by lia. reflexivity. }
        rewrite (bind_ok _ _ _ _ _ (Hlim _)).
        assert (Hent : forall s, enter_recursion ctx s = OOk (ctx - 1) s).
        { intros s. unfold enter_recursion. replace (ctx <? 1) with false by lia. reflexivity. }
        rewrite (bind_ok _ _ _ _ _ (Hent _)).
        apply merge_loop_first_err.
        - unfold e. intros Hnil. apply app_eq_nil in Hnil. destruct Hnil as [Hnil _]. exact (encode_key_nonempty _ _ Hnil).
        - lia.
        - unfold e. rewrite <- !app_assoc. rewrite (bind_ok _ _ _ _ _ (decode_key_rt 2 LengthDelimited _ a tag_ok_2)).
          cbn [fst snd]. change (2 =? 1) with false. change (2 =? 2) with true. cbv iota.
          apply bind_err. exact Hv. }
      destruct G as [s' G]. exists s'. apply bind_err. eapply merge_in_fields_found_err; eauto.
Qed.

(* Message::decode: a nest that costs more than RECURSION_LIMIT is rejected with the recursion error *)
Theorem deep_nest_rejected sc i path leaf a :
  msg_path sc i path -> recursion_limit < path_cost path -> zlen (nest path leaf) < two64 ->
  exists s', msg_decode sc i (mkR (nest path leaf) a) = OErr PRecursion s'.
Proof.
  intros Hp Hc Hz. destruct ctx_default_range as [[H1 H2] H3].
  destruct (nest_rejected path sc i depth_fuel depth_fuel ctx_default leaf [] a Hp
              ltac:(unfold ctx_default in *; lia) H3 H3 Hz) as [s' E].
  rewrite app_nil_r in E. exists s'.
  unfold msg_decode, msg_merge, while_rem. rewrite (bind_ok _ _ _ _ _ (remaining_eq _)). cbn [rb while_remaining].
  assert (Hne : nest path leaf <> []) by (apply nest_nonempty; pose proof recursion_limit_nonneg; lia).
  replace (Nat.ltb 0 (length (nest path leaf))) with true
    by (symmetry; apply Nat.ltb_lt; destruct (nest path leaf); [congruence|cbn; lia]).
  apply bind_err. exact E.
Qed.

(* unknown groups below a message: one unit per group level *)
Theorem deep_groups_rejected (sc : schema) i (fs : msgdesc) t tags r a :
  nth_error sc i = Some fs -> find_field fs t = None -> Forall tag_ok (t :: tags) ->
  recursion_limit <= Z.of_nat (length tags) ->
  exists s', msg_decode sc i (mkR (group_starts (t :: tags) ++ r) a) = OErr PRecursion s'.
Proof.
  intros Hnth Hff Ht Hlen. inversion Ht as [|? ? Htt Hts]; subst. destruct ctx_default_range as [[H1 H2] H3].
  destruct (skip_groups_rejected tags depth_fuel t ctx_default r a Hts ltac:(unfold ctx_default in *; lia) H3) as [s' E].
  exists s'. unfold msg_decode, msg_merge, while_rem. rewrite (bind_ok _ _ _ _ _ (remaining_eq _)). cbn [rb while_remaining].
  unfold group_starts. cbn [flat_map]. rewrite <- app_assoc.
  replace (Nat.ltb 0 (length (encode_key t StartGroup ++ flat_map (fun t0 => encode_key t0 StartGroup) tags ++ r))) with true.
  2:{ symmetry. apply Nat.ltb_lt. rewrite app_length. pose proof (encode_key_nonempty t StartGroup).
      destruct (encode_key t StartGroup); [congruence|cbn; lia]. }
  apply bind_err. rewrite (bind_ok _ _ _ _ _ (decode_key_rt t StartGroup _ a Htt)).
  unfold depth_fuel. cbn [merge_field]. rewrite Hnth.
  rewrite (default_msg_unfold _ sc i fs Hnth).
  apply bind_err. apply merge_in_fields_unknown_err; [exact Hff|exact E].
Qed.

(* ------------------------------------------------------------------ non-vacuity *)
Definition tree_schema : schema := [[FSingular 1 (TScalar TYPE_INT32); FOptional 2 (TMsg 0); FMap 4 TYPE_STRING (TMsg 0)]].

Lemma tree_path_msg : forall n, msg_path tree_schema 0 (repeat (PMsg 2) n).
Proof.
  induction n as [|n IH]; cbn [repeat msg_path]; [exact I|].
  split; [unfold tag_ok; vm_compute; split; congruence|].
  exists [FSingular 1 (TScalar TYPE_INT32); FOptional 2 (TMsg 0); FMap 4 TYPE_STRING (TMsg 0)], (FOptional 2 (TMsg 0)), 0%nat.
  repeat split; auto.
Qed.

Example deep_nest_nonvacuous :
  (exists s', msg_decode tree_schema 0 (mkR (nest (repeat (PMsg 2) 101) []) 0) = OErr PRecursion s') /\
  is_ok (msg_decode tree_schema 0 (mkR (nest (repeat (PMsg 2) 100) []) 0)) = true /\
  (exists s', msg_decode tree_schema 0 (mkR (nest (repeat (PMap 4) 51) []) 0) = OErr PRecursion s') /\
  is_ok (msg_decode tree_schema 0 (mkR (nest (repeat (PMap 4) 50) []) 0)) = true.
Proof.
  split; [|split; [|split]].
  - apply deep_nest_rejected; [apply tree_path_msg|vm_compute; reflexivity|vm_compute; reflexivity].
  - vm_compute. reflexivity.
  - apply deep_nest_rejected; [|vm_compute; reflexivity|vm_compute; reflexivity].
    generalize 51%nat. induction n as [|n IH]; cbn [repeat msg_path]; [exact I|].
    split; [unfold tag_ok; vm_compute; split; congruence|].
    exists [FSingular 1 (TScalar TYPE_INT32); FOptional 2 (TMsg 0); FMap 4 TYPE_STRING (TMsg 0)], 4, TYPE_STRING, 0%nat.
    repeat split; auto.
  - vm_compute. reflexivity.
Qed.
