(* C06, in direction: the set of ALL encodings the protobuf encoding guide allows for a value of a message type.
   Written from the encoding guide, in the vocabulary of Spec.v (spec_encode_field, spec_encode_packed, spec_key,
   spec_varint), not from pilota's decoder:
     - a message is a sequence of records; the records of different fields may come in any order;
     - singular / optional scalar: any number of occurrences, the last one wins; none at all = the default (optional: unset);
     - singular / optional embedded message: any number of length-delimited records, whose bodies concatenated are an
       encoding of the sub-message (a message split over several records merges); none at all = default / unset;
     - repeated scalar: any mixture of unpacked records (one element) and packed records (a run of elements, numeric
       types only), in element order; repeated message / string / bytes: one record per element;
     - map<K, V>: one length-delimited record per entry = message { K key = 1; V value = 2; } with the same freedom inside
       (either order, absent = default, last wins, value message split, unknown fields); entries accumulate, a later
       equal key replaces the earlier one;
     - oneof: the records of all its members in arrival order; the last one decides the member; consecutive records of
       the same message-typed member merge;
     - records whose field number the message does not declare (any wire type, groups well nested) anywhere in between.
   Model only -- lemmas live in Proofs/ConformP.v. *)
From PVPb Require Export Spec Proofs.MergeP.
Open Scope Z_scope.

(* ---------------------------------------------------------------- records *)
Inductive crec :=
| CScalar (tag : Z) (p : proto_type) (v : val)        (* one value of the declared scalar type p *)
| CPacked (tag : Z) (p : proto_type) (vs : list val)  (* a packed run of values of the numeric type p *)
| CLen (tag : Z) (body : list crec)                   (* length-delimited: an embedded message / a map entry *)
| CUnknown (tag : Z) (u : upay).                      (* a record of an undeclared field (MergeP.upay: any wire type, groups) *)

Definition tag_of (r : crec) : Z :=
  match r with CScalar t _ _ | CPacked t _ _ | CLen t _ | CUnknown t _ => t end.

Fixpoint enc_crec (r : crec) : list byte :=
  match r with
  | CScalar tag p v => spec_encode_field p tag v
  | CPacked tag p vs => spec_encode_packed p tag vs
  | CLen tag body =>
      let b := (fix go (l : list crec) : list byte := match l with [] => [] | r' :: l' => enc_crec r' ++ go l' end) body in
      spec_key tag W_LEN ++ spec_varint (zlen b) ++ b
  | CUnknown tag u => urecord tag u
  end.

Fixpoint enc_crecs (l : list crec) : list byte :=
  match l with [] => [] | r :: l' => enc_crec r ++ enc_crecs l' end.

(* ---------------------------------------------------------------- the records of one field *)
Definition scalars_ok (p : proto_type) (vs : list val) : Prop := Forall (fun v => spec_value_ok p v = true) vs.

(* the records whose field number is one of [tags], in order *)
Definition for_tags (tags : list Z) (rs : list crec) : list crec :=
  filter (fun r => existsb (Z.eqb (tag_of r)) tags) rs.

Section FieldConf.
  Variable ub : Z.                                        (* bound on the group nesting of unknown fields *)
  Variable mc : nat -> val -> list crec -> Prop.          (* conformance of embedded messages (one level down) *)

  (* a value of type t written as a sequence of records of field number tag: scalar = last wins, message = merged *)
  Definition value_conf (tag : Z) (t : ty) (x : val) (rs : list crec) : Prop :=
    match t with
    | TScalar p => exists vs, rs = map (CScalar tag p) vs /\ scalars_ok p vs /\ x = last vs (default_scalar p)
    | TMsg j => exists bodies, rs = map (CLen tag) bodies /\ mc j x (concat bodies)
    end.

  (* one chunk of a repeated scalar field *)
  Definition rep_chunk (tag : Z) (p : proto_type) (r : crec) (vs : list val) : Prop :=
    (exists v, r = CScalar tag p v /\ vs = [v] /\ spec_value_ok p v = true) \/
    (r = CPacked tag p vs /\ spec_is_numeric p = true /\ scalars_ok p vs).

  (* a record of an undeclared field *)
  Definition unknown_ok (r : crec) : Prop :=
    match r with CUnknown t u => tag_ok t /\ uwf u /\ ulevels u <= ub | _ => False end.

  (* the body of a map entry: message { K key = 1; V value = 2; } *)
  Definition entry_conf (k : proto_type) (vt : ty) (kv vv : val) (body : list crec) : Prop :=
    value_conf 1 (TScalar k) kv (for_tags [1] body) /\
    value_conf 2 vt vv (for_tags [2] body) /\
    Forall (fun r => tag_ok (tag_of r)) body /\
    Forall (fun r => existsb (Z.eqb (tag_of r)) [1; 2] = false -> unknown_ok r) body.

  (* the records of a oneof, cut into maximal runs of one member *)
  Inductive oneof_runs (ms : list (Z * ty)) : option nat -> list crec -> val -> Prop :=
  | runs_nil : oneof_runs ms None [] (VL NNone [])
  | runs_snoc prev pre xprev idx tag t run e :
      oneof_runs ms prev pre xprev -> prev <> Some idx -> nth_error ms idx = Some (tag, t) -> run <> [] ->
      (match t with
       | TScalar p => exists vs, run = map (CScalar tag p) vs /\ scalars_ok p vs /\ e = last vs (VI 0)
       | TMsg j => exists bodies, run = map (CLen tag) bodies /\ mc j e (concat bodies)
       end) ->
      oneof_runs ms (Some idx) (pre ++ run) (VL (NOne idx) [e]).

  (* [rs] = the records of the message that carry one of f's field numbers, in arrival order *)
  Definition field_conf (f : field) (x : val) (rs : list crec) : Prop :=
    match f with
    | FSingular tag t => value_conf tag t x rs
    | FOptional tag t =>
        (rs = [] /\ x = VL NNone []) \/ (rs <> [] /\ exists e, x = VL NSome [e] /\ value_conf tag t e rs)
    | FRepeated tag (TScalar p) => exists vss, Forall2 (rep_chunk tag p) rs vss /\ x = VL NRep (concat vss)
    | FRepeated tag (TMsg j) => exists es, Forall2 (fun r e => exists body, r = CLen tag body /\ mc j e body) rs es /\ x = VL NRep es
    | FMap tag k vt =>
        exists entries : list (val * val),
          Forall2 (fun r kv => exists body, r = CLen tag body /\ entry_conf k vt (fst kv) (snd kv) body) rs entries /\
          x = VL NMap (fold_left (fun acc kv => map_insert (fst kv) (snd kv) acc) entries [])
    | FOneof ms => exists last, oneof_runs ms last rs x
    end.
End FieldConf.

(* ---------------------------------------------------------------- messages *)
Fixpoint all_fields_conf (fc : field -> val -> list crec -> Prop) (fs : list field) (xs : list val) (rs : list crec) : Prop :=
  match fs, xs with
  | [], [] => True
  | f :: fs', x :: xs' => fc f x (for_tags (field_tags f) rs) /\ all_fields_conf fc fs' xs' rs
  | _, _ => False
  end.

(* [v] is a value of message #i (of nesting depth <= d) and [rs] is one of its encodings *)
Fixpoint mconf (ub : Z) (d : nat) (sc : schema) (i : nat) (v : val) (rs : list crec) : Prop :=
  match d with
  | O => False
  | S d' =>
      match nth_error sc i, v with
      | Some fs, VL NMsg xs =>
          all_fields_conf (field_conf ub (mconf ub d' sc)) fs xs rs /\
          Forall (fun r => tag_ok (tag_of r)) rs /\
          Forall (fun r => existsb (Z.eqb (tag_of r)) (flat_map field_tags fs) = false -> unknown_ok ub r) rs
      | _, _ => False
      end
  end.

Definition conforming (ub : Z) (d : nat) (sc : schema) (i : nat) (v : val) (bs : list byte) : Prop :=
  exists rs, bs = enc_crecs rs /\ mconf ub d sc i v rs.
