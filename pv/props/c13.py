"""C13 -- retained unknown fields survive re-encoding unchanged (keep_unknown_fields build; checked and
unchecked binary codec).

Implementation oracle: the reader type R comes from the corpus compiled WITH keep_unknown_fields; the writer
schema W = R plus extra fields (every wire type, every position, in the type itself / nested types /
container elements) and extra union variants; v is generated under W and encoded by the reference encoder.
The emitted decoder (under R) followed by the emitted encoder must give bytes that the REFERENCE decoder
reads, under W, as exactly v (so a full-schema reader recovers the original), with size() exact; the bytes
retained by the top-level struct are byte-for-byte the encodings of its unknown fields; and the known fields
decode exactly as in the plain build (retention never changes how known fields decode)."""
import re
from .. import gengen, genref, genrun, genevo, gencorr
from ..gencheck import have_property_file, run_check

PROP = 'C13'
LEVEL = 'proof' if have_property_file(PROP) else 'translation_validation'
PROTOS = ('binary', 'unchecked')


def strip_retained(text):
    return re.sub(r' X[0-9a-f]+', '', text)


def gen_cases(gb, rng, tier):
    sch = gb.schema
    cases = []
    if 'keep' not in gb.configs:
        return cases
    no_key = genevo.key_type_names(sch)
    per = 6 if tier == 'quick' else 40
    for tname in sch.names_in('keep'):
        d = sch.types[tname]
        if d['kind'] not in ('struct', 'union'):
            continue
        # the type (or something it contains) must retain
        if not genrun.reaches(sch, tname, lambda n, dd: genrun.keeps(sch, n)) and not genrun.keeps(sch, tname):
            continue
        ty = ('ref', tname)
        for i in range(per):
            W, edits = genevo.evolve(rng, sch, tname, kinds=('add', 'add', 'variant'), no_key=no_key, n_edits=rng.choice([1, 2, 3]),
                                     only=lambda n: genrun.keeps(sch, n))
            if not edits:
                continue
            v = gengen.gen_value(rng, W, ty, [3, 2, 2, 1][i % 4])
            # the permitted difference: absent optional fields with an IDL default come back (and are re-encoded) holding it
            want = gengen.show(W, ty, gengen.fill_defaults(W, ty, v))
            enc = genref.encode(W, ty, v, 'binary')
            # unknown-field bytes of the top-level struct, in wire order
            top_unknown = None
            if d['kind'] == 'struct' and genrun.keeps(sch, tname):
                known = {f['id'] for f in d['fields']}
                top_unknown = b''.join(b for fid, b in genref.Enc(W, 'binary').struct_fields(tname, v) if fid not in known).hex()
            key = 'k%d_%s' % (len(cases), tname)
            wtxt = gengen.schema_txt(restrict(W, tname))
            twin = dict(line=genrun.case_line('dec', 'plain', tname, 'binary', 'sync', enc), cfg='plain', type=tname, proto='binary',
                        mode='sync', key=key, plain_twin=True, nontrivial=False, want=None)
            for proto in PROTOS:
                cases.append(dict(line=genrun.case_line('renc', 'keep', tname, proto, 'sync', enc), want=want, cfg='keep', type=tname,
                                  proto=proto, mode='sync', edits=[list(map(str, e)) for e in edits], top_unknown=top_unknown, key=key,
                                  writer_schema=wtxt, nontrivial=True, model=True, companions=[twin] if proto == 'binary' else []))
            cases.append(twin)
        # directed: a retained chunk on both sides of the 4096-byte zero-copy threshold (the LinkedBytes writers attach such a
        # payload as a node of its own), after a known field, so that bytes are pending when it is re-emitted
        if d['kind'] == 'struct' and genrun.keeps(sch, tname) and d['fields'] and not genrun.is_arg_swallow(sch, 'keep', tname, 'sync'):
            for big in ((4089, 4090) if tier == 'quick' else (4000, 4088, 4089, 4090, 4091, 9000)):
                W = sch.copy()
                dw = W.types[tname]
                used = {f['id'] for f in dw['fields']}
                free = [i for i in genevo.NEW_IDS if i not in used]
                if not free:
                    continue
                nf = dict(id=free[0], name='added', req='required', ty=('binary',), lit=None, default=None, const=None, doc=None, ann={},
                          idl_req='required')
                dw['fields'].insert(rng.randrange(1, len(dw['fields']) + 1), nf)
                v = gengen.gen_value(rng, W, ty, 2)
                v[nf['id']] = bytes(rng.randrange(256) for _ in range(big))      # chunk = 3 header + 4 length + payload bytes
                want = gengen.show(W, ty, gengen.fill_defaults(W, ty, v))
                enc = genref.encode(W, ty, v, 'binary')
                known = {f['id'] for f in d['fields']}
                top_unknown = b''.join(b for fid, b in genref.Enc(W, 'binary').struct_fields(tname, v) if fid not in known).hex()
                key = 'k%d_%s' % (len(cases), tname)
                wtxt = gengen.schema_txt(restrict(W, tname))
                for proto in PROTOS:
                    cases.append(dict(line=genrun.case_line('renc', 'keep', tname, proto, 'sync', enc), want=want, cfg='keep', type=tname,
                                      proto=proto, mode='sync', edits=[['add-big', tname, str(nf['id']), str(big)]], top_unknown=top_unknown,
                                      key=key, writer_schema=wtxt, nontrivial=True, model=False))
    return cases


def restrict(W, tname):
    """the part of the writer schema reachable from tname (for the replay file)"""
    s = gengen.Schema()
    s.docs = W.docs
    for n in genevo.reachable_decls(W, tname):
        s.types[n] = W.types[n]
        s.order.append(n)
    return s


_W_CACHE = {}


def writer_schema(gb, case):
    """re-creates W from the text stored in the case (replay) -- during a normal run W is rebuilt from the same text"""
    txt = case['writer_schema']
    if txt not in _W_CACHE:
        _W_CACHE.clear()
        _W_CACHE[txt] = parse_schema_txt(gb.schema, txt)
    return _W_CACHE[txt]


def parse_schema_txt(base, txt):
    """schema text (FORMAT.md section 1) -> Schema layered over the reader schema (defaults are not needed for W)"""
    W = base.copy()
    pending = []
    for line in txt.strip().split('\n'):
        t = line.split(' ')
        kind, name = t[0], t[1]
        pos = [2]

        def nxt():
            pos[0] += 1
            return t[pos[0] - 1]

        def ty():
            k = nxt()
            if k in ('list', 'set'):
                return (k, ty())
            if k == 'map':
                a = ty()
                return ('map', a, ty())
            if k == 'ref':
                return ('ref', nxt())
            return (k,)
        if kind == 'struct':
            fl, n = nxt(), int(nxt())
            fs = []
            for _ in range(n):
                fid, rq, fty, df = int(nxt()), nxt(), ty(), nxt()
                fs.append(dict(id=fid, name='f%d' % fid, req='required' if rq == 'req' else 'optional', ty=fty, lit=None, default=None,
                               const=(df[0] == 'C') if df != '-' else None, doc=None, ann={}))
                if df != '-':
                    pending.append((fs[-1], df[2:].split(',')))
            old = W.types.get(name, {})
            W.types[name] = dict(old, kind='struct', fields=fs, flags='' if fl == '-' else fl)
        elif kind == 'union':
            fl, n = nxt(), int(nxt())
            vs = []
            for _ in range(n):
                vid = int(nxt())
                vs.append(dict(id=vid, name='v%d' % vid, ty=ty()))
            old = W.types.get(name, {})
            W.types[name] = dict(old, kind='union', variants=vs, flags='' if fl == '-' else fl)
        if name not in W.order:
            W.order.append(name)
    for f, toks in pending:
        f['default'] = gengen.parse_value(W, f['ty'], toks)[0]
    return W


def evaluate(gb, case, out):
    if case.get('plain_twin'):
        return []
    sch = gb.schema
    tname, proto = case['type'], case['proto']
    ty = ('ref', tname)
    cls = 'keep-is-arg-swallow' if genrun.is_arg_swallow(sch, 'keep', tname, 'sync') else None
    res = genrun.Res(out)
    if res.kind != 'ok' or res.enc is None:
        return [('decode + re-encode with retention does not succeed on a message of a richer writer schema: %s' % res.line[:200], cls)]
    if res.note:
        return [('writer flavours disagree: ' + res.note, cls)]
    W = writer_schema(gb, case)
    try:
        v2, n, notes = genref.decode(W, ty, res.enc, 'binary')
    except Exception as e:
        return [('re-encoded bytes are not a valid message of the writer schema: %r' % (e,), cls)]
    bad = []
    if n != len(res.enc) or notes:
        bad.append(('re-encoded message does not conform to the writer schema: %r' % (notes[:3] or 'trailing bytes',), cls))
    else:
        back = gengen.show(W, ty, gengen.fill_defaults(W, ty, v2))      # modulo the permitted default filling
        if back != case['want']:
            bad.append(('a full-schema reader does not recover the original value from the re-encoded message (%s)'
                        % genrun.diff_text(back, case['want']), cls))
    if res.size != len(res.enc):
        bad.append(('size() reported %d, encode() wrote %d bytes' % (res.size, len(res.enc)), cls))
    if case.get('top_unknown') is not None and not bad:
        v, why = genrun.debug_value(gb, 'keep', ty, res.debug)
        if why:
            bad.append((why, cls))
        else:
            got = (v.get('X') or b'').hex()
            if got != case['top_unknown']:
                bad.append(('retained bytes differ from the encodings of the unknown fields (got %s, want %s)' % (got[:80], case['top_unknown'][:80]), cls))
    return bad


def post(gb, cases, outs):
    """known fields decode as with retention off: keep-build value minus retained bytes == plain-build value"""
    plain = {c['key']: o for c, o in zip(cases, outs) if c.get('plain_twin')}
    bad = []
    for c, o in zip(cases, outs):
        if c.get('plain_twin') or c['proto'] != 'binary':
            continue
        p = genrun.Res(plain.get(c['key']))
        k = genrun.Res(o)
        if p.kind != 'ok' or k.kind != 'ok':
            continue        # e.g. an unknown union variant: the plain build rejects an empty union, the keep build retains it
        ty = ('ref', c['type'])
        pv, w1 = genrun.value_text(gb, 'plain', ty, p.debug)
        kv, w2 = genrun.value_text(gb, 'keep', ty, k.debug)
        if w1 or w2 or 'U?' in (kv or ''):
            continue
        if strip_retained(kv) != pv:
            cls = 'keep-is-arg-swallow' if genrun.is_arg_swallow(gb.schema, 'keep', c['type'], 'sync') else None
            bad.append((c, 'retention changes how known fields decode (%s)' % genrun.diff_text(strip_retained(kv), pv), cls, o))
    return bad


def extra(cases, outs):
    from collections import Counter
    c = Counter(e[0] for case in cases for e in case.get('edits', []) or [])
    return dict(edit_kinds=dict(c), arg_types=sum(1 for x in cases if not x.get('plain_twin') and 'keep-is-arg' in str(x.get('cls', ''))))


def run(chk, replay=None):
    def post3(gb, cases, outs):
        # three-way (Coq viewk / reenc = Python oracle = emitted code); cases on which the SPECIFICATIONS disagree are a broken
        # check, reported as such, and exempt from the code oracle
        broken = gencorr.three_way_keep(chk, gb, cases, outs, writer_schema)
        bad = [(c, why, cls, o) for c, o in zip(cases, outs) if c['line'] not in broken for why, cls in (evaluate(gb, c, o) or [])]
        return bad + post(gb, cases, outs)
    return run_check(chk, replay, PROP, gen_cases, lambda gb, c, o: [],
                     rule="every struct / union of the corpus compiled with keep_unknown_fields (top-level; nested; inside list / map "
                          "containers: evo.EvoHolder, svc.Holder, uni.HasUn, rec.*; as method argument: svc.Req, inc.Pt, argk.* (last declared field a scalar / "
                          "nested struct / string / map; constant defaults, required and optional) and the synthesised "
                          "Args/Result types that contain them) as READER x writer schemas = reader + 1-3 added fields of every wire type "
                          "at any position / added union variants, in any reachable type x values under the writer schema x {checked "
                          "binary, unchecked binary}; plus the plain build on the same bytes; distinct by SHA-1 of the case line",
                     extra_dist=extra,
                     post=post3)
