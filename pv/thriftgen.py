"""Generator of Thrift value trees in the text syntax shared by harness and model runner."""
import random

TT = {"bool": 2, "i8": 3, "double": 4, "i16": 6, "i32": 8, "i64": 10, "binary": 11,
      "struct": 12, "map": 13, "set": 14, "list": 15, "uuid": 16}
BASE = ["bool", "i8", "i16", "i32", "i64", "double", "binary", "uuid"]
CONT = ["struct", "list", "set", "map"]

def int_boundary(rng, bits):
    lo, hi = -(1 << (bits - 1)), (1 << (bits - 1)) - 1
    c = rng.random()
    if c < 0.25:
        return rng.choice([0, 1, -1, lo, hi, lo + 1, hi - 1])
    if c < 0.6:
        k = rng.randrange(1, bits)
        return max(lo, min(hi, rng.choice([1, -1]) * ((1 << k) + rng.choice([-1, 0, 1]))))
    if c < 0.8:
        return rng.randrange(-70, 70)
    return rng.randrange(lo, hi + 1)

DOUBLES = [0, 1 << 63, 0x3FF0000000000000, 0x3FF8000000000000, 0x7FF0000000000000, 0xFFF0000000000000,
           0x7FF8000000000000, 0x7FF0000000000001, 0xFFFFFFFFFFFFFFFF, 1, 0x0102030405060708]

def gen_bytes(rng, big_ok=True):
    c = rng.random()
    if c < 0.15:
        n = 0
    elif c < 0.8:
        n = rng.randrange(1, 24)
    elif c < 0.95:
        n = rng.choice([127, 128, 129, 255, 256, 300])
    elif big_ok:
        n = rng.choice([4095, 4096, 4097, 5000, 16383, 16384])
    else:
        n = 40
    if n > 1000:
        b = bytes([rng.randrange(256)]) * n
    else:
        b = bytes(rng.randrange(256) for _ in range(n))
    return b

def hx(b):
    return b.hex() if b else "-"

def field_ids(rng, n):
    ids = []
    cur = 0
    for _ in range(n):
        c = rng.random()
        if c < 0.5:
            cur = cur + rng.randrange(1, 15)
        elif c < 0.65:
            cur = cur + rng.choice([15, 16, 17, 14])
        elif c < 0.75:
            cur = cur - rng.randrange(0, 40)
        elif c < 0.9:
            cur = rng.choice([0, -1, 1, 32767, -32768, 32766, -32767, 255, 256, 16383, 16384])
        else:
            cur = rng.randrange(-32768, 32768)
        if cur > 32767 or cur < -32768:
            cur = rng.randrange(-32768, 32768)
        ids.append(cur)
    return ids

def coll_size(rng, depth):
    c = rng.random()
    if c < 0.2:
        return 0
    if c < 0.75:
        return rng.randrange(1, 5)
    if depth <= 1 and c < 0.9:
        return rng.choice([14, 15, 16])
    return rng.randrange(1, 8)

def gen_of_type(rng, ty, depth, big_ok=True):
    """returns the token string of a value of wire type ty (name)"""
    if ty == "bool":
        return "b%d" % rng.randrange(2)
    if ty == "i8":
        return "y%d" % int_boundary(rng, 8)
    if ty == "i16":
        return "h%d" % int_boundary(rng, 16)
    if ty == "i32":
        return "i%d" % int_boundary(rng, 32)
    if ty == "i64":
        return "l%d" % int_boundary(rng, 64)
    if ty == "double":
        return "d%d" % (rng.choice(DOUBLES) if rng.random() < 0.5 else rng.getrandbits(64))
    if ty == "binary":
        return "s" + hx(gen_bytes(rng, big_ok))
    if ty == "uuid":
        return "u" + bytes(rng.randrange(256) for _ in range(16)).hex()
    if ty == "struct":
        n = 0 if depth <= 0 else rng.choice([0, 1, 1, 2, 3, 4, 6])
        ids = field_ids(rng, n)
        parts = ["S%d" % n]
        for i in ids:
            parts.append("f%d" % i)
            parts.append(gen_any(rng, depth - 1, big_ok))
        return " ".join(parts)
    if ty in ("list", "set"):
        et = pick_type(rng, depth - 1)
        n = coll_size(rng, depth) if depth > 0 else 0
        parts = ["%s%d,%d" % ("L" if ty == "list" else "T", TT[et], n)]
        for _ in range(n):
            parts.append(gen_of_type(rng, et, depth - 1, False))
        return " ".join(parts)
    if ty == "map":
        kt = pick_type(rng, depth - 1)
        vt = pick_type(rng, depth - 1)
        n = coll_size(rng, depth) if depth > 0 else 0
        parts = ["M%d,%d,%d" % (TT[kt], TT[vt], n)]
        for _ in range(n):
            parts.append(gen_of_type(rng, kt, depth - 1, False))
            parts.append(gen_of_type(rng, vt, depth - 1, False))
        return " ".join(parts)
    raise ValueError(ty)

def pick_type(rng, depth):
    if depth <= 0 or rng.random() < 0.55:
        return rng.choice(BASE)
    return rng.choice(CONT)

def gen_any(rng, depth, big_ok=True):
    return gen_of_type(rng, pick_type(rng, depth), depth, big_ok)

def gen_top(rng, depth):
    """top-level values are mostly structs/containers"""
    if rng.random() < 0.75:
        return gen_of_type(rng, rng.choice(CONT), depth)
    return gen_of_type(rng, rng.choice(BASE), depth)

def nested_struct(depth, leaf="i7"):
    """struct nested `depth` levels: S1 f1 S1 f1 ... leaf"""
    return " ".join(["S1 f1"] * depth + [leaf])

def canon_tokens(pk, toks):
    """textual canon: under compact an empty map loses its key/value types"""
    if pk != "compact":
        return toks
    out = []
    for t in toks:
        if t.startswith("M") and t.endswith(",0"):
            out.append("M0,0,0")
        else:
            out.append(t)
    return out

def nontrivial(val_tokens):
    return any(t[0] in "SLTM" and not t.endswith(",0") and t != "S0" for t in val_tokens)
