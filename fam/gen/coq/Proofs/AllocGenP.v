(* C09 at the generated-code level, memory: the ghost allocation counter of GenAlloc.v.
     1. erasing the counter gives back the emitted decoders (Gen.gen_decode, GenAsync.gen_decode_async);
     2. the bound: with a certificate of bounded weight (GenAlloc.alloc_class: no cycle through a container, and no
        container at all for the async templates) the counter is at most  a * |input| + b  with explicit a, b, on every
        input, whatever the outcome -- potential argument over PV.Proofs.AllocP.phi (w per remaining byte + 1 for a
        pending compact bool): a successful decode pays for what it requested with the potential it consumed, a failing
        one requested at most weight * (potential + 1) + K;
     3. outside the class the statement is false: witnesses for F-09e (async container preallocation) and F-09h
        (nested containers of a recursive schema). *)
From PV Require Import Thrift.Alloc Thrift.Skip Proofs.TotalP Proofs.AsyncP Proofs.SkipP Proofs.AllocP Generated.ReaderSites.
From PVGen Require Import Gen GenSpec GenKeep GenAsync Own GenAlloc Proofs.GenBase Proofs.EncP Proofs.RoundP Proofs.OwnP
  Proofs.TotalGenP Proofs.AsyncGenP.
From Coq Require Import ZifyN ZifyNat ZifyBool.
Open Scope Z_scope.

(* ================= 1. erasing the counter ================= *)
Lemma alloc_decode_S md kb S p f t s a : alloc_decode md kb S p (Datatypes.S f) t s a =
  match resolve S t with
  | TyBool => amap GBool (alift (m_bool md p) s a)
  | TyI8 => amap GI8 (alift (m_i8 md) s a)
  | TyI16 => amap GI16 (alift (m_i16 md p) s a)
  | TyI32 => amap GI32 (alift (m_i32 md p) s a)
  | TyI64 => amap GI64 (alift (m_i64 md p) s a)
  | TyDouble => amap GDouble (alift (m_double md p) s a)
  | TyString | TyBinary => amap GBytes (m_bytes_alloc md p s a)
  | TyUuid => amap GUuid (alift (m_uuid md) s a)
  | TyVoid =>
      abind (alift (m_struct_begin md p) s a) (fun _ s a =>
        abind (alift (m_struct_end md p) s a) (fun _ s a => (Ok (GVoid, s), a)))
  | TyList et =>
      abind (alift (m_coll_begin md p) s a) (fun h s a =>
        amap GList (al_elems (alloc_decode md kb S p f) (Datatypes.S f) et (snd h) [] s
                             (a + list_cost (esz kb S et) (snd h))))
  | TySet et =>
      abind (alift (m_coll_begin md p) s a) (fun h s a =>
        amap GSet (al_elems (alloc_decode md kb S p f) (Datatypes.S f) et (snd h) [] s
                            (a + hash_cost (esz kb S et) (snd h))))
  | TyMap kt vt =>
      abind (alift (m_map_begin md p) s a) (fun h s a =>
        amap GMap (al_pairs (alloc_decode md kb S p f) (Datatypes.S f) kt vt (snd h) [] s
                            (a + hash_cost (esz kb S kt + esz kb S vt) (snd h))))
  | TyRef n =>
      match lookup S n with
      | Some (DEnum _) => amap GEnum (alift (m_i32 md p) s a)
      | Some (DStruct fs _ _) =>
          abind (alift (m_struct_begin md p) s (a + frame_cost md kb S n)) (fun _ s a =>
            abind (al_fields md S p f (alloc_decode md kb S p f) (Datatypes.S f) fs (map init_var fs) s a) (fun vars s a =>
              abind (alift (m_struct_end md p) s a) (fun _ s a =>
                match finish_fields fs vars with
                | Ok out => (Ok (GStruct out [], s), a)
                | Err e => (Err e, a)
                | Panic st => (Panic st, a)
                end)))
      | Some (DUnion vs void_ok _) =>
          abind (alift (m_struct_begin md p) s (a + frame_cost md kb S n)) (fun _ s a =>
            abind (al_variants md S p f (alloc_decode md kb S p f) (Datatypes.S f) vs None s a) (fun ret s a =>
              abind (alift (m_struct_end md p) s a) (fun _ s a =>
                match ret with
                | Some (id, x) => (Ok (GUnion id x, s), a)
                | None =>
                    if void_ok then
                      match vs with
                      | (id0, _) :: _ => (Ok (GUnion id0 GVoid, s), a)
                      | [] => (Err EInvalidData, a)
                      end
                    else (Err EInvalidData, a)
                end)))
      | Some (DTypedef _) => (Err EOther, a)
      | None => (Err EOther, a)
      end
  end.
Proof. reflexivity. Qed.

(* the plain decoder of a template instance *)
Definition plain_decode (md : dmode) (S : schema) (p : pk) (f : nat) (t : ty) (s : rst) : res (gval * rst) :=
  match md with MSync => gen_decode S p f t s | MAsync => gen_decode_async S p f t s end.

Lemma plain_is_own md S p f t s : plain_decode md S p f t s = fst (own_decode md [] S p f t s).
Proof. destruct md; cbn [plain_decode]; [rewrite own_proj_sync|rewrite own_proj_async]; reflexivity. Qed.

Lemma m_bytes_erase md p s a : fst (m_bytes_alloc md p s a) = m_bytes md p s.
Proof. destruct md; cbn [m_bytes_alloc m_bytes]; [apply r_bytes_erase|apply a_bytes_erase]. Qed.

Section SkipErase.
  Variable p : pk.
  Lemma askip_fields_a_erase (rec : ttype -> am unit) (r : ttype -> rm unit) :
    (forall ty s a, fst (rec ty s a) = r ty s) -> forall n s a, fst (askip_fields_a p rec n s a) = askip_fields p r n s.
  Proof.
    intros H. induction n as [|n IH]; intros s a; cbn [askip_fields_a askip_fields]; [reflexivity|].
    rewrite fst_abind. cbn [alift fst snd]. destruct (a_field_begin p s) as [[h s1]| |]; cbn [bind]; auto.
    destruct (ttype_eqb (fst h) TStop); [reflexivity|].
    rewrite fst_abind, H. destruct (r (fst h) s1) as [[u s2]| |]; cbn [bind]; auto.
  Qed.
  Lemma askip_elems_a_erase (rec : ttype -> am unit) (r : ttype -> rm unit) :
    (forall ty s a, fst (rec ty s a) = r ty s) -> forall m et n s a, fst (askip_elems_a rec m et n s a) = askip_elems r m et n s.
  Proof.
    intros H. induction m as [|m IH]; intros et n s a; cbn [askip_elems_a askip_elems]; destruct (n <=? 0); try reflexivity.
    rewrite fst_abind, H. destruct (r et s) as [[u s2]| |]; cbn [bind]; auto.
  Qed.
  Lemma askip_pairs_a_erase (rec : ttype -> am unit) (r : ttype -> rm unit) :
    (forall ty s a, fst (rec ty s a) = r ty s) -> forall m kt vt n s a, fst (askip_pairs_a rec m kt vt n s a) = askip_pairs r m kt vt n s.
  Proof.
    intros H. induction m as [|m IH]; intros kt vt n s a; cbn [askip_pairs_a askip_pairs]; destruct (n <=? 0); try reflexivity.
    rewrite fst_abind, H. destruct (r kt s) as [[u s1]| |]; cbn [bind]; auto.
    rewrite fst_abind, H. destruct (r vt s1) as [[u2 s2]| |]; cbn [bind]; auto.
  Qed.
  Theorem askip_val_a_erase : forall f d ty s a, fst (askip_val_a p f d ty s a) = askip_val p f d ty s.
  Proof.
    induction f as [|f IH]; intros d ty s a; [reflexivity|].
    cbn [askip_val_a askip_val]. destruct d as [|d]; [reflexivity|].
    destruct ty; try reflexivity.
    - rewrite fst_amap, a_bytes_erase. reflexivity.
    - rewrite fst_abind. cbn [alift fst snd]. destruct (a_struct_begin p s) as [[u s1]| |]; cbn [bind]; auto.
      rewrite fst_abind, (askip_fields_a_erase _ _ (IH d)).
      destruct (askip_fields p (askip_val p f d) (Datatypes.S f) s1) as [[u2 s2]| |]; cbn [bind]; auto.
    - rewrite fst_abind. cbn [alift fst snd]. destruct (a_map_begin p s) as [[h s1]| |]; cbn [bind]; auto.
      apply (askip_pairs_a_erase _ _ (IH d)).
    - rewrite fst_abind. cbn [alift fst snd]. destruct (a_coll_begin p s) as [[h s1]| |]; cbn [bind]; auto.
      apply (askip_elems_a_erase _ _ (IH d)).
    - rewrite fst_abind. cbn [alift fst snd]. destruct (a_coll_begin p s) as [[h s1]| |]; cbn [bind]; auto.
      apply (askip_elems_a_erase _ _ (IH d)).
  Qed.
End SkipErase.

Lemma m_skip_alloc_erase md p fk ft s a : fst (m_skip_alloc md p fk ft s a) = m_skip md p fk ft s.
Proof. destruct md; cbn [m_skip_alloc m_skip]; [reflexivity|apply askip_val_a_erase]. Qed.

(* erasure is proved against the ownership-instrumented decoder (one definition for both instances), whose own
   erasure is C19_erase_sync / C19_erase_async *)
Section EraseLoops.
  Variable md : dmode.
  Variable S : schema.
  Variable p : pk.
  Variable fk : nat.
  Variable rec : ty -> am gval.
  Variable orec : ty -> rst -> own (gval * rst).
  Hypothesis Hrec : forall t s a, fst (rec t s a) = fst (orec t s).

  Lemma al_elems_erase raw : forall m et n acc s a,
    fst (al_elems rec m et n acc s a) = fst (own_elems orec raw m et n s acc).
  Proof using Hrec.
    induction m as [|m IH]; intros et n acc s a; cbn [al_elems own_elems]; destruct (n <=? 0); try reflexivity.
    rewrite fst_abind, fst_obind_leak, Hrec. destruct (fst (orec et s)) as [[x s1]| |]; cbn [bind fst snd]; auto.
  Qed.

  Lemma al_pairs_erase : forall m kt vt n acc s a,
    fst (al_pairs rec m kt vt n acc s a) = fst (own_pairs orec m kt vt n s acc).
  Proof using Hrec.
    induction m as [|m IH]; intros kt vt n acc s a; cbn [al_pairs own_pairs]; destruct (n <=? 0); try reflexivity.
    unfold obind. rewrite fst_abind, fst_obind_leak, Hrec. destruct (fst (orec kt s)) as [[x s1]| |]; cbn [bind]; auto.
    rewrite fst_abind, fst_obind_leak, Hrec. destruct (fst (orec vt s1)) as [[y s2]| |]; cbn [bind]; auto.
  Qed.

  Lemma al_fields_erase : forall m fs vars s a,
    fst (al_fields md S p fk rec m fs vars s a) = fst (own_fields md S p fk orec m fs vars s).
  Proof using Hrec.
    induction m as [|m IH]; intros fs vars s a; cbn [al_fields own_fields]; [reflexivity|].
    unfold obind. rewrite fst_abind, fst_obind_leak. cbn [alift lift fst snd].
    destruct (m_field_begin md p s) as [[h s1]| |]; cbn [bind]; auto.
    destruct (ttype_eqb (fst h) TStop).
    { rewrite fst_abind, fst_obind_leak. cbn [alift lift fst snd].
      destruct (m_field_stop_len md p s1) as [[z s2]| |]; reflexivity. }
    rewrite fst_abind, fst_obind_leak. cbn [alift lift fst snd].
    destruct (m_field_begin_len md p (fst h) (snd h) s1) as [[z s2]| |]; cbn [bind]; auto.
    assert (K : forall vars' s3 a3,
               fst (abind (alift (m_field_end_len md p) s3 a3) (fun _ s a => al_fields md S p fk rec m fs vars' s a)) =
               fst (obind_leak [] (lift (m_field_end_len md p s3)) (fun '(_, s) => own_fields md S p fk orec m fs vars' s))).
    { intros vars' s3 a3. rewrite fst_abind, fst_obind_leak. cbn [alift lift fst snd].
      destruct (m_field_end_len md p s3) as [[z' s4]| |]; cbn [bind]; auto. }
    rewrite fst_abind, fst_obind_leak.
    destruct (match_field S fs 0 (snd h) (fst h)) as [[i f]|].
    - rewrite fst_abind, fst_obind_leak, Hrec. destruct (fst (orec (f_ty f) s2)) as [[x s3]| |]; cbn [bind fst snd lift]; auto.
    - rewrite fst_abind, fst_obind_leak, m_skip_alloc_erase. cbn [lift fst snd].
      destruct (m_skip md p fk (fst h) s2) as [[u s3]| |]; cbn [bind fst snd lift]; auto.
  Qed.

  Lemma al_variants_erase : forall m vs ret s a,
    fst (al_variants md S p fk rec m vs ret s a) = fst (own_variants md S p fk orec m vs ret s).
  Proof using Hrec.
    induction m as [|m IH]; intros vs ret s a; cbn [al_variants own_variants]; [reflexivity|].
    unfold obind. rewrite fst_abind, fst_obind_leak. cbn [alift lift fst snd].
    destruct (m_field_begin md p s) as [[h s1]| |]; cbn [bind]; auto.
    destruct (ttype_eqb (fst h) TStop).
    { rewrite fst_abind, fst_obind_leak. cbn [alift lift fst snd].
      destruct (m_field_stop_len md p s1) as [[z s2]| |]; reflexivity. }
    rewrite fst_abind, fst_obind_leak. cbn [alift lift fst snd].
    destruct (m_field_begin_len md p (fst h) (snd h) s1) as [[z s2]| |]; cbn [bind]; auto.
    match goal with |- context [match ?k with Some _ => _ | None => _ end] =>
      match type of k with option (Z * ty) => destruct k as [[id vt]|] end end.
    - destruct ret; [reflexivity|].
      rewrite fst_abind, fst_obind_leak, Hrec. destruct (fst (orec vt s2)) as [[x s3]| |]; cbn [bind]; auto.
    - rewrite fst_abind, fst_obind_leak, m_skip_alloc_erase. cbn [lift fst snd].
      destruct (m_skip md p fk (fst h) s2) as [[u s3]| |]; cbn [bind]; auto.
  Qed.
End EraseLoops.

Theorem alloc_erase_own md kb S p : forall f t s a,
  fst (alloc_decode md kb S p f t s a) = fst (own_decode md [] S p f t s).
Proof.
  induction f as [|f IH]; intros t s a; [reflexivity|].
  rewrite alloc_decode_S, own_decode_S.
  destruct (resolve S t) as [| | | | | | | | | |et|et|kt vt|n]; try (rewrite fst_amap; reflexivity).
  - rewrite fst_amap, m_bytes_erase. reflexivity.
  - rewrite fst_amap, m_bytes_erase. reflexivity.
  - rewrite !fst_abind. cbn [alift lift fst snd]. destruct (m_struct_begin md p s) as [[u s1]| |]; cbn [bind]; auto.
    rewrite fst_abind. cbn [alift fst snd]. destruct (m_struct_end md p s1) as [[u2 s2]| |]; reflexivity.
  - unfold obind. rewrite fst_abind, fst_obind_leak. cbn [alift lift fst snd].
    destruct (m_coll_begin md p s) as [[h s1]| |]; cbn [bind]; auto.
    rewrite fst_amap, fst_obind_leak, (al_elems_erase _ _ IH (is_sync md && owns_heap [] S et)).
    destruct (fst (own_elems _ _ _ et (snd h) s1 [])) as [[l s2]| |]; reflexivity.
  - unfold obind. rewrite fst_abind, fst_obind_leak. cbn [alift lift fst snd].
    destruct (m_coll_begin md p s) as [[h s1]| |]; cbn [bind]; auto.
    rewrite fst_amap, fst_obind_leak, (al_elems_erase _ _ IH false).
    destruct (fst (own_elems _ _ _ et (snd h) s1 [])) as [[l s2]| |]; reflexivity.
  - unfold obind. rewrite fst_abind, fst_obind_leak. cbn [alift lift fst snd].
    destruct (m_map_begin md p s) as [[h s1]| |]; cbn [bind]; auto.
    rewrite fst_amap, fst_obind_leak, (al_pairs_erase _ _ IH).
    destruct (fst (own_pairs _ _ kt vt (snd h) s1 [])) as [[l s2]| |]; reflexivity.
  - destruct (lookup S n) as [[fs kp ia|vs vo kp|ms|tt]|]; try reflexivity.
    + unfold obind. rewrite fst_abind, fst_obind_leak. cbn [alift lift fst snd].
      destruct (m_struct_begin md p s) as [[u s1]| |]; cbn [bind]; auto.
      rewrite fst_abind, fst_obind_leak, (al_fields_erase md S p f _ _ IH).
      destruct (fst (own_fields md S p f _ _ fs _ s1)) as [[vars s2]| |]; cbn [bind]; auto.
      rewrite fst_abind, fst_obind_leak. cbn [alift lift fst snd].
      destruct (m_struct_end md p s2) as [[u2 s3]| |]; cbn [bind]; auto.
      rewrite fst_obind_leak. cbn [lift fst]. destruct (finish_fields fs vars); reflexivity.
    + unfold obind. rewrite fst_abind, fst_obind_leak. cbn [alift lift fst snd].
      destruct (m_struct_begin md p s) as [[u s1]| |]; cbn [bind]; auto.
      rewrite fst_abind, fst_obind_leak, (al_variants_erase md S p f _ _ IH).
      destruct (fst (own_variants md S p f _ _ vs None s1)) as [[ret s2]| |]; cbn [bind]; auto.
      rewrite fst_abind, fst_obind_leak. cbn [alift lift fst snd].
      destruct (m_struct_end md p s2) as [[u2 s3]| |]; cbn [bind]; auto.
      destruct ret as [[id x]|]; [reflexivity|]. destruct vo; [|reflexivity]. destruct vs as [|[id0 t0] r]; reflexivity.
    + rewrite fst_amap. reflexivity.
Qed.

Theorem alloc_erase md kb S p f t s a : fst (alloc_decode md kb S p f t s a) = plain_decode md S p f t s.
Proof. rewrite plain_is_own. apply alloc_erase_own. Qed.

(* ================= 2. the bound ================= *)
Definition AI (w d G B : Z) {A} (x : ares A) (s : rst) (a : Z) : Prop :=
  match fst x with
  | Ok (_, s') => phi w s' + d <= phi w s /\ snd x - a <= G * (phi w s - phi w s')
  | _ => snd x - a <= G * (phi w s + 1) + B
  end.

Lemma AI_mono {A} w d d' G G' B B' (x : ares A) s a :
  0 <= w -> 0 <= d' <= d -> 0 <= G <= G' -> B <= B' -> AI w d G B x s a -> AI w d' G' B' x s a.
Proof.
  intros Hw Hd HG HB. unfold AI. pose proof (phi_nonneg w s Hw) as Hp.
  destruct (fst x) as [[v s']| |]; intros H; [destruct H as [H1 H2]; split; [lia|nia]|nia|nia].
Qed.

Lemma AI_lift {A} w d G B (m : rm A) s a :
  0 <= w -> 0 <= d -> 0 <= G -> 0 <= B -> stepd w d (m s) s -> AI w d G B (alift m s a) s a.
Proof.
  intros Hw Hd HG HB H. unfold AI, alift. cbn [fst snd]. pose proof (phi_nonneg w s Hw) as Hp.
  destruct (m s) as [[v s']| |]; cbn [stepd] in H; [split; [lia|nia]|nia|nia].
Qed.

Lemma AI_amap {A C} (g : A -> C) w d G B (x : ares A) s a : AI w d G B x s a -> AI w d G B (amap g x) s a.
Proof.
  unfold AI, amap, abind. destruct x as [o a']. cbn [fst snd]. destruct o as [[v s']| |]; cbn [fst snd]; auto.
Qed.

Lemma stepd_bind {A C} w d1 d2 (o : res (A * rst)) (f : A * rst -> res (C * rst)) s :
  stepd w d1 o s -> (forall x s', stepd w d2 (f (x, s')) s') -> stepd w (d1 + d2) (bind o f) s.
Proof.
  destruct o as [[x s']| |]; cbn [bind stepd]; auto. intros H1 H2. specialize (H2 x s').
  destruct (f (x, s')) as [[y s'']| |]; cbn [stepd] in *; auto. lia.
Qed.

Lemma stepd_weaken {A} w d d' (o : res (A * rst)) s : d' <= d -> stepd w d o s -> stepd w d' o s.
Proof. destruct o as [[x s']| |]; cbn [stepd]; auto. lia. Qed.

Lemma phi_erase w s : phi w (erase s) = phi w s.
Proof. reflexivity. Qed.

(* ---- sizes and weights are non-negative ---- *)
Lemma esz_n_nonneg kb S : forall f t, 0 <= esz_n kb S f t.
Proof.
  induction f as [|f IH]; intros t; cbn [esz_n]; [unfold word; lia|].
  destruct t; try lia. destruct (lookup S n) as [[fs kp ia|vs vo kp|ms|tt]|]; try lia; auto.
  - assert (0 <= fold_right (fun fd acc => word + esz_n kb S f (f_ty fd) + acc) 0 fs).
    { induction fs as [|fd r IHr]; cbn [fold_right]; [lia|]. specialize (IH (f_ty fd)). unfold word in *. lia. }
    unfold word, linked_bytes_size in *. destruct (kb && kp); lia.
  - assert (0 <= fold_right (fun q acc => Z.max (esz_n kb S f (snd q)) acc) 0 vs).
    { induction vs as [|q r IHr]; cbn [fold_right]; lia. }
    unfold word, linked_bytes_size in *. destruct (kb && kp); lia.
Qed.
Lemma esz_nonneg kb S t : 0 <= esz kb S t.
Proof. apply esz_n_nonneg. Qed.

Lemma frame_const_nonneg md kb : 1 <= frame_const md kb.
Proof. destruct md, kb; cbn; lia. Qed.

Lemma wlookup_in wgt n z : wlookup wgt n = Some z -> In (n, z) wgt.
Proof.
  induction wgt as [|[m y] r IH]; cbn [wlookup]; [discriminate|].
  destruct (Nat.eqb_spec m n) as [->|Hne]; [intros H; injection H as <-; left; reflexivity|intros H; right; auto].
Qed.

  (* the skippers allocate nothing and do not raise the potential *)
  Lemma a_step1 {A} (m : rm A) s : stepd 3 1 (m s) s -> stepd 3 0 (drop m s) s.
  Proof.
    unfold drop. destruct (m s) as [[x s']| |]; cbn [bind stepd]; auto. lia.
  Qed.

  Lemma askip_fields_step p (rec : ttype -> rm unit) : (forall ty s, stepd 3 0 (rec ty s) s) ->
    forall n s, stepd 3 0 (askip_fields p rec n s) s.
  Proof.
    intros Hrec. induction n as [|n IH]; intros s; cbn [askip_fields]; [exact I|].
    pose proof (ok_fb _ _ _ _ (async_prims_ok p) s) as H0. cbn [async_prims p_field_begin] in H0.
    destruct (a_field_begin p s) as [[h s1]| |]; cbn [bind stepd]; auto.
    destruct (ttype_eqb (fst h) TStop); [cbn [stepd]; lia|].
    pose proof (Hrec (fst h) s1) as H1. destruct (rec (fst h) s1) as [[u s2]| |]; cbn [bind stepd] in *; auto.
    specialize (IH s2). destruct (askip_fields p rec n s2) as [[u3 s3]| |]; cbn [stepd] in *; auto. lia.
  Qed.
  Lemma askip_elems_step (rec : ttype -> rm unit) : (forall ty s, stepd 3 0 (rec ty s) s) ->
    forall m et n s, stepd 3 0 (askip_elems rec m et n s) s.
  Proof.
    intros Hrec. induction m as [|m IH]; intros et n s; cbn [askip_elems]; destruct (n <=? 0); cbn [stepd]; try lia; auto.
    pose proof (Hrec et s) as H1. destruct (rec et s) as [[u s2]| |]; cbn [bind stepd] in *; auto.
    specialize (IH et (n - 1) s2). destruct (askip_elems rec m et (n - 1) s2) as [[u3 s3]| |]; cbn [stepd] in *; auto. lia.
  Qed.
  Lemma askip_pairs_step (rec : ttype -> rm unit) : (forall ty s, stepd 3 0 (rec ty s) s) ->
    forall m kt vt n s, stepd 3 0 (askip_pairs rec m kt vt n s) s.
  Proof.
    intros Hrec. induction m as [|m IH]; intros kt vt n s; cbn [askip_pairs]; destruct (n <=? 0); cbn [stepd]; try lia; auto.
    pose proof (Hrec kt s) as H1. destruct (rec kt s) as [[u s1]| |]; cbn [bind stepd] in *; auto.
    pose proof (Hrec vt s1) as H2. destruct (rec vt s1) as [[u2 s2]| |]; cbn [bind stepd] in *; auto.
    specialize (IH kt vt (n - 1) s2). destruct (askip_pairs rec m kt vt (n - 1) s2) as [[u3 s3]| |]; cbn [stepd] in *; auto. lia.
  Qed.

  Lemma askip_val_step p : forall f d ty s, stepd 3 0 (askip_val p f d ty s) s.
  Proof.
    pose proof (async_prims_ok p) as HP.
    induction f as [|f IH]; intros d ty s; [exact I|].
    cbn [askip_val]. destruct d as [|d]; [exact I|].
    destruct ty; try exact I.
    - apply a_step1. apply (ok_bool _ _ _ _ HP).
    - apply a_step1. apply (ok_i8 _ _ _ _ HP).
    - apply a_step1. apply (ok_double _ _ _ _ HP).
    - apply a_step1. apply (ok_i16 _ _ _ _ HP).
    - apply a_step1. apply (ok_i32 _ _ _ _ HP).
    - apply a_step1. apply (ok_i64 _ _ _ _ HP).
    - (* binary *)
      pose proof (ok_bytes _ _ _ _ HP s 0) as H. cbn [async_prims p_bytes] in H. unfold ainv in H.
      rewrite a_bytes_erase in H. unfold drop. destruct (a_bytes p s) as [[l s']| |]; cbn [bind stepd]; auto. lia.
    - pose proof (ok_sb _ _ _ _ HP s) as H0. cbn [async_prims p_struct_begin] in H0.
      destruct (a_struct_begin p s) as [[u s1]| |]; cbn [bind stepd] in *; auto.
      pose proof (askip_fields_step p (askip_val p f d) (IH d) (Datatypes.S f) s1) as H1.
      destruct (askip_fields p (askip_val p f d) (Datatypes.S f) s1) as [[u2 s2]| |]; cbn [bind stepd] in *; auto.
      pose proof (ok_se _ _ _ _ HP s2) as H2. cbn [async_prims p_struct_end] in H2.
      destruct (a_struct_end p s2) as [[u3 s3]| |]; cbn [stepd] in *; auto. lia.
    - pose proof (ok_mb _ _ _ _ HP s) as H0. cbn [async_prims p_map_begin] in H0.
      destruct (a_map_begin p s) as [[h s1]| |]; cbn [bind stepd] in *; auto. destruct H0 as [H0 _].
      pose proof (askip_pairs_step (askip_val p f d) (IH d) (Datatypes.S f) (fst (fst h)) (snd (fst h)) (snd h) s1) as H1.
      destruct (askip_pairs (askip_val p f d) (Datatypes.S f) _ _ _ s1) as [[u2 s2]| |]; cbn [stepd] in *; auto. lia.
    - pose proof (ok_cb _ _ _ _ HP s) as H0. cbn [async_prims p_coll_begin] in H0.
      destruct (a_coll_begin p s) as [[h s1]| |]; cbn [bind stepd] in *; auto. destruct H0 as [H0 _].
      pose proof (askip_elems_step (askip_val p f d) (IH d) (Datatypes.S f) (fst h) (snd h) s1) as H1.
      destruct (askip_elems (askip_val p f d) (Datatypes.S f) _ _ s1) as [[u2 s2]| |]; cbn [stepd] in *; auto. lia.
    - pose proof (ok_cb _ _ _ _ HP s) as H0. cbn [async_prims p_coll_begin] in H0.
      destruct (a_coll_begin p s) as [[h s1]| |]; cbn [bind stepd] in *; auto. destruct H0 as [H0 _].
      pose proof (askip_elems_step (askip_val p f d) (IH d) (Datatypes.S f) (fst h) (snd h) s1) as H1.
      destruct (askip_elems (askip_val p f d) (Datatypes.S f) _ _ s1) as [[u2 s2]| |]; cbn [stepd] in *; auto. lia.
    - apply a_step1. apply (ok_uuid _ _ _ _ HP).
  Qed.


(* the instrumented asynchronous skipper: weight 1 (only byte strings are charged) *)
Section SkipInv.
  Variable p : pk.
  Let K := prealloc_limit + 1.
  Lemma K_pos : 0 <= K.
  Proof. unfold K. pose proof prealloc_limit_nonneg. lia. Qed.

  Lemma SI_lift {A} (m : rm A) d s a : 0 <= d -> stepd 3 d (m s) s -> AI 3 d 1 K (alift m s a) s a.
  Proof. intros Hd H. apply AI_lift; auto; try lia. apply K_pos. Qed.

  Lemma SI_drop {A} (m : rm A) s a : stepd 3 1 (m s) s -> AI 3 0 1 K (alift (drop m) s a) s a.
  Proof. intros H. apply SI_lift; [lia|]. apply a_step1, H. Qed.

  Section L.
    Variable rec : ttype -> am unit.
    Hypothesis Hrec : forall ty s a, AI 3 0 1 K (rec ty s a) s a.

    Lemma askip_fields_a_inv : forall n s a, AI 3 0 1 K (askip_fields_a p rec n s a) s a.
    Proof.
      pose proof K_pos as HK.
      induction n as [|n IH]; intros s a; cbn [askip_fields_a]; pose proof (phi_nonneg 3 s ltac:(lia)) as Hp.
      { unfold AI; cbn [fst snd]. lia. }
      unfold abind at 1. cbn [alift fst snd].
      pose proof (ok_fb _ _ _ _ (async_prims_ok p) s) as H0. cbn [async_prims p_field_begin] in H0.
      destruct (a_field_begin p s) as [[h s1]| |]; cbn [fst snd]; [|unfold AI; cbn [fst snd]; lia..].
      destruct (ttype_eqb (fst h) TStop); [unfold AI; cbn [fst snd]; split; lia|].
      pose proof (phi_nonneg 3 s1 ltac:(lia)) as Hp1.
      specialize (Hrec (fst h) s1 a). unfold abind. unfold AI in Hrec |- *.
      destruct (rec (fst h) s1 a) as [o1 a1]. cbn [fst snd] in *.
      destruct o1 as [[u s2]| |]; cbn [fst snd]; [|lia..].
      specialize (IH s2 a1). unfold AI in IH. destruct (askip_fields_a p rec n s2 a1) as [o2 a2]. cbn [fst snd] in *.
      pose proof (phi_nonneg 3 s2 ltac:(lia)).
      destruct o2 as [[u3 s3]| |]; [destruct Hrec, IH; split; lia|lia..].
    Qed.

    Lemma askip_elems_a_inv : forall m et n s a, AI 3 0 1 K (askip_elems_a rec m et n s a) s a.
    Proof.
      pose proof K_pos as HK.
      induction m as [|m IH]; intros et n s a; cbn [askip_elems_a]; pose proof (phi_nonneg 3 s ltac:(lia)) as Hp;
        (destruct (n <=? 0); [unfold AI; cbn [fst snd]; split; lia|]).
      { unfold AI; cbn [fst snd]. lia. }
      specialize (Hrec et s a). unfold abind. unfold AI in Hrec |- *.
      destruct (rec et s a) as [o1 a1]. cbn [fst snd] in *.
      destruct o1 as [[u s2]| |]; cbn [fst snd]; [|lia..].
      specialize (IH et (n - 1) s2 a1). unfold AI in IH. destruct (askip_elems_a rec m et (n - 1) s2 a1) as [o2 a2]. cbn [fst snd] in *.
      pose proof (phi_nonneg 3 s2 ltac:(lia)).
      destruct o2 as [[u3 s3]| |]; [destruct Hrec, IH; split; lia|lia..].
    Qed.

    Lemma askip_pairs_a_inv : forall m kt vt n s a, AI 3 0 1 K (askip_pairs_a rec m kt vt n s a) s a.
    Proof.
      pose proof K_pos as HK.
      induction m as [|m IH]; intros kt vt n s a; cbn [askip_pairs_a]; pose proof (phi_nonneg 3 s ltac:(lia)) as Hp;
        (destruct (n <=? 0); [unfold AI; cbn [fst snd]; split; lia|]).
      { unfold AI; cbn [fst snd]. lia. }
      pose proof (Hrec kt s a) as H1. unfold abind at 1. unfold AI in H1 |- *.
      destruct (rec kt s a) as [o1 a1]. cbn [fst snd] in *.
      destruct o1 as [[u s1]| |]; cbn [fst snd]; [|lia..].
      pose proof (phi_nonneg 3 s1 ltac:(lia)).
      pose proof (Hrec vt s1 a1) as H2. unfold abind. unfold AI in H2.
      destruct (rec vt s1 a1) as [o2 a2]. cbn [fst snd] in *.
      destruct o2 as [[u2 s2]| |]; cbn [fst snd]; [|lia..].
      specialize (IH kt vt (n - 1) s2 a2). unfold AI in IH. destruct (askip_pairs_a rec m kt vt (n - 1) s2 a2) as [o3 a3]. cbn [fst snd] in *.
      pose proof (phi_nonneg 3 s2 ltac:(lia)).
      destruct o3 as [[u3 s3]| |]; [destruct H1, H2, IH; split; lia|lia..].
    Qed.
  End L.

  Theorem askip_val_a_inv : forall f d ty s a, AI 3 0 1 K (askip_val_a p f d ty s a) s a.
  Proof.
    pose proof (async_prims_ok p) as HP. pose proof K_pos as HK.
    induction f as [|f IH]; intros d ty s a; pose proof (phi_nonneg 3 s ltac:(lia)) as Hp.
    { cbn [askip_val_a]. unfold AI; cbn [fst snd]. lia. }
    cbn [askip_val_a]. destruct d as [|d]; [unfold AI; cbn [fst snd]; lia|].
    destruct ty; try (unfold AI; cbn [fst snd]; lia).
    - apply SI_drop. apply (ok_bool _ _ _ _ HP).
    - apply SI_drop. apply (ok_i8 _ _ _ _ HP).
    - apply SI_drop. apply (ok_double _ _ _ _ HP).
    - apply SI_drop. apply (ok_i16 _ _ _ _ HP).
    - apply SI_drop. apply (ok_i32 _ _ _ _ HP).
    - apply SI_drop. apply (ok_i64 _ _ _ _ HP).
    - apply AI_amap. pose proof (ok_bytes _ _ _ _ HP s a) as H. cbn [async_prims p_bytes] in H. unfold ainv in H. unfold AI.
      fold K in H. destruct (fst (a_bytes_alloc p s a)) as [[l s']| |]; [destruct H; split; lia|lia..].
    - unfold abind at 1. cbn [alift fst snd]. pose proof (ok_sb _ _ _ _ HP s) as H0. cbn [async_prims p_struct_begin] in H0.
      destruct (a_struct_begin p s) as [[u s1]| |]; cbn [fst snd stepd] in *; [|unfold AI; cbn [fst snd]; lia..].
      pose proof (phi_nonneg 3 s1 ltac:(lia)).
      pose proof (askip_fields_a_inv (askip_val_a p f d) (IH d) (Datatypes.S f) s1 a) as H1. unfold abind. unfold AI in H1 |- *.
      destruct (askip_fields_a p (askip_val_a p f d) (Datatypes.S f) s1 a) as [o1 a1]. cbn [fst snd] in *.
      destruct o1 as [[u2 s2]| |]; cbn [fst snd alift]; [|lia..].
      pose proof (ok_se _ _ _ _ HP s2) as H2. cbn [async_prims p_struct_end] in H2. pose proof (phi_nonneg 3 s2 ltac:(lia)).
      destruct (a_struct_end p s2) as [[u3 s3]| |]; cbn [fst snd stepd] in *; [destruct H1; split; lia|lia..].
    - unfold abind at 1. cbn [alift fst snd]. pose proof (ok_mb _ _ _ _ HP s) as H0. cbn [async_prims p_map_begin] in H0.
      destruct (a_map_begin p s) as [[h s1]| |]; cbn [fst snd]; [|unfold AI; cbn [fst snd]; lia..]. destruct H0 as [H0 _].
      pose proof (phi_nonneg 3 s1 ltac:(lia)).
      pose proof (askip_pairs_a_inv (askip_val_a p f d) (IH d) (Datatypes.S f) (fst (fst h)) (snd (fst h)) (snd h) s1 a) as H1.
      unfold AI in H1 |- *. destruct (askip_pairs_a (askip_val_a p f d) (Datatypes.S f) _ _ _ s1 a) as [o1 a1]. cbn [fst snd] in *.
      destruct o1 as [[u2 s2]| |]; [destruct H1; split; lia|lia..].
    - unfold abind at 1. cbn [alift fst snd]. pose proof (ok_cb _ _ _ _ HP s) as H0. cbn [async_prims p_coll_begin] in H0.
      destruct (a_coll_begin p s) as [[h s1]| |]; cbn [fst snd]; [|unfold AI; cbn [fst snd]; lia..]. destruct H0 as [H0 _].
      pose proof (phi_nonneg 3 s1 ltac:(lia)).
      pose proof (askip_elems_a_inv (askip_val_a p f d) (IH d) (Datatypes.S f) (fst h) (snd h) s1 a) as H1.
      unfold AI in H1 |- *. destruct (askip_elems_a (askip_val_a p f d) (Datatypes.S f) _ _ s1 a) as [o1 a1]. cbn [fst snd] in *.
      destruct o1 as [[u2 s2]| |]; [destruct H1; split; lia|lia..].
    - unfold abind at 1. cbn [alift fst snd]. pose proof (ok_cb _ _ _ _ HP s) as H0. cbn [async_prims p_coll_begin] in H0.
      destruct (a_coll_begin p s) as [[h s1]| |]; cbn [fst snd]; [|unfold AI; cbn [fst snd]; lia..]. destruct H0 as [H0 _].
      pose proof (phi_nonneg 3 s1 ltac:(lia)).
      pose proof (askip_elems_a_inv (askip_val_a p f d) (IH d) (Datatypes.S f) (fst h) (snd h) s1 a) as H1.
      unfold AI in H1 |- *. destruct (askip_elems_a (askip_val_a p f d) (Datatypes.S f) _ _ s1 a) as [o1 a1]. cbn [fst snd] in *.
      destruct o1 as [[u2 s2]| |]; [destruct H1; split; lia|lia..].
    - apply SI_drop. apply (ok_uuid _ _ _ _ HP).
  Qed.
End SkipInv.

Section Bound.
  Variable md : dmode.
  Variable kb : bool.
  Variable S : schema.
  Variable p : pk.
  Variable wgt : list (nat * Z).
  Hypothesis Hok : weights_ok md kb S wgt = true.

  Let w := pot_w md.
  Let B := bytes_k md.
  Notation gw := (gw md kb S wgt).

  Lemma w_ge2 : 2 <= w.
  Proof. unfold w. destruct md; cbn; lia. Qed.
  Lemma B_nonneg : 0 <= B.
  Proof. unfold B. destruct md; cbn; [lia|]. pose proof prealloc_limit_nonneg. lia. Qed.

  Lemma entry_ok n z : wlookup wgt n = Some z -> decl_weight_ok md kb S wgt n z = true.
  Proof.
    intros H. apply wlookup_in in H. unfold weights_ok in Hok. rewrite forallb_forall in Hok. apply (Hok (n, z) H).
  Qed.

  (* inversion of the weight of a container type: only the sync templates have one *)
  Lemma gw_list_inv et g : gw (TyList et) = Some g ->
    md = MSync /\ is_void (resolve S et) = false /\ exists g0, gw et = Some g0 /\ g = esz kb S et + g0.
  Proof.
    cbn [GenAlloc.gw]. destruct (gw et) as [g0|]; destruct md; cbn beta iota; try discriminate.
    destruct (is_void (resolve S et)); [discriminate|]. intros H. injection H as <-. eauto.
  Qed.
  Lemma gw_set_inv et g : gw (TySet et) = Some g ->
    md = MSync /\ is_void (resolve S et) = false /\ exists g0, gw et = Some g0 /\ g = 52 * (esz kb S et + 16) + g0.
  Proof.
    cbn [GenAlloc.gw]. destruct (gw et) as [g0|]; destruct md; cbn beta iota; try discriminate.
    destruct (is_void (resolve S et)); [discriminate|]. intros H. injection H as <-. eauto.
  Qed.
  Lemma gw_map_inv kt vt g : gw (TyMap kt vt) = Some g ->
    md = MSync /\ is_void (resolve S kt) = false /\ is_void (resolve S vt) = false /\
    exists g1 g2, gw kt = Some g1 /\ gw vt = Some g2 /\ g = 52 * (esz kb S kt + esz kb S vt + 16) + Z.max g1 g2.
  Proof.
    cbn [GenAlloc.gw]. destruct (gw kt) as [g1|]; destruct (gw vt) as [g2|]; destruct md; cbn beta iota; try discriminate.
    destruct (is_void (resolve S kt)); [discriminate|]. destruct (is_void (resolve S vt)); [discriminate|].
    cbn [orb]. intros H. injection H as <-. repeat split; eauto.
  Qed.

  Lemma gw_nonneg : forall t g, gw t = Some g -> 0 <= g.
  Proof.
    induction t; intros g H; try (cbn [GenAlloc.gw] in H; injection H as <-; lia).
    - apply gw_list_inv in H as (_ & _ & g0 & E & ->). specialize (IHt g0 E). pose proof (esz_nonneg kb S t). lia.
    - apply gw_set_inv in H as (_ & _ & g0 & E & ->). specialize (IHt g0 E). pose proof (esz_nonneg kb S t). lia.
    - apply gw_map_inv in H as (_ & _ & _ & g1 & g2 & E1 & E2 & ->). specialize (IHt1 g1 E1). specialize (IHt2 g2 E2).
      pose proof (esz_nonneg kb S t1). pose proof (esz_nonneg kb S t2). lia.
    - cbn [GenAlloc.gw] in H. apply entry_ok in H. unfold decl_weight_ok in H. apply andb_prop in H as [H _]. lia.
  Qed.

  Lemma le_opt_inv t z : le_opt (gw t) z = true -> exists g, gw t = Some g /\ g <= z.
  Proof. unfold le_opt. destruct (gw t) as [g|]; [|discriminate]. intros H. exists g. split; [reflexivity|lia]. Qed.

  (* resolving typedefs does not raise the weight *)
  Lemma gw_resolve_n : forall fuel t g, gw t = Some g -> exists g', gw (resolve_n S fuel t) = Some g' /\ g' <= g.
  Proof.
    induction fuel as [|f IH]; intros t g H; cbn [resolve_n]; [exists g; split; [exact H|lia]|].
    destruct t; try (exists g; split; [exact H|lia]).
    destruct (lookup S n) as [[| | |t']|] eqn:El; try (exists g; split; [exact H|lia]).
    cbn [GenAlloc.gw] in H. pose proof (entry_ok _ _ H) as E. unfold decl_weight_ok in E. rewrite El in E.
    apply andb_prop in E as [_ E]. apply le_opt_inv in E as (g1 & E1 & L1).
    destruct (IH t' g1 E1) as (g' & E' & L'). exists g'. split; [exact E'|lia].
  Qed.
  Lemma gw_resolve t g : gw t = Some g -> exists g', gw (resolve S t) = Some g' /\ g' <= g.
  Proof. apply gw_resolve_n. Qed.

  (* ---- the primitive operations of the template instance ---- *)
  Definition MP : prims := match md with MSync => sync_prims p | MAsync => async_prims p end.
  Lemma MP_ok : prims_ok w (is_sync md) B MP.
  Proof. unfold w, B, MP. destruct md; cbn [pot_w bytes_k is_sync]; [apply sync_prims_ok|apply async_prims_ok]. Qed.

  Lemma m_bool_step s : stepd w 1 (m_bool md p s) s.
  Proof. pose proof (ok_bool _ _ _ _ MP_ok s) as H. unfold MP in H. destruct md; exact H. Qed.
  Lemma m_i8_step s : stepd w 1 (m_i8 md s) s.
  Proof. pose proof (ok_i8 _ _ _ _ MP_ok s) as H. unfold MP in H. destruct md; exact H. Qed.
  Lemma m_i16_step s : stepd w 1 (m_i16 md p s) s.
  Proof. pose proof (ok_i16 _ _ _ _ MP_ok s) as H. unfold MP in H. destruct md; exact H. Qed.
  Lemma m_i32_step s : stepd w 1 (m_i32 md p s) s.
  Proof. pose proof (ok_i32 _ _ _ _ MP_ok s) as H. unfold MP in H. destruct md; exact H. Qed.
  Lemma m_i64_step s : stepd w 1 (m_i64 md p s) s.
  Proof. pose proof (ok_i64 _ _ _ _ MP_ok s) as H. unfold MP in H. destruct md; exact H. Qed.
  Lemma m_double_step s : stepd w 1 (m_double md p s) s.
  Proof. pose proof (ok_double _ _ _ _ MP_ok s) as H. unfold MP in H. destruct md; exact H. Qed.
  Lemma m_uuid_step s : stepd w 1 (m_uuid md s) s.
  Proof. pose proof (ok_uuid _ _ _ _ MP_ok s) as H. unfold MP in H. destruct md; exact H. Qed.
  Lemma m_struct_begin_step s : stepd w 0 (m_struct_begin md p s) s.
  Proof. pose proof (ok_sb _ _ _ _ MP_ok s) as H. unfold MP in H. destruct md; exact H. Qed.
  Lemma m_struct_end_step s : stepd w 0 (m_struct_end md p s) s.
  Proof. pose proof (ok_se _ _ _ _ MP_ok s) as H. unfold MP in H. destruct md; exact H. Qed.
  Lemma m_field_begin_step s :
    match m_field_begin md p s with
    | Ok (h, s') => phi w s' + (if ttype_eqb (fst h) TStop then 2 else 1) <= phi w s
    | _ => True
    end.
  Proof. pose proof (ok_fb _ _ _ _ MP_ok s) as H. unfold MP in H. destruct md; exact H. Qed.
  Lemma m_bytes_inv s a : ainv w 1 1 1 B (m_bytes_alloc md p s a) s a.
  Proof. pose proof (ok_bytes _ _ _ _ MP_ok s a) as H. unfold MP in H. destruct md; exact H. Qed.

  (* the TLengthProtocol calls of the sync templates do not touch the potential *)
  Lemma m_fbl_phi ft id s n s' : m_field_begin_len md p ft id s = Ok (n, s') -> phi w s' = phi w s.
  Proof.
    destruct md; cbn [m_field_begin_len].
    - intros H. apply fbl_erase in H. rewrite <- (phi_erase w s'), H. reflexivity.
    - intros H. injection H as _ <-. reflexivity.
  Qed.
  Lemma m_fel_phi s n s' : m_field_end_len md p s = Ok (n, s') -> phi w s' = phi w s.
  Proof.
    destruct md; cbn [m_field_end_len]; intros H; [apply assert_same in H; subst; reflexivity|injection H as _ <-; reflexivity].
  Qed.
  Lemma m_fsl_phi s n s' : m_field_stop_len md p s = Ok (n, s') -> phi w s' = phi w s.
  Proof.
    destruct md; cbn [m_field_stop_len]; intros H; [apply assert_same in H; subst; reflexivity|injection H as _ <-; reflexivity].
  Qed.

  Lemma m_skip_step fk ft s : stepd w 0 (m_skip md p fk ft s) s.
  Proof.
    unfold w. destruct md; cbn [m_skip pot_w].
    - unfold skip.
      pose proof (read_val_a_inv 2 ltac:(lia) false 1 (sync_prims p) (sync_prims_ok false p) fk ft s 0) as H.
      unfold ainv in H. change (read_val_a false (sync_prims p)) with (read_val_alloc false p) in H.
      rewrite alloc_erase_sync in H.
      destruct (read_val p fk ft s) as [[v s']| |]; cbn [bind stepd]; auto.
      destruct (Nat.leb (vdepth v) maximum_skip_depth_nat); cbn [bind stepd]; auto. lia.
    - apply askip_val_step.
  Qed.

  Lemma m_skip_alloc_inv fk ft s a : AI w 0 1 B (m_skip_alloc md p fk ft s a) s a.
  Proof.
    pose proof (m_skip_step fk ft s) as Hs. revert Hs. unfold w, B. destruct md; cbn [m_skip_alloc pot_w bytes_k]; intros Hs.
    - apply AI_lift; auto; lia.
    - apply askip_val_a_inv.
  Qed.

  Lemma m_coll_begin_step s :
    match m_coll_begin md p s with
    | Ok (h, s') => phi w s' + 1 <= phi w s /\ (is_sync md = true -> 0 <= snd h <= phi w s')
    | _ => True
    end.
  Proof. pose proof (ok_cb _ _ _ _ MP_ok s) as H. unfold MP in H. destruct md; exact H. Qed.
  Lemma m_map_begin_step s :
    match m_map_begin md p s with
    | Ok (h, s') => phi w s' + 1 <= phi w s /\ (is_sync md = true -> 0 <= snd h <= phi w s')
    | _ => True
    end.
  Proof. pose proof (ok_mb _ _ _ _ MP_ok s) as H. unfold MP in H. destruct md; exact H. Qed.

  Lemma w_nonneg : 0 <= w.
  Proof. pose proof w_ge2. lia. Qed.

  (* ---- the loops ---- *)
  Lemma al_elems_inv (rec : ty -> am gval) et ge : 0 <= ge ->
    (forall s a, AI w 1 ge B (rec et s a) s a) ->
    forall m n acc s a, AI w (Z.max n 0) ge B (al_elems rec m et n acc s a) s a.
  Proof.
    intros Hge Hrec. pose proof B_nonneg as HB. pose proof w_nonneg as Hw.
    induction m as [|m IH]; intros n acc s a; cbn [al_elems]; pose proof (phi_nonneg w s Hw) as Hp;
      (destruct (Z.leb_spec n 0) as [Hn|Hn]; [unfold AI; cbn [fst snd]; split; [lia|nia]|]).
    - unfold AI; cbn [fst snd]. nia.
    - specialize (Hrec s a). unfold abind. unfold AI in Hrec |- *.
      destruct (rec et s a) as [o1 a1]. cbn [fst snd] in *.
      destruct o1 as [[x s1]| |]; cbn [fst snd]; [|exact Hrec|exact Hrec].
      destruct Hrec as [H1 H2].
      specialize (IH (n - 1) (x :: acc) s1 a1). unfold AI in IH.
      destruct (al_elems rec m et (n - 1) (x :: acc) s1 a1) as [o2 a2]. cbn [fst snd] in *.
      pose proof (phi_nonneg w s1 Hw) as Hp1.
      destruct o2 as [[l s2]| |]; [destruct IH as [I1 I2]; split; [lia|nia]|nia|nia].
  Qed.

  Lemma al_pairs_inv (rec : ty -> am gval) kt vt ge : 0 <= ge ->
    (forall s a, AI w 1 ge B (rec kt s a) s a) -> (forall s a, AI w 1 ge B (rec vt s a) s a) ->
    forall m n acc s a, AI w (Z.max n 0) ge B (al_pairs rec m kt vt n acc s a) s a.
  Proof.
    intros Hge Hk Hv. pose proof B_nonneg as HB. pose proof w_nonneg as Hw.
    induction m as [|m IH]; intros n acc s a; cbn [al_pairs]; pose proof (phi_nonneg w s Hw) as Hp;
      (destruct (Z.leb_spec n 0) as [Hn|Hn]; [unfold AI; cbn [fst snd]; split; [lia|nia]|]).
    - unfold AI; cbn [fst snd]. nia.
    - specialize (Hk s a). unfold abind at 1. unfold AI in Hk |- *.
      destruct (rec kt s a) as [o1 a1]. cbn [fst snd] in *.
      destruct o1 as [[x s1]| |]; cbn [fst snd]; [|exact Hk|exact Hk].
      destruct Hk as [H1 H2]. pose proof (phi_nonneg w s1 Hw) as Hp1.
      specialize (Hv s1 a1). unfold abind. unfold AI in Hv.
      destruct (rec vt s1 a1) as [o2 a2]. cbn [fst snd] in *.
      destruct o2 as [[y s2]| |]; cbn [fst snd]; [|nia|nia].
      destruct Hv as [H3 H4]. pose proof (phi_nonneg w s2 Hw) as Hp2.
      specialize (IH (n - 1) ((x, y) :: acc) s2 a2). unfold AI in IH.
      destruct (al_pairs rec m kt vt (n - 1) ((x, y) :: acc) s2 a2) as [o3 a3]. cbn [fst snd] in *.
      destruct o3 as [[l s3]| |]; [destruct IH as [I1 I2]; split; [lia|nia]|nia|nia].
  Qed.

  (* struct / union loops: [z] bounds the weight of every member; on success one [z] is left to pay for the frame
     (the stop byte costs two units of potential and requests nothing); on failure no "+ 1": the field header that
     precedes a failing member pays for it *)
  Definition LI {A} (z : Z) (x : ares A) (s : rst) (a : Z) : Prop :=
    match fst x with
    | Ok (_, s') => phi w s' + 2 <= phi w s /\ snd x - a + z <= z * (phi w s - phi w s')
    | _ => snd x - a <= z * phi w s + B
    end.

  Definition dv (t : ty) : Z := if is_void (resolve S t) then 0 else 1.
  Lemma dv_range t : 0 <= dv t <= 1.
  Proof. unfold dv. destruct (is_void (resolve S t)); lia. Qed.

  Section MemberLoops.
    Variable fk : nat.
    Variable rec : ty -> am gval.
    Variable z : Z.
    Hypothesis Hz : 1 <= z.
    Hypothesis Hrec : forall t g, gw t = Some g -> g <= z -> forall s a, AI w (dv t) g B (rec t s a) s a.

    (* a member decoded right after a field header that consumed at least one unit *)
    Lemma member_step t g s0 s a : gw t = Some g -> g <= z -> phi w s + 1 <= phi w s0 ->
      match fst (rec t s a) with
      | Ok (_, s') => phi w s' <= phi w s /\ snd (rec t s a) - a <= z * (phi w s - phi w s')
      | _ => snd (rec t s a) - a <= z * phi w s0 + B
      end.
    Proof.
      intros Hg Hle Hs. pose proof (Hrec t g Hg Hle s a) as H. unfold AI in H.
      pose proof (gw_nonneg t g Hg) as Hg0. pose proof (dv_range t) as Hd. pose proof w_nonneg as Hw.
      pose proof (phi_nonneg w s Hw).
      destruct (fst (rec t s a)) as [[x s']| |]; [destruct H; split; [lia|nia]|nia|nia].
    Qed.

    Lemma al_fields_inv fs : (forall fd, In fd fs -> le_opt (gw (f_ty fd)) z = true) ->
      forall m vars s a, LI z (al_fields md S p fk rec m fs vars s a) s a.
    Proof.
      intros Hfs. pose proof B_nonneg as HB. pose proof w_nonneg as Hw.
      induction m as [|m IH]; intros vars s a; cbn [al_fields]; pose proof (phi_nonneg w s Hw) as Hp.
      { unfold LI; cbn [fst snd]. nia. }
      unfold abind at 1. cbn [alift fst snd]. pose proof (m_field_begin_step s) as H0.
      destruct (m_field_begin md p s) as [[h s1]| |]; cbn [fst snd]; [|unfold LI; cbn [fst snd]; nia..].
      pose proof (phi_nonneg w s1 Hw) as Hp1.
      destruct (ttype_eqb (fst h) TStop).
      { unfold abind. cbn [alift fst snd]. destruct (m_field_stop_len md p s1) as [[n s2]| |] eqn:E; cbn [fst snd];
          [apply m_fsl_phi in E; unfold LI; cbn [fst snd]; rewrite E; split; [lia|nia]|unfold LI; cbn [fst snd]; nia..]. }
      unfold abind at 1. cbn [alift fst snd].
      destruct (m_field_begin_len md p (fst h) (snd h) s1) as [[n s2]| |] eqn:E; cbn [fst snd]; [|unfold LI; cbn [fst snd]; nia..].
      apply m_fbl_phi in E.
      (* the member or the skipper *)
      set (X := match match_field S fs 0 (snd h) (fst h) with
                | Some (i, f) => abind (rec (f_ty f) s2 a) (fun x s a => (Ok (set_nth i (Some x) vars, s), a))
                | None => abind (m_skip_alloc md p fk (fst h) s2 a) (fun _ s a => (Ok (vars, s), a))
                end).
      assert (HX : match fst X with
                   | Ok (_, s3) => phi w s3 <= phi w s2 /\ snd X - a <= z * (phi w s2 - phi w s3)
                   | _ => snd X - a <= z * phi w s + B
                   end).
      { subst X. destruct (match_field S fs 0 (snd h) (fst h)) as [[i f]|] eqn:Em.
        - destruct (match_field_spec _ _ _ _ _ _ _ Em) as [Hin _].
          apply Hfs, le_opt_inv in Hin as (g & Hg & Hle).
          pose proof (member_step (f_ty f) g s s2 a Hg Hle ltac:(lia)) as M. unfold abind.
          destruct (rec (f_ty f) s2 a) as [o1 a1]. cbn [fst snd] in *. destruct o1 as [[x s3]| |]; cbn [fst snd]; exact M.
        - pose proof (m_skip_alloc_inv fk (fst h) s2 a) as Hs. unfold AI in Hs. unfold abind.
          destruct (m_skip_alloc md p fk (fst h) s2 a) as [o1 a1]. cbn [fst snd] in *.
          destruct o1 as [[u s3]| |]; cbn [fst snd] in *; [destruct Hs; split; [lia|nia]|nia|nia]. }
      unfold abind at 1. destruct X as [oX aX]. cbn [fst snd] in *.
      destruct oX as [[vars' s3]| |]; cbn [fst snd]; [|unfold LI; cbn [fst snd]; lia..].
      destruct HX as [HX1 HX2]. pose proof (phi_nonneg w s3 Hw) as Hp3.
      unfold abind. cbn [alift fst snd].
      destruct (m_field_end_len md p s3) as [[n' s4]| |] eqn:E4; cbn [fst snd]; [|unfold LI; cbn [fst snd]; nia..].
      apply m_fel_phi in E4.
      specialize (IH vars' s4 aX). unfold LI in IH |- *.
      destruct (al_fields md S p fk rec m fs vars' s4 aX) as [o5 a5]. cbn [fst snd] in *.
      destruct o5 as [[v5 s5]| |]; [destruct IH as [I1 I2]; split; [lia|nia]|nia|nia].
    Qed.

    Lemma al_variants_inv vs : (forall q, In q vs -> le_opt (gw (snd q)) z = true) ->
      forall m ret s a, LI z (al_variants md S p fk rec m vs ret s a) s a.
    Proof.
      intros Hvs. pose proof B_nonneg as HB. pose proof w_nonneg as Hw.
      induction m as [|m IH]; intros ret s a; cbn [al_variants]; pose proof (phi_nonneg w s Hw) as Hp.
      { unfold LI; cbn [fst snd]. nia. }
      unfold abind at 1. cbn [alift fst snd]. pose proof (m_field_begin_step s) as H0.
      destruct (m_field_begin md p s) as [[h s1]| |]; cbn [fst snd]; [|unfold LI; cbn [fst snd]; nia..].
      pose proof (phi_nonneg w s1 Hw) as Hp1.
      destruct (ttype_eqb (fst h) TStop).
      { unfold abind. cbn [alift fst snd]. destruct (m_field_stop_len md p s1) as [[n s2]| |] eqn:E; cbn [fst snd];
          [apply m_fsl_phi in E; unfold LI; cbn [fst snd]; rewrite E; split; [lia|nia]|unfold LI; cbn [fst snd]; nia..]. }
      unfold abind at 1. cbn [alift fst snd].
      destruct (m_field_begin_len md p (fst h) (snd h) s1) as [[n s2]| |] eqn:E; cbn [fst snd]; [|unfold LI; cbn [fst snd]; nia..].
      apply m_fbl_phi in E.
      destruct (snd h) as [id|]; [destruct (find_variant vs id) as [vt|] eqn:Ef; [destruct (is_void (resolve S vt))|]|].
      2:{ (* a known variant *)
        destruct ret; [unfold LI; cbn [fst snd]; nia|].
        apply find_variant_in in Ef. apply Hvs in Ef. cbn [snd] in Ef. apply le_opt_inv in Ef as (g & Hg & Hle).
        pose proof (member_step vt g s s2 a Hg Hle ltac:(lia)) as M. unfold abind.
        destruct (rec vt s2 a) as [o1 a1]. cbn [fst snd] in *.
        destruct o1 as [[x s3]| |]; cbn [fst snd]; [|unfold LI; cbn [fst snd]; lia..].
        destruct M as [M1 M2]. pose proof (phi_nonneg w s3 Hw).
        specialize (IH (Some (id, x)) s3 a1). unfold LI in IH |- *.
        destruct (al_variants md S p fk rec m vs (Some (id, x)) s3 a1) as [o5 a5]. cbn [fst snd] in *.
        destruct o5 as [[v5 s5]| |]; [destruct IH as [I1 I2]; split; [lia|nia]|nia|nia]. }
      all: pose proof (m_skip_alloc_inv fk (fst h) s2 a) as Hs; unfold AI in Hs; unfold abind;
        destruct (m_skip_alloc md p fk (fst h) s2 a) as [o1 a1]; cbn [fst snd] in *;
        (destruct o1 as [[u s3]| |]; cbn [fst snd] in *; [|unfold LI; cbn [fst snd]; nia..]);
        destruct Hs as [Hs1 Hs2]; pose proof (phi_nonneg w s3 Hw); specialize (IH ret s3 a1); unfold LI in IH |- *;
        destruct (al_variants md S p fk rec m vs ret s3 a1) as [o5 a5]; cbn [fst snd] in *;
        (destruct o5 as [[v5 s5]| |]; [destruct IH as [I1 I2]; split; [lia|nia]|nia|nia]).
    Qed.
  End MemberLoops.


  Lemma AI_prim {A C} (g : A -> C) (m : rm A) G s a : 0 <= G -> stepd w 1 (m s) s ->
    AI w 1 G B (amap g (alift m s a)) s a.
  Proof. intros HG H. apply AI_amap, AI_lift; auto; try lia; [apply w_nonneg|apply B_nonneg]. Qed.

  Theorem alloc_inv : forall f t g, gw t = Some g ->
    forall s a, AI w (dv t) g B (alloc_decode md kb S p f t s a) s a.
  Proof.
    pose proof B_nonneg as HB. pose proof w_nonneg as Hw.
    induction f as [|f IH]; intros t g Hg s a; pose proof (gw_nonneg t g Hg) as Hg0; pose proof (phi_nonneg w s Hw) as Hp.
    { cbn [alloc_decode]. unfold AI. cbn [fst snd]. nia. }
    rewrite alloc_decode_S. destruct (gw_resolve t g Hg) as (g' & Hg' & Hle).
    pose proof (gw_nonneg _ _ Hg') as Hg'0. pose proof (dv_range t) as Hdv.
    apply (AI_mono w (dv t) (dv t) g' g B B); [exact Hw|lia|lia|lia|].
    unfold dv. clear Hdv.
    assert (IHe : forall et g0, gw et = Some g0 -> is_void (resolve S et) = false ->
                  forall s a, AI w 1 g0 B (alloc_decode md kb S p f et s a) s a).
    { intros et g0 E0 Ev s0 a0. pose proof (IH et g0 E0 s0 a0) as H. unfold dv in H. rewrite Ev in H. exact H. }
    destruct (resolve S t) as [| | | | | | | | | |et|et|kt vt|n] eqn:Er; cbn [is_void].
    - apply AI_prim; [lia|apply m_bool_step].
    - apply AI_prim; [lia|apply m_i8_step].
    - apply AI_prim; [lia|apply m_i16_step].
    - apply AI_prim; [lia|apply m_i32_step].
    - apply AI_prim; [lia|apply m_i64_step].
    - apply AI_prim; [lia|apply m_double_step].
    - (* string *)
      cbn [GenAlloc.gw] in Hg'. injection Hg' as <-. apply AI_amap.
      pose proof (m_bytes_inv s a) as H. unfold ainv in H. unfold AI.
      destruct (fst (m_bytes_alloc md p s a)) as [[l s']| |]; [destruct H; split; lia|lia|lia].
    - cbn [GenAlloc.gw] in Hg'. injection Hg' as <-. apply AI_amap.
      pose proof (m_bytes_inv s a) as H. unfold ainv in H. unfold AI.
      destruct (fst (m_bytes_alloc md p s a)) as [[l s']| |]; [destruct H; split; lia|lia|lia].
    - apply AI_prim; [lia|apply m_uuid_step].
    - (* void *)
      unfold abind at 1. cbn [alift fst snd]. pose proof (m_struct_begin_step s) as H0.
      destruct (m_struct_begin md p s) as [[u s0]| |]; cbn [fst snd stepd] in *; [|unfold AI; cbn [fst snd]; nia..].
      unfold abind. cbn [alift fst snd]. pose proof (m_struct_end_step s0) as H1.
      destruct (m_struct_end md p s0) as [[u1 s1]| |]; cbn [fst snd stepd] in *; unfold AI; cbn [fst snd]; [split; [lia|nia]|nia|nia].
    - (* list *)
      apply gw_list_inv in Hg' as (Hmd & Ev & g0 & E0 & ->). pose proof (esz_nonneg kb S et) as He.
      pose proof (gw_nonneg _ _ E0) as Hg00.
      unfold abind at 1. cbn [alift fst snd]. pose proof (m_coll_begin_step s) as H0.
      destruct (m_coll_begin md p s) as [[h s0]| |]; cbn [fst snd]; [|unfold AI; cbn [fst snd]; nia..].
      destruct H0 as [H0 Hn]. specialize (Hn ltac:(rewrite Hmd; reflexivity)). pose proof (phi_nonneg w s0 Hw) as Hp0.
      pose proof (al_elems_inv (alloc_decode md kb S p f) et g0 Hg00 (IHe et g0 E0 Ev) (Datatypes.S f) (snd h) [] s0
                    (a + list_cost (esz kb S et) (snd h))) as L.
      unfold amap, abind, AI in *. unfold list_cost in *.
      destruct (al_elems (alloc_decode md kb S p f) (Datatypes.S f) et (snd h) [] s0 (a + esz kb S et * Z.max (snd h) 0)) as [o2 a2].
      cbn [fst snd] in *. destruct o2 as [[l s2]| |]; cbn [fst snd].
      + destruct L as [L1 L2]. pose proof (phi_nonneg w s2 Hw). split; [lia|nia].
      + nia.
      + nia.
    - (* set *)
      apply gw_set_inv in Hg' as (Hmd & Ev & g0 & E0 & ->). pose proof (esz_nonneg kb S et) as He.
      pose proof (gw_nonneg _ _ E0) as Hg00.
      unfold abind at 1. cbn [alift fst snd]. pose proof (m_coll_begin_step s) as H0.
      destruct (m_coll_begin md p s) as [[h s0]| |]; cbn [fst snd]; [|unfold AI; cbn [fst snd]; nia..].
      destruct H0 as [H0 Hn]. specialize (Hn ltac:(rewrite Hmd; reflexivity)). pose proof (phi_nonneg w s0 Hw) as Hp0.
      pose proof (al_elems_inv (alloc_decode md kb S p f) et g0 Hg00 (IHe et g0 E0 Ev) (Datatypes.S f) (snd h) [] s0
                    (a + hash_cost (esz kb S et) (snd h))) as L.
      unfold amap, abind, AI in *. unfold hash_cost in *.
      set (e16 := esz kb S et + 16) in *. assert (He16 : 0 <= e16) by (unfold e16; lia).
      destruct (al_elems (alloc_decode md kb S p f) (Datatypes.S f) et (snd h) [] s0 (a + 4 * (Z.max (snd h) 0 + 12) * e16)) as [o2 a2].
      cbn [fst snd] in *. destruct o2 as [[l s2]| |]; cbn [fst snd].
      + destruct L as [L1 L2]. pose proof (phi_nonneg w s2 Hw). split; [lia|nia].
      + nia.
      + nia.
    - (* map *)
      apply gw_map_inv in Hg' as (Hmd & Evk & Evv & g1 & g2 & E1 & E2 & ->).
      pose proof (esz_nonneg kb S kt) as Hek. pose proof (esz_nonneg kb S vt) as Hev.
      pose proof (gw_nonneg _ _ E1) as Hg10. pose proof (gw_nonneg _ _ E2) as Hg20.
      unfold abind at 1. cbn [alift fst snd]. pose proof (m_map_begin_step s) as H0.
      destruct (m_map_begin md p s) as [[h s0]| |]; cbn [fst snd]; [|unfold AI; cbn [fst snd]; nia..].
      destruct H0 as [H0 Hn]. specialize (Hn ltac:(rewrite Hmd; reflexivity)). pose proof (phi_nonneg w s0 Hw) as Hp0.
      assert (Hk : forall s a, AI w 1 (Z.max g1 g2) B (alloc_decode md kb S p f kt s a) s a).
      { intros s1 a1. apply (AI_mono w 1 1 g1 (Z.max g1 g2) B B); [exact Hw|lia|lia|lia|apply (IHe kt g1 E1 Evk)]. }
      assert (Hv : forall s a, AI w 1 (Z.max g1 g2) B (alloc_decode md kb S p f vt s a) s a).
      { intros s1 a1. apply (AI_mono w 1 1 g2 (Z.max g1 g2) B B); [exact Hw|lia|lia|lia|apply (IHe vt g2 E2 Evv)]. }
      pose proof (al_pairs_inv (alloc_decode md kb S p f) kt vt (Z.max g1 g2) ltac:(lia) Hk Hv (Datatypes.S f) (snd h) [] s0
                    (a + hash_cost (esz kb S kt + esz kb S vt) (snd h))) as L.
      unfold amap, abind, AI in *. unfold hash_cost in *.
      set (e16 := esz kb S kt + esz kb S vt + 16) in *. assert (He16 : 0 <= e16) by (unfold e16; lia).
      set (gm := Z.max g1 g2) in *. assert (Hgm : 0 <= gm) by (unfold gm; lia).
      destruct (al_pairs (alloc_decode md kb S p f) (Datatypes.S f) kt vt (snd h) [] s0 (a + 4 * (Z.max (snd h) 0 + 12) * e16)) as [o2 a2].
      cbn [fst snd] in *. destruct o2 as [[l s2]| |]; cbn [fst snd].
      + destruct L as [L1 L2]. pose proof (phi_nonneg w s2 Hw). split; [lia|nia].
      + nia.
      + nia.
    - (* a declared type *)
      cbn [GenAlloc.gw] in Hg'. pose proof (entry_ok _ _ Hg') as E. unfold decl_weight_ok in E.
      apply andb_prop in E as [_ E].
      destruct (lookup S n) as [[fs kp ia|vs vo kp|ms|tt]|] eqn:El; try (unfold AI; cbn [fst snd]; nia).
      + (* struct *)
        apply andb_prop in E as [Efc Efs]. rewrite forallb_forall in Efs.
        assert (Hfc : frame_cost md kb S n <= g') by lia.
        assert (Hfc0 : 1 <= frame_cost md kb S n).
        { unfold frame_cost. pose proof (frame_const_nonneg md kb). pose proof (esz_nonneg kb S (TyRef n)). lia. }
        unfold abind at 1. cbn [alift fst snd]. pose proof (m_struct_begin_step s) as H0.
        destruct (m_struct_begin md p s) as [[u s0]| |]; cbn [fst snd stepd] in *; [|unfold AI; cbn [fst snd]; nia..].
        pose proof (phi_nonneg w s0 Hw) as Hp0.
        pose proof (al_fields_inv f (alloc_decode md kb S p f) g' ltac:(lia) (fun t0 g0 E0 _ => IH t0 g0 E0) fs Efs
                      (Datatypes.S f) (map init_var fs) s0 (a + frame_cost md kb S n)) as L.
        unfold abind at 1. unfold LI in L.
        destruct (al_fields md S p f (alloc_decode md kb S p f) (Datatypes.S f) fs (map init_var fs) s0 (a + frame_cost md kb S n)) as [o1 a1].
        cbn [fst snd] in *. destruct o1 as [[vars s1]| |]; cbn [fst snd]; [|unfold AI; cbn [fst snd]; nia..].
        destruct L as [L1 L2]. pose proof (phi_nonneg w s1 Hw) as Hp1.
        unfold abind. cbn [alift fst snd]. pose proof (m_struct_end_step s1) as H2.
        destruct (m_struct_end md p s1) as [[u2 s2]| |]; cbn [fst snd stepd] in *; [|unfold AI; cbn [fst snd]; nia..].
        pose proof (phi_nonneg w s2 Hw) as Hp2.
        destruct (finish_fields fs vars) as [out| |]; unfold AI; cbn [fst snd]; [split; [lia|nia]|nia|nia].
      + (* union *)
        apply andb_prop in E as [Efc Evs]. rewrite forallb_forall in Evs.
        assert (Hfc : frame_cost md kb S n <= g') by lia.
        assert (Hfc0 : 1 <= frame_cost md kb S n).
        { unfold frame_cost. pose proof (frame_const_nonneg md kb). pose proof (esz_nonneg kb S (TyRef n)). lia. }
        unfold abind at 1. cbn [alift fst snd]. pose proof (m_struct_begin_step s) as H0.
        destruct (m_struct_begin md p s) as [[u s0]| |]; cbn [fst snd stepd] in *; [|unfold AI; cbn [fst snd]; nia..].
        pose proof (phi_nonneg w s0 Hw) as Hp0.
        pose proof (al_variants_inv f (alloc_decode md kb S p f) g' ltac:(lia) (fun t0 g0 E0 _ => IH t0 g0 E0) vs Evs
                      (Datatypes.S f) None s0 (a + frame_cost md kb S n)) as L.
        unfold abind at 1. unfold LI in L.
        destruct (al_variants md S p f (alloc_decode md kb S p f) (Datatypes.S f) vs None s0 (a + frame_cost md kb S n)) as [o1 a1].
        cbn [fst snd] in *. destruct o1 as [[ret s1]| |]; cbn [fst snd]; [|unfold AI; cbn [fst snd]; nia..].
        destruct L as [L1 L2]. pose proof (phi_nonneg w s1 Hw) as Hp1.
        unfold abind. cbn [alift fst snd]. pose proof (m_struct_end_step s1) as H2.
        destruct (m_struct_end md p s1) as [[u2 s2]| |]; cbn [fst snd stepd] in *; [|unfold AI; cbn [fst snd]; nia..].
        pose proof (phi_nonneg w s2 Hw) as Hp2.
        destruct ret as [[id x]|]; [unfold AI; cbn [fst snd]; split; [lia|nia]|].
        destruct vo; [|unfold AI; cbn [fst snd]; nia].
        destruct vs as [|[id0 t0] r]; unfold AI; cbn [fst snd]; [nia|split; [lia|nia]].
      + (* enum *)
        apply AI_prim; [lia|apply m_i32_step].
  Qed.
End Bound.

(* C09_gen_alloc: with a certificate, on every byte string, every protocol, every fuel and reader context, whatever the
   outcome: the bytes requested are at most  a * |input| + b  *)
Theorem gen_alloc_bound md kb S p wgt t : alloc_class md kb S wgt t = true ->
  forall f (l : list byte) rcx,
    snd (alloc_decode md kb S p f t (mkS l rcx) 0) <= alloc_a md kb S wgt t * Z.of_nat (length l) + alloc_b md kb S wgt t.
Proof.
  unfold alloc_class, alloc_a, alloc_b. intros H. apply andb_prop in H as [Hok Hg].
  destruct (gw md kb S wgt t) as [g|] eqn:Eg; [|discriminate]. intros f l rcx.
  pose proof (alloc_inv md kb S p wgt Hok f t g Eg (mkS l rcx) 0) as H. unfold AI in H.
  pose proof (gw_nonneg md kb S wgt Hok t g Eg) as Hg0.
  assert (Hw : 0 <= pot_w md) by (destruct md; cbn; lia).
  pose proof (phi_init (pot_w md) l rcx Hw) as Hi. pose proof (phi_nonneg (pot_w md) (mkS l rcx) Hw) as Hp.
  assert (HB : 0 <= bytes_k md) by (destruct md; cbn; [lia|pose proof prealloc_limit_nonneg; lia]).
  destruct (alloc_decode md kb S p f t (mkS l rcx) 0) as [o a]. cbn [fst snd] in *.
  set (P := phi (pot_w md) (mkS l rcx)) in *. set (L := Z.of_nat (length l)) in *. set (ww := pot_w md) in *.
  assert (HgP : g * P <= g * (ww * L + 1)) by nia.
  destruct o as [[v s']| |].
  - destruct H as [H1 H2]. pose proof (phi_nonneg ww s' Hw) as Hp'.
    assert (g * (P - phi ww s') <= g * P) by nia. lia.
  - lia.
  - lia.
Qed.

Corollary gen_alloc_bound_top md kb S p wgt t : alloc_class md kb S wgt t = true ->
  forall l : list byte,
    snd (alloc_decode_top md kb S p t l) <= alloc_a md kb S wgt t * Z.of_nat (length l) + (alloc_b md kb S wgt t + top_const md).
Proof.
  intros H l. unfold alloc_decode_top. cbn [snd].
  pose proof (gen_alloc_bound md kb S p wgt t H (length l + 80) l r0). lia.
Qed.

(* non-vacuity: struct { 1: i32; 2: list<string>; 3: map<string, Inner>; 4: Inner }, Inner { 1: set<i64> } -- containers, no cycle
   through a container: a certificate exists (sync), with explicit constants *)
Definition al_schema : schema :=
  [DStruct [mkField 1 Required TyI32 None; mkField 2 Optional (TyList TyString) None;
            mkField 3 Optional (TyMap TyString (TyRef 1)) None; mkField 4 Optional (TyRef 1) None] false false;
   DStruct [mkField 1 Optional (TySet TyI64) None] false false].
Definition al_wgt : list (nat * Z) := [(1%nat, 20000); (0%nat, 40000)].     (* any post-fixpoint will do; the runner computes the least *)
Example al_class : alloc_class MSync false al_schema al_wgt (TyRef 0) = true /\
  alloc_a MSync false al_schema al_wgt (TyRef 0) = 80000 /\ alloc_b MSync false al_schema al_wgt (TyRef 0) = 80001.
Proof. vm_compute. auto. Qed.
(* a string-only recursive struct has a certificate for the async templates too *)
Definition al_schema_a : schema := [DStruct [mkField 1 Optional TyString None; mkField 2 Optional (TyRef 0) None] false false].
Example al_class_async : alloc_class MAsync false al_schema_a [(0%nat, 20000)] (TyRef 0) = true.
Proof. vm_compute. reflexivity. Qed.

(* ================= 3. outside the class ================= *)
(* F-09h: struct Tree { 2: list<Tree> kids }: a cycle through a container -- no certificate exists ... *)
Definition tree_schema : schema := [DStruct [mkField 2 Optional (TyList (TyRef 0)) None] false false].

Lemma tree_no_certificate wgt : alloc_class MSync false tree_schema wgt (TyRef 0) = false.
Proof.
  unfold alloc_class. destruct (weights_ok MSync false tree_schema wgt) eqn:Hok; [|reflexivity]. cbn [andb].
  cbn [gw]. destruct (wlookup wgt 0) as [z|] eqn:E; [|reflexivity]. exfalso.
  pose proof (entry_ok MSync false tree_schema wgt Hok 0%nat z E) as D. unfold decl_weight_ok in D.
  cbn [lookup nth_error tree_schema] in D. apply andb_prop in D as [_ D]. apply andb_prop in D as [_ D].
  cbn [forallb f_ty gw] in D. rewrite E in D.
  change (is_void (resolve tree_schema (TyRef 0))) with false in D. cbv beta iota in D.
  assert (He : 0 < esz false tree_schema (TyRef 0)) by (vm_compute; reflexivity).
  set (e := esz false tree_schema (TyRef 0)) in *. rewrite andb_true_r in D.
  unfold le_opt in D. apply Z.leb_le in D. lia.
Qed.

(* ... and the request is out of proportion: k nested list headers `0f 0002 0c <8 * (k - 1 - i)>`, each announcing as many
   elements as bytes remain (which rw_ext::checked_container_size accepts), k = 32 and k = 64 *)
Fixpoint tree_input (k i : nat) : list byte :=
  match i with
  | O => []
  | Datatypes.S i' =>
      [x0f; x00; x02; x0c]%byte ++ be_bytes 4 (8 * Z.of_nat i') ++ tree_input k i'
  end.

Lemma tree_witness :
  let l1 := tree_input 32 32 in let l2 := tree_input 64 64 in
  length l1 = 256%nat /\ length l2 = 512%nat /\
  600 * 256 <= snd (alloc_decode_top MSync false tree_schema PBinary (TyRef 0) l1) /\
  1200 * 512 <= snd (alloc_decode_top MSync false tree_schema PBinary (TyRef 0) l2).
Proof. cbv zeta. repeat split; try (vm_compute; reflexivity); apply Z.leb_le; vm_compute; reflexivity. Qed.

(* F-09e: typedef list<i32> through the async templates: no certificate, and 5 bytes request 8.5 GB *)
Definition modes_schema : schema := [DTypedef (TyList TyI32)].
Lemma modes_no_certificate wgt : alloc_class MAsync false modes_schema wgt (TyRef 0) = false.
Proof.
  unfold alloc_class. destruct (weights_ok MAsync false modes_schema wgt) eqn:Hok; [|reflexivity]. cbn [andb].
  cbn [gw]. destruct (wlookup wgt 0) as [z|] eqn:E; [|reflexivity]. exfalso.
  pose proof (entry_ok MAsync false modes_schema wgt Hok 0%nat z E) as D. unfold decl_weight_ok in D.
  cbn [lookup nth_error modes_schema] in D. apply andb_prop in D as [_ D]. cbn in D. discriminate.
Qed.
Lemma modes_witness :
  4 * 2130706432 <= snd (alloc_decode_top MAsync false modes_schema PBinary (TyRef 0) [x08; x7f; x00; x00; x00]%byte).
Proof. apply Z.leb_le. vm_compute. reflexivity. Qed.

(* ================= 4. the sync templates of keep_unknown_fields builds ================= *)
Lemma alloc_decode_keep_S S p f t s a : alloc_decode_keep S p (Datatypes.S f) t s a =
  match resolve S t with
  | TyBool => amap GBool (alift (r_bool p) s a)
  | TyI8 => amap GI8 (alift r_i8 s a)
  | TyI16 => amap GI16 (alift (r_i16 p) s a)
  | TyI32 => amap GI32 (alift (r_i32 p) s a)
  | TyI64 => amap GI64 (alift (r_i64 p) s a)
  | TyDouble => amap GDouble (alift (r_double p) s a)
  | TyString | TyBinary => amap GBytes (r_bytes_alloc p s a)
  | TyUuid => amap GUuid (alift r_uuid s a)
  | TyVoid =>
      abind (alift (r_struct_begin p) s a) (fun _ s a =>
        abind (alift (r_struct_end p) s a) (fun _ s a => (Ok (GVoid, s), a)))
  | TyList et =>
      abind (alift (r_coll_begin p) s a) (fun h s a =>
        amap GList (al_elems (alloc_decode_keep S p f) (Datatypes.S f) et (snd h) [] s
                             (a + list_cost (esz true S et) (snd h))))
  | TySet et =>
      abind (alift (r_coll_begin p) s a) (fun h s a =>
        amap GSet (al_elems (alloc_decode_keep S p f) (Datatypes.S f) et (snd h) [] s
                            (a + hash_cost (esz true S et) (snd h))))
  | TyMap kt vt =>
      abind (alift (r_map_begin p) s a) (fun h s a =>
        amap GMap (al_pairs (alloc_decode_keep S p f) (Datatypes.S f) kt vt (snd h) [] s
                            (a + hash_cost (esz true S kt + esz true S vt) (snd h))))
  | TyRef n =>
      match lookup S n with
      | Some (DEnum _) => amap GEnum (alift (r_i32 p) s a)
      | Some (DStruct fs true is_arg) =>
          abind (alift (r_struct_begin p) s (a + frame_cost MSync true S n)) (fun _ s a =>
            abind (al_fields_keep S p f (alloc_decode_keep S p f) (Datatypes.S f) fs is_arg (map init_var fs)
                                  (Z.of_nat (length fs)) [] s a) (fun r s a =>
              abind (alift (r_struct_end p) s a) (fun _ s a =>
                match finish_fields fs (fst r) with
                | Ok out => (Ok (GStruct out (snd r), s), a)
                | Err e => (Err e, a)
                | Panic st => (Panic st, a)
                end)))
      | Some (DStruct fs false _) =>
          abind (alift (r_struct_begin p) s (a + frame_cost MSync true S n)) (fun _ s a =>
            abind (al_fields MSync S p f (alloc_decode_keep S p f) (Datatypes.S f) fs (map init_var fs) s a) (fun vars s a =>
              abind (alift (r_struct_end p) s a) (fun _ s a =>
                match finish_fields fs vars with
                | Ok out => (Ok (GStruct out [], s), a)
                | Err e => (Err e, a)
                | Panic st => (Panic st, a)
                end)))
      | Some (DUnion vs void_ok true) =>
          abind (alift (r_struct_begin p) s (a + frame_cost MSync true S n)) (fun _ s a =>
            abind (al_variants_keep S p f (alloc_decode_keep S p f) (Datatypes.S f) vs UNone s a) (fun ret s a =>
              abind (alift (r_struct_end p) s a) (fun _ s a =>
                match ret with
                | UKnown id x => (Ok (GUnion id x, s), a)
                | UUnknown c => (Ok (GUnionUnknown c, s), a)
                | UNone =>
                    if void_ok then
                      match vs with (id0, _) :: _ => (Ok (GUnion id0 GVoid, s), a) | [] => (Err EInvalidData, a) end
                    else (Err EInvalidData, a)
                end)))
      | Some (DUnion vs void_ok false) =>
          abind (alift (r_struct_begin p) s (a + frame_cost MSync true S n)) (fun _ s a =>
            abind (al_variants MSync S p f (alloc_decode_keep S p f) (Datatypes.S f) vs None s a) (fun ret s a =>
              abind (alift (r_struct_end p) s a) (fun _ s a =>
                match ret with
                | Some (id, x) => (Ok (GUnion id x, s), a)
                | None =>
                    if void_ok then
                      match vs with (id0, _) :: _ => (Ok (GUnion id0 GVoid, s), a) | [] => (Err EInvalidData, a) end
                    else (Err EInvalidData, a)
                end)))
      | Some (DTypedef _) => (Err EOther, a)
      | None => (Err EOther, a)
      end
  end.
Proof. reflexivity. Qed.

(* ---- erasure ---- *)
Section EraseKeepLoops.
  Variable S : schema.
  Variable p : pk.
  Variable fk : nat.
  Variable rec : ty -> am gval.
  Variable orec : ty -> rst -> own (gval * rst).
  Hypothesis Hrec : forall t s a, fst (rec t s a) = fst (orec t s).

  Lemma al_fields_keep_erase : forall m fs ia vars num unk s a,
    fst (al_fields_keep S p fk rec m fs ia vars num unk s a) = fst (own_fields_keep S p fk orec m fs ia vars num unk s).
  Proof.
    induction m as [|m IH]; intros fs ia vars num unk s a; cbn [al_fields_keep own_fields_keep]; [reflexivity|].
    destruct (ia && (num =? 0)).
    { destruct (Z.of_nat (length (rbuf s)) <? 2); [reflexivity|]. cbn [lift fst].
      destruct (r_take (Z.to_nat (Z.of_nat (length (rbuf s)) - 2)) s) as [[c s']| |]; reflexivity. }
    unfold obind. rewrite fst_abind, fst_obind_leak. cbn [alift lift fst snd].
    destruct (r_field_begin p s) as [[h s1]| |]; cbn [bind]; auto.
    destruct (ttype_eqb (fst h) TStop).
    { rewrite fst_abind, fst_obind_leak. cbn [alift lift fst snd]. destruct (r_field_stop_len p s1) as [[z s2]| |]; reflexivity. }
    rewrite fst_abind, fst_obind_leak. cbn [alift lift fst snd].
    destruct (r_field_begin_len p (fst h) (snd h) s1) as [[n1 s2]| |]; cbn [bind]; auto.
    assert (K : forall r s3 a3,
               fst (abind (alift (r_field_end_len p) s3 a3) (fun _ s a => al_fields_keep S p fk rec m fs ia (fst (fst r)) (snd (fst r)) (snd r) s a)) =
               fst (obind_leak [] (lift (r_field_end_len p s3))
                      (fun '(_, s) => own_fields_keep S p fk orec m fs ia (fst (fst r)) (snd (fst r)) (snd r) s))).
    { intros r s3 a3. rewrite fst_abind, fst_obind_leak. cbn [alift lift fst snd].
      destruct (r_field_end_len p s3) as [[z' s4]| |]; cbn [bind]; auto. }
    rewrite fst_abind, fst_obind_leak.
    destruct (match_field S fs 0 (snd h) (fst h)) as [[i f]|].
    - rewrite fst_abind, fst_obind_leak, Hrec. destruct (fst (orec (f_ty f) s2)) as [[x s3]| |]; cbn [bind fst snd lift]; auto.
      apply (K (set_nth i (Some x) vars, num - 1, unk)).
    - rewrite fst_abind, fst_obind_leak. cbn [alift lift fst snd].
      destruct (skip p fk (fst h) s2) as [[n2 s3]| |]; cbn [bind fst snd lift]; auto.
      apply (K (vars, num, unk ++ [firstn (Z.to_nat (n1 + n2)) (rbuf s)])).
  Qed.

  Lemma al_variants_keep_erase : forall m vs ret s a,
    fst (al_variants_keep S p fk rec m vs ret s a) = fst (own_variants_keep S p fk orec m vs ret s).
  Proof.
    induction m as [|m IH]; intros vs ret s a; cbn [al_variants_keep own_variants_keep]; [reflexivity|].
    unfold obind. rewrite fst_abind, fst_obind_leak. cbn [alift lift fst snd].
    destruct (r_field_begin p s) as [[h s1]| |]; cbn [bind]; auto.
    destruct (ttype_eqb (fst h) TStop).
    { rewrite fst_abind, fst_obind_leak. cbn [alift lift fst snd]. destruct (r_field_stop_len p s1) as [[z s2]| |]; reflexivity. }
    rewrite fst_abind, fst_obind_leak. cbn [alift lift fst snd].
    destruct (r_field_begin_len p (fst h) (snd h) s1) as [[n1 s2]| |]; cbn [bind]; auto.
    match goal with |- context [match ?k with Some _ => _ | None => _ end] =>
      match type of k with option (Z * ty) => destruct k as [[id vt]|] end end.
    - destruct ret; try reflexivity.
      rewrite fst_abind, fst_obind_leak, Hrec. destruct (fst (orec vt s2)) as [[x s3]| |]; cbn [bind]; auto.
    - rewrite fst_abind, fst_obind_leak. cbn [alift lift fst snd].
      destruct (skip p fk (fst h) s2) as [[n2 s3]| |]; cbn [bind]; auto. destruct ret; try reflexivity. apply IH.
  Qed.
End EraseKeepLoops.

Theorem alloc_erase_keep_own S p : forall f t s a,
  fst (alloc_decode_keep S p f t s a) = fst (own_decode_keep [] S p f t s).
Proof.
  induction f as [|f IH]; intros t s a; [reflexivity|].
  rewrite alloc_decode_keep_S, own_decode_keep_S.
  destruct (resolve S t) as [| | | | | | | | | |et|et|kt vt|n]; try (rewrite fst_amap; reflexivity).
  - rewrite fst_amap, r_bytes_erase. reflexivity.
  - rewrite fst_amap, r_bytes_erase. reflexivity.
  - rewrite !fst_abind. cbn [alift lift fst snd]. destruct (r_struct_begin p s) as [[u s1]| |]; cbn [bind]; auto.
    rewrite fst_abind. cbn [alift fst snd]. destruct (r_struct_end p s1) as [[u2 s2]| |]; reflexivity.
  - unfold obind. rewrite fst_abind, fst_obind_leak. cbn [alift lift fst snd].
    destruct (r_coll_begin p s) as [[h s1]| |]; cbn [bind]; auto.
    rewrite fst_amap, fst_obind_leak, (al_elems_erase _ _ IH (owns_heap_keep [] S et)).
    destruct (fst (own_elems _ _ _ et (snd h) s1 [])) as [[l s2]| |]; reflexivity.
  - unfold obind. rewrite fst_abind, fst_obind_leak. cbn [alift lift fst snd].
    destruct (r_coll_begin p s) as [[h s1]| |]; cbn [bind]; auto.
    rewrite fst_amap, fst_obind_leak, (al_elems_erase _ _ IH false).
    destruct (fst (own_elems _ _ _ et (snd h) s1 [])) as [[l s2]| |]; reflexivity.
  - unfold obind. rewrite fst_abind, fst_obind_leak. cbn [alift lift fst snd].
    destruct (r_map_begin p s) as [[h s1]| |]; cbn [bind]; auto.
    rewrite fst_amap, fst_obind_leak, (al_pairs_erase _ _ IH).
    destruct (fst (own_pairs _ _ kt vt (snd h) s1 [])) as [[l s2]| |]; reflexivity.
  - destruct (lookup S n) as [[fs [|] ia|vs vo [|]|ms|tt]|]; try reflexivity.
    + unfold obind. rewrite fst_abind, fst_obind_leak. cbn [alift lift fst snd].
      destruct (r_struct_begin p s) as [[u s1]| |]; cbn [bind]; auto.
      rewrite fst_abind, fst_obind_leak, (al_fields_keep_erase S p f _ _ IH).
      destruct (fst (own_fields_keep S p f _ _ fs ia _ _ _ s1)) as [[r s2]| |]; cbn [bind]; auto.
      rewrite fst_abind, fst_obind_leak. cbn [alift lift fst snd].
      destruct (r_struct_end p s2) as [[u2 s3]| |]; cbn [bind]; auto.
      rewrite fst_obind_leak. cbn [lift fst]. destruct (finish_fields fs (fst r)); reflexivity.
    + unfold obind. rewrite fst_abind, fst_obind_leak. cbn [alift lift fst snd].
      destruct (r_struct_begin p s) as [[u s1]| |]; cbn [bind]; auto.
      rewrite fst_abind, fst_obind_leak, (al_fields_erase MSync S p f _ _ IH).
      destruct (fst (own_fields MSync S p f _ _ fs _ s1)) as [[vars s2]| |]; cbn [bind]; auto.
      rewrite fst_abind, fst_obind_leak. cbn [alift lift fst snd].
      destruct (r_struct_end p s2) as [[u2 s3]| |]; cbn [bind]; auto.
      rewrite fst_obind_leak. cbn [lift fst]. destruct (finish_fields fs vars); reflexivity.
    + unfold obind. rewrite fst_abind, fst_obind_leak. cbn [alift lift fst snd].
      destruct (r_struct_begin p s) as [[u s1]| |]; cbn [bind]; auto.
      rewrite fst_abind, fst_obind_leak, (al_variants_keep_erase S p f _ _ IH).
      destruct (fst (own_variants_keep S p f _ _ vs UNone s1)) as [[ret s2]| |]; cbn [bind]; auto.
      rewrite fst_abind, fst_obind_leak. cbn [alift lift fst snd].
      destruct (r_struct_end p s2) as [[u2 s3]| |]; cbn [bind]; auto.
      destruct ret as [|id x|c]; try reflexivity. destruct vo; [|reflexivity]. destruct vs as [|[id0 t0] r]; reflexivity.
    + unfold obind. rewrite fst_abind, fst_obind_leak. cbn [alift lift fst snd].
      destruct (r_struct_begin p s) as [[u s1]| |]; cbn [bind]; auto.
      rewrite fst_abind, fst_obind_leak, (al_variants_erase MSync S p f _ _ IH).
      destruct (fst (own_variants MSync S p f _ _ vs None s1)) as [[ret s2]| |]; cbn [bind]; auto.
      rewrite fst_abind, fst_obind_leak. cbn [alift lift fst snd].
      destruct (r_struct_end p s2) as [[u2 s3]| |]; cbn [bind]; auto.
      destruct ret as [[id x]|]; [reflexivity|]. destruct vo; [|reflexivity]. destruct vs as [|[id0 t0] r]; reflexivity.
    + rewrite fst_amap. reflexivity.
Qed.

Theorem alloc_erase_keep S p f t s a : fst (alloc_decode_keep S p f t s a) = gen_decode_keep S p f t s.
Proof. rewrite alloc_erase_keep_own. apply own_proj_keep. Qed.

(* ---- the bound, retention templates ----
   Every retained chunk is charged chunk_cost + its length; the length is what the skipper consumed plus the (at most 11 byte)
   field header, so a chunk is paid by the potential the skipper released as soon as the weight of the struct is >= 140
   (frame_const MSync true is far above).  The `args` structs of keep builds (F-13a: once the known fields are seen the rest of the
   input is taken as ONE chunk and may be empty) are outside the class: decl_weight_ok rejects them. *)
Lemma req_loop_range : forall f v, 0 <= req_loop f v <= Z.of_nat f.
Proof.
  induction f as [|f IH]; intros v; cbn [req_loop]; [lia|].
  destruct (v <=? 0); [lia|]. specialize (IH (v / 128)). lia.
Qed.
Lemma required_space_s_range i : 0 <= required_space_s i <= 10.
Proof.
  unfold required_space_s, required_space_u. destruct (zigzag i =? 0); [lia|]. pose proof (req_loop_range 10 (zigzag i)). lia.
Qed.

Lemma fbl_range p ft id s n s' : r_field_begin_len p ft id s = Ok (n, s') -> 0 <= n <= 11.
Proof.
  unfold r_field_begin_len. pose proof (required_space_s_range) as R.
  destruct p; try (intros H; injection H as <- _; lia).
  destruct ft;
    try (destruct (ctype_of_ttype _); [destruct id as [i|]|]; intros H; try discriminate;
         specialize (R i); assert (n = 1 + required_space_s i) by congruence; lia).
  cbv zeta. destruct (r_pfield (rc s)); intros H; [discriminate|]. injection H as <- _. lia.
Qed.

Lemma skip_facts p fk ft s n s' : skip p fk ft s = Ok (n, s') ->
  phi 2 s' + 1 <= phi 2 s /\ 0 <= n <= phi 2 s - phi 2 s'.
Proof.
  unfold skip. intros H.
  pose proof (read_val_a_inv 2 ltac:(lia) false 1 (sync_prims p) (sync_prims_ok false p) fk ft s 0) as I.
  unfold ainv in I. change (read_val_a false (sync_prims p)) with (read_val_alloc false p) in I.
  rewrite alloc_erase_sync in I.
  destruct (read_val p fk ft s) as [[v s1]| |] eqn:E; cbn [bind] in H; try discriminate.
  destruct (Nat.leb (vdepth v) maximum_skip_depth_nat); [|discriminate]. injection H as <- <-.
  destruct I as [I1 _]. split; [exact I1|].
  unfold phi in *. pose proof (pend_range s). pose proof (pend_range s1). unfold blen in *. lia.
Qed.

Section BoundKeep.
  Variable S : schema.
  Variable p : pk.
  Variable wgt : list (nat * Z).
  Hypothesis Hok : weights_ok MSync true S wgt = true.
  Notation gwk := (gw MSync true S wgt).

  Section KeepLoops.
    Variable fk : nat.
    Variable rec : ty -> am gval.
    Variable z : Z.
    Hypothesis Hz : 140 <= z.
    Hypothesis Hrec : forall t g, gwk t = Some g -> g <= z -> forall s a, AI 2 (dv S t) g 1 (rec t s a) s a.

    Ltac lif := unfold LI; cbn [fst snd pot_w bytes_k].

    Lemma al_fields_keep_inv fs : (forall fd, In fd fs -> le_opt (gwk (f_ty fd)) z = true) ->
      forall m vars num unk s a, LI MSync z (al_fields_keep S p fk rec m fs false vars num unk s a) s a.
    Proof.
      intros Hfs. assert (Hw : 0 <= 2) by lia.
      induction m as [|m IH]; intros vars num unk s a; cbn [al_fields_keep andb]; pose proof (phi_nonneg 2 s Hw) as Hp.
      { lif. nia. }
      unfold abind at 1. cbn [alift fst snd]. pose proof (m_field_begin_step MSync true S p wgt Hok s) as H0.
      cbn [m_field_begin pot_w] in H0.
      destruct (r_field_begin p s) as [[h s1]| |]; cbn [fst snd]; [|lif; nia..].
      pose proof (phi_nonneg 2 s1 Hw) as Hp1.
      destruct (ttype_eqb (fst h) TStop).
      { unfold abind. cbn [alift fst snd]. destruct (r_field_stop_len p s1) as [[n s2]| |] eqn:E; cbn [fst snd]; [|lif; nia..].
        apply assert_same in E. subst s2. lif. split; [lia|nia]. }
      unfold abind at 1. cbn [alift fst snd].
      destruct (r_field_begin_len p (fst h) (snd h) s1) as [[n1 s2]| |] eqn:E; cbn [fst snd]; [|lif; nia..].
      pose proof (fbl_range _ _ _ _ _ _ E) as Hn1. apply fbl_erase in E.
      assert (E2 : phi 2 s2 = phi 2 s1) by (rewrite <- (phi_erase 2 s2), E; reflexivity).
      set (X := match match_field S fs 0 (snd h) (fst h) with
                | Some (i, f) => abind (rec (f_ty f) s2 a) (fun x s a => (Ok ((set_nth i (Some x) vars, num - 1, unk), s), a))
                | None => abind (alift (skip p fk (fst h)) s2 a) (fun n2 s0 a =>
                            (Ok ((vars, num, unk ++ [firstn (Z.to_nat (n1 + n2)) (rbuf s)]), s0), a + chunk_cost + Z.max 0 (n1 + n2)))
                end).
      assert (HX : match fst X with
                   | Ok (_, s3) => phi 2 s3 <= phi 2 s2 /\ snd X - a <= z * (phi 2 s2 - phi 2 s3)
                   | _ => snd X - a <= z * phi 2 s + 1
                   end).
      { subst X. destruct (match_field S fs 0 (snd h) (fst h)) as [[i f]|] eqn:Em.
        - destruct (match_field_spec _ _ _ _ _ _ _ Em) as [Hin _].
          apply Hfs in Hin. apply (le_opt_inv MSync true S wgt Hok) in Hin as (g & Hg & Hle).
          pose proof (member_step MSync true S wgt Hok rec z Hrec (f_ty f) g s s2 a Hg Hle ltac:(cbn [pot_w]; lia)) as M.
          cbn [pot_w bytes_k] in M. unfold abind.
          destruct (rec (f_ty f) s2 a) as [o1 a1]. cbn [fst snd] in *.
          destruct o1 as [[x s3]| |]; cbn [fst snd]; exact M.
        - unfold abind. cbn [alift fst snd]. pose proof (skip_facts p fk (fst h) s2) as Hs.
          destruct (skip p fk (fst h) s2) as [[n2 s3]| |]; cbn [fst snd]; [|nia..].
          destruct (Hs n2 s3 eq_refl) as [Hs1 Hs2]. unfold chunk_cost. split; [lia|nia]. }
      unfold abind at 1. destruct X as [oX aX]. cbn [fst snd] in *.
      destruct oX as [[r s3]| |]; cbn [fst snd]; [|lif; lia..].
      destruct HX as [HX1 HX2]. pose proof (phi_nonneg 2 s3 Hw) as Hp3.
      unfold abind. cbn [alift fst snd].
      destruct (r_field_end_len p s3) as [[n' s4]| |] eqn:E4; cbn [fst snd]; [|lif; nia..].
      apply assert_same in E4. subst s4.
      specialize (IH (fst (fst r)) (snd (fst r)) (snd r) s3 aX). unfold LI in IH |- *. cbn [pot_w bytes_k] in *.
      destruct (al_fields_keep S p fk rec m fs false (fst (fst r)) (snd (fst r)) (snd r) s3 aX) as [o5 a5]. cbn [fst snd] in *.
      destruct o5 as [[v5 s5]| |]; [destruct IH as [I1 I2]; split; [lia|nia]|nia|nia].
    Qed.

    Lemma al_variants_keep_inv vs : (forall q, In q vs -> le_opt (gwk (snd q)) z = true) ->
      forall m ret s a, LI MSync z (al_variants_keep S p fk rec m vs ret s a) s a.
    Proof.
      intros Hvs. assert (Hw : 0 <= 2) by lia.
      induction m as [|m IH]; intros ret s a; cbn [al_variants_keep]; pose proof (phi_nonneg 2 s Hw) as Hp.
      { lif. nia. }
      unfold abind at 1. cbn [alift fst snd]. pose proof (m_field_begin_step MSync true S p wgt Hok s) as H0.
      cbn [m_field_begin pot_w] in H0.
      destruct (r_field_begin p s) as [[h s1]| |]; cbn [fst snd]; [|lif; nia..].
      pose proof (phi_nonneg 2 s1 Hw) as Hp1.
      destruct (ttype_eqb (fst h) TStop).
      { unfold abind. cbn [alift fst snd]. destruct (r_field_stop_len p s1) as [[n s2]| |] eqn:E; cbn [fst snd]; [|lif; nia..].
        apply assert_same in E. subst s2. lif. split; [lia|nia]. }
      unfold abind at 1. cbn [alift fst snd].
      destruct (r_field_begin_len p (fst h) (snd h) s1) as [[n1 s2]| |] eqn:E; cbn [fst snd]; [|lif; nia..].
      pose proof (fbl_range _ _ _ _ _ _ E) as Hn1. apply fbl_erase in E.
      assert (E2 : phi 2 s2 = phi 2 s1) by (rewrite <- (phi_erase 2 s2), E; reflexivity).
      destruct (snd h) as [id|]; [destruct (find_variant vs id) as [vt|] eqn:Ef; [destruct (is_void (resolve S vt))|]|].
      2:{ destruct ret; try (lif; nia).
          apply find_variant_in in Ef. apply Hvs in Ef. cbn [snd] in Ef. apply (le_opt_inv MSync true S wgt Hok) in Ef as (g & Hg & Hle).
          pose proof (member_step MSync true S wgt Hok rec z Hrec vt g s s2 a Hg Hle ltac:(cbn [pot_w]; lia)) as M.
          cbn [pot_w bytes_k] in M. unfold abind at 1.
          destruct (rec vt s2 a) as [o1 a1]. cbn [fst snd] in *.
          destruct o1 as [[x s3]| |]; cbn [fst snd]; [|lif; lia..].
          destruct M as [M1 M2]. pose proof (phi_nonneg 2 s3 Hw).
          specialize (IH (UKnown id x) s3 a1). unfold LI in IH |- *. cbn [pot_w bytes_k] in *.
          destruct (al_variants_keep S p fk rec m vs (UKnown id x) s3 a1) as [o5 a5]. cbn [fst snd] in *.
          destruct o5 as [[v5 s5]| |]; [destruct IH as [I1 I2]; split; [lia|nia]|nia|nia]. }
      all: unfold abind at 1; cbn [alift fst snd]; pose proof (skip_facts p fk (fst h) s2) as Hs;
        (destruct (skip p fk (fst h) s2) as [[n2 s3]| |]; cbn [fst snd]; [|lif; nia..]);
        destruct (Hs n2 s3 eq_refl) as [Hs1 Hs2]; pose proof (phi_nonneg 2 s3 Hw);
        (destruct ret; try (lif; nia));
        match goal with |- context [al_variants_keep _ _ _ _ ?m0 _ ?r ?s0 ?a1] =>
          specialize (IH r s0 a1); unfold LI in IH |- *; cbn [pot_w bytes_k] in *;
          destruct (al_variants_keep S p fk rec m0 vs r s0 a1) as [o5 a5] end;
        cbn [fst snd] in *; unfold chunk_cost in *;
        (destruct o5 as [[v5 s5]| |]; [destruct IH as [I1 I2]; split; [lia|nia]|nia|nia]).
    Qed.
  End KeepLoops.

  Theorem alloc_inv_keep : forall f t g, gwk t = Some g ->
    forall s a, AI 2 (dv S t) g 1 (alloc_decode_keep S p f t s a) s a.
  Proof.
    assert (Hw : 0 <= 2) by lia.
    induction f as [|f IH]; intros t g Hg s a; pose proof (gw_nonneg MSync true S wgt Hok t g Hg) as Hg0;
      pose proof (phi_nonneg 2 s Hw) as Hp.
    { cbn [alloc_decode_keep]. unfold AI. cbn [fst snd]. nia. }
    rewrite alloc_decode_keep_S. destruct (gw_resolve MSync true S wgt Hok t g Hg) as (g' & Hg' & Hle).
    pose proof (gw_nonneg MSync true S wgt Hok _ _ Hg') as Hg'0. pose proof (dv_range MSync true S wgt Hok t) as Hdv.
    apply (AI_mono 2 (dv S t) (dv S t) g' g 1 1); [exact Hw|lia|lia|lia|].
    unfold dv. clear Hdv.
    assert (IHe : forall et g0, gwk et = Some g0 -> is_void (resolve S et) = false ->
                  forall s a, AI 2 1 g0 1 (alloc_decode_keep S p f et s a) s a).
    { intros et g0 E0 Ev s0 a0. pose proof (IH et g0 E0 s0 a0) as H. unfold dv in H. rewrite Ev in H. exact H. }
    assert (PR : forall {A C} (gg : A -> C) (m : rm A) s a, stepd 2 1 (m s) s -> AI 2 1 g' 1 (amap gg (alift m s a)) s a).
    { intros A C gg m s0 a0 H. apply AI_amap, AI_lift; auto; lia. }
    pose proof (sync_prims_ok true p) as HP.
    destruct (resolve S t) as [| | | | | | | | | |et|et|kt vt|n] eqn:Er; cbn [is_void].
    - apply PR, (ok_bool _ _ _ _ HP).
    - apply PR, (ok_i8 _ _ _ _ HP).
    - apply PR, (ok_i16 _ _ _ _ HP).
    - apply PR, (ok_i32 _ _ _ _ HP).
    - apply PR, (ok_i64 _ _ _ _ HP).
    - apply PR, (ok_double _ _ _ _ HP).
    - cbn [gw] in Hg'. injection Hg' as <-. apply AI_amap.
      pose proof (ok_bytes _ _ _ _ HP s a) as H. cbn [sync_prims p_bytes] in H. unfold ainv in H. unfold AI.
      destruct (fst (r_bytes_alloc p s a)) as [[l s']| |]; [destruct H; split; lia|lia|lia].
    - cbn [gw] in Hg'. injection Hg' as <-. apply AI_amap.
      pose proof (ok_bytes _ _ _ _ HP s a) as H. cbn [sync_prims p_bytes] in H. unfold ainv in H. unfold AI.
      destruct (fst (r_bytes_alloc p s a)) as [[l s']| |]; [destruct H; split; lia|lia|lia].
    - apply PR, (ok_uuid _ _ _ _ HP).
    - unfold abind at 1. cbn [alift fst snd]. pose proof (ok_sb _ _ _ _ HP s) as H0. cbn [sync_prims p_struct_begin] in H0.
      destruct (r_struct_begin p s) as [[u s0]| |]; cbn [fst snd stepd] in *; [|unfold AI; cbn [fst snd]; nia..].
      unfold abind. cbn [alift fst snd]. pose proof (ok_se _ _ _ _ HP s0) as H1. cbn [sync_prims p_struct_end] in H1.
      destruct (r_struct_end p s0) as [[u1 s1]| |]; cbn [fst snd stepd] in *; unfold AI; cbn [fst snd]; [split; [lia|nia]|nia|nia].
    - (* list *)
      apply (gw_list_inv MSync true S wgt Hok) in Hg' as (_ & Ev & g0 & E0 & ->). pose proof (esz_nonneg true S et) as He.
      pose proof (gw_nonneg MSync true S wgt Hok _ _ E0) as Hg00.
      unfold abind at 1. cbn [alift fst snd]. pose proof (ok_cb _ _ _ _ HP s) as H0. cbn [sync_prims p_coll_begin] in H0.
      destruct (r_coll_begin p s) as [[h s0]| |]; cbn [fst snd]; [|unfold AI; cbn [fst snd]; nia..].
      destruct H0 as [H0 Hn]. specialize (Hn eq_refl). pose proof (phi_nonneg 2 s0 Hw) as Hp0.
      pose proof (al_elems_inv MSync true S wgt Hok (alloc_decode_keep S p f) et g0 Hg00 (IHe et g0 E0 Ev) (Datatypes.S f) (snd h) [] s0
                    (a + list_cost (esz true S et) (snd h))) as L. cbn [pot_w bytes_k] in L.
      unfold amap, abind, AI in *. unfold list_cost in *.
      destruct (al_elems (alloc_decode_keep S p f) (Datatypes.S f) et (snd h) [] s0 (a + esz true S et * Z.max (snd h) 0)) as [o2 a2].
      cbn [fst snd] in *. destruct o2 as [[l s2]| |]; cbn [fst snd].
      + destruct L as [L1 L2]. pose proof (phi_nonneg 2 s2 Hw). split; [lia|nia].
      + nia.
      + nia.
    - (* set *)
      apply (gw_set_inv MSync true S wgt Hok) in Hg' as (_ & Ev & g0 & E0 & ->). pose proof (esz_nonneg true S et) as He.
      pose proof (gw_nonneg MSync true S wgt Hok _ _ E0) as Hg00.
      unfold abind at 1. cbn [alift fst snd]. pose proof (ok_cb _ _ _ _ HP s) as H0. cbn [sync_prims p_coll_begin] in H0.
      destruct (r_coll_begin p s) as [[h s0]| |]; cbn [fst snd]; [|unfold AI; cbn [fst snd]; nia..].
      destruct H0 as [H0 Hn]. specialize (Hn eq_refl). pose proof (phi_nonneg 2 s0 Hw) as Hp0.
      pose proof (al_elems_inv MSync true S wgt Hok (alloc_decode_keep S p f) et g0 Hg00 (IHe et g0 E0 Ev) (Datatypes.S f) (snd h) [] s0
                    (a + hash_cost (esz true S et) (snd h))) as L. cbn [pot_w bytes_k] in L.
      unfold amap, abind, AI in *. unfold hash_cost in *.
      set (e16 := esz true S et + 16) in *. assert (He16 : 0 <= e16) by (unfold e16; lia).
      destruct (al_elems (alloc_decode_keep S p f) (Datatypes.S f) et (snd h) [] s0 (a + 4 * (Z.max (snd h) 0 + 12) * e16)) as [o2 a2].
      cbn [fst snd] in *. destruct o2 as [[l s2]| |]; cbn [fst snd].
      + destruct L as [L1 L2]. pose proof (phi_nonneg 2 s2 Hw). split; [lia|nia].
      + nia.
      + nia.
    - (* map *)
      apply (gw_map_inv MSync true S wgt Hok) in Hg' as (_ & Evk & Evv & g1 & g2 & E1 & E2 & ->).
      pose proof (esz_nonneg true S kt) as Hek. pose proof (esz_nonneg true S vt) as Hev.
      pose proof (gw_nonneg MSync true S wgt Hok _ _ E1) as Hg10. pose proof (gw_nonneg MSync true S wgt Hok _ _ E2) as Hg20.
      unfold abind at 1. cbn [alift fst snd]. pose proof (ok_mb _ _ _ _ HP s) as H0. cbn [sync_prims p_map_begin] in H0.
      destruct (r_map_begin p s) as [[h s0]| |]; cbn [fst snd]; [|unfold AI; cbn [fst snd]; nia..].
      destruct H0 as [H0 Hn]. specialize (Hn eq_refl). pose proof (phi_nonneg 2 s0 Hw) as Hp0.
      assert (Hk : forall s a, AI 2 1 (Z.max g1 g2) 1 (alloc_decode_keep S p f kt s a) s a).
      { intros s1 a1. apply (AI_mono 2 1 1 g1 (Z.max g1 g2) 1 1); [exact Hw|lia|lia|lia|apply (IHe kt g1 E1 Evk)]. }
      assert (Hv : forall s a, AI 2 1 (Z.max g1 g2) 1 (alloc_decode_keep S p f vt s a) s a).
      { intros s1 a1. apply (AI_mono 2 1 1 g2 (Z.max g1 g2) 1 1); [exact Hw|lia|lia|lia|apply (IHe vt g2 E2 Evv)]. }
      pose proof (al_pairs_inv MSync true S wgt Hok (alloc_decode_keep S p f) kt vt (Z.max g1 g2) ltac:(lia) Hk Hv (Datatypes.S f) (snd h) [] s0
                    (a + hash_cost (esz true S kt + esz true S vt) (snd h))) as L. cbn [pot_w bytes_k] in L.
      unfold amap, abind, AI in *. unfold hash_cost in *.
      set (e16 := esz true S kt + esz true S vt + 16) in *. assert (He16 : 0 <= e16) by (unfold e16; lia).
      set (gm := Z.max g1 g2) in *. assert (Hgm : 0 <= gm) by (unfold gm; lia).
      destruct (al_pairs (alloc_decode_keep S p f) (Datatypes.S f) kt vt (snd h) [] s0 (a + 4 * (Z.max (snd h) 0 + 12) * e16)) as [o2 a2].
      cbn [fst snd] in *. destruct o2 as [[l s2]| |]; cbn [fst snd].
      + destruct L as [L1 L2]. pose proof (phi_nonneg 2 s2 Hw). split; [lia|nia].
      + nia.
      + nia.
    - (* a declared type *)
      cbn [gw] in Hg'. pose proof (entry_ok MSync true S wgt Hok _ _ Hg') as E. unfold decl_weight_ok in E.
      apply andb_prop in E as [_ E].
      assert (HFC : 140 <= frame_cost MSync true S n).
      { unfold frame_cost. cbn [frame_const]. pose proof (esz_nonneg true S (TyRef n)). lia. }
      destruct (lookup S n) as [[fs kp ia|vs vo kp|ms|tt]|] eqn:El; try (unfold AI; cbn [fst snd]; nia).
      + (* struct *)
        apply andb_prop in E as [E Efs]. apply andb_prop in E as [Ecl Efc]. rewrite forallb_forall in Efs.
        assert (Hfc : frame_cost MSync true S n <= g') by lia.
        pose proof (ok_sb _ _ _ _ HP s) as H0. cbn [sync_prims p_struct_begin] in H0.
        assert (Tail : forall (vars : list (option gval)) (unk : list (list byte)) s1 a1,
                  phi 2 s1 + 2 <= phi 2 s -> a1 - a <= g' * (phi 2 s - phi 2 s1) ->
                  AI 2 1 g' 1 (abind (alift (r_struct_end p) s1 a1) (fun _ s a =>
                                  match finish_fields fs vars with
                                  | Ok out => (Ok (GStruct out unk, s), a)
                                  | Err e => (Err e, a)
                                  | Panic st => (Panic st, a)
                                  end)) s a).
        { intros vars unk s1 a1 T1 T2. pose proof (phi_nonneg 2 s1 Hw) as Hp1.
          unfold abind. cbn [alift fst snd]. pose proof (ok_se _ _ _ _ HP s1) as H2. cbn [sync_prims p_struct_end] in H2.
          destruct (r_struct_end p s1) as [[u2 s2]| |]; cbn [fst snd stepd] in *; [|unfold AI; cbn [fst snd]; nia..].
          pose proof (phi_nonneg 2 s2 Hw) as Hp2.
          destruct (finish_fields fs vars) as [out| |]; unfold AI; cbn [fst snd]; [split; [lia|nia]|nia|nia]. }
        destruct kp; unfold abind at 1; cbn [alift fst snd].
        * (* retention: `args` structs are outside the class *)
          assert (ia = false) by (destruct ia; [cbn in Ecl; discriminate|reflexivity]). subst ia.
          destruct (r_struct_begin p s) as [[u s0]| |]; cbn [fst snd stepd] in *; [|unfold AI; cbn [fst snd]; nia..].
          pose proof (phi_nonneg 2 s0 Hw) as Hp0.
          pose proof (al_fields_keep_inv f (alloc_decode_keep S p f) g' ltac:(lia) (fun t0 g0 E0 _ => IH t0 g0 E0) fs Efs
                        (Datatypes.S f) (map init_var fs) (Z.of_nat (length fs)) [] s0 (a + frame_cost MSync true S n)) as L.
          unfold abind at 1. unfold LI in L. cbn [pot_w bytes_k] in L.
          destruct (al_fields_keep S p f (alloc_decode_keep S p f) (Datatypes.S f) fs false (map init_var fs) (Z.of_nat (length fs)) [] s0
                      (a + frame_cost MSync true S n)) as [o1 a1].
          cbn [fst snd] in *. destruct o1 as [[r s1]| |]; cbn [fst snd]; [|unfold AI; cbn [fst snd]; nia..].
          destruct L as [L1 L2]. apply Tail; [lia|nia].
        * destruct (r_struct_begin p s) as [[u s0]| |]; cbn [fst snd stepd] in *; [|unfold AI; cbn [fst snd]; nia..].
          pose proof (phi_nonneg 2 s0 Hw) as Hp0.
          pose proof (al_fields_inv MSync true S p wgt Hok f (alloc_decode_keep S p f) g' ltac:(lia) (fun t0 g0 E0 _ => IH t0 g0 E0) fs Efs
                        (Datatypes.S f) (map init_var fs) s0 (a + frame_cost MSync true S n)) as L.
          unfold abind at 1. unfold LI in L. cbn [pot_w bytes_k] in L.
          destruct (al_fields MSync S p f (alloc_decode_keep S p f) (Datatypes.S f) fs (map init_var fs) s0 (a + frame_cost MSync true S n)) as [o1 a1].
          cbn [fst snd] in *. destruct o1 as [[vars s1]| |]; cbn [fst snd]; [|unfold AI; cbn [fst snd]; nia..].
          destruct L as [L1 L2]. apply Tail; [lia|nia].
      + (* union *)
        apply andb_prop in E as [Efc Evs]. rewrite forallb_forall in Evs.
        assert (Hfc : frame_cost MSync true S n <= g') by lia.
        pose proof (ok_sb _ _ _ _ HP s) as H0. cbn [sync_prims p_struct_begin] in H0.
        destruct kp; unfold abind at 1; cbn [alift fst snd];
          (destruct (r_struct_begin p s) as [[u s0]| |]; cbn [fst snd stepd] in *; [|unfold AI; cbn [fst snd]; nia..]);
          pose proof (phi_nonneg 2 s0 Hw) as Hp0.
        * pose proof (al_variants_keep_inv f (alloc_decode_keep S p f) g' ltac:(lia) (fun t0 g0 E0 _ => IH t0 g0 E0) vs Evs
                        (Datatypes.S f) UNone s0 (a + frame_cost MSync true S n)) as L.
          unfold abind at 1. unfold LI in L. cbn [pot_w bytes_k] in L.
          destruct (al_variants_keep S p f (alloc_decode_keep S p f) (Datatypes.S f) vs UNone s0 (a + frame_cost MSync true S n)) as [o1 a1].
          cbn [fst snd] in *. destruct o1 as [[ret s1]| |]; cbn [fst snd]; [|unfold AI; cbn [fst snd]; nia..].
          destruct L as [L1 L2]. pose proof (phi_nonneg 2 s1 Hw) as Hp1.
          unfold abind. cbn [alift fst snd]. pose proof (ok_se _ _ _ _ HP s1) as H2. cbn [sync_prims p_struct_end] in H2.
          destruct (r_struct_end p s1) as [[u2 s2]| |]; cbn [fst snd stepd] in *; [|unfold AI; cbn [fst snd]; nia..].
          pose proof (phi_nonneg 2 s2 Hw) as Hp2.
          destruct ret as [|id x|c]; try (unfold AI; cbn [fst snd]; split; [lia|nia]).
          destruct vo; [|unfold AI; cbn [fst snd]; nia].
          destruct vs as [|[id0 t0] r]; unfold AI; cbn [fst snd]; [nia|split; [lia|nia]].
        * pose proof (al_variants_inv MSync true S p wgt Hok f (alloc_decode_keep S p f) g' ltac:(lia) (fun t0 g0 E0 _ => IH t0 g0 E0) vs Evs
                        (Datatypes.S f) None s0 (a + frame_cost MSync true S n)) as L.
          unfold abind at 1. unfold LI in L. cbn [pot_w bytes_k] in L.
          destruct (al_variants MSync S p f (alloc_decode_keep S p f) (Datatypes.S f) vs None s0 (a + frame_cost MSync true S n)) as [o1 a1].
          cbn [fst snd] in *. destruct o1 as [[ret s1]| |]; cbn [fst snd]; [|unfold AI; cbn [fst snd]; nia..].
          destruct L as [L1 L2]. pose proof (phi_nonneg 2 s1 Hw) as Hp1.
          unfold abind. cbn [alift fst snd]. pose proof (ok_se _ _ _ _ HP s1) as H2. cbn [sync_prims p_struct_end] in H2.
          destruct (r_struct_end p s1) as [[u2 s2]| |]; cbn [fst snd stepd] in *; [|unfold AI; cbn [fst snd]; nia..].
          pose proof (phi_nonneg 2 s2 Hw) as Hp2.
          destruct ret as [[id x]|]; [unfold AI; cbn [fst snd]; split; [lia|nia]|].
          destruct vo; [|unfold AI; cbn [fst snd]; nia].
          destruct vs as [|[id0 t0] r]; unfold AI; cbn [fst snd]; [nia|split; [lia|nia]].
      + apply PR, (ok_i32 _ _ _ _ HP).
  Qed.
End BoundKeep.

Theorem gen_alloc_bound_keep S p wgt t : alloc_class MSync true S wgt t = true ->
  forall f (l : list byte) rcx,
    snd (alloc_decode_keep S p f t (mkS l rcx) 0) <= alloc_a MSync true S wgt t * Z.of_nat (length l) + alloc_b MSync true S wgt t.
Proof.
  unfold alloc_class, alloc_a, alloc_b. intros H. apply andb_prop in H as [Hok Hg].
  destruct (gw MSync true S wgt t) as [g|] eqn:Eg; [|discriminate]. intros f l rcx.
  pose proof (alloc_inv_keep S p wgt Hok f t g Eg (mkS l rcx) 0) as H. unfold AI in H.
  pose proof (gw_nonneg MSync true S wgt Hok t g Eg) as Hg0.
  pose proof (phi_init 2 l rcx ltac:(lia)) as Hi. pose proof (phi_nonneg 2 (mkS l rcx) ltac:(lia)) as Hp.
  cbn [pot_w bytes_k].
  destruct (alloc_decode_keep S p f t (mkS l rcx) 0) as [o a]. cbn [fst snd] in *.
  set (P := phi 2 (mkS l rcx)) in *. set (L := Z.of_nat (length l)) in *.
  assert (HgP : g * P <= g * (2 * L + 1)) by nia.
  destruct o as [[v s']| |].
  - destruct H as [H1 H2]. pose proof (phi_nonneg 2 s' ltac:(lia)) as Hp'.
    assert (g * (P - phi 2 s') <= g * P) by nia. lia.
  - lia.
  - lia.
Qed.

Corollary gen_alloc_bound_keep_top S p wgt t : alloc_class MSync true S wgt t = true ->
  forall l : list byte,
    snd (alloc_decode_keep_top S p t l) <= alloc_a MSync true S wgt t * Z.of_nat (length l) + (alloc_b MSync true S wgt t + top_const MSync).
Proof.
  intros H l. unfold alloc_decode_keep_top. cbn [snd].
  pose proof (gen_alloc_bound_keep S p wgt t H (length l + 80) l r0). lia.
Qed.

(* non-vacuity: the schema of al_class in a keep build (both structs retain unknown fields) *)
Definition al_schema_k : schema :=
  [DStruct [mkField 1 Required TyI32 None; mkField 2 Optional (TyList TyString) None;
            mkField 3 Optional (TyMap TyString (TyRef 1)) None; mkField 4 Optional (TyRef 1) None] true false;
   DStruct [mkField 1 Optional (TySet TyI64) None] true false].
Example al_class_keep : alloc_class MSync true al_schema_k [(1%nat, 40000); (0%nat, 100000)] (TyRef 0) = true.
Proof. vm_compute. reflexivity. Qed.
(* ... and the `args` flavour of the same struct has none (F-13a) *)
Example al_class_keep_args wgt : alloc_class MSync true [DStruct [mkField 1 Required TyI32 None] true true] wgt (TyRef 0) = false.
Proof.
  unfold alloc_class. destruct (weights_ok _ _ _ _) eqn:E; [|reflexivity]. cbn [andb gw].
  destruct (wlookup wgt 0) as [z|] eqn:Ew; [|reflexivity].
  pose proof (entry_ok _ _ _ _ E _ _ Ew) as D. unfold decl_weight_ok in D. apply andb_prop in D as [_ D]. cbn in D. discriminate D.
Qed.

(* ================= 5. the statements of Properties/C09.v ================= *)
Lemma alloc_erase_sync_gen kb S p f t s a : fst (alloc_decode MSync kb S p f t s a) = gen_decode S p f t s.
Proof. exact (alloc_erase MSync kb S p f t s a). Qed.
Lemma alloc_erase_async_gen kb S p f t s a : fst (alloc_decode MAsync kb S p f t s a) = gen_decode_async S p f t s.
Proof. exact (alloc_erase MAsync kb S p f t s a). Qed.

Lemma gen_alloc_nested_refuted :
  (forall wgt, alloc_class MSync false tree_schema wgt (TyRef 0) = false) /\
  (let l1 := tree_input 32 32 in let l2 := tree_input 64 64 in
   length l1 = 256%nat /\ length l2 = 512%nat /\
   600 * 256 <= snd (alloc_decode_top MSync false tree_schema PBinary (TyRef 0) l1) /\
   1200 * 512 <= snd (alloc_decode_top MSync false tree_schema PBinary (TyRef 0) l2)).
Proof. split; [exact tree_no_certificate|exact tree_witness]. Qed.

Lemma gen_alloc_async_refuted :
  (forall wgt, alloc_class MAsync false modes_schema wgt (TyRef 0) = false) /\
  4 * 2130706432 <= snd (alloc_decode_top MAsync false modes_schema PBinary (TyRef 0) [x08; x7f; x00; x00; x00]%byte).
Proof. split; [exact modes_no_certificate|exact modes_witness]. Qed.

Lemma gen_alloc_nonvacuous :
  (alloc_class MSync false al_schema al_wgt (TyRef 0) = true /\
   alloc_a MSync false al_schema al_wgt (TyRef 0) = 80000 /\ alloc_b MSync false al_schema al_wgt (TyRef 0) = 80001) /\
  alloc_class MAsync false al_schema_a [(0%nat, 20000)] (TyRef 0) = true /\
  alloc_class MSync true al_schema_k [(1%nat, 40000); (0%nat, 100000)] (TyRef 0) = true.
Proof. split; [exact al_class|split; [exact al_class_async|exact al_class_keep]]. Qed.
