(* gen_decode_async over a delivery schedule = gen_decode_async on the delivered bytes: every schema, declared type,
   protocol, fuel, reader context; every event list (any chunking, empty chunks, Pending tokens anywhere, EOF anywhere) and
   every poll size of read_exact_to_vec's large path -- value, error class, panic, and the events left deliver exactly the
   unread bytes. *)
From Coq Require Import Lia.
From PV Require Import Thrift.AsyncEv Thrift.Skip Proofs.AsyncEvP.
From PVGen Require Import Gen GenAsync GenAsyncEv.
Open Scope Z_scope.

Lemma ev_eq_bind_res {A C} (o : res C) (f : C -> res (A * est)) (g : C -> res (A * rst)) :
  (forall x, ev_eq (f x) (g x)) -> ev_eq (bind o f) (bind o g).
Proof. intros H. destruct o; cbn [bind ev_eq]; auto. Qed.

Lemma e_ttype_eq s : ev_eq (e_ttype s) (a_ttype (abs s)).
Proof.
  unfold e_ttype, a_ttype. apply ev_eq_bind; [apply e_byte_eq|]. intros b s'. destruct (ttype_of_byte b); reflexivity.
Qed.

Lemma e_bool_eq p s : ev_eq (e_bool p s) (a_bool p (abs s)).
Proof.
  destruct p; cbn [e_bool a_bool].
  1,2: apply ev_eq_bind; [apply e_i8_eq|]; intros b s'; apply ev_eq_ret.
  cbn [abs rc]. destruct (r_pbool (erc s)); [reflexivity|].
  apply ev_eq_bind; [apply e_byte_eq|]. intros b s'. destruct (ctype_of_code b) as [[]|]; reflexivity.
Qed.

Lemma e_struct_begin_eq p s : ev_eq (e_struct_begin p s) (a_struct_begin p (abs s)).
Proof. destruct p; reflexivity. Qed.
Lemma e_struct_end_eq p s : ev_eq (e_struct_end p s) (a_struct_end p (abs s)).
Proof.
  destruct p; try reflexivity. unfold e_struct_end, a_struct_end, r_struct_end. cbn [abs rc]. destruct (r_stack (erc s)); reflexivity.
Qed.

Lemma e_field_begin_eq p s : ev_eq (e_field_begin p s) (a_field_begin p (abs s)).
Proof.
  destruct p; cbn [e_field_begin a_field_begin].
  1,2: apply ev_eq_bind; [apply e_ttype_eq|]; intros ty s'; destruct ty; try reflexivity;
       (apply ev_eq_bind; [apply e_i16_eq|]; intros id s''; apply ev_eq_ret).
  apply ev_eq_bind; [apply e_byte_eq|]. intros b s'. cbv zeta.
  apply ev_eq_bind.
  - cbn [abs rc]. destruct (b mod 16 =? ctype_code CBooleanTrue); [reflexivity|].
    destruct (b mod 16 =? ctype_code CBooleanFalse); [reflexivity|].
    destruct (ctype_of_code (b mod 16)) as [ct|]; [|reflexivity]. destruct (ttype_of_ctype ct); reflexivity.
  - intros ty s''. destruct ty; try reflexivity;
      (destruct (negb (b / 16 =? 0)); [reflexivity|]; apply ev_eq_bind; [apply e_i16_eq|]; intros id s3; reflexivity).
Qed.

Lemma e_coll_begin_eq p s : ev_eq (e_coll_begin p s) (a_coll_begin p (abs s)).
Proof.
  destruct p; cbn [e_coll_begin a_coll_begin].
  1,2: apply ev_eq_bind; [apply e_ttype_eq|]; intros et s'; apply ev_eq_bind; [apply e_i32_eq|]; intros n s''; apply ev_eq_ret.
  apply ev_eq_bind; [apply e_byte_eq|]. intros h s'. apply ev_eq_bind_res. intros et. cbv zeta.
  destruct (negb (h / 16 =? 15)); [reflexivity|]. apply ev_eq_bind; [apply e_varint_eq|]. intros n s''. apply ev_eq_ret.
Qed.

Lemma e_map_begin_eq p s : ev_eq (e_map_begin p s) (a_map_begin p (abs s)).
Proof.
  destruct p; cbn [e_map_begin a_map_begin].
  1,2: apply ev_eq_bind; [apply e_ttype_eq|]; intros kt s1; apply ev_eq_bind; [apply e_ttype_eq|]; intros vt s2;
       apply ev_eq_bind; [apply e_i32_eq|]; intros n s3; apply ev_eq_ret.
  apply ev_eq_bind; [apply e_varint_eq|]. intros n s'. cbv zeta. destruct (wrap_s 32 n =? 0); [reflexivity|].
  apply ev_eq_bind; [apply e_byte_eq|]. intros h s''. apply ev_eq_bind_res. intros kt. apply ev_eq_bind_res. intros vt. apply ev_eq_ret.
Qed.

(* ---------- the asynchronous skipper ---------- *)
Section SkipEq.
  Variable step : nat -> nat.
  Variable p : pk.

  Section LoopsEq.
    Variable rece : ttype -> est -> res (unit * est).
    Variable reca : ttype -> rst -> res (unit * rst).
    Hypothesis Hrec : forall ty s, ev_eq (rece ty s) (reca ty (abs s)).

    Lemma e_askip_fields_eq : forall n s, ev_eq (e_askip_fields p rece n s) (askip_fields p reca n (abs s)).
    Proof.
      induction n as [|n IH]; intros s; [reflexivity|]. cbn [e_askip_fields askip_fields].
      apply ev_eq_bind; [apply e_field_begin_eq|]. intros h s1. destruct (ttype_eqb (fst h) TStop); [reflexivity|].
      apply ev_eq_bind; [apply Hrec|]. intros u s2. apply IH.
    Qed.
    Lemma e_askip_elems_eq : forall m et n s, ev_eq (e_askip_elems rece m et n s) (askip_elems reca m et n (abs s)).
    Proof.
      induction m as [|m IH]; intros et n s; cbn [e_askip_elems askip_elems]; destruct (n <=? 0); try reflexivity.
      apply ev_eq_bind; [apply Hrec|]. intros u s1. apply IH.
    Qed.
    Lemma e_askip_pairs_eq : forall m kt vt n s, ev_eq (e_askip_pairs rece m kt vt n s) (askip_pairs reca m kt vt n (abs s)).
    Proof.
      induction m as [|m IH]; intros kt vt n s; cbn [e_askip_pairs askip_pairs]; destruct (n <=? 0); try reflexivity.
      apply ev_eq_bind; [apply Hrec|]. intros u s1. apply ev_eq_bind; [apply Hrec|]. intros u2 s2. apply IH.
    Qed.
  End LoopsEq.

  Lemma e_drop_eq {A} (me : em A) (ma : rm A) s : ev_eq (me s) (ma (abs s)) -> ev_eq (e_drop me s) (drop ma (abs s)).
  Proof. intros H. unfold e_drop, drop. apply ev_eq_bind; [exact H|]. intros x s'. apply ev_eq_ret. Qed.

  Lemma e_askip_val_eq : forall f d ty s, ev_eq (e_askip_val step p f d ty s) (askip_val p f d ty (abs s)).
  Proof.
    induction f as [|f IH]; intros d ty s; [reflexivity|]. cbn [e_askip_val askip_val]. destruct d as [|d]; [reflexivity|].
    destruct ty; try reflexivity.
    - apply e_drop_eq, e_bool_eq.
    - apply e_drop_eq, e_i8_eq.
    - apply e_drop_eq, e_double_eq.
    - apply e_drop_eq, e_i16_eq.
    - apply e_drop_eq, e_i32_eq.
    - apply e_drop_eq, e_i64_eq.
    - apply e_drop_eq, e_bytes_eq.
    - apply ev_eq_bind; [apply e_struct_begin_eq|]. intros u s1.
      apply ev_eq_bind; [apply e_askip_fields_eq; intros ty' s'; apply IH|]. intros u2 s2. apply e_struct_end_eq.
    - apply ev_eq_bind; [apply e_map_begin_eq|]. intros h s1. apply e_askip_pairs_eq. intros ty' s'. apply IH.
    - apply ev_eq_bind; [apply e_coll_begin_eq|]. intros h s1. apply e_askip_elems_eq. intros ty' s'. apply IH.
    - apply ev_eq_bind; [apply e_coll_begin_eq|]. intros h s1. apply e_askip_elems_eq. intros ty' s'. apply IH.
    - apply e_drop_eq, e_uuid_eq.
  Qed.

  Lemma e_askip_eq f ty s : ev_eq (e_askip step p f ty s) (askip p f ty (abs s)).
  Proof. apply e_askip_val_eq. Qed.
End SkipEq.

(* ---------- the loops of the emitted decoder ---------- *)
Section DecEq.
  Variable S : schema.
  Variable step : nat -> nat.
  Variable p : pk.
  Variable fk : nat.
  Variable rece : ty -> est -> res (gval * est).
  Variable reca : ty -> rst -> res (gval * rst).
  Hypothesis Hrec : forall t s, ev_eq (rece t s) (reca t (abs s)).

  Lemma e_dec_elems_eq : forall m et n s acc, ev_eq (e_dec_elems rece m et n s acc) (dec_elems reca m et n (abs s) acc).
  Proof.
    induction m as [|m IH]; intros et n s acc; cbn [e_dec_elems dec_elems]; destruct (n <=? 0); try reflexivity.
    apply ev_eq_bind; [apply Hrec|]. intros x s1. apply IH.
  Qed.
  Lemma e_dec_pairs_eq : forall m kt vt n s acc, ev_eq (e_dec_pairs rece m kt vt n s acc) (dec_pairs reca m kt vt n (abs s) acc).
  Proof.
    induction m as [|m IH]; intros kt vt n s acc; cbn [e_dec_pairs dec_pairs]; destruct (n <=? 0); try reflexivity.
    apply ev_eq_bind; [apply Hrec|]. intros a s1. apply ev_eq_bind; [apply Hrec|]. intros b s2. apply IH.
  Qed.
  Lemma e_adec_fields_eq : forall m fs vars s,
    ev_eq (e_adec_fields S step p fk rece m fs vars s) (adec_fields S p fk reca m fs vars (abs s)).
  Proof.
    induction m as [|m IH]; intros fs vars s; [reflexivity|]. cbn [e_adec_fields adec_fields].
    apply ev_eq_bind; [apply e_field_begin_eq|]. intros h s1. destruct (ttype_eqb (fst h) TStop); [reflexivity|].
    apply ev_eq_bind.
    - destruct (match_field S fs 0 (snd h) (fst h)) as [[i f]|].
      + apply ev_eq_bind; [apply Hrec|]. intros x s2. apply ev_eq_ret.
      + apply ev_eq_bind; [apply e_askip_eq|]. intros u s2. apply ev_eq_ret.
    - intros vars' s2. apply IH.
  Qed.
  Lemma e_adec_variants_eq : forall m vs ret s,
    ev_eq (e_adec_variants S step p fk rece m vs ret s) (adec_variants S p fk reca m vs ret (abs s)).
  Proof.
    induction m as [|m IH]; intros vs ret s; [reflexivity|]. cbn [e_adec_variants adec_variants].
    apply ev_eq_bind; [apply e_field_begin_eq|]. intros h s1. destruct (ttype_eqb (fst h) TStop); [reflexivity|].
    cbv zeta.
    match goal with |- ev_eq (match ?k with Some _ => _ | None => _ end) _ => destruct k as [[id vt]|] end.
    - destruct ret; [reflexivity|]. apply ev_eq_bind; [apply Hrec|]. intros x s2. apply IH.
    - apply ev_eq_bind; [apply e_askip_eq|]. intros u s2. apply IH.
  Qed.
End DecEq.

Lemma ev_eq_map {A B} (o1 : res (A * est)) (o2 : res (A * rst)) (g : A -> B) :
  ev_eq o1 o2 -> ev_eq (let* (x, s) := o1 in Ok (g x, s)) (let* (x, s) := o2 in Ok (g x, s)).
Proof. intros H. apply ev_eq_bind; [exact H|]. intros x s'. apply ev_eq_ret. Qed.

Theorem gen_decode_async_ev_eq S step p : forall fuel t s,
  ev_eq (gen_decode_async_ev S step p fuel t s) (gen_decode_async S p fuel t (abs s)).
Proof.
  induction fuel as [|f IH]; intros t s; [reflexivity|]. cbn [gen_decode_async_ev gen_decode_async].
  destruct (resolve S t) as [| | | | | | | | | |et|et|kt vt|n].
  - apply ev_eq_map, e_bool_eq.
  - apply ev_eq_map, e_i8_eq.
  - apply ev_eq_map, e_i16_eq.
  - apply ev_eq_map, e_i32_eq.
  - apply ev_eq_map, e_i64_eq.
  - apply ev_eq_map, e_double_eq.
  - apply ev_eq_map, e_bytes_eq.
  - apply ev_eq_map, e_bytes_eq.
  - apply ev_eq_map, e_uuid_eq.
  - apply ev_eq_bind; [apply e_struct_begin_eq|]. intros u s1. apply ev_eq_bind; [apply e_struct_end_eq|]. intros u2 s2. apply ev_eq_ret.
  - apply ev_eq_bind; [apply e_coll_begin_eq|]. intros h s1. apply ev_eq_map. apply e_dec_elems_eq. exact IH.
  - apply ev_eq_bind; [apply e_coll_begin_eq|]. intros h s1. apply ev_eq_map. apply e_dec_elems_eq. exact IH.
  - apply ev_eq_bind; [apply e_map_begin_eq|]. intros h s1. apply ev_eq_map. apply e_dec_pairs_eq. exact IH.
  - destruct (lookup S n) as [[fs kp ia|vs vo kp|ms|t']|]; try reflexivity.
    + apply ev_eq_bind; [apply e_struct_begin_eq|]. intros u s1.
      apply ev_eq_bind; [apply e_adec_fields_eq; exact IH|]. intros vars s2.
      apply ev_eq_bind; [apply e_struct_end_eq|]. intros u2 s3.
      destruct (finish_fields fs vars); reflexivity.
    + apply ev_eq_bind; [apply e_struct_begin_eq|]. intros u s1.
      apply ev_eq_bind; [apply e_adec_variants_eq; exact IH|]. intros ret s2.
      apply ev_eq_bind; [apply e_struct_end_eq|]. intros u2 s3.
      destruct ret as [[id x]|]; [reflexivity|]. destruct vo; [|reflexivity]. destruct vs as [|[id0 t0] r]; reflexivity.
    + apply ev_eq_map, e_i32_eq.
Qed.

(* C12_gen_schedule_free: for every event list whose chunks concatenate to l *)
Theorem gen_async_schedule_free_ev S step p fuel t es l rcx : bytes_of es = l ->
  match gen_decode_async_ev S step p fuel t (mkE es rcx) with
  | Ok (v, s') => gen_decode_async S p fuel t (mkS l rcx) = Ok (v, mkS (bytes_of (ebuf s')) (erc s'))
  | Err e => gen_decode_async S p fuel t (mkS l rcx) = Err e
  | Panic st => gen_decode_async S p fuel t (mkS l rcx) = Panic st
  end.
Proof. intros <-. exact (gen_decode_async_ev_eq S step p fuel t (mkE es rcx)). Qed.

(* two schedules of the same bytes *)
Corollary gen_async_two_schedules S step1 step2 p fuel t es1 es2 rcx : bytes_of es1 = bytes_of es2 ->
  match gen_decode_async_ev S step1 p fuel t (mkE es1 rcx), gen_decode_async_ev S step2 p fuel t (mkE es2 rcx) with
  | Ok (v1, s1), Ok (v2, s2) => v1 = v2 /\ bytes_of (ebuf s1) = bytes_of (ebuf s2) /\ erc s1 = erc s2
  | Err e1, Err e2 => e1 = e2
  | Panic q1, Panic q2 => q1 = q2
  | _, _ => False
  end.
Proof.
  intros Hb. pose proof (gen_async_schedule_free_ev S step1 p fuel t es1 _ rcx eq_refl) as H1.
  pose proof (gen_async_schedule_free_ev S step2 p fuel t es2 _ rcx (eq_sym Hb)) as H2.
  destruct (gen_decode_async_ev S step1 p fuel t (mkE es1 rcx)) as [[v1 s1]|e1|q1];
    destruct (gen_decode_async_ev S step2 p fuel t (mkE es2 rcx)) as [[v2 s2]|e2|q2]; rewrite H1 in H2; try discriminate H2.
  - injection H2 as -> H3 H4. repeat split; assumption.
  - injection H2 as ->. reflexivity.
  - injection H2 as ->. reflexivity.
Qed.

(* non-vacuity: the struct of TotalGenP.ex_schema (an i32, a list of strings, a bool), compact, delivered byte by byte at the
   start, with Pending tokens and empty chunks in between, a chunk boundary inside the string, and two more bytes after the
   message: the value of the one-chunk delivery, and exactly the two bytes are left in the stream *)
From PVGen Require Import Proofs.TotalGenP Proofs.AsyncGenP.
Definition es_ex : stream :=
  [Pend; Chunk [x15]; Pend; Pend; Chunk [x0e]; Chunk []; Chunk [x19; x18]; Pend; Chunk [x01]; Chunk [x61; x11]; Pend; Chunk [x00; xaa; xbb]].

Example gen_async_schedule_free_nonvacuous :
  bytes_of es_ex = [x15; x0e; x19; x18; x01; x61; x11; x00; xaa; xbb] /\
  gen_decode_async_ev ex_schema (fun _ => 7%nat) PCompact 20 (TyRef 0) (mkE es_ex r0) = Ok (ex_value, mkE [Chunk [xaa; xbb]] r0) /\
  gen_decode_async ex_schema PCompact 20 (TyRef 0) (mkS (bytes_of es_ex) r0) = Ok (ex_value, mkS [xaa; xbb] r0) /\
  (* cut short: EOF inside the string -- an error on both sides *)
  gen_decode_async_ev ex_schema (fun _ => 7%nat) PCompact 20 (TyRef 0) (mkE (firstn 9 es_ex) r0) = Err ETransport /\
  gen_decode_async ex_schema PCompact 20 (TyRef 0) (mkS (bytes_of (firstn 9 es_ex)) r0) = Err ETransport.
Proof. repeat split; vm_compute; reflexivity. Qed.
