(* The keep decoder with the PARTIAL retained slice (GenKeepG.v): in the binary protocols the accumulated offset is exactly
   the number of bytes consumed since the field's first byte, so the slice is always inside the buffer: the partial decoder
   EQUALS the totalised one of GenKeep.v (every schema, fuel, type, state) and never panics on any byte string outside the
   F-13a class.  In the compact protocol the out-of-bounds slice is reachable (F-13b). *)
From Coq Require Import Lia.
From PV Require Import Thrift.Skip Proofs.SkipP Proofs.TotalP.
From PVGen Require Import Gen GenSpec GenKeep GenKeepG Proofs.TotalGenP.
Open Scope Z_scope.

Lemma take_len n (l a r : list byte) : take n l = Some (a, r) -> length l = (n + length r)%nat.
Proof.
  unfold take. destruct (Nat.leb n (length l)) eqn:E; [|discriminate]. intros H. injection H as _ <-.
  apply Nat.leb_le in E. rewrite skipn_length. lia.
Qed.

Lemma r_take_len n s a s' : r_take n s = Ok (a, s') -> blen s = (n + blen s')%nat.
Proof.
  unfold r_take. destruct (take n (rbuf s)) as [[x r]|] eqn:E; [|discriminate]. intros H. injection H as _ <-.
  unfold blen. cbn [rbuf set_buf]. exact (take_len _ _ _ _ E).
Qed.

(* a field header of the binary protocols is three bytes, and field_begin_len says 3 *)
Lemma field_begin_binary p s h s1 : p <> PCompact -> r_field_begin p s = Ok (h, s1) -> ttype_eqb (fst h) TStop = false ->
  blen s = (blen s1 + 3)%nat /\ r_field_begin_len p (fst h) (snd h) s1 = Ok (3, s1).
Proof.
  intros Hp H Hs. split; [|destruct p; try reflexivity; contradiction].
  assert (E : r_field_begin p s = (let* (ty, s) := r_ttype s in
                                   match ty with TStop => Ok ((TStop, Some 0), s) | _ => let* (id, s) := r_i16 p s in Ok ((ty, Some id), s) end))
    by (destruct p; try reflexivity; contradiction).
  rewrite E in H. clear E. unfold r_ttype, r_byte in H.
  destruct (r_take 1 s) as [[a sa]| |] eqn:E1; cbn [bind] in H; try discriminate. apply r_take_len in E1.
  destruct (ttype_of_byte (of_le a)) as [ty|]; [|discriminate].
  assert (E2 : r_i16 p sa = r_fixed p 2 16 sa) by (destruct p; try reflexivity; contradiction).
  destruct ty; cbn [bind] in H; try (injection H as <- <-; cbn in Hs; discriminate Hs);
    rewrite E2 in H; unfold r_fixed in H; destruct (r_take 2 sa) as [[b sb]| |] eqn:E3; cbn [bind] in H; try discriminate;
    apply r_take_len in E3; injection H as _ <-; lia.
Qed.

Lemma skip_count p fk ft s n s' : skip p fk ft s = Ok (n, s') -> n = Z.of_nat (blen s) - Z.of_nat (blen s').
Proof.
  unfold skip. destruct (read_val p fk ft s) as [[v s1]| |]; cbn [bind]; try discriminate.
  destruct (Nat.leb (vdepth v) maximum_skip_depth_nat); [|discriminate]. intros H. injection H as <- <-. reflexivity.
Qed.

Lemma chunk_in_bounds p s0 h s1 fk n2 s3 : p <> PCompact -> r_field_begin p s0 = Ok (h, s1) -> ttype_eqb (fst h) TStop = false ->
  skip p fk (fst h) s1 = Ok (n2, s3) -> chunk_at (Z.to_nat (3 + n2)) (rbuf s0) = Ok (firstn (Z.to_nat (3 + n2)) (rbuf s0)).
Proof.
  intros Hp H Hs Hk. destruct (field_begin_binary p s0 h s1 Hp H Hs) as [Hl _]. apply skip_count in Hk.
  unfold chunk_at. unfold blen in *. replace (Nat.leb (Z.to_nat (3 + n2)) (length (rbuf s0))) with true; [reflexivity|].
  symmetry. apply Nat.leb_le. lia.
Qed.

Section Agree.
  Variable S : schema.
  Variable p : pk.
  Hypothesis Hp : p <> PCompact.
  Variable fk : nat.
  Variable rec recg : ty -> rst -> res (gval * rst).
  Hypothesis Hrec : forall t s, recg t s = rec t s.

  Lemma dec_fields_keep_agree : forall m fs ia vars num unk s,
    dec_fields_keep_g S p fk recg m fs ia vars num unk s = dec_fields_keep S p fk rec m fs ia vars num unk s.
  Proof.
    induction m as [|m IH]; intros fs ia vars num unk s; [reflexivity|]. cbn [dec_fields_keep_g dec_fields_keep].
    destruct (ia && (num =? 0))%bool; [reflexivity|].
    destruct (r_field_begin p s) as [[h s1]| |] eqn:Eh; cbn [bind]; try reflexivity.
    destruct (ttype_eqb (fst h) TStop) eqn:Es; [reflexivity|].
    destruct (field_begin_binary p s h s1 Hp Eh Es) as [_ ->]. cbn [bind].
    destruct (match_field S fs 0 (snd h) (fst h)) as [[i f]|].
    - rewrite Hrec. destruct (rec (f_ty f) s1) as [[x s2]| |]; cbn [bind]; try reflexivity.
      destruct (r_field_end_len p s2) as [[z s3]| |]; cbn [bind]; try reflexivity. apply IH.
    - destruct (skip p fk (fst h) s1) as [[n2 s2]| |] eqn:Ek; cbn [bind]; try reflexivity.
      rewrite (chunk_in_bounds p s h s1 fk n2 s2 Hp Eh Es Ek). cbn [bind].
      destruct (r_field_end_len p s2) as [[z s3]| |]; cbn [bind]; try reflexivity. apply IH.
  Qed.

  Lemma dec_variants_keep_agree : forall m vs ret s,
    dec_variants_keep_g S p fk recg m vs ret s = dec_variants_keep S p fk rec m vs ret s.
  Proof.
    induction m as [|m IH]; intros vs ret s; [reflexivity|]. cbn [dec_variants_keep_g dec_variants_keep].
    destruct (r_field_begin p s) as [[h s1]| |] eqn:Eh; cbn [bind]; try reflexivity.
    destruct (ttype_eqb (fst h) TStop) eqn:Es; [reflexivity|].
    destruct (field_begin_binary p s h s1 Hp Eh Es) as [_ ->]. cbn [bind].
    match goal with |- match ?k with Some _ => _ | None => _ end = _ => destruct k as [[id vt]|] end.
    - destruct ret; try reflexivity. rewrite Hrec. destruct (rec vt s1) as [[x s2]| |]; cbn [bind]; try reflexivity. apply IH.
    - destruct (skip p fk (fst h) s1) as [[n2 s2]| |] eqn:Ek; cbn [bind]; try reflexivity.
      destruct ret; try reflexivity. rewrite (chunk_in_bounds p s h s1 fk n2 s2 Hp Eh Es Ek). cbn [bind]. apply IH.
  Qed.
End Agree.

Lemma dec_elems_ext (r1 r2 : ty -> rst -> res (gval * rst)) : (forall t s, r1 t s = r2 t s) ->
  forall m et n s acc, dec_elems r1 m et n s acc = dec_elems r2 m et n s acc.
Proof.
  intros H. induction m as [|m IH]; intros et n s acc; cbn [dec_elems]; destruct (n <=? 0); try reflexivity.
  rewrite H. destruct (r2 et s) as [[x s1]| |]; cbn [bind]; try reflexivity. apply IH.
Qed.
Lemma dec_pairs_ext (r1 r2 : ty -> rst -> res (gval * rst)) : (forall t s, r1 t s = r2 t s) ->
  forall m kt vt n s acc, dec_pairs r1 m kt vt n s acc = dec_pairs r2 m kt vt n s acc.
Proof.
  intros H. induction m as [|m IH]; intros kt vt n s acc; cbn [dec_pairs]; destruct (n <=? 0); try reflexivity.
  rewrite H. destruct (r2 kt s) as [[a s1]| |]; cbn [bind]; try reflexivity.
  rewrite H. destruct (r2 vt s1) as [[b s2]| |]; cbn [bind]; try reflexivity. apply IH.
Qed.
Lemma dec_fields_ext S p fk (r1 r2 : ty -> rst -> res (gval * rst)) : (forall t s, r1 t s = r2 t s) ->
  forall m fs vars s, dec_fields S p fk r1 m fs vars s = dec_fields S p fk r2 m fs vars s.
Proof.
  intros H. induction m as [|m IH]; intros fs vars s; [reflexivity|]. cbn [dec_fields].
  destruct (r_field_begin p s) as [[h s1]| |]; cbn [bind]; try reflexivity.
  destruct (ttype_eqb (fst h) TStop); [reflexivity|].
  destruct (r_field_begin_len p (fst h) (snd h) s1) as [[z s2]| |]; cbn [bind]; try reflexivity.
  destruct (match_field S fs 0 (snd h) (fst h)) as [[i f]|].
  - rewrite H. destruct (r2 (f_ty f) s2) as [[x s3]| |]; cbn [bind]; try reflexivity.
    destruct (r_field_end_len p s3) as [[z' s4]| |]; cbn [bind]; try reflexivity. apply IH.
  - destruct (skip p fk (fst h) s2) as [[z' s3]| |]; cbn [bind]; try reflexivity.
    destruct (r_field_end_len p s3) as [[z'' s4]| |]; cbn [bind]; try reflexivity. apply IH.
Qed.
Lemma dec_variants_ext S p fk (r1 r2 : ty -> rst -> res (gval * rst)) : (forall t s, r1 t s = r2 t s) ->
  forall m vs ret s, dec_variants S p fk r1 m vs ret s = dec_variants S p fk r2 m vs ret s.
Proof.
  intros H. induction m as [|m IH]; intros vs ret s; [reflexivity|]. cbn [dec_variants].
  destruct (r_field_begin p s) as [[h s1]| |]; cbn [bind]; try reflexivity.
  destruct (ttype_eqb (fst h) TStop); [reflexivity|].
  destruct (r_field_begin_len p (fst h) (snd h) s1) as [[z s2]| |]; cbn [bind]; try reflexivity.
  match goal with |- match ?k with Some _ => _ | None => _ end = _ => destruct k as [[id vt]|] end.
  - destruct ret; try reflexivity. rewrite H. destruct (r2 vt s2) as [[x s3]| |]; cbn [bind]; try reflexivity. apply IH.
  - destruct (skip p fk (fst h) s2) as [[z' s3]| |]; cbn [bind]; try reflexivity. apply IH.
Qed.

(* the partial decoder is the totalised one in the binary protocols *)
Theorem keep_g_agrees S p : p <> PCompact -> forall fuel t s, gen_decode_keep_g S p fuel t s = gen_decode_keep S p fuel t s.
Proof.
  intros Hp. induction fuel as [|f IH]; intros t s; [reflexivity|]. cbn [gen_decode_keep_g gen_decode_keep].
  destruct (resolve S t) as [| | | | | | | | | |et|et|kt vt|n]; try reflexivity.
  - destruct (r_coll_begin p s) as [[h s1]| |]; cbn [bind]; try reflexivity. rewrite (dec_elems_ext _ _ IH). reflexivity.
  - destruct (r_coll_begin p s) as [[h s1]| |]; cbn [bind]; try reflexivity. rewrite (dec_elems_ext _ _ IH). reflexivity.
  - destruct (r_map_begin p s) as [[h s1]| |]; cbn [bind]; try reflexivity. rewrite (dec_pairs_ext _ _ IH). reflexivity.
  - destruct (lookup S n) as [[fs [|] ia|vs vo [|]|ms|t']|]; try reflexivity;
      destruct (r_struct_begin p s) as [[z s1]| |]; cbn [bind]; try reflexivity.
    + rewrite (dec_fields_keep_agree S p Hp f _ _ IH). reflexivity.
    + rewrite (dec_fields_ext S p f _ _ IH). reflexivity.
    + rewrite (dec_variants_keep_agree S p Hp f _ _ IH). reflexivity.
    + rewrite (dec_variants_ext S p f _ _ IH). reflexivity.
Qed.

(* the compact protocol: the reader's field_begin_len counts the long form of a header that came in the short form (F-13b);
   on a message that ends right after an unknown field the slice reaches past the input.  A keeping struct without fields,
   input 25 02 (field 2, i32 = 1, short form): offset 2 + 1 = 3 > 2 bytes. *)
Example keep_compact_oob_refuted :
  let S := [DStruct [] true false] in
  gen_decode_keep_g S PCompact 40 (TyRef 0) (mkS [x25; x02] r0) = Panic SOob /\
  (exists e, gen_decode_keep S PCompact 40 (TyRef 0) (mkS [x25; x02] r0) = Err e) /\
  (forall p fuel s, p <> PCompact -> gen_decode_keep_g S p fuel (TyRef 0) s = gen_decode_keep S p fuel (TyRef 0) s).
Proof.
  split; [vm_compute; reflexivity|]. split; [eexists; vm_compute; reflexivity|].
  intros p fuel s Hp. apply keep_g_agrees. exact Hp.
Qed.

(* ================= totality of the keep decoder: binary protocols, outside the F-13a class ================= *)
Lemma noncompact p : p <> PCompact -> is_compact p = false.
Proof. destruct p; try reflexivity. intros H. contradiction. Qed.
Lemma pf_clear_bin p s : p <> PCompact -> pf_clear p s.
Proof. intros Hp Hc. rewrite (noncompact p Hp) in Hc. discriminate. Qed.

Section KeepLoopsTotal.
  Variable S : schema.
  Variable p : pk.
  Hypothesis Hp : p <> PCompact.
  Variable rec : ty -> rst -> res (gval * rst).
  Variable f' : nat.
  Hypothesis Hg : forall t s, (blen s < f')%nat -> good (rec t s) s 0.

  Lemma kf_good fk : forall m fs vars num unk s, (blen s < m)%nat -> (blen s <= f')%nat -> (blen s <= fk)%nat ->
    good (dec_fields_keep S p fk rec m fs false vars num unk s) s 1.
  Proof using All.
    induction m as [|m IH]; intros fs vars num unk s Hm Hf Hk; [lia|].
    cbn [dec_fields_keep andb]. pose proof (header_step p s) as Hh.
    destruct (r_field_begin p s) as [[h s1]| |]; cbn [bind good]; auto.
    destruct Hh as [Hl Hh]. destruct (ttype_eqb (fst h) TStop) eqn:Estop.
    { destruct Hh as [-> _]. cbn [bind good]. lia. }
    destruct Hh as (n & s2 & -> & Hb2 & _). cbn [bind].
    destruct (match_field S fs 0 (snd h) (fst h)) as [[i f]|].
    - pose proof (Hg (f_ty f) s2 ltac:(lia)) as G.
      destruct (rec (f_ty f) s2) as [[x s3]| |]; cbn [bind good] in *; auto.
      unfold r_field_end_len. rewrite (assert_ok p 0 s3 (pf_clear_bin p s3 Hp)). cbn [bind fst snd].
      specialize (IH fs (set_nth i (Some x) vars) (num - 1) unk s3 ltac:(lia) ltac:(lia) ltac:(lia)).
      destruct (dec_fields_keep S p fk rec m fs false _ _ _ s3) as [[v4 s4]| |]; cbn [good] in *; auto. lia.
    - pose proof (skip_good p fk (fst h) s2 ltac:(lia)) as G.
      destruct (skip p fk (fst h) s2) as [[k s3]| |]; cbn [bind good] in *; auto.
      unfold r_field_end_len. rewrite (assert_ok p 0 s3 (pf_clear_bin p s3 Hp)). cbn [bind fst snd].
      specialize (IH fs vars num (unk ++ [firstn (Z.to_nat (n + k)) (rbuf s)]) s3 ltac:(lia) ltac:(lia) ltac:(lia)).
      destruct (dec_fields_keep S p fk rec m fs false _ _ _ s3) as [[v4 s4]| |]; cbn [good] in *; auto. lia.
  Qed.

  Lemma kv_good fk : forall m vs ret s, (blen s < m)%nat -> (blen s <= f')%nat -> (blen s <= fk)%nat ->
    good (dec_variants_keep S p fk rec m vs ret s) s 1.
  Proof using All.
    induction m as [|m IH]; intros vs ret s Hm Hf Hk; [lia|].
    cbn [dec_variants_keep]. pose proof (header_step p s) as Hh.
    destruct (r_field_begin p s) as [[h s1]| |]; cbn [bind good]; auto.
    destruct Hh as [Hl Hh]. destruct (ttype_eqb (fst h) TStop) eqn:Estop.
    { destruct Hh as [-> _]. cbn [bind good]. lia. }
    destruct Hh as (n & s2 & -> & Hb2 & _). cbn [bind].
    match goal with |- good (match ?k with Some _ => _ | None => _ end) _ _ => destruct k as [[id vt]|] end.
    - destruct ret; try (cbn; discriminate).
      pose proof (Hg vt s2 ltac:(lia)) as G.
      destruct (rec vt s2) as [[x s3]| |]; cbn [bind good] in *; auto.
      specialize (IH vs (UKnown id x) s3 ltac:(lia) ltac:(lia) ltac:(lia)).
      destruct (dec_variants_keep S p fk rec m vs (UKnown id x) s3) as [[v4 s4]| |]; cbn [good] in *; auto. lia.
    - pose proof (skip_good p fk (fst h) s2 ltac:(lia)) as G.
      destruct (skip p fk (fst h) s2) as [[k s3]| |]; cbn [bind good] in *; auto.
      destruct ret; try (cbn; discriminate).
      specialize (IH vs (UUnknown (firstn (Z.to_nat (n + k)) (rbuf s))) s3 ltac:(lia) ltac:(lia) ltac:(lia)).
      destruct (dec_variants_keep S p fk rec m vs _ s3) as [[v4 s4]| |]; cbn [good] in *; auto. lia.
  Qed.
End KeepLoopsTotal.

Lemma no_arg_keeps_lookup S n fs ia : no_arg_keeps S = true -> lookup S n = Some (DStruct fs true ia) -> ia = false.
Proof.
  intros H L. unfold no_arg_keeps in H. rewrite forallb_forall in H. specialize (H _ (nth_error_In _ _ L)). cbn in H.
  destruct ia; [discriminate|reflexivity].
Qed.

Theorem keep_good S p : p <> PCompact -> no_arg_keeps S = true ->
  forall f t s, (blen s < f)%nat -> good (gen_decode_keep S p f t s) s 0.
Proof.
  intros Hp Hna. induction f as [|f IHg]; intros t s Hf; [lia|].
  assert (IHn : forall t0 s0 x s', gen_decode_keep S p f t0 s0 = Ok (x, s') -> is_compact p = true ->
                  r_pfield (rc s0) = false \/ ttype_of_ty S t0 = TBool -> r_pfield (rc s') = false).
  { intros t0 s0 x s' _ Hc. rewrite (noncompact p Hp) in Hc. discriminate. }
  assert (IHg' : forall t0 s0, (blen s0 < f)%nat -> good (gen_decode_keep S p f t0 s0) s0 0) by exact IHg.
  cbn [gen_decode_keep].
  destruct (resolve S t) as [| | | | | | | | | |et|et|kt vt|n].
  - apply (good_map _ GBool). apply r_bool_good.
  - apply (good_map _ GI8). apply (good_weaken _ _ 1); [lia|apply r_i8_good].
  - apply (good_map _ GI16). apply (good_weaken _ _ 1); [lia|apply r_i16_good].
  - apply (good_map _ GI32). apply (good_weaken _ _ 1); [lia|apply r_i32_good].
  - apply (good_map _ GI64). apply (good_weaken _ _ 1); [lia|apply r_i64_good].
  - apply (good_map _ GDouble). apply (good_weaken _ _ 8); [lia|apply r_double_good].
  - apply (good_map _ GBytes). apply (good_weaken _ _ 1); [lia|apply r_bytes_good].
  - apply (good_map _ GBytes). apply (good_weaken _ _ 1); [lia|apply r_bytes_good].
  - apply (good_map _ GUuid). apply (good_weaken _ _ 16); [lia|apply r_uuid_good].
  - pose proof (r_struct_begin_good p s) as G0.
    destruct (r_struct_begin p s) as [[u s0]| |]; cbn [bind good] in *; auto.
    pose proof (r_struct_end_good p s0) as G1.
    destruct (r_struct_end p s0) as [[u1 s1]| |]; cbn [bind good] in *; auto. lia.
  - pose proof (r_coll_begin_good p s) as G0.
    destruct (r_coll_begin p s) as [[h s0]| |]; cbn [bind good good_hdr] in *; auto. destruct G0 as [G0 Gs].
    pose proof (g_elems_good S p _ f IHg' IHn (Datatypes.S f) et (snd h) s0 [] ltac:(lia) ltac:(lia)) as G1.
    destruct (dec_elems _ _ et (snd h) s0 []) as [[l s1]| |]; cbn [bind good] in *; auto. lia.
  - pose proof (r_coll_begin_good p s) as G0.
    destruct (r_coll_begin p s) as [[h s0]| |]; cbn [bind good good_hdr] in *; auto. destruct G0 as [G0 Gs].
    pose proof (g_elems_good S p _ f IHg' IHn (Datatypes.S f) et (snd h) s0 [] ltac:(lia) ltac:(lia)) as G1.
    destruct (dec_elems _ _ et (snd h) s0 []) as [[l s1]| |]; cbn [bind good] in *; auto. lia.
  - pose proof (r_map_begin_good p s) as G0.
    destruct (r_map_begin p s) as [[h s0]| |]; cbn [bind good good_hdr] in *; auto. destruct G0 as [G0 Gs].
    pose proof (g_pairs_good S p _ f IHg' IHn (Datatypes.S f) kt vt (snd h) s0 [] ltac:(lia) ltac:(lia)) as G1.
    destruct (dec_pairs _ _ kt vt (snd h) s0 []) as [[l s1]| |]; cbn [bind good] in *; auto. lia.
  - destruct (lookup S n) as [[fs [|] ia|vs vo [|]|ms|tt]|] eqn:L; try (cbn; discriminate).
    + rewrite (no_arg_keeps_lookup S n fs ia Hna L).
      pose proof (r_struct_begin_good p s) as G0.
      destruct (r_struct_begin p s) as [[u s0]| |]; cbn [bind good] in *; auto.
      pose proof (kf_good S p Hp _ f IHg' f (Datatypes.S f) fs (map init_var fs) (Z.of_nat (length fs)) [] s0 ltac:(lia) ltac:(lia) ltac:(lia)) as G1.
      destruct (dec_fields_keep S p f _ _ fs false _ _ _ s0) as [[r s1]| |]; cbn [bind good] in *; auto.
      pose proof (r_struct_end_good p s1) as G2.
      destruct (r_struct_end p s1) as [[u2 s2]| |]; cbn [bind good] in *; auto.
      pose proof (finish_fields_good fs (fst r)) as Gf.
      destruct (finish_fields fs (fst r)) as [out| |]; cbn [bind good]; [lia|exact Gf|exact Gf].
    + pose proof (r_struct_begin_good p s) as G0.
      destruct (r_struct_begin p s) as [[u s0]| |]; cbn [bind good] in *; auto.
      pose proof (g_fields_good S p _ f IHg' IHn f (Datatypes.S f) fs (map init_var fs) s0 ltac:(lia) ltac:(lia) ltac:(lia)) as G1.
      destruct (dec_fields S p f _ _ fs _ s0) as [[vars s1]| |]; cbn [bind good] in *; auto.
      pose proof (r_struct_end_good p s1) as G2.
      destruct (r_struct_end p s1) as [[u2 s2]| |]; cbn [bind good] in *; auto.
      pose proof (finish_fields_good fs vars) as Gf.
      destruct (finish_fields fs vars) as [out| |]; cbn [bind good]; [lia|exact Gf|exact Gf].
    + pose proof (r_struct_begin_good p s) as G0.
      destruct (r_struct_begin p s) as [[u s0]| |]; cbn [bind good] in *; auto.
      pose proof (kv_good S p Hp _ f IHg' f (Datatypes.S f) vs UNone s0 ltac:(lia) ltac:(lia) ltac:(lia)) as G1.
      destruct (dec_variants_keep S p f _ _ vs UNone s0) as [[ret s1]| |]; cbn [bind good] in *; auto.
      pose proof (r_struct_end_good p s1) as G2.
      destruct (r_struct_end p s1) as [[u2 s2]| |]; cbn [bind good] in *; auto.
      destruct ret as [|id x|c]; try (cbn; lia).
      destruct vo; [|cbn; discriminate]. destruct vs as [|[id0 t0] r]; cbn; [discriminate|lia].
    + pose proof (r_struct_begin_good p s) as G0.
      destruct (r_struct_begin p s) as [[u s0]| |]; cbn [bind good] in *; auto.
      pose proof (g_variants_good S p _ f IHg' IHn f (Datatypes.S f) vs None s0 ltac:(lia) ltac:(lia) ltac:(lia)) as G1.
      destruct (dec_variants S p f _ _ vs None s0) as [[ret s1]| |]; cbn [bind good] in *; auto.
      pose proof (r_struct_end_good p s1) as G2.
      destruct (r_struct_end p s1) as [[u2 s2]| |]; cbn [bind good] in *; auto.
      destruct ret as [[id x]|]; [cbn; lia|].
      destruct vo; [|cbn; discriminate]. destruct vs as [|[id0 t0] r]; cbn; [discriminate|lia].
    + apply (good_map _ GEnum). apply (good_weaken _ _ 1); [lia|apply r_i32_good].
Qed.

(* C09 for the keep decoder WITH the partial slice: on every byte string, every reader context, every fuel above the input
   length: a value or a genuine error -- no panic (in particular no out-of-bounds slice, no usize underflow), no fuel exhaustion *)
Theorem gen_decode_keep_total S p t (l : list byte) rcx fuel :
  p <> PCompact -> no_arg_keeps S = true -> (length l < fuel)%nat ->
  let o := gen_decode_keep_g S p fuel t (mkS l rcx) in
  (forall st, o <> Panic st) /\ o <> Err EOutOfFuel.
Proof.
  intros Hp Hna Hf o. unfold o. rewrite (keep_g_agrees S p Hp).
  pose proof (keep_good S p Hp Hna fuel t (mkS l rcx) ltac:(unfold blen; cbn [rbuf]; lia)) as G.
  destruct (gen_decode_keep S p fuel t (mkS l rcx)) as [[v s']| |]; cbn [good] in G.
  - split; discriminate.
  - split; [discriminate|]. intros H. injection H as ->. congruence.
  - destruct G.
Qed.

(* the F-13a class is needed: an `args` struct of a keep build underflows `remaining - 2` *)
Example keep_arg_panics :
  gen_decode_keep_g [DStruct [] true true] PBinary 40 (TyRef 0) (mkS [x00] r0) = Panic SOverflow.
Proof. vm_compute. reflexivity. Qed.
