(* Lemmas about the split-mode file names (Pipeline.v: generate_unique_name, split_items; C14 / C17): whatever the names of the items
   of a module, the file names write_split_mod assigns are pairwise distinct ignoring case, and they are a function of the item
   sequence only.  Two variants (seeded changes C14e, C17e) are refuted. *)
From Coq Require Import String List Bool Arith Ascii DecimalString Decimal DecimalNat Lia Permutation.
From PVBld Require Import Names Pipeline.
Import ListNotations.
Open Scope string_scope.

(* ---- lower case and the decimal suffix ------------------------------------------------------------------------------------------ *)
Lemma lower_app a b : lower (a ++ b) = lower a ++ lower b.
Proof. induction a as [|c a IH]; cbn [lower append]; [reflexivity|]. now rewrite IH. Qed.

Lemma lower_length a : String.length (lower a) = String.length a.
Proof. induction a as [|c a IH]; cbn; [reflexivity|]. now rewrite IH. Qed.

Lemma append_inj_l a b c : a ++ b = a ++ c -> b = c.
Proof. induction a as [|x a IH]; cbn; [auto|]. intros H. injection H as H. auto. Qed.

Lemma append_length a b : String.length (a ++ b) = String.length a + String.length b.
Proof. induction a as [|c a IH]; cbn; [reflexivity|]. now rewrite IH. Qed.

(* digits are not letters *)
Lemma lower_uint d : lower (NilEmpty.string_of_uint d) = NilEmpty.string_of_uint d.
Proof. induction d; cbn [NilEmpty.string_of_uint lower]; try reflexivity; rewrite IHd; reflexivity. Qed.

Lemma string_of_nat_inj a b : string_of_nat a = string_of_nat b -> a = b.
Proof.
  unfold string_of_nat. intros H.
  apply (f_equal NilEmpty.uint_of_string) in H. rewrite !NilEmpty.usu in H. injection H as H.
  apply (f_equal Nat.of_uint) in H. now rewrite !Unsigned.of_to in H.
Qed.

Definition candidate (simple : string) (k : nat) : string :=
  match k with 0 => simple | 1 => simple | _ => simple ++ "_" ++ string_of_nat k end.

Lemma candidate_lower_inj simple a b :
  1 <= a -> 1 <= b -> lower (candidate simple a) = lower (candidate simple b) -> a = b.
Proof.
  intros A B H. unfold candidate in H.
  destruct a as [|[|a]]; [lia| |]; destruct b as [|[|b]]; try lia.
  - exfalso. apply (f_equal String.length) in H. rewrite !lower_length, !append_length in H. cbn in H. lia.
  - exfalso. apply (f_equal String.length) in H. rewrite !lower_length, !append_length in H. cbn in H. lia.
  - rewrite !lower_app in H. apply append_inj_l in H. apply append_inj_l in H.
    unfold string_of_nat in H. rewrite !lower_uint in H. now apply string_of_nat_inj.
Qed.

(* ---- generate_unique_name returns a name that is not taken ---------------------------------------------------------------------- *)
Lemma mem_in s l : mem s l = true <-> In s l.
Proof.
  unfold mem. rewrite existsb_exists. split.
  - intros [x [H Q]]. apply String.eqb_eq in Q. now subst.
  - intros H. exists s. split; [assumption|apply String.eqb_refl].
Qed.

(* the loop at counter k (k >= 1) holding candidate k: either it returns a free candidate, or all of k .. k+fuel are taken *)
Lemma gun_loop_spec fuel existing simple :
  forall k, 1 <= k ->
    let r := gun_loop fuel existing simple k (candidate simple k) in
    (exists j, k <= j /\ r = candidate simple j /\ mem (lower r) existing = false) \/
    (forall j, k <= j <= k + fuel -> mem (lower (candidate simple j)) existing = true).
Proof.
  induction fuel as [|f IH]; intros k K; cbn [gun_loop].
  - destruct (mem (lower (candidate simple k)) existing) eqn:Q.
    + right. intros j J. assert (j = k) by lia. now subst.
    + left. exists k. auto.
  - destruct (mem (lower (candidate simple k)) existing) eqn:Q.
    + assert (C : simple ++ "_" ++ string_of_nat (S k) = candidate simple (S k)) by (destruct k as [|k]; [lia|reflexivity]).
      rewrite C. destruct (IH (S k) ltac:(lia)) as [[j [J [R M]]]|All].
      * left. exists j. split; [lia|auto].
      * right. intros j J. destruct (Nat.eq_dec j k) as [->|N]; [assumption|]. apply All. lia.
    + left. exists k. auto.
Qed.

Lemma seq_candidates_nodup simple k n :
  1 <= k -> NoDup (map (fun j => lower (candidate simple j)) (seq k n)).
Proof.
  revert k. induction n as [|n IH]; intros k K; cbn; [constructor|]. constructor; [|apply IH; lia].
  intros H. apply in_map_iff in H. destruct H as [j [E J]]. apply in_seq in J.
  apply candidate_lower_inj in E; lia.
Qed.

Theorem generate_unique_name_fresh existing simple :
  mem (lower (generate_unique_name existing simple)) existing = false.
Proof.
  unfold generate_unique_name.
  destruct (gun_loop_spec (S (length existing)) existing simple 1 (le_n 1)) as [[j [_ [R M]]]|All].
  - cbn [candidate] in *. exact M.
  - exfalso.
    (* |existing| + 2 pairwise distinct strings would all be members of existing *)
    pose proof (seq_candidates_nodup simple 1 (S (S (length existing))) (le_n 1)) as ND.
    assert (I : incl (map (fun j => lower (candidate simple j)) (seq 1 (S (S (length existing))))) existing).
    { intros x Hx. apply in_map_iff in Hx. destruct Hx as [j [<- J]]. apply in_seq in J. apply mem_in. apply All. lia. }
    pose proof (NoDup_incl_length ND I) as L. rewrite map_length, seq_length in L. lia.
Qed.

(* ---- C14_split_names_injective ------------------------------------------------------------------------------------------------- *)
Section Split.
  Variable item : Type.
  Variable render kind_prefix item_name : item -> string.

  (* the unique names (without .rs) write_split_mod assigns, given the names already taken in the module *)
  Fixpoint assigned (existing : list string) (simples : list string) : list string :=
    match simples with
    | [] => []
    | s :: r => let u := generate_unique_name existing s in u :: assigned (lower u :: existing) r
    end.

  Lemma split_items_names existing its :
    map fst (fst (split_items item render kind_prefix item_name existing its)) =
    map (fun u => u ++ ".rs") (assigned existing (map (simple_name item kind_prefix item_name) its)).
  Proof.
    revert existing. induction its as [|x r IH]; intros existing; cbn [split_items map assigned]; [reflexivity|].
    destruct (split_items item render kind_prefix item_name
                (lower (generate_unique_name existing (simple_name item kind_prefix item_name x)) :: existing) r) as [lg ms] eqn:Q.
    cbn [fst map]. f_equal. rewrite <- IH. now rewrite Q.
  Qed.

  Theorem assigned_injective simples : forall existing,
    NoDup (map lower (assigned existing simples)) /\
    forall u, In u (assigned existing simples) -> ~ In (lower u) existing.
  Proof.
    induction simples as [|s r IH]; intros existing; cbn [assigned map]; [split; [constructor|intros u []]|].
    set (u0 := generate_unique_name existing s).
    destruct (IH (lower u0 :: existing)) as [ND Fresh]. split.
    - constructor; [|assumption]. intros H. apply in_map_iff in H. destruct H as [v [E V]].
      apply (Fresh v V). rewrite E. now left.
    - intros u [<-|Hu].
      + intros H. apply mem_in in H. unfold u0 in H. now rewrite generate_unique_name_fresh in H.
      + intros H. apply (Fresh u Hu). now right.
  Qed.
End Split.

(* the file names of a module group (with .rs), ignoring case *)
Theorem split_file_names_injective (item : Type) (render kind_prefix item_name : item -> string) its :
  NoDup (map lower (map fst (fst (split_items item render kind_prefix item_name [] its)))).
Proof.
  rewrite split_items_names. rewrite map_map.
  destruct (assigned_injective (map (simple_name item kind_prefix item_name) its) []) as [ND _].
  remember (assigned [] (map (simple_name item kind_prefix item_name) its)) as l eqn:E. clear E.
  induction l as [|u l IH]; cbn [map]; [constructor|]. inversion ND as [|? ? N1 N2]; subst. constructor; [|now apply IH].
  intros H. apply in_map_iff in H. destruct H as [v [Ev V]]. apply N1.
  rewrite !lower_app in Ev. apply in_map_iff. exists v. split; [|assumption].
  (* lower v ++ ".rs" = lower u ++ ".rs" -> lower v = lower u *)
  assert (R : forall a b c, a ++ c = b ++ c -> a = b).
  { intros a. induction a as [|x a IHa]; intros [|y b] c Q; cbn [append] in Q; [reflexivity| | |].
    - exfalso. apply (f_equal String.length) in Q. cbn [String.length] in Q. rewrite append_length in Q. lia.
    - exfalso. apply (f_equal String.length) in Q. cbn [String.length] in Q. rewrite append_length in Q. lia.
    - injection Q as -> Q. f_equal. eapply IHa; eauto. }
  eapply R; eauto.
Qed.

(* ---- the two variants ------------------------------------------------------------------------------------------------------------ *)
(* seeded change C14e: the set records the REQUESTED name (lower-cased) instead of the name returned *)
Fixpoint assigned_requested (existing : list string) (simples : list string) : list string :=
  match simples with
  | [] => []
  | s :: r => generate_unique_name existing s :: assigned_requested (lower s :: existing) r
  end.

Lemma split_names_requested_refuted :
  assigned_requested [] ["message_ab"; "message_Ab"; "message_Ab_2"] = ["message_ab"; "message_Ab_2"; "message_Ab_2"] /\
  assigned [] ["message_ab"; "message_Ab"; "message_Ab_2"] = ["message_ab"; "message_Ab_2"; "message_Ab_2_2"].
Proof. split; vm_compute; reflexivity. Qed.

(* seeded change C17e: the names are settled group by group (groups = simple names equal ignoring case), the groups visited in the
   iteration order of a seeded hash map ([pi]); inside a group in item order *)
Definition assigned_grouped (pi : list (string * list string)%type -> list (string * list string)%type) (simples : list string) : list string :=
  assigned [] (flat_map snd (pi (group_by lower String.eqb simples))).

Lemma split_names_grouped_refuted :
  exists pi pi', perm_fun pi /\ perm_fun pi' /\
    ~ Permutation (assigned_grouped pi ["message_Foo"; "message_foo"; "message_foo_2"])
                  (assigned_grouped pi' ["message_Foo"; "message_foo"; "message_foo_2"]).
Proof.
  exists (fun l => l), (@List.rev (string * list string)%type).
  split; [intros l; apply Permutation_refl|]. split; [intros l; apply Permutation_sym, Permutation_rev|].
  intros P. assert (H : In "message_foo_3" (assigned_grouped (fun l => l) ["message_Foo"; "message_foo"; "message_foo_2"])).
  { eapply Permutation_in; [apply Permutation_sym; exact P|]. vm_compute. tauto. }
  vm_compute in H. intuition discriminate.
Qed.

(* non-vacuity: every kind prefix, 2-way and 3-way collisions together with items literally named like the suffixed forms *)
Example split_names_nonvacuous :
  assigned [] ["message_Foo"; "message_FOO"; "message_foo"; "message_Foo_2"; "message_foo_3"; "enum_Foo"; "enum_FOO_2"; "enum_FOO"; "service_foo"; "service_Foo"] =
    ["message_Foo"; "message_FOO_2"; "message_foo_3"; "message_Foo_2_2"; "message_foo_3_2"; "enum_Foo"; "enum_FOO_2"; "enum_FOO_3"; "service_foo"; "service_Foo_2"].
Proof. vm_compute. reflexivity. Qed.
