#!/usr/bin/env python3
"""Assembles /verif/MANIFEST.json from manifest/base.json, manifest/main.json and the families'
MANIFEST.part.json (manifest/<fam>.fallback.json is used while a family has no part file), computes
not_applicable = properties nobody claims (reasons in manifest/not_applicable.json), validates against the schema."""
import json, os, sys
R = os.path.dirname(os.path.dirname(os.path.abspath(__file__)))
def load(p): return json.load(open(os.path.join(R, p)))
m = load("manifest/base.json")
checks = {}
for c in load("manifest/main.json")["checks"]:
    checks[c["property_id"]] = c
for fam in sorted(os.listdir(os.path.join(R, "fam"))):
    p = "fam/%s/MANIFEST.part.json" % fam
    fb = "manifest/%s.fallback.json" % fam
    src = p if os.path.exists(os.path.join(R, p)) else (fb if os.path.exists(os.path.join(R, fb)) else None)
    if not src:
        continue
    for c in load(src)["checks"]:
        pid = c["property_id"]
        if pid in checks:
            continue        # main entries win (C04/C09/C11/C12 combine both levels themselves)
        if not os.path.exists(os.path.join(R, "pv", "props", pid.lower() + ".py")):
            continue
        checks[pid] = c
props = [json.loads(l)["id"] for l in open(os.path.join(R, "properties.jsonl"))]
na_reasons = load("manifest/not_applicable.json") if os.path.exists(os.path.join(R, "manifest/not_applicable.json")) else {}
# coordinator's overrides of what a family's part file claims (manifest/overrides.json: {Cxx: {category, text_prefix}})
ov = load("manifest/overrides.json") if os.path.exists(os.path.join(R, "manifest/overrides.json")) else {}
for pid, o in ov.items():
    if pid in checks:
        lc = checks[pid]["level_claimed"]
        if "category" in o:
            lc["category"] = o["category"]
        if o.get("text_prefix") and not lc["text"].startswith(o["text_prefix"]):
            lc["text"] = o["text_prefix"] + " " + lc["text"]
m["checks"] = [checks[p] for p in props if p in checks]
m["not_applicable"] = [dict(property_id=p, reason=na_reasons.get(p, "not yet built (no check registered); see DESIGN.md")) for p in props if p not in checks]
m["engines"][0]["serves_properties"] = [p for p in props if p in checks]
try:
    import jsonschema
    jsonschema.validate(m, json.load(open("/root/.vp/MANIFEST.schema.json")))
except ImportError:
    pass
json.dump(m, open(os.path.join(R, "MANIFEST.json"), "w"), indent=1)
print("claimed:", " ".join(c["property_id"] for c in m["checks"]))
print("not_applicable:", " ".join(x["property_id"] for x in m["not_applicable"]))
