"""Inventory of the EMITTED TEXT of the Thrift decode / encode templates (properties C19 and C09, generated level).

Loaded by tools/extract_gen.py (GENERATORS entry fam/gen/coq/Generated/TemplateSites.v).

Scans every string literal (the text pilota-build writes into the generated crate) of
pilota-build/src/codegen/thrift/*.rs and lists, as (file, enclosing generator function, kind, text of the line):

  ownership sites (C19)   unsafe, set_len, as_mut_ptr, as_ptr, ptr_offset, ptr_write, from_raw_parts, get_bytes, mem_forget,
                          manually_drop, box_leak, transmute
                          -- plus the bodies of the runtime functions those templates call with a raw pointer
                          (`fn get_bytes` of every reader in pilota/src/thrift/*.rs)
  panic sites (C09)       unwrap, expect, panic_macro (panic! / unreachable! / unimplemented! / todo! / assert*!), index (`x[..]`),
                          arith (`+ - * / %` and the compound assignments on emitted integer variables), alloc (with_capacity)

fam/gen/coq/TemplateAcc.v names the sites the models account for, with a disposition each; Proofs/TemplateAccP.v proves
accounted = regenerated as LISTS (C19_template_inventory, C09_gen_panic_inventory): a new unsafe block, raw-pointer call, unwrap,
index or arithmetic operation in the emitted text breaks the proof gate until somebody has looked at it.
"""
import os, re, sys

OWN_KINDS = [
    ("unsafe", re.compile(r"\bunsafe\b")),
    ("set_len", re.compile(r"\bset_len\s*\(")),
    ("as_mut_ptr", re.compile(r"\bas_mut_ptr\s*\(")),
    ("as_ptr", re.compile(r"\bas_ptr\s*\(")),
    ("ptr_offset", re.compile(r"\.(offset|add|sub|offset_from)\s*\(")),
    ("ptr_write", re.compile(r"\.write\s*\(")),
    ("from_raw_parts", re.compile(r"\bfrom_raw_parts(_mut)?\b")),
    ("get_bytes", re.compile(r"\bget_bytes\s*\(")),
    ("mem_forget", re.compile(r"\b(mem::forget|forget)\s*\(")),
    ("manually_drop", re.compile(r"\bManuallyDrop\b")),
    ("box_leak", re.compile(r"\bBox::leak\b")),
    ("transmute", re.compile(r"\btransmute\b")),
]
PANIC_KINDS = [
    ("unwrap", re.compile(r"\.unwrap\s*\(\s*\)")),
    ("expect", re.compile(r"\.expect\s*\(")),
    ("panic_macro", re.compile(r"\b(panic|unreachable|unimplemented|todo|assert|assert_eq|assert_ne|debug_assert)!")),
    ("index", re.compile(r"[A-Za-z0-9_\)]\[[^\]\n]*\]")),
    ("arith", re.compile(r"(?<![=!<>+\-*/%&|^])\s(\+|-|\*|/|%)\s(?![=>])|(\+=|-=|\*=|/=|%=)")),
    ("alloc", re.compile(r"\bwith_capacity\s*\(")),
]
RUNTIME_KINDS = OWN_KINDS + [
    ("copy_from_slice", re.compile(r"\bcopy_from_slice\s*\(")),
    ("split_to", re.compile(r"\bsplit_to(_checked)?\s*\(")),
    ("slice_ref", re.compile(r"\bslice_ref\s*\(")),
    ("advance", re.compile(r"\badvance\s*\(")),
]

LIT = re.compile(r'r(#+)"(.*?)"\1|r"([^"]*)"|"((?:[^"\\]|\\.)*)"', re.S)


def strip_comments(s):
    s = re.sub(r"/\*.*?\*/", lambda m: re.sub(r"[^\n]", " ", m.group(0)), s, flags=re.S)
    # `//` inside a string literal (there is none in these files except URLs) is left alone by requiring a non-quote context
    return re.sub(r"(?m)^(\s*)//[^\n]*", r"\1", s)


def enclosing_fn(src, pos):
    last = None
    for m in re.finditer(r"\bfn\s+([A-Za-z_]\w*)", src[:pos]):
        last = m.group(1)
    return last or "-"


def norm(line):
    return " ".join(line.split())


def coq_string(s):
    return '"' + s.replace('"', '""') + '"'


def literal_rows(repo, kinds):
    root = os.path.join(repo, "pilota-build", "src", "codegen", "thrift")
    if not os.path.isdir(root):
        print("gen_template_inventory.py: %s not found" % root, file=sys.stderr)
        sys.exit(2)
    rows = []
    for fn in sorted(os.listdir(root)):
        if not fn.endswith(".rs"):
            continue
        src = strip_comments(open(os.path.join(root, fn), encoding="utf-8").read())
        for m in LIT.finditer(src):
            body = m.group(2) if m.group(2) is not None else (m.group(3) if m.group(3) is not None else m.group(4))
            if not body:
                continue
            f = enclosing_fn(src, m.start())
            for line in body.split("\n"):
                t = norm(line)
                if not t:
                    continue
                for kind, rx in kinds:
                    if rx.search(t):
                        rows.append((fn, f, kind, t))
    return rows


def runtime_rows(repo):
    root = os.path.join(repo, "pilota", "src", "thrift")
    rows = []
    for fn in sorted(os.listdir(root)):
        if not fn.endswith(".rs"):
            continue
        src = strip_comments(open(os.path.join(root, fn), encoding="utf-8").read())
        for m in re.finditer(r"\bfn\s+get_bytes\b[^{;]*\{", src):
            depth, j = 1, m.end()
            while j < len(src) and depth > 0:
                depth += {"{": 1, "}": -1}.get(src[j], 0)
                j += 1
            for line in src[m.end():j - 1].split("\n"):
                t = norm(line)
                for kind, rx in RUNTIME_KINDS:
                    if t and rx.search(t):
                        rows.append(("runtime/" + fn, "get_bytes", kind, t))
    return rows


def table(name, rows):
    return ("Definition %s : list (string * string * string * string) :=\n  [" % name
            + ";\n   ".join("(%s, %s, %s, %s)" % tuple(coq_string(x) for x in r) for r in rows) + "].")


def template_sites(repo):
    own = literal_rows(repo, OWN_KINDS) + runtime_rows(repo)
    pan = literal_rows(repo, PANIC_KINDS)
    out = ["(* GENERATED by tools/gen_template_inventory.py (through tools/extract_gen.py) from the string literals of",
           "   pilota-build/src/codegen/thrift/*.rs (the emitted text) and the `fn get_bytes` bodies of pilota/src/thrift/*.rs -- do not edit.",
           "   (file, enclosing generator function, kind, text of the line) *)",
           "From Coq Require Import String List.", "Import ListNotations.", "Local Open Scope string_scope.", "",
           "(* C19: where the emitted code (and the runtime functions it hands raw pointers to) leaves the safe fragment *)",
           table("template_own_sites", own), "",
           "(* C09: operations of the emitted text that can panic / abort in Rust *)",
           table("template_panic_sites", pan)]
    return "\n".join(out) + "\n"


if __name__ == "__main__":
    sys.stdout.write(template_sites(sys.argv[1] if len(sys.argv) > 1 else "/repo"))
