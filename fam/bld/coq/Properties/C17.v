(* C17 -- Code generation is deterministic.
   Only statements, each closed by [exact] of a lemma proved in Proofs/, with Print Assumptions beneath.

   The model (Pipeline.v) is the order-sensitive skeleton of pilota-build's emission.  Every iteration of a
   hash container with a per-process seed and every rayon parallel loop is a PARAMETER of the model: an
   arbitrary function returning a permutation of its argument ([perm_fun]).  Rendering of one item
   ([render]), the module path of an item ([mod_path]) and the split-mode file-name pieces are arbitrary
   functions.  The theorems say the output is the same for ALL values of the permutation parameters.
   Inventory.v (regenerated from the Rust sources on every run) ties the parameters to the code: the list
   of unordered-iteration sites must be exactly the list the model accounts for. *)
From Coq Require Import String List Permutation.
From PVBld Require Import Generated.Inventory Pipeline Proofs.PipelineP Proofs.InventoryP.
Import ListNotations.

(* single-file mode: the text written to the output file (and the -- empty -- set of side files) *)
Theorem C17_single :
  forall (item : Type) (mod_path : item -> path) (render kind_prefix item_name : item -> string)
         pi_mods pi_work pi_keys pi_tree pi_mods' pi_work' pi_keys' pi_tree',
    perm_fun pi_mods -> perm_fun pi_work -> perm_fun pi_keys -> perm_fun pi_tree ->
    perm_fun pi_mods' -> perm_fun pi_work' -> perm_fun pi_keys' -> perm_fun pi_tree' ->
    forall items,
      write_items item mod_path render kind_prefix item_name pi_mods pi_work pi_keys pi_tree false items =
      write_items item mod_path render kind_prefix item_name pi_mods' pi_work' pi_keys' pi_tree' false items.
Proof. exact single_inv. Qed.
Print Assumptions C17_single.

(* split mode: the text of the main file, the write log of every directory (file names in the order
   generate_unique_name assigned them, contents), hence the set of (directory, file name, content) *)
Theorem C17_split :
  forall (item : Type) (mod_path : item -> path) (render kind_prefix item_name : item -> string)
         pi_mods pi_work pi_keys pi_tree pi_mods' pi_work' pi_keys' pi_tree',
    perm_fun pi_mods -> perm_fun pi_work -> perm_fun pi_keys -> perm_fun pi_tree ->
    perm_fun pi_mods' -> perm_fun pi_work' -> perm_fun pi_keys' -> perm_fun pi_tree' ->
    forall items,
      write_items item mod_path render kind_prefix item_name pi_mods pi_work pi_keys pi_tree true items =
      write_items item mod_path render kind_prefix item_name pi_mods' pi_work' pi_keys' pi_tree' true items /\
      files_of (write_items item mod_path render kind_prefix item_name pi_mods pi_work pi_keys pi_tree true items) =
      files_of (write_items item mod_path render kind_prefix item_name pi_mods' pi_work' pi_keys' pi_tree' true items).
Proof. exact split_inv. Qed.
Print Assumptions C17_split.

(* workspace mode (both split settings): the `members` lines of the root Cargo.toml and, per crate, the
   dependency list, gen.rs and the split files -- provided distinct locations have distinct crate names *)
Theorem C17_workspace :
  forall (item : Type) (mod_path : item -> path) (render kind_prefix item_name : item -> string)
         (loc : Type) (loc_eqb : loc -> loc -> bool) (location : item -> loc) (crate_name : loc -> string)
         (repubs : loc -> list item -> list item) (dep_names : loc -> list item -> list string)
         pi_mods pi_work pi_keys pi_tree pi_entry pi_crates
         pi_mods' pi_work' pi_keys' pi_tree' pi_entry' pi_crates',
    (forall a b : loc, loc_eqb a b = true <-> a = b) ->
    perm_fun pi_mods -> perm_fun pi_work -> perm_fun pi_keys -> perm_fun pi_tree ->
    perm_fun pi_entry -> perm_fun pi_crates ->
    perm_fun pi_mods' -> perm_fun pi_work' -> perm_fun pi_keys' -> perm_fun pi_tree' ->
    perm_fun pi_entry' -> perm_fun pi_crates' ->
    forall split lm_items,
      NoDup (crate_names item loc loc_eqb location crate_name lm_items) ->
      workspace item mod_path render kind_prefix item_name pi_mods pi_work pi_keys pi_tree
                loc loc_eqb location crate_name repubs dep_names pi_entry pi_crates split lm_items =
      workspace item mod_path render kind_prefix item_name pi_mods' pi_work' pi_keys' pi_tree'
                loc loc_eqb location crate_name repubs dep_names pi_entry' pi_crates' split lm_items.
Proof. exact workspace_inv. Qed.
Print Assumptions C17_workspace.

(* the side condition is necessary: `dedup` runs before `sorted` *)
Theorem C17_workspace_dup_names_refuted :
  exists (lm_items : list nat) (crate_name : nat -> string) (pi_entry pi_entry' : list (nat * list nat) -> list (nat * list nat)),
    perm_fun pi_entry /\ perm_fun pi_entry' /\
    let ws pe := fst (workspace nat (fun _ => []) (fun _ => ""%string) (fun _ => ""%string) (fun _ => ""%string)
                                (fun l => l) (fun l => l) (fun l => l) (fun l => l)
                                nat Nat.eqb (fun i => i) crate_name (fun _ _ => []) (fun _ _ => [])
                                pe (fun l => l) false lm_items) in
    ws pi_entry <> ws pi_entry'.
Proof. exact workspace_dup_names_refuted. Qed.
Print Assumptions C17_workspace_dup_names_refuted.

(* protobuf front end after fix F-17a: the items a message lowers to (own item, module of nested items in
   declaration order, map-entry decisions of its fields) do not depend on the order of the AHashMap *)
Theorem C17_nested :
  forall pi pi', perm_fun pi -> perm_fun pi' -> forall m, lower_message pi m = lower_message pi' m.
Proof. exact lower_message_inv. Qed.
Print Assumptions C17_nested.

(* the pinned clause (nested messages taken from `nested_messages.iter()`): two siblings suffice *)
Theorem C17_nested_refuted :
  exists pi pi', perm_fun pi /\ perm_fun pi' /\
    lower_message_pinned pi 2 two_nested <> lower_message_pinned pi' 2 two_nested.
Proof. exact lower_message_pinned_refuted. Qed.
Print Assumptions C17_nested_refuted.

(* tie to the code: the regenerated inventory of unordered-iteration sites is the list accounted for, every
   iterating site carries a reason, and the reasons name exactly the model's permutation parameters *)
Theorem C17_inventory :
  map fst accounted = sites /\
  forallb justified accounted = true /\
  forallb (fun p => existsb (String.eqb p) model_params) (flat_map (fun sr => params_of (snd sr)) accounted) = true /\
  forallb (fun p => existsb (String.eqb p) (flat_map (fun sr => params_of (snd sr)) accounted)) model_params = true.
Proof. exact (conj inventory_accounted (conj inventory_justified inventory_params)). Qed.
Print Assumptions C17_inventory.
