(* C08, the third permitted error on well-formed input: an IGNORED field whose value nests deeper than
   MAXIMUM_SKIP_DEPTH makes the struct decoder fail with DepthLimit (the skipper's budget, property C07) -- stated as a
   theorem instead of being excluded by evo_dom: the fields before it are in the domain and their views succeed. *)
From PVGen Require Import Gen GenSpec EvoSpec Proofs.GenBase Proofs.EncP Proofs.EvoBase Proofs.EvoP.
From PV Require Import Proofs.TablesP Proofs.PrimP Proofs.HeaderP Proofs.RoundtripP.
From Coq Require Import ZifyN ZifyNat ZifyBool.
Open Scope Z_scope.

Section Deep.
  Variable R : schema.
  Variable p : pk.
  Variable f : nat.
  Variable dfs : list field.

  Lemma deep_fields : forall n s acc fs s',
    fields_loop p (read_val p f) n s acc = Ok (fs, s') -> npf s ->
    exists new, fs = rev acc ++ new /\
      forall a id x b vars vars1, new = a ++ (id, x) :: b ->
        walk_fields R skippable true dfs a = true -> walk_fields R (fun _ => true) false dfs a = true ->
        match_field R dfs 0 (Some id) (ttype_of x) = None -> skippable x = false ->
        view_fields R dfs a vars = Ok vars1 ->
        dec_fields R p f (gen_decode R p f) n dfs vars s = Err EDepthLimit.
  Proof.
    induction n as [|n IH]; intros s acc fs s' H Hn; [discriminate|].
    cbn [fields_loop] in H. binv H. destruct x as [ft oid]. cbn [fst snd] in H.
    pose proof (r_field_begin_npf _ _ _ _ E Hn) as Hn0.
    destruct (ttype_eqb ft TStop) eqn:Es.
    - injection H as <- <-. exists []. rewrite app_nil_r. split; [reflexivity|].
      intros a id x b vars vars1 Hnew. destruct a; discriminate Hnew.
    - binv H. destruct (r_field_begin_some _ _ _ _ _ E Es) as (id0 & ->).
      destruct (read_val_npf p _ _ _ _ _ E0 Hn0) as [Hn1 Hty].
      destruct (IH _ _ _ _ H Hn1) as (new & -> & Hdeep).
      exists ((id0, x) :: new). split; [cbn [rev]; rewrite <- app_assoc; reflexivity|].
      intros a id x' b vars vars1 Hnew Hw1 Hw2 Hm Hs Hv.
      assert (Hok : elem_ttype_ok ft = true) by (rewrite <- Hty; apply ttype_of_val_ok).
      destruct (fbl_ok R p ft id0 s0 Hn0 Hok) as (n1 & s1' & Hfbl & Hrv & Hgd).
      cbn [dec_fields]. rewrite E. cbn [bind fst snd]. rewrite Es, Hfbl. cbn [bind].
      destruct a as [|[i0 y0] a'].
      + cbn [app] in Hnew. injection Hnew as -> -> ->. rewrite Hty in Hm. rewrite Hm.
        unfold Gen.skip. rewrite Hrv, E0. cbn [bind]. unfold skippable in Hs. rewrite Hs. reflexivity.
      + cbn [app] in Hnew. injection Hnew as <- <- ->.
        rewrite walk_fields_cons in Hw1, Hw2. unfold walk_field in Hw1, Hw2.
        apply andb_prop in Hw1 as [Hx1 Hr1]. apply andb_prop in Hw2 as [Hx2 Hr2].
        rewrite view_fields_cons in Hv. rewrite Hty in *.
        destruct (match_field R dfs 0 (Some id0) ft) as [[i fl]|] eqn:Em.
        * destruct (match_field_inv _ _ _ _ _ _ _ Em) as (_ & _ & Hft).
          rewrite (Hgd f _ Hft). rewrite (evo_sim R p f _ _ _ _ E0 Hn0 _ Hft Hx1 Hx2).
          destruct (view R (f_ty fl) x) as [y|e|q]; cbn [bind] in Hv; try discriminate Hv. cbn [lift_view bind].
          rewrite (r_field_end_len_npf p _ Hn1). cbn [bind]. eapply Hdeep; eauto.
        * unfold Gen.skip. rewrite Hrv, E0. cbn [bind]. unfold skippable in Hx1. rewrite Hx1. cbn [bind].
          rewrite (r_field_end_len_npf p _ Hn1). cbn [bind]. eapply Hdeep; eauto.
  Qed.
End Deep.

Theorem evo_depth_limit : forall R p fuel T n dfs kp ia s a id x b s' vars1,
  read_val p fuel (ttype_of_ty R T) s = Ok (VStruct (a ++ (id, x) :: b), s') -> r_pfield (rc s) = false ->
  resolve R T = TyRef n -> lookup R n = Some (DStruct dfs kp ia) ->
  walk_fields R skippable true dfs a = true -> walk_fields R (fun _ => true) false dfs a = true ->
  match_field R dfs 0 (Some id) (ttype_of x) = None ->            (* the reader ignores the field ... *)
  skippable x = false ->                                           (* ... whose value nests deeper than the skipper's budget *)
  view_fields R dfs a (map init_var dfs) = Ok vars1 ->             (* nothing failed before it *)
  gen_decode R p fuel T s = Err EDepthLimit.
Proof.
  intros R p fuel T n dfs kp ia s a id x b s' vars1 H Hn Er El Hw1 Hw2 Hm Hs Hv.
  destruct fuel as [|f]; [discriminate|].
  assert (Et : ttype_of_ty R T = TStruct) by (unfold ttype_of_ty; rewrite Er, El; reflexivity).
  rewrite Et, read_val_S in H. binv H. binv H. binv H. injection H as -> ->.
  rewrite gen_decode_eq, Er, El, E. cbn [bind].
  destruct (deep_fields R p f dfs _ _ _ _ _ E0 (r_struct_begin_npf _ _ _ _ E Hn)) as (new & Hnew & Hd).
  cbn [rev app] in Hnew. subst new.
  rewrite (Hd a id x b _ vars1 eq_refl Hw1 Hw2 Hm Hs Hv). reflexivity.
Qed.

From PVGen Require Proofs.EvoTopP.

(* non-vacuity: field 9 is unknown to Rx's Top and nests 65 structs *)
Fixpoint nest (n : nat) : tval := match n with O => VStruct [] | Datatypes.S m => VStruct [(1, nest m)] end.

Example evo_depth_limit_nonvacuous :
  skippable (nest 64) = false /\ skippable (nest 63) = true /\
  forall p, exists ss, write_val p BContig (VStruct [(1, VI32 7); (9, nest 64)]) w0 = Ok (ss, w0) /\
    gen_decode EvoTopP.Rx p 200 (TyRef 0) (mkS (flat ss) r0) = Err EDepthLimit.
Proof.
  split; [vm_compute; reflexivity|]. split; [vm_compute; reflexivity|].
  intros p.
  destruct (roundtrip_val p BContig (VStruct [(1, VI32 7); (9, nest 64)]) ltac:(vm_compute; reflexivity) w0 eq_refl) as (ss & Hw & _ & Hr).
  exists ss. split; [exact Hw|].
  specialize (Hr 200%nat [] r0 ltac:(vm_compute; lia) idle_r0). rewrite app_nil_r in Hr.
  assert (Ec : canon p (VStruct [(1, VI32 7); (9, nest 64)]) = VStruct ([(1, VI32 7)] ++ (9, nest 64) :: [])).
  { destruct p; vm_compute; reflexivity. }
  rewrite Ec in Hr.
  eapply (evo_depth_limit EvoTopP.Rx p 200 (TyRef 0) 0%nat _ false false _ [(1, VI32 7)] 9 (nest 64) [] _ _ Hr);
    try reflexivity; vm_compute; reflexivity.
Qed.
