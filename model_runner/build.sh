#!/bin/sh
# builds the model runner from the freshly extracted model (coq/model.ml, coq/model.mli)
set -e
cd "$(dirname "$0")"
mkdir -p _build
cp ../coq/model.ml ../coq/model.mli util.ml thrift_suite.ml main.ml _build/
for f in pb_suite.ml idl_suite.ml gen_suite.ml build_suite.ml; do [ -f "$f" ] && cp "$f" _build/ || true; done
cd _build
SRC="model.mli model.ml util.ml thrift_suite.ml"
for f in pb_suite.ml idl_suite.ml gen_suite.ml build_suite.ml; do [ -f "$f" ] && SRC="$SRC $f"; done
ocamlfind ocamlopt -O3 -w -a -o ../runner $SRC main.ml 2>/dev/null || ocamlfind ocamlopt -w -a -o ../runner $SRC main.ml
