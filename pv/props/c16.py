"""C16 -- Thrift IDL parser is total on arbitrary text.

proof gate   : fam/idl/coq/Properties/C16.v  (C16_total, C16_fuel_sufficient, C16_depth ...)
correspondence `idl-parse` : the extracted Gallina port of the 16 parser files (fam/idl/coq/Parser.v) and the real
               parsers (pilota-thrift-parser, through fam/idl/harness) run the same texts; the result lines
               (outcome class, bytes remaining, nom ErrorKind, canonical AST) are compared verbatim.
oracle (implementation only): every text yields `OK ..` or `ERR E|F ..` -- no PANIC (catch_unwind, silent hook), no
               ABORT (the parse runs on a thread with a 2 MiB stack inside a child process; a stack overflow kills
               the child, the supervisor reports it) for nesting <= 64, and an answer within the time bound.
"""
import importlib.util, os, random, time
from collections import Counter
from .. import core, idlgen as ig

FAM = core.Family("idl")
STACK = 2 << 20
CLAIM_DEPTH = 64

TRUSTED = [
    "Coq 8.16.1 kernel (coqc full .vo build of fam/idl/coq)",
    "tools/extract_idl.py (regex-level translator: every tag / one_of / none_of / take_until literal, the item dispatch table, "
    "the scope list and pinned character-class closures of the 16 parser files; the non-ASCII alphanumeric table dumped from the toolchain)",
    "Coq extraction (ExtrOcamlBasic only), OCaml 4.13, hand-written glue fam/idl/runner/main.ml (hex decoding, canonical printing)",
    "fam/idl/harness (supervisor/worker process pair, 2 MiB worker stack, catch_unwind, canonical printing canon.rs) and pv/idlgen.py (generators, mutators)",
    "hand-written Gallina port fam/idl/coq/{Comb,Parser}.v of nom 7.1.3 combinators and of the parser files: tied to the code by this "
    "differential run (outcome class, error position, ErrorKind and AST compared), not verified against the Rust text",
    "native stack bytes per recursion level are measured (harness, debug and release), not modelled; the model bounds the recursion depth",
]


def _extract_idl():
    p = os.path.join(core.ROOT, "tools", "extract_idl.py")
    spec = importlib.util.spec_from_file_location("extract_idl", p)
    m = importlib.util.module_from_spec(spec)
    spec.loader.exec_module(m)
    return m


def norm(line):
    """result line -> comparable form (the model names the panic site, the implementation prints the message)"""
    if line.startswith("PANIC"):
        return "PANIC"
    return line


def outcome_class(line):
    t = line.split(" ", 3)
    if t[0] == "OK":
        return "ok"
    if t[0] == "ERR":
        return "err-" + t[1] + "-" + line.rsplit(" ", 1)[-1]
    return t[0].lower()


# --------------------------------------------------------------------------- case generation

FRAG = ["type", "cv", "field", "function", "struct", "union", "exception", "enum", "service", "constant", "typedef", "namespace",
        "include", "annotations", "literal", "int", "double", "path", "ident"]


def fragment(g, entry):
    """(tokens, canon) of a valid fragment for a sub-parser entry"""
    r = g.r
    if entry == "type":
        return g.type_(3)
    if entry == "cv":
        return g.const_value(3)
    if entry == "field":
        return g.field(r.randrange(1, 100))
    if entry == "function":
        return g.function()
    if entry in ("struct", "union", "exception"):
        return g.struct_like(entry)
    if entry == "enum":
        return g.enum()
    if entry == "service":
        return g.service()
    if entry == "constant":
        return g.constant()
    if entry == "typedef":
        return g.typedef()
    if entry == "namespace":
        return g.namespace()[:2]
    if entry == "include":
        return g.include()
    if entry == "annotations":
        return g.annotations()
    if entry == "literal":
        return g.literal()
    if entry == "int":
        v = g.int_value()
        return [("num", g.int_text(v))], str(v)
    if entry == "double":
        d = g.double_text()
        return [("dbl", d)], ig.lit_canon(d)
    if entry == "path":
        return g.path()
    if entry == "ident":
        s = g.ident()
        return [("id", s)], s
    raise ValueError(entry)


def deep_cases(g, depths):
    """texts whose type / constant nesting is exactly n, stand-alone and inside a document; (case, depth, what)"""
    out = []
    for n in depths:
        tt, _ = g.nested_type(n)
        ct, _ = g.nested_const(n)
        t, c = ig.text_of(tt), ig.text_of(ct)
        out.append(("type " + ig.hx(t), n, "type"))
        out.append(("cv " + ig.hx(c), n, "const"))
        doc = "struct S {\n 1: required %s f = %s (a = 'b'),\n}\nconst %s K = %s\nservice X { %s m(1: %s a) throws (1: %s e) }\n" % (t, c, t, c, t, t, t)
        out.append(("file " + ig.hx(doc), n, "doc"))
        # an unterminated nest: n openers and nothing else
        out.append(("type " + ig.hx("list<" * n), n, "type-open"))
        out.append(("cv " + ig.hx("[" * n), n, "const-open"))
        out.append(("cv " + ig.hx("{" * n), n, "map-open"))
        out.append(("file " + ig.hx("const i8 x = " + "[{1:" * (n // 2)), n, "doc-open"))
        out.append(("file " + ig.hx("typedef " + "map<i8,/*>*/" * n), n, "doc-open-comment"))
    return out


FIXED = [
    ("file", "struct A { 12345678901: i32 x }"),            # F-16a
    ("file", "struct A { 2147483648: i32 x }"),
    ("file", "struct A { 2147483647: i32 x }"),
    ("file", "struct A { 00000000000000000000000000000000000000001: i32 x }"),
    ("field", "99999999999999999999999999999999999999999: i32 x"),
    ("file", "const i64 x = 9223372036854775807"),
    ("file", "const i64 x = 9223372036854775808"),
    ("file", "const i64 x = -9223372036854775808"),
    ("file", "const i64 x = 0x7fffffffffffffff"),
    ("file", "const i64 x = 0x8000000000000000"),
    ("file", "const i64 x = 0xffffffffffffffffffffffffffffffffffffffff"),
    ("file", "const i64 x = " + "9" * 40),
    ("file", "const double x = 1e" + "9" * 40),
    ("file", "const double x = " + "9" * 40 + "." + "9" * 40),
    ("file", "enum E { A = 99999999999999999999 }"),
    ("file", "enum E { A = 0x }"),
    ("file", "const i64 x = " + "-" * 3000 + "1"),          # F-16b
    ("file", "const i64 x = " + "-" * 60001 + "1"),
    ("int", "-" * 65000),
    ("file", "/* never closed"),
    ("file", "struct A { 1: string s = 'never closed }"),
    ("file", "struct A { 1: string s = \"abc\\"),
    ("file", "struct A { 1: string s = 'abc\\q' }"),
    ("file", "include 'a.thrift"),
    ("file", "namespace rs"),
    ("file", "#"),
    ("file", "//"),
    ("file", "/*/"),
    ("file", "é"),
    ("file", "struct é {}"),
    ("file", "const bool b = trueé"),
    ("file", "const bool b = true٣"),
    ("file", "struct A { 1: optionalé x }"),
    ("file", " " * 65536),
    ("file", "a" * 65536),
    ("file", "/*" + "*" * 65530 + "*/"),
    ("file", "struct A {" + " 1: i32 a," * 6000 + "}"),
    ("file", "const list<i8> x = [" + "1," * 30000 + "]"),
    ("file", "const string s = '" + "\\n" * 30000 + "'"),
    ("file", "service S { void f(" + "1: i8 a, " * 3000 + ") }"),
    ("file", "typedef a" + ".b" * 20000 + " T"),
    ("file", ""),
]
# sign runs x boundary magnitudes, decimal and hex, in every position an integer constant can take: the sign handling and
# the magnitude conversion are two places that have to agree at i64::MIN / 2^63 / 2^64
for _signs in ("", "-", "--", "---", "----", "+", "-+", "+-"):
    for _mag in ("9223372036854775807", "9223372036854775808", "9223372036854775809", "18446744073709551615", "18446744073709551616",
                 "2147483647", "2147483648", "0x7fffffffffffffff", "0x8000000000000000", "0xffffffffffffffff", "0x10000000000000000", "0"):
        FIXED.append(("file", "const i64 x = %s%s" % (_signs, _mag)))
        FIXED.append(("int", "%s%s" % (_signs, _mag)))
    for _tpl in ("const list<i64> x = [%s9223372036854775808, 1]", "enum E { A = %s9223372036854775808 }", "struct S { 1: i64 a = %s9223372036854775808 }",
                 "const double x = 1.5e%s9223372036854775808", "const map<i64,i64> m = {%s9223372036854775808: %s0x8000000000000000}"):
        FIXED.append(("file", _tpl.replace("%s", _signs)))


def gen_cases(rng, tier):
    """list of (case_line, kind, depth_or_None)"""
    q = tier == "quick"
    n_docs = 250 if q else 12000
    n_mut_per_doc = 10 if q else 14
    n_frag = 3000 if q else 200000
    n_small, n_mid, n_big = (1500, 80, 6) if q else (120000, 4000, 150)
    cases = []
    for e, t in FIXED:
        cases.append((e + " " + ig.hx(t), "fixed", None))
    g = ig.Gen(rng)
    for c, n, what in deep_cases(g, [1, 2, 8, 32, 63, 64]):
        cases.append((c, "deep-" + what, n))
    for c, n, what in deep_cases(g, [65, 128, 256, 1024, 4096]):
        cases.append((c, "probe-" + what, n))
    for i in range(n_docs):
        mode = ("random", "random", "minimal", "maximal")[i % 4]
        toks, _ = ig.gen_document(rng, mode)
        text = ig.text_of(toks)
        cases.append(("file " + ig.hx(text), "valid", None))
        if len(text) > 6000:
            continue
        for j in range(n_mut_per_doc):
            kind = ig.MUTATIONS[(i + j) % len(ig.MUTATIONS)] if j < len(ig.MUTATIONS) else None
            t, k = ig.mutate(rng, toks, kind)
            cases.append(("file " + ig.hx(t), "mut-" + k, None))
        # nest one type / constant of the document to the claimed depth
        if i % 5 == 0:
            n = rng.choice([16, 48, 64])
            tt, _ = g.nested_type(n)
            ct, _ = g.nested_const(n)
            idx = [k for k, (kd, tx) in enumerate(toks) if kd == "kw" and tx in ig.BASE_TYPES and tx != "void"]
            if idx:
                tk = list(toks)
                k = rng.choice(idx)
                tk[k:k + 1] = tt
                cases.append(("file " + ig.hx(ig.text_of(tk)), "mut-nest-type", n))
            idx = [k for k, (kd, tx) in enumerate(toks) if kd == "num" and k > 0 and toks[k - 1][1] != "{"]
            if idx:
                tk = list(toks)
                k = rng.choice(idx)
                tk[k:k + 1] = ct
                cases.append(("file " + ig.hx(ig.text_of(tk)), "mut-nest-const", n))
    for i in range(n_frag):
        e = FRAG[i % len(FRAG)]
        gg = ig.Gen(rng, "random")
        toks, _ = fragment(gg, e)
        toks = gg.finish(toks)
        if i % 3 == 0:
            cases.append((e + " " + ig.hx(ig.text_of(toks)), "frag-valid", None))
        else:
            t, k = ig.mutate(rng, toks)
            cases.append((e + " " + ig.hx(t), "frag-mut-" + k, None))
    for i in range(n_small):
        cases.append(("file " + ig.hx(ig.random_utf8(rng, rng.choice([1, 2, 5, 20, 60, 200]))), "utf8-small", None))
    for i in range(n_mid):
        cases.append(("file " + ig.hx(ig.random_utf8(rng, rng.choice([1000, 4096]))), "utf8-mid", None))
    for i in range(n_big):
        cases.append(("file " + ig.hx(ig.random_utf8(rng, 65536)[:65536]), "utf8-64k", None))
    # a valid prefix followed by random text (so that the junk is met deep inside the grammar)
    for i in range(n_small // 3):
        gg = ig.Gen(rng, "random")
        toks, _ = fragment(gg, rng.choice(["struct", "service", "constant", "enum"]))
        t = ig.text_of(gg.finish(toks))
        b = t.encode("utf-8")[:rng.randrange(len(t.encode("utf-8")) + 1)].decode("utf-8", "ignore")
        cases.append(("file " + ig.hx(b + ig.random_utf8(rng, rng.choice([1, 5, 50]))), "prefix+junk", None))
    return cases


def oracle(line, kind, depth):
    """C16 on the implementation's output alone: None, or the reason it fails"""
    if line.startswith("OK ") or line.startswith("ERR E ") or line.startswith("ERR F "):
        return None
    if line.startswith("ABORT") and kind.startswith("probe-"):
        return None                      # beyond the claimed nesting: recorded, not required
    if line.startswith("PANIC"):
        return "the parser panicked: " + line[:200]
    if line.startswith("ABORT"):
        return "the parser killed its worker (stack overflow on a %d-byte stack, nesting %s): %s" % (STACK, depth, line[:100])
    if line.startswith("CRASH"):
        return "no answer within the time bound: " + line[:100]
    return "unexpected harness output: " + line[:200]


def run(chk, replay=None):
    gate, hb = core.std_setup(chk, fam=FAM)
    chk.cov["trusted_base"] = TRUSTED
    chk.cov["checker_cmd"] = ("make -C fam/idl/coq Properties/C16.vo && coqc -Q coq PV -Q fam/idl/coq PVIdl Properties/C16.v "
                              "(Print Assumptions allowlist = empty, forbidden-vernacular grep)")
    rng = random.Random(chk.seed)
    if replay is not None:
        cases = [(replay["case"], replay.get("case_kind", "replay"), replay.get("depth"))]
    else:
        cases = gen_cases(rng, chk.tier)
    lines = [c for c, _, _ in cases]
    chk.cov["rule"] = ("case = <parser entry> <text>; texts: valid generated documents (3 layouts), every single-token mutation kind of "
                       "pv/idlgen.py applied to documents and to fragments of 19 sub-parsers, numbers inflated to 11/20/40 digits, "
                       "unterminated comments/strings, type and constant nests of depth 1..64 (stand-alone, inside documents, "
                       "unterminated), random UTF-8 of 1 B .. 64 KiB, valid prefix + junk; every case runs on the implementation "
                       "(2 MiB worker stack, child process) and on the extracted model and the result lines are compared; "
                       "non-trivial = the text is not accepted as a whole or nests >= 8; distinct by SHA-1 of the case line")
    bins = []
    if hb:
        bins.append(("debug", hb))
        if chk.tier == "thorough":
            ok, hb2, log = core.build_harness(release=True, fam=FAM)
            if ok:
                bins.append(("release", hb2))
            else:
                chk.notes.append("release harness did not build: " + log[-200:])
    # facts about std the model relies on (exhaustive over all chars) + digest of the regenerated Unicode table
    if hb and replay is None:
        st = core.run_lines(hb, ["selftest"], shards=1)[0]
        try:
            n, fnv = _extract_idl().unicode_digest()
            want = "SELFTEST ok alnum_nonascii=%d fnv=%s" % (n, fnv)
        except SystemExit:
            want = "SELFTEST ok (translator failed)"
        chk.cov["selftest"] = st
        if st != want:
            chk.violation("harness self-test of the std facts the model relies on failed: got '%s', want '%s'" % (st, want),
                          dict(kind="selftest", got=st, want=want), no_input=True)
    t0 = time.time()
    model = None
    if os.path.exists(FAM.runner):
        model = [norm(l) for l in core.run_lines(FAM.runner, lines, timeout=1500)]
    # model only: the least depth fuel C16_depth allows (nesting + 1) gives the same result as |s| + 1, and the
    # nesting measure is what it is meant to be on the texts nested by construction
    fuel_mism, nest_mism = [], []
    if model is not None:
        fidx = [i for i, l in enumerate(lines) if l.startswith("file ")]
        fmin = [norm(l) for l in core.run_lines(FAM.runner, ["filemin " + lines[i][5:] for i in fidx], timeout=1500)]
        for i, o in zip(fidx, fmin):
            if o != model[i]:
                fuel_mism.append((lines[i], model[i], o))
        nidx = [i for i, (c, k, d) in enumerate(cases) if k.split("-", 1)[-1] in ("type", "const", "type-open", "const-open", "map-open")
                and k.split("-")[0] in ("deep", "probe")]
        nst = core.run_lines(FAM.runner, ["nesting " + lines[i].split(" ", 1)[1] for i in nidx], shards=1)
        for i, o in zip(nidx, nst):
            if o != "NEST %d" % cases[i][2]:
                nest_mism.append((lines[i], cases[i][2], o))
        chk.cov["min_depth_fuel_runs"] = len(fidx)
        chk.cov["nesting_measure_checked"] = len(nidx)
    t_model = time.time() - t0
    failing, mism = [], []
    dist_out = Counter()
    probes = {}
    for prof, b in bins:
        t0 = time.time()
        impl = core.run_lines(b, lines, timeout=900, args=("--stack", str(STACK)))
        chk.cov["wall_impl_" + prof] = round(time.time() - t0, 2)
        for (c, kind, depth), o, idx in zip(cases, impl, range(len(cases))):
            why = oracle(o, kind, depth)
            if why:
                failing.append((c, kind, depth, "%s [%s build]" % (why, prof), o))
            if prof == "debug":
                dist_out[outcome_class(o)] += 1
            if kind.startswith("probe-") or kind.startswith("deep-"):
                probes.setdefault(prof, {}).setdefault(kind.split("-", 1)[1], {})[str(depth)] = o.split(" ")[0]
            if model is not None and not (kind.startswith("probe-") and o.startswith("ABORT")):
                if norm(o) != model[idx]:
                    mism.append((c, kind, o, model[idx], prof))
    for (c, kind, depth), idx in zip(cases, range(len(cases))):
        nontrivial = not (model is not None and model[idx].startswith("OK 0 ")) or (depth or 0) >= 8
        chk.count(c, nontrivial)
    for i in (0, len(cases) // 3, len(cases) // 2, len(cases) - 1):
        c = cases[i][0]
        chk.sample(dict(case=c[:160] + ("..." if len(c) > 160 else ""), kind=cases[i][1],
                        model=(model[i][:120] if model else None)))
    sizes = [(len(c.split(" ")[1]) // 2 if c.split(" ")[1] != "-" else 0) for c in lines]
    chk.cov["disagreements_checked"] = len(cases) * len(bins)
    chk.cov["model_impl_mismatches"] = len(mism)
    chk.cov["wall_model"] = round(t_model, 2)
    chk.cov["distribution"] = dict(
        kinds=dict(Counter(k.split("-")[0] + ("-" + k.split("-")[1] if k.startswith("mut-") else "") for _, k, _ in cases)),
        outcomes=dict(dist_out),
        size_bytes=dict(max=max(sizes), total=sum(sizes), ge_1k=sum(1 for s in sizes if s >= 1024), ge_64k=sum(1 for s in sizes if s >= 65536)),
        share_not_accepted=round(1 - dist_out.get("ok", 0) / max(1, len(cases)), 3),
        entries=dict(Counter(c.split(" ")[0] for c in lines)))
    chk.cov["stack_probe"] = dict(stack_bytes=STACK, claimed_depth=CLAIM_DEPTH, outcome_by_depth=probes,
                                  note="depths <= 64 are required to parse; larger depths are probes (ABORT = stack overflow of the worker)")
    # report
    seen = set()
    for c, kind, depth, why, o in failing:
        key = why.split(":")[0]
        if key in seen:
            continue
        seen.add(key)
        chk.violation("C16 fails on the implementation: " + why,
                      dict(kind="case", case=c, case_kind=kind, depth=depth, impl_output=o[:2000]))
        if len(seen) >= 3:
            break
    if not failing:
        if mism:
            c, kind, o, m, prof = mism[0]
            chk.violation("correspondence idl-parse broken: model and implementation disagree (%d cases; first of kind %s) but the "
                          "no-panic / no-overflow oracle found no failing input" % (len(mism), kind),
                          dict(kind="correspondence", correspondence="idl-parse (fam/idl/coq/Parser.v vs pilota-thrift-parser)",
                               case=c, case_kind=kind, impl_output=o[:2000], model_output=m[:2000], build=prof), no_input=True)
        if fuel_mism:
            c, a, b = fuel_mism[0]
            chk.violation("model: depth fuel nesting+1 and |s|+1 give different results (%d cases)" % len(fuel_mism),
                          dict(kind="model-fuel", case=c, full_fuel=a[:500], min_fuel=b[:500]), no_input=True)
        if nest_mism:
            c, n, o = nest_mism[0]
            chk.violation("model: the nesting measure of a text nested %d deep by construction is '%s'" % (n, o),
                          dict(kind="model-nesting", case=c[:300], expected=n, got=o), no_input=True)
        if not gate["ok"]:
            chk.violation("proof obligation broken: %s (%s)" % (gate.get("failed"), (gate.get("error") or "")[:300]),
                          dict(kind="proof", theorem_file="fam/idl/coq/Properties/C16.v", failed=gate.get("failed"),
                               error=gate.get("error"), theorems=gate["theorems"]), no_input=True)
        if model is None:
            chk.violation("model runner missing", dict(kind="runner"), no_input=True)
    return chk.finish()
