(* Lemmas about BoxCycle.v (C14): the search is reachability; boxing removes every by-value cycle
   through a message; cycles made of unions / typedefs only survive (finding F-14b). *)
From Coq Require Import List Bool Arith Lia.
From PVBld Require Import BoxCycle.
Import ListNotations.

(* ---- reachability ---------------------------------------------------------------------- *)
Lemma reach_trans E a b c : reach E a b -> reach E b c -> reach E a c.
Proof. induction 1; [auto|]. intros. eapply reach_step; eauto. Qed.

Lemma reach_incl E E' a b : incl E E' -> reach E a b -> reach E' a b.
Proof. intros I. induction 1; [constructor|]. eapply reach_step; eauto. Qed.

Lemma in_succs E a c : In c (succs E a) <-> In (a, c) E.
Proof.
  unfold succs. rewrite in_map_iff. split.
  - intros [[x y] [H1 H2]]. apply filter_In in H2. destruct H2 as [H2 H3]. cbn in *.
    apply Nat.eqb_eq in H3. now subst.
  - intros H. exists (a, c). split; [reflexivity|]. apply filter_In. split; [assumption|]. cbn. apply Nat.eqb_refl.
Qed.

Lemma in_drop_from E v x y : In (x, y) (drop_from E v) <-> In (x, y) E /\ x <> v.
Proof.
  unfold drop_from. rewrite filter_In. cbn. rewrite negb_true_iff, Nat.eqb_neq. tauto.
Qed.

Lemma drop_from_incl E v : incl (drop_from E v) E.
Proof. intros [x y] H. now apply in_drop_from in H. Qed.

(* a path from a to b either never leaves v, or its part after the last departure from v avoids v's edges *)
Lemma reach_last_departure E v a b :
  reach E a b ->
  reach (drop_from E v) a b \/ exists c, In (v, c) E /\ reach (drop_from E v) c b.
Proof.
  induction 1 as [a|a c b H R IH].
  - left. constructor.
  - destruct IH as [IH|IH]; [|now right].
    destruct (Nat.eq_dec a v) as [->|N].
    + right. exists c. split; assumption.
    + left. eapply reach_step; [|exact IH]. apply in_drop_from. split; assumption.
Qed.

Lemma reach_no_out E a b : (forall c, ~ In (a, c) E) -> reach E a b -> a = b.
Proof. intros N R. destruct R; [reflexivity|]. exfalso. eapply N; eauto. Qed.

Lemma reach_unfold E a b :
  reach E a b -> a = b \/ exists c, In (a, c) E /\ reach (drop_from E a) c b.
Proof.
  intros R. destruct (reach_last_departure E a a b R) as [H|H]; [|now right].
  left. eapply reach_no_out; [|exact H]. intros c I. apply in_drop_from in I. destruct I as [_ I]. now apply I.
Qed.

Lemma filter_len_le {A} (f : A -> bool) l : length (filter f l) <= length l.
Proof. induction l as [|x l IH]; cbn; [lia|]. destruct (f x); cbn; lia. Qed.

Lemma drop_from_length E a c : In (a, c) E -> length (drop_from E a) < length E.
Proof.
  induction E as [|[x y] E IH]; cbn; [tauto|]. intros [H|H].
  - injection H as -> ->. rewrite Nat.eqb_refl. cbn.
    pose proof (filter_len_le (fun e => negb (fst e =? a)) E). unfold drop_from. lia.
  - specialize (IH H). destruct (x =? a); cbn; unfold drop_from in *; lia.
Qed.

Lemma dfs_sound fuel E a b : dfs fuel E a b = true -> reach E a b.
Proof.
  revert E a. induction fuel as [|f IH]; intros E a; cbn; [discriminate|].
  intros H. apply orb_prop in H. destruct H as [H|H].
  - apply Nat.eqb_eq in H. subst. constructor.
  - apply existsb_exists in H. destruct H as [c [H1 H2]]. apply in_succs in H1.
    eapply reach_step; [exact H1|]. apply reach_incl with (E := drop_from E a); [apply drop_from_incl|].
    apply IH. exact H2.
Qed.

Lemma dfs_complete fuel E a b : length E < fuel -> reach E a b -> dfs fuel E a b = true.
Proof.
  revert E a. induction fuel as [|f IH]; intros E a L R; [lia|]. cbn.
  apply reach_unfold in R. destruct R as [->|[c [H1 H2]]].
  - now rewrite Nat.eqb_refl.
  - apply orb_true_iff. right. apply existsb_exists. exists c. split; [now apply in_succs|].
    apply IH; [|assumption]. pose proof (drop_from_length E a c H1). lia.
Qed.

Lemma reachb_correct E a b : reachb E a b = true <-> reach E a b.
Proof. unfold reachb. split; [apply dfs_sound|apply dfs_complete; lia]. Qed.

(* ---- edges ------------------------------------------------------------------------------ *)
Lemma in_edges_of T g a c :
  In (a, c) (edges_of T g) <-> exists it, In (a, it) g /\ In c (T a it).
Proof.
  unfold edges_of. rewrite in_flat_map. split.
  - intros [[d it] [H1 H2]]. cbn in H2. apply in_map_iff in H2. destruct H2 as [x [E H2]].
    injection E as -> ->. now exists it.
  - intros [it [H1 H2]]. exists (a, it). split; [assumption|]. cbn. now apply in_map.
Qed.

Lemma paths_in d l : In d (paths l) <-> In (TPath d) l.
Proof.
  induction l as [|[e|] r IH]; cbn; [tauto| |].
  - rewrite IH. split; intros [H|H]; auto; left; congruence.
  - rewrite IH. split; [auto|]. intros [H|H]; [discriminate|assumption].
Qed.

Lemma residual_incl g : incl (residual_edges g) (edges g).
Proof.
  intros [a c] H. apply in_edges_of in H. destruct H as [it [H1 H2]].
  apply in_edges_of. exists it. split; [assumption|].
  destruct it; cbn in *; try assumption.
  apply paths_in in H2. apply filter_In in H2. now apply paths_in.
Qed.

Lemma nonstruct_incl_residual g : incl (nonstruct_edges g) (residual_edges g).
Proof.
  intros [a c] H. apply in_edges_of in H. destruct H as [it [H1 H2]].
  apply in_edges_of. exists it. split; [assumption|]. destruct it; cbn in *; tauto.
Qed.

Lemma NoDup_fst_unique {A B} (g : list (A * B)) a x y :
  NoDup (map fst g) -> In (a, x) g -> In (a, y) g -> x = y.
Proof.
  induction g as [|[k v] g IH]; cbn; [tauto|]. intros N [H1|H1] [H2|H2]; inversion N as [|? ? N1 N2]; subst.
  - congruence.
  - injection H1 as -> ->. exfalso. apply N1. change a with (fst (a, y)). now apply in_map.
  - injection H2 as -> ->. exfalso. apply N1. change a with (fst (a, x)). now apply in_map.
  - now apply IH.
Qed.

(* ---- C14_box_breaks_cycles ----------------------------------------------------------------- *)
Lemma box_breaks_cycles g d fs :
  NoDup (map fst g) -> In (d, IMsg fs) g -> ~ on_cycle (residual_edges g) d.
Proof.
  intros N I [c [H R]].
  apply in_edges_of in H. destruct H as [it [H1 H2]].
  assert (it = IMsg fs) by (eapply NoDup_fst_unique; eauto). subst it.
  cbn [residual_targets] in H2. apply paths_in in H2. apply filter_In in H2. destruct H2 as [_ H2].
  apply negb_true_iff in H2. unfold boxed, is_nested in H2.
  assert (reachb (edges g) c d = true); [|congruence].
  apply reachb_correct. eapply reach_incl; [apply residual_incl|exact R].
Qed.

(* every edge that BoxedPlugin boxes lies on a by-value cycle, and every message-field edge on a
   by-value cycle is boxed: "a struct field is boxed iff its target reaches the struct" *)
Lemma boxed_iff_on_cycle g d fs c :
  NoDup (map fst g) -> In (d, IMsg fs) g -> In (TPath c) fs ->
  (boxed g d (TPath c) = true <-> reach (edges g) c d).
Proof. intros _ _ _. cbn. unfold is_nested. apply reachb_correct. Qed.

(* ---- the complementary case: a cycle without any message-field edge is not broken (F-14b) ------- *)
Definition union_cycle : graph :=
  [(0, IEnum [[TPath 1]; [TOther]]); (1, IEnum [[TPath 0]; [TOther]])].

Lemma box_union_cycle_refuted :
  NoDup (map fst union_cycle) /\ on_cycle (residual_edges union_cycle) 0 /\ ~ finite_size union_cycle.
Proof.
  assert (C : on_cycle (residual_edges union_cycle) 0).
  { exists 1. split; [cbn; tauto|]. eapply reach_step; [|constructor]. cbn. tauto. }
  split; [|split].
  - cbn. repeat constructor; cbn; intuition discriminate.
  - exact C.
  - intros F. exact (F 0 C).
Qed.

(* ---- and that is the only way: no union/typedef-only cycle => everything has finite size -------- *)
Lemma reach_split_at_msg g a b :
  NoDup (map fst g) ->
  reach (residual_edges g) a b ->
  reach (nonstruct_edges g) a b \/
  exists m fs, In (m, IMsg fs) g /\ reach (residual_edges g) a m /\ reach (residual_edges g) m b.
Proof.
  intros N. induction 1 as [a|a c b H R IH].
  - left. constructor.
  - pose proof H as H'. apply in_edges_of in H'. destruct H' as [it [H1 H2]].
    destruct it as [fs|vs|t|].
    + right. exists a, fs. split; [assumption|]. split; [constructor|]. eapply reach_step; eauto.
    + destruct IH as [IH|[m [fs [I [R1 R2]]]]].
      * left. eapply reach_step; [|exact IH]. apply in_edges_of. exists (IEnum vs). split; assumption.
      * right. exists m, fs. split; [assumption|]. split; [eapply reach_step; eauto|assumption].
    + destruct IH as [IH|[m [fs [I [R1 R2]]]]].
      * left. eapply reach_step; [|exact IH]. apply in_edges_of. exists (INewType t). split; assumption.
      * right. exists m, fs. split; [assumption|]. split; [eapply reach_step; eauto|assumption].
    + cbn in H2. destruct H2.
Qed.

Lemma box_acyclic g :
  NoDup (map fst g) ->
  (forall a, ~ on_cycle (nonstruct_edges g) a) ->
  finite_size g.
Proof.
  intros N NS a [c [H R]].
  pose proof H as H'. apply in_edges_of in H'. destruct H' as [it [H1 H2]].
  destruct it as [fs|vs|t|].
  - eapply box_breaks_cycles; eauto. exists c. split; assumption.
  - destruct (reach_split_at_msg g c a N R) as [R'|[m [fs [I [R1 R2]]]]].
    + apply (NS a). exists c. split; [|assumption]. apply in_edges_of. exists (IEnum vs). split; assumption.
    + (* the cycle passes through message m: rotate it *)
      apply (box_breaks_cycles g m fs N I).
      destruct R2 as [m|m c' a' E R2].
      * exists c. split; assumption.
      * exists c'. split; [assumption|]. eapply reach_trans; [exact R2|]. eapply reach_step; [exact H|exact R1].
  - destruct (reach_split_at_msg g c a N R) as [R'|[m [fs [I [R1 R2]]]]].
    + apply (NS a). exists c. split; [|assumption]. apply in_edges_of. exists (INewType t). split; assumption.
    + apply (box_breaks_cycles g m fs N I).
      destruct R2 as [m|m c' a' E R2].
      * exists c. split; assumption.
      * exists c'. split; [assumption|]. eapply reach_trans; [exact R2|]. eapply reach_step; [exact H|exact R1].
  - cbn in H2. destruct H2.
Qed.

(* the hypothesis of box_acyclic is decidable: union_cycle_b *)
Lemma union_cycle_b_false g : union_cycle_b g = false -> forall a, ~ on_cycle (nonstruct_edges g) a.
Proof.
  unfold union_cycle_b, cyclic_b. intros H a [c [I R]].
  assert (Ha : In a (map fst g)).
  { apply in_edges_of in I. destruct I as [it [I _]]. change a with (fst (a, it)). now apply in_map. }
  assert (existsb (fun a => existsb (fun c => reachb (nonstruct_edges g) c a) (succs (nonstruct_edges g) a)) (map fst g) = true);
    [|congruence].
  apply existsb_exists. exists a. split; [assumption|].
  apply existsb_exists. exists c. split; [now apply in_succs|now apply reachb_correct].
Qed.

Lemma box_finite_decided g : NoDup (map fst g) -> union_cycle_b g = false -> finite_size g.
Proof. intros N H. apply box_acyclic; [assumption|now apply union_cycle_b_false]. Qed.

(* non-vacuity: a self-recursive struct, a struct <-> union cycle and a three-struct ring: the
   hypotheses hold, the offending fields are boxed, the others are not *)
Definition sample_graph : graph :=
  [(0, IMsg [TPath 0; TOther; TPath 3]);                 (* A { a: A, x: i32, e: E } *)
   (1, IMsg [TPath 2]); (2, IEnum [[TPath 1]; [TOther]]); (* B { u: U }   union U { B b; i32 i } *)
   (3, IEnum [[]; []]);                                   (* enum E *)
   (4, IMsg [TPath 5]); (5, IMsg [TPath 6; TPath 0]); (6, IMsg [TPath 4; TOther])].

Example box_nonvacuous :
  NoDup (map fst sample_graph) /\
  (forall a, ~ on_cycle (nonstruct_edges sample_graph) a) /\
  box_decisions sample_graph =
    [(0, 0, true); (0, 2, false); (1, 0, true); (4, 0, true); (5, 0, true); (5, 1, false); (6, 0, true)].
Proof.
  split; [|split].
  - cbn. repeat constructor; cbn; intuition discriminate.
  - intros a [c [H R]]. cbn in H. destruct H as [H|[]]. injection H as <- <-.
    apply reach_unfold in R. destruct R as [R|[c [H _]]]; [discriminate|]. cbn in H. destruct H as [H|[]]. discriminate.
  - vm_compute. reflexivity.
Qed.

Lemma union_cycle_b_witness : union_cycle_b union_cycle = true /\ union_cycle_b sample_graph = false.
Proof. split; vm_compute; reflexivity. Qed.

