(* L1: the message envelope -- write_message_begin / read_message_begin of binary, binary-LE
   (binary.rs, binary_le.rs 192-202, 565-595) and compact (compact.rs 451-465, 1497-1530). *)
From PV Require Export Thrift.Proto.
Open Scope Z_scope.

Record msgid := mkMsg { m_name : list byte; m_type : mtype; m_seq : Z }.

Definition version_of (p : pk) : Z := match p with PBinaryLE => binary_le_version | _ => binary_version_1 end.
Definition version_mask_of (p : pk) : Z := match p with PBinaryLE => binary_le_version_mask | _ => binary_version_mask end.

Definition w_message_begin (p : pk) (k : bk) (m : msgid) : wm :=
  match p with
  | PCompact =>
      wret [z2b compact_protocol_id;
            z2b (Z.lor (Z.land compact_version compact_version_mask)
                       (Z.land (Z.shiftl (mtype_code (m_type m)) compact_type_shift_amount) compact_type_mask))] ;;
      wret (encode_var (wrap_u 32 (m_seq m))) ;;          (* sequence_number as u32 *)
      w_bytes PCompact k (m_name m)
  | _ =>
      w_i32 p (wrap_s 32 (Z.lor (version_of p) (mtype_code (m_type m)))) ;;
      w_bytes p k (m_name m) ;;
      w_i32 p (m_seq m)
  end.

Definition r_message_begin (p : pk) : rm msgid :=
  match p with
  | PCompact => fun s =>
      let* (id, s) := r_byte s in
      if negb (id =? compact_protocol_id) then Err EInvalidData else
      let* (tb, s) := r_byte s in
      if negb (Z.land tb compact_version_mask =? compact_version) then Err EInvalidData else
      match mtype_of_code (Z.shiftr tb compact_type_shift_amount) with
      | None => Err EInvalidData
      | Some mt =>
          let* (n, s) := r_varint maxsize_32 s in
          let seq := wrap_s 32 (wrap_u 32 n) in            (* read_varint::<u32>()? as i32 *)
          let* (name, s) := r_bytes PCompact s in
          Ok (mkMsg name mt seq, s)
      end
  | _ => fun s =>
      let* (size, s) := r_i32 p s in
      if 0 <? size then Err EBadVersion else
      match mtype_of_code (Z.land size 15) with
      | None => Err EInvalidData
      | Some mt =>
          if negb (Z.land size (wrap_s 32 (version_mask_of p)) =? wrap_s 32 (version_of p)) then Err EBadVersion else
          let* (name, s) := r_bytes p s in
          let* (seq, s) := r_i32 p s in
          Ok (mkMsg name mt seq, s)
      end
  end.
