(* The method bodies the proofs of Proofs/PrimOpsP.v are about: a pinned copy of the DISTINCT rows of the regenerated
   table Generated/PrimOps.v -- (class, method, protocols whose struct has this body, flavours, body, tail value) -- written
   (bootstrapped from the translator's output, then maintained) by hand.  [table_known] (Proofs/PrimOpsP.v) checks by
   computation that every regenerated row is one of these; [known_sound] proves, entry by entry and for ALL arguments,
   contexts and buffer kinds, that the body denotes the primitive of Proto.v / Len.v.  When a method body changes in
   pilota, [table_known] breaks until the new body has been entered here and proved.  No proofs in this file. *)
From Coq Require Import String List ZArith.
From PV Require Import Thrift.PrimOp.
Import ListNotations.
Open Scope string_scope.
Open Scope Z_scope.

Definition kentry : Type := (string * string * list string * list string * list stmt * option expr)%type.

Definition known : list kentry :=
  [
  ("len", "message_begin_len", ["binary"; "binary_le"], ["any"],
     [],
     Some (EBin "+" (EBin "+" (ECallLen "i32_len" [EK 0]) (ECallLen "faststr_len" [EVar "identifier.name"])) (ECallLen "i32_len" [EK 0])));
  ("len", "message_end_len", ["binary"; "binary_le"], ["any"],
     [],
     Some (EK 0));
  ("len", "struct_begin_len", ["binary"; "binary_le"], ["any"],
     [],
     Some (EK 0));
  ("len", "struct_end_len", ["binary"; "binary_le"], ["any"],
     [],
     Some (EK 0));
  ("len", "field_begin_len", ["binary"; "binary_le"], ["any"],
     [],
     Some (EBin "+" (ECallLen "byte_len" [EK 0]) (ECallLen "i16_len" [EK 0])));
  ("len", "field_end_len", ["binary"; "binary_le"], ["any"],
     [],
     Some (EK 0));
  ("len", "field_stop_len", ["binary"; "binary_le"], ["any"],
     [],
     Some (ECallLen "byte_len" [EK 0]));
  ("len", "bool_len", ["binary"; "binary_le"], ["any"],
     [],
     Some (ECallLen "i8_len" [EK 0]));
  ("len", "bytes_len", ["binary"; "binary_le"], ["any"],
     [],
     Some (EBin "+" (ECallLen "i32_len" [EK 0]) (ELen (EVar "b"))));
  ("len", "byte_len", ["binary"; "binary_le"; "compact"], ["any"],
     [],
     Some (EK 1));
  ("len", "uuid_len", ["binary"; "binary_le"; "compact"], ["any"],
     [],
     Some (EK 16));
  ("len", "i8_len", ["binary"; "binary_le"; "compact"], ["any"],
     [],
     Some (EK 1));
  ("len", "i16_len", ["binary"; "binary_le"], ["any"],
     [],
     Some (EK 2));
  ("len", "i32_len", ["binary"; "binary_le"], ["any"],
     [],
     Some (EK 4));
  ("len", "i64_len", ["binary"; "binary_le"], ["any"],
     [],
     Some (EK 8));
  ("len", "double_len", ["binary"; "binary_le"], ["any"],
     [],
     Some (EK 8));
  ("len", "string_len", ["binary"; "binary_le"], ["any"],
     [],
     Some (EBin "+" (ECallLen "i32_len" [EK 0]) (ELen (EVar "s"))));
  ("len", "faststr_len", ["binary"; "binary_le"], ["any"],
     [],
     Some (EBin "+" (ECallLen "i32_len" [EK 0]) (ELen (EVar "s"))));
  ("len", "list_begin_len", ["binary"; "binary_le"], ["any"],
     [],
     Some (EBin "+" (ECallLen "byte_len" [EK 0]) (ECallLen "i32_len" [EK 0])));
  ("len", "list_end_len", ["binary"; "binary_le"; "compact"], ["any"],
     [],
     Some (EK 0));
  ("len", "set_begin_len", ["binary"; "binary_le"], ["any"],
     [],
     Some (EBin "+" (ECallLen "byte_len" [EK 0]) (ECallLen "i32_len" [EK 0])));
  ("len", "set_end_len", ["binary"; "binary_le"; "compact"], ["any"],
     [],
     Some (EK 0));
  ("len", "map_begin_len", ["binary"; "binary_le"], ["any"],
     [],
     Some (EBin "+" (EBin "+" (ECallLen "byte_len" [EK 0]) (ECallLen "byte_len" [EK 0])) (ECallLen "i32_len" [EK 0])));
  ("len", "map_end_len", ["binary"; "binary_le"; "compact"], ["any"],
     [],
     Some (EK 0));
  ("len", "bytes_vec_len", ["binary"; "binary_le"], ["any"],
     [],
     Some (EBin "+" (ECallLen "i32_len" [EK 0]) (ELen (EVar "b"))));
  ("write", "write_message_begin", ["binary"], ["bytesmut"; "linked"],
     [SLet "msg_type_u8" (ECast "into" (EVar "identifier.message_type")); SLet "version" (ECast "i32" (EBin "|" (ENamed "VERSION_1") (ECast "u32" (EVar "msg_type_u8")))); SCall "write_i32" [EVar "version"]; SCall "write_faststr" [EVar "identifier.name"]; SCall "write_i32" [EVar "identifier.sequence_number"]],
     None);
  ("write", "write_message_end", ["binary"; "binary_le"], ["bytesmut"; "linked"],
     [],
     None);
  ("write", "write_struct_begin", ["binary"; "binary_le"], ["bytesmut"; "linked"],
     [],
     None);
  ("write", "write_struct_end", ["binary"; "binary_le"], ["bytesmut"; "linked"],
     [],
     None);
  ("write", "write_field_begin", ["binary"], ["bytesmut"; "linked"],
     [SPutArr [ECast "u8" (EVar "field_type"); EByteOf "be" 2 0 (EVar "id"); EByteOf "be" 2 1 (EVar "id")]],
     None);
  ("write", "write_field_end", ["binary"; "binary_le"], ["bytesmut"; "linked"],
     [],
     None);
  ("write", "write_field_stop", ["binary"; "binary_le"], ["bytesmut"; "linked"],
     [SCall "write_byte" [ECast "u8" (ENamed "TType::Stop")]],
     None);
  ("write", "write_bool", ["binary"; "binary_le"], ["bytesmut"; "linked"],
     [SIf (EVar "b") [SCall "write_i8" [EK 1]] [SCall "write_i8" [EK 0]]],
     None);
  ("write", "write_bytes", ["binary"; "binary_le"], ["bytesmut"; "linked"],
     [SCall "write_i32" [ECast "i32" (ELen (EVar "b"))]; SCall "write_bytes_without_len" [EVar "b"]],
     None);
  ("write", "write_bytes_without_len", ["binary"; "binary_le"; "compact"], ["bytesmut"],
     [SPut "slice" (EVar "b")],
     None);
  ("write", "write_byte", ["binary"; "binary_le"; "compact"], ["bytesmut"; "linked"],
     [SPut "u8" (EVar "b")],
     None);
  ("write", "write_uuid", ["binary"; "binary_le"; "compact"], ["bytesmut"; "linked"],
     [SPut "slice" (EVar "u")],
     None);
  ("write", "write_i8", ["binary"; "binary_le"; "compact"], ["bytesmut"; "linked"],
     [SPut "i8" (EVar "i")],
     None);
  ("write", "write_i16", ["binary"], ["bytesmut"; "linked"],
     [SPut "i16" (EVar "i")],
     None);
  ("write", "write_i32", ["binary"], ["bytesmut"; "linked"],
     [SPut "i32" (EVar "i")],
     None);
  ("write", "write_i64", ["binary"], ["bytesmut"; "linked"],
     [SPut "i64" (EVar "i")],
     None);
  ("write", "write_double", ["binary"], ["bytesmut"; "linked"],
     [SPut "f64" (EVar "d")],
     None);
  ("write", "write_string", ["binary"; "binary_le"], ["bytesmut"; "linked"],
     [SCall "write_i32" [ECast "i32" (ELen (EVar "s"))]; SPut "slice" (EVar "s")],
     None);
  ("write", "write_faststr", ["binary"; "binary_le"], ["bytesmut"],
     [SCall "write_i32" [ECast "i32" (ELen (EVar "s"))]; SPut "slice" (EVar "s")],
     None);
  ("write", "write_list_begin", ["binary"; "binary_le"], ["bytesmut"; "linked"],
     [SCall "write_byte" [ECast "into" (EVar "identifier.element_type")]; SCall "write_i32" [ECast "i32" (EVar "identifier.size")]],
     None);
  ("write", "write_list_end", ["binary"; "binary_le"; "compact"], ["bytesmut"; "linked"],
     [],
     None);
  ("write", "write_set_begin", ["binary"; "binary_le"], ["bytesmut"; "linked"],
     [SCall "write_byte" [ECast "into" (EVar "identifier.element_type")]; SCall "write_i32" [ECast "i32" (EVar "identifier.size")]],
     None);
  ("write", "write_set_end", ["binary"; "binary_le"; "compact"], ["bytesmut"; "linked"],
     [],
     None);
  ("write", "write_map_begin", ["binary"; "binary_le"], ["bytesmut"; "linked"],
     [SLet "key_type" (EVar "identifier.key_type"); SCall "write_byte" [ECast "into" (EVar "key_type")]; SLet "val_type" (EVar "identifier.value_type"); SCall "write_byte" [ECast "into" (EVar "val_type")]; SCall "write_i32" [ECast "i32" (EVar "identifier.size")]],
     None);
  ("write", "write_map_end", ["binary"; "binary_le"; "compact"], ["bytesmut"; "linked"],
     [],
     None);
  ("write", "write_bytes_vec", ["binary"; "binary_le"], ["bytesmut"; "linked"],
     [SCall "write_i32" [ECast "i32" (ELen (EVar "b"))]; SPut "slice" (EVar "b")],
     None);
  ("write", "write_bytes_without_len", ["binary"; "binary_le"; "compact"], ["linked"],
     [SIf (EBin "&&" (ESelf "zero_copy") (EBin ">=" (ELen (EVar "b")) (ENamed "ZERO_COPY_THRESHOLD"))) [SAdd "zero_copy_len" (ELen (EVar "b")); SInsert (EVar "b"); SReturnOk] []; SPut "slice" (EVar "b")],
     None);
  ("write", "write_faststr", ["binary"; "binary_le"], ["linked"],
     [SCall "write_i32" [ECast "i32" (ELen (EVar "s"))]; SIf (EBin "&&" (ESelf "zero_copy") (EBin ">=" (ELen (EVar "s")) (ENamed "ZERO_COPY_THRESHOLD"))) [SAdd "zero_copy_len" (ELen (EVar "s")); SInsert (EVar "s"); SReturnOk] []; SPut "slice" (EVar "s")],
     None);
  ("write", "write_message_begin", ["binary_le"], ["bytesmut"; "linked"],
     [SLet "msg_type_u8" (ECast "into" (EVar "identifier.message_type")); SLet "version" (ECast "i32" (EBin "|" (ENamed "VERSION_LE") (ECast "u32" (EVar "msg_type_u8")))); SCall "write_i32" [EVar "version"]; SCall "write_faststr" [EVar "identifier.name"]; SCall "write_i32" [EVar "identifier.sequence_number"]],
     None);
  ("write", "write_field_begin", ["binary_le"], ["bytesmut"; "linked"],
     [SPutArr [ECast "u8" (EVar "field_type"); EByteOf "le" 2 0 (EVar "id"); EByteOf "le" 2 1 (EVar "id")]],
     None);
  ("write", "write_i16", ["binary_le"], ["bytesmut"; "linked"],
     [SPut "i16_le" (EVar "i")],
     None);
  ("write", "write_i32", ["binary_le"], ["bytesmut"; "linked"],
     [SPut "i32_le" (EVar "i")],
     None);
  ("write", "write_i64", ["binary_le"], ["bytesmut"; "linked"],
     [SPut "i64_le" (EVar "i")],
     None);
  ("write", "write_double", ["binary_le"; "compact"], ["bytesmut"; "linked"],
     [SPut "f64_le" (EVar "d")],
     None);
  ("len", "message_begin_len", ["compact"], ["any"],
     [],
     Some (EBin "+" (EBin "+" (EK 2) (EReqSpace (ECast "u32" (EVar "ident.sequence_number")))) (ECallLen "faststr_len" [EVar "ident.name"])));
  ("len", "message_end_len", ["compact"], ["any"],
     [SAssertNoPending],
     Some (EK 0));
  ("len", "struct_begin_len", ["compact"], ["any"],
     [SPushLast; SSet "last_write_field_id" (EK 0)],
     Some (EK 0));
  ("len", "struct_end_len", ["compact"], ["any"],
     [SAssertNoPending; SPopLastUnwrap],
     Some (EK 0));
  ("len", "field_begin_len", ["compact"], ["any"],
     [SIfV (EBin "==" (EVar "field_type") (ENamed "TType::Bool")) [SIf (EIsSome (ESelf "pending_write_bool_field_identifier")) [SPanic] []; SSetPendingOpt (EVar "id")] (EK 0) [SLet "tc_field_type" (ECompactU (EVar "field_type")); SLet "ax" (EK 0); SHeaderLen "ax" (EVar "tc_field_type") (EUnwrap (EVar "id"))] (EVar "ax")],
     Some (EVar "$match"));
  ("len", "field_end_len", ["compact"], ["any"],
     [SAssertNoPending],
     Some (EK 0));
  ("len", "field_stop_len", ["compact"], ["any"],
     [SAssertNoPending],
     Some (ECallLen "byte_len" [ECast "u8" (ENamed "TType::Stop")]));
  ("len", "bool_len", ["compact"], ["any"],
     [STakePendingV "pending" [SLet "field_id" (EUnwrap (EVar "pending.id")); SLet "tc_field_type" (EIfE (EVar "b") (ENamed "TCompactType::BooleanTrue") (ENamed "TCompactType::BooleanFalse")); SLet "ax" (EK 0); SHeaderLen "ax" (EVar "tc_field_type") (EVar "field_id")] (EVar "ax") [] (ECallLen "byte_len" [EIfE (EVar "b") (ECast "u8" (ENamed "TCompactType::BooleanTrue")) (ECast "u8" (ENamed "TCompactType::BooleanFalse"))])],
     Some (EVar "$match"));
  ("len", "bytes_len", ["compact"], ["any"],
     [],
     Some (EBin "+" (EReqSpace (ECast "u32" (ELen (EVar "b")))) (ELen (EVar "b"))));
  ("len", "i16_len", ["compact"], ["any"],
     [],
     Some (EReqSpace (ETyped "i16" (EVar "i"))));
  ("len", "i32_len", ["compact"], ["any"],
     [],
     Some (EReqSpace (ETyped "i32" (EVar "i"))));
  ("len", "i64_len", ["compact"], ["any"],
     [],
     Some (EReqSpace (ETyped "i64" (EVar "i"))));
  ("len", "double_len", ["compact"], ["any"],
     [],
     Some (ELen (EBytes "le" 8 (EVar "d"))));
  ("len", "string_len", ["compact"], ["any"],
     [],
     Some (EBin "+" (EReqSpace (ECast "u32" (ELen (EVar "s")))) (ELen (EVar "s"))));
  ("len", "faststr_len", ["compact"], ["any"],
     [],
     Some (EBin "+" (EReqSpace (ECast "u32" (ELen (EVar "s")))) (ELen (EVar "s"))));
  ("len", "list_begin_len", ["compact"], ["any"],
     [],
     Some (EIfE (EBin "<=" (EVar "identifier.size") (EK 14)) (ECallLen "byte_len" [EBin "|" (ECast "u8" (EBin "<<" (ECast "i32" (EVar "identifier.size")) (EK 4))) (ECast "u8" (ECompactU (EVar "identifier.element_type")))]) (EBin "+" (ECallLen "byte_len" [EBin "|" (EK 240) (ECast "u8" (ECompactU (EVar "identifier.element_type")))]) (EReqSpace (ECast "u32" (EVar "identifier.size"))))));
  ("len", "set_begin_len", ["compact"], ["any"],
     [],
     Some (EIfE (EBin "<=" (EVar "identifier.size") (EK 14)) (ECallLen "byte_len" [EBin "|" (ECast "u8" (EBin "<<" (ECast "i32" (EVar "identifier.size")) (EK 4))) (ECast "u8" (ECompactU (EVar "identifier.element_type")))]) (EBin "+" (ECallLen "byte_len" [EBin "|" (EK 240) (ECast "u8" (ECompactU (EVar "identifier.element_type")))]) (EReqSpace (ECast "u32" (EVar "identifier.size"))))));
  ("len", "map_begin_len", ["compact"], ["any"],
     [],
     Some (EIfE (EBin "==" (EVar "identifier.size") (EK 0)) (ECallLen "byte_len" [ECast "u8" (ENamed "TType::Stop")]) (EBin "+" (EReqSpace (ECast "u32" (EVar "identifier.size"))) (ECallLen "byte_len" [EBin "|" (EBin "<<" (ECast "u8" (ECompactU (EVar "identifier.key_type"))) (EK 4)) (ECast "u8" (ECompactU (EVar "identifier.value_type")))]))));
  ("len", "bytes_vec_len", ["compact"], ["any"],
     [],
     Some (ECallLen "bytes_len" [EVar "b"]));
  ("write", "write_varint", ["compact"], ["bytesmut"; "linked"],
     [SVarint (EVar "n")],
     None);
  ("write", "write_field_header", ["compact"], ["bytesmut"; "linked"],
     [SLet "field_delta" (EBin "-" (ECast "i32" (EVar "id")) (ECast "i32" (ESelf "last_write_field_id"))); SIf (EBin "&&" (EBin ">" (EVar "field_delta") (EK 0)) (EBin "<" (EVar "field_delta") (EK 15))) [SCall "write_byte" [EBin "|" (EBin "<<" (ECast "u8" (EVar "field_delta")) (EK 4)) (ECast "u8" (EVar "field_type"))]] [SCall "write_byte" [ECast "u8" (EVar "field_type")]; SCall "write_i16" [EVar "id"]]; SSet "last_write_field_id" (EVar "id")],
     None);
  ("write", "write_collection_begin", ["compact"], ["bytesmut"; "linked"],
     [SIf (EBin "<=" (EVar "size") (EK 14)) [SCall "write_byte" [EBin "|" (ECast "u8" (EBin "<<" (ECast "i32" (EVar "size")) (EK 4))) (ECast "u8" (ECompact (EVar "element_type")))]] [SCall "write_byte" [EBin "|" (EK 240) (ECast "u8" (ECompact (EVar "element_type")))]; SCall "write_varint" [ECast "u32" (EVar "size")]]],
     None);
  ("write", "write_message_begin", ["compact"], ["bytesmut"; "linked"],
     [SLet "mtype" (ECast "u8" (EVar "identifier.message_type")); SPutArr [ENamed "COMPACT_PROTOCOL_ID"; EBin "|" (EBin "&" (ENamed "COMPACT_VERSION") (ENamed "COMPACT_VERSION_MASK")) (EBin "&" (EBin "<<" (EVar "mtype") (ENamed "COMPACT_TYPE_SHIFT_AMOUNT")) (ENamed "COMPACT_TYPE_MASK"))]; SCall "write_varint" [ECast "u32" (EVar "identifier.sequence_number")]; SCall "write_faststr" [EVar "identifier.name"]],
     None);
  ("write", "write_message_end", ["compact"], ["bytesmut"; "linked"],
     [SAssertNoPending],
     None);
  ("write", "write_struct_begin", ["compact"], ["bytesmut"; "linked"],
     [SPushLast; SSet "last_write_field_id" (EK 0)],
     None);
  ("write", "write_struct_end", ["compact"], ["bytesmut"; "linked"],
     [SAssertNoPending; SPopLast],
     None);
  ("write", "write_field_begin", ["compact"], ["bytesmut"; "linked"],
     [SIf (EBin "==" (EVar "field_type") (ENamed "TType::Bool")) [SIf (EIsSome (ESelf "pending_write_bool_field_identifier")) [SPanic] []; SSetPending (EVar "id")] [SLet "tc_field_type" (ECompact (EVar "field_type")); SCall "write_field_header" [EVar "tc_field_type"; EVar "id"]]],
     None);
  ("write", "write_field_end", ["compact"], ["bytesmut"; "linked"],
     [SAssertNoPending],
     None);
  ("write", "write_field_stop", ["compact"], ["bytesmut"; "linked"],
     [SAssertNoPending; SCall "write_byte" [ECast "u8" (ENamed "TType::Stop")]],
     None);
  ("write", "write_bool", ["compact"], ["bytesmut"],
     [STakePending "pending" [SLet "field_id" (EUnwrap (EVar "pending.id")); SLet "tc_field_type" (EIfE (EVar "b") (ENamed "TCompactType::BooleanTrue") (ENamed "TCompactType::BooleanFalse")); SCall "write_field_header" [EVar "tc_field_type"; EVar "field_id"]] [SCall "write_byte" [EIfE (EVar "b") (ECast "u8" (ENamed "TCompactType::BooleanTrue")) (ECast "u8" (ENamed "TCompactType::BooleanFalse"))]]],
     None);
  ("write", "write_bytes", ["compact"], ["bytesmut"; "linked"],
     [SCall "write_varint" [ECast "u32" (ELen (EVar "b"))]; SCall "write_bytes_without_len" [EVar "b"]],
     None);
  ("write", "write_i16", ["compact"], ["bytesmut"; "linked"],
     [SCall "write_varint" [ETyped "i16" (EVar "i")]],
     None);
  ("write", "write_i32", ["compact"], ["bytesmut"; "linked"],
     [SCall "write_varint" [ETyped "i32" (EVar "i")]],
     None);
  ("write", "write_i64", ["compact"], ["bytesmut"; "linked"],
     [SCall "write_varint" [ETyped "i64" (EVar "i")]],
     None);
  ("write", "write_string", ["compact"], ["bytesmut"; "linked"],
     [SCall "write_varint" [ECast "u32" (ELen (EVar "s"))]; SPut "slice" (EVar "s")],
     None);
  ("write", "write_faststr", ["compact"], ["bytesmut"],
     [SCall "write_varint" [ECast "u32" (ELen (EVar "s"))]; SPut "slice" (EVar "s")],
     None);
  ("write", "write_list_begin", ["compact"], ["bytesmut"; "linked"],
     [SCall "write_collection_begin" [EVar "identifier.element_type"; EVar "identifier.size"]],
     None);
  ("write", "write_set_begin", ["compact"], ["bytesmut"; "linked"],
     [SCall "write_collection_begin" [EVar "identifier.element_type"; EVar "identifier.size"]],
     None);
  ("write", "write_map_begin", ["compact"], ["bytesmut"; "linked"],
     [SIf (EBin "==" (EVar "identifier.size") (EK 0)) [SCall "write_byte" [ECast "u8" (ENamed "TType::Stop")]] [SCall "write_varint" [ECast "u32" (EVar "identifier.size")]; SCall "write_byte" [EBin "|" (EBin "<<" (ECast "u8" (ECompact (EVar "identifier.key_type"))) (EK 4)) (ECast "u8" (ECompact (EVar "identifier.value_type")))]]],
     None);
  ("write", "write_bytes_vec", ["compact"], ["bytesmut"; "linked"],
     [SCall "write_varint" [ECast "u32" (ELen (EVar "b"))]; SPut "slice" (EVar "b")],
     None);
  ("write", "write_bool", ["compact"], ["linked"],
     [STakePending "pending" [SLet "field_id" (EUnwrap (EVar "pending.id")); SLet "tc_field_type" (EIfE (EVar "b") (ENamed "TCompactType::BooleanTrue") (ENamed "TCompactType::BooleanFalse")); SCall "write_field_header" [EVar "tc_field_type"; EVar "field_id"]] [SIf (EVar "b") [SCall "write_byte" [ECast "u8" (ENamed "TCompactType::BooleanTrue")]] [SCall "write_byte" [ECast "u8" (ENamed "TCompactType::BooleanFalse")]]]],
     None);
  ("write", "write_faststr", ["compact"], ["linked"],
     [SCall "write_varint" [ECast "u32" (ELen (EVar "s"))]; SIf (EBin "&&" (ESelf "zero_copy") (EBin "<=" (ELen (EVar "s")) (ENamed "ZERO_COPY_THRESHOLD"))) [SAdd "zero_copy_len" (ELen (EVar "s")); SInsert (EVar "s"); SReturnOk] []; SPut "slice" (EVar "s")],
     None);
  ("len", "macro write_field_header_len", ["compact"], ["any"],
     [SLet "field_delta" (EBin "-" (ECast "i32" (EVar "id")) (ECast "i32" (ESelf "last_write_field_id"))); SIf (EBin "&&" (EBin ">" (EVar "field_delta") (EK 0)) (EBin "<" (EVar "field_delta") (EK 15))) [SAddVar "ax" (ECallLen "byte_len" [EK 0])] [SAddVar "ax" (ECallLen "byte_len" [ECast "u8" (EVar "field_type")]); SAddVar "ax" (ECallLen "i16_len" [EVar "id"])]; SSet "last_write_field_id" (EVar "id")],
     None);
  ("read", "read_message_end", ["binary"; "binary_le"; "compact"], ["sync"],
     [],
     None);
  ("read", "read_struct_begin", ["binary"; "binary_le"], ["sync"],
     [],
     Some (EK 0));
  ("read", "read_struct_end", ["binary"; "binary_le"], ["sync"],
     [],
     None);
  ("read", "read_field_begin", ["binary"; "binary_le"], ["sync"],
     [SLet "field_type_byte" (ERead "read_byte"); SLet "field_type" (ETryTType (EVar "field_type_byte")); SLet "id" (EIfE (EBin "==" (EVar "field_type") (ENamed "TType::Stop")) (EK 0) (ERead "read_i16"))],
     Some (ETuple [EVar "field_type"; EVar "id"]));
  ("read", "read_field_end", ["binary"; "binary_le"; "compact"], ["sync"],
     [],
     None);
  ("read", "read_bool", ["binary"; "binary_le"], ["sync"],
     [SLet "b" (ERead "read_i8")],
     Some (EIfE (EBin "==" (EVar "b") (EK 0)) (EK 0) (EK 1)));
  ("read", "read_bytes", ["binary"], ["sync"],
     [SLet "len" (EGet "i32")],
     Some (ESplit "split_to_checked" (ECast "usize" (EVar "len"))));
  ("read", "read_uuid", ["binary"; "binary_le"; "compact"], ["sync"],
     [SLet "u" (EGetSlice 16)],
     Some (EVar "u"));
  ("read", "read_i8", ["binary"; "binary_le"; "compact"], ["sync"],
     [],
     Some (EGet "i8"));
  ("read", "read_i16", ["binary"], ["sync"],
     [],
     Some (EGet "i16"));
  ("read", "read_i32", ["binary"], ["sync"],
     [],
     Some (EGet "i32"));
  ("read", "read_i64", ["binary"], ["sync"],
     [],
     Some (EGet "i64"));
  ("read", "read_double", ["binary"], ["sync"],
     [],
     Some (EGet "f64"));
  ("read", "read_string", ["binary"], ["sync"],
     [SLet "len" (EGet "i32")],
     Some (ESplit "read_to_string" (ECast "usize" (EVar "len"))));
  ("read", "read_faststr", ["binary"], ["sync"],
     [SLet "len" (ECast "usize" (EGet "i32")); SLet "bytes" (ESplit "split_to_checked" (EVar "len"))],
     Some (EVar "bytes"));
  ("read", "read_list_begin", ["binary"; "binary_le"], ["sync"],
     [SLet "element_type" (ETryTType (ERead "read_byte")); SLet "size" (ERead "read_i32")],
     Some (ETuple [EVar "element_type"; ECheckSize (EVar "size")]));
  ("read", "read_list_end", ["binary"; "binary_le"; "compact"], ["sync"],
     [],
     None);
  ("read", "read_set_begin", ["binary"; "binary_le"], ["sync"],
     [SLet "element_type" (ETryTType (ERead "read_byte")); SLet "size" (ERead "read_i32")],
     Some (ETuple [EVar "element_type"; ECheckSize (EVar "size")]));
  ("read", "read_set_end", ["binary"; "binary_le"; "compact"], ["sync"],
     [],
     None);
  ("read", "read_map_begin", ["binary"; "binary_le"], ["sync"],
     [SLet "key_type" (ETryTType (ERead "read_byte")); SLet "value_type" (ETryTType (ERead "read_byte")); SLet "size" (ERead "read_i32")],
     Some (ETuple [EVar "key_type"; EVar "value_type"; ECheckSize (EVar "size")]));
  ("read", "read_map_end", ["binary"; "binary_le"; "compact"], ["sync"],
     [],
     None);
  ("read", "read_byte", ["binary"; "binary_le"; "compact"], ["sync"],
     [],
     Some (EGet "u8"));
  ("read", "read_bytes_vec", ["binary"], ["sync"],
     [SLet "len" (ECast "usize" (EGet "i32"))],
     Some (ESplit "split_to_checked" (EVar "len")));
  ("read", "read_message_end", ["binary"; "binary_le"; "compact"], ["async"],
     [],
     None);
  ("read", "read_struct_begin", ["binary"; "binary_le"], ["async"],
     [],
     Some (EK 0));
  ("read", "read_struct_end", ["binary"; "binary_le"], ["async"],
     [],
     None);
  ("read", "read_field_begin", ["binary"; "binary_le"], ["async"],
     [SLet "field_type_byte" (ERead "read_byte"); SLet "field_type" (ETryTType (EVar "field_type_byte")); SLet "id" (EIfE (EBin "==" (EVar "field_type") (ENamed "TType::Stop")) (EK 0) (ERead "read_i16"))],
     Some (ETuple [EVar "field_type"; EVar "id"]));
  ("read", "read_field_end", ["binary"; "binary_le"; "compact"], ["async"],
     [],
     None);
  ("read", "read_bool", ["binary"; "binary_le"], ["async"],
     [SLet "b" (ERead "read_i8")],
     Some (EIfE (EBin "==" (EVar "b") (EK 0)) (EK 0) (EK 1)));
  ("read", "read_bytes", ["binary"; "binary_le"; "compact"], ["async"],
     [],
     Some (ERead "read_bytes_vec"));
  ("read", "read_bytes_vec", ["binary"], ["async"],
     [SLet "len" (EGet "i32"); SIf (EBin "<" (EVar "len") (EK 0)) [SFail "NegativeSize"] []],
     Some (ESplit "read_exact_to_vec" (ECast "usize" (EVar "len"))));
  ("read", "read_uuid", ["binary"; "binary_le"; "compact"], ["async"],
     [SLet "uuid" (EGetSlice 16)],
     Some (EVar "uuid"));
  ("read", "read_string", ["binary"; "binary_le"; "compact"], ["async"],
     [SLet "v" (ERead "read_bytes_vec")],
     Some (EVar "v"));
  ("read", "read_faststr", ["binary"; "binary_le"; "compact"], ["async"],
     [],
     Some (ERead "read_string"));
  ("read", "read_byte", ["binary"; "binary_le"; "compact"], ["async"],
     [],
     Some (EGet "u8"));
  ("read", "read_i8", ["binary"; "binary_le"; "compact"], ["async"],
     [],
     Some (EGet "i8"));
  ("read", "read_i16", ["binary"], ["async"],
     [],
     Some (EGet "i16"));
  ("read", "read_i32", ["binary"], ["async"],
     [],
     Some (EGet "i32"));
  ("read", "read_i64", ["binary"], ["async"],
     [],
     Some (EGet "i64"));
  ("read", "read_double", ["binary"], ["async"],
     [],
     Some (EGet "f64"));
  ("read", "read_list_begin", ["binary"; "binary_le"], ["async"],
     [SLet "element_type" (ETryTType (ERead "read_byte")); SLet "size" (ERead "read_i32")],
     Some (ETuple [EVar "element_type"; ECast "usize" (EVar "size")]));
  ("read", "read_list_end", ["binary"; "binary_le"; "compact"], ["async"],
     [],
     None);
  ("read", "read_set_begin", ["binary"; "binary_le"], ["async"],
     [SLet "element_type" (ETryTType (ERead "read_byte")); SLet "size" (ERead "read_i32")],
     Some (ETuple [EVar "element_type"; ECast "usize" (EVar "size")]));
  ("read", "read_set_end", ["binary"; "binary_le"; "compact"], ["async"],
     [],
     None);
  ("read", "read_map_begin", ["binary"; "binary_le"], ["async"],
     [SLet "key_type" (ETryTType (ERead "read_byte")); SLet "value_type" (ETryTType (ERead "read_byte")); SLet "size" (ERead "read_i32")],
     Some (ETuple [EVar "key_type"; EVar "value_type"; ECast "usize" (EVar "size")]));
  ("read", "read_map_end", ["binary"; "binary_le"; "compact"], ["async"],
     [],
     None);
  ("read", "read_bytes", ["binary_le"], ["sync"],
     [SLet "len" (EGet "i32_le")],
     Some (ESplit "split_to_checked" (ECast "usize" (EVar "len"))));
  ("read", "read_i16", ["binary_le"], ["sync"],
     [],
     Some (EGet "i16_le"));
  ("read", "read_i32", ["binary_le"], ["sync"],
     [],
     Some (EGet "i32_le"));
  ("read", "read_i64", ["binary_le"], ["sync"],
     [],
     Some (EGet "i64_le"));
  ("read", "read_double", ["binary_le"; "compact"], ["sync"],
     [],
     Some (EGet "f64_le"));
  ("read", "read_string", ["binary_le"], ["sync"],
     [SLet "len" (EGet "i32_le")],
     Some (ESplit "read_to_string" (ECast "usize" (EVar "len"))));
  ("read", "read_faststr", ["binary_le"], ["sync"],
     [SLet "len" (ECast "usize" (EGet "i32_le")); SLet "bytes" (ESplit "split_to_checked" (EVar "len"))],
     Some (EVar "bytes"));
  ("read", "read_bytes_vec", ["binary_le"], ["sync"],
     [SLet "len" (ECast "usize" (EGet "i32_le"))],
     Some (ESplit "split_to_checked" (EVar "len")));
  ("read", "read_bytes_vec", ["binary_le"], ["async"],
     [SLet "len" (EGet "i32_le"); SIf (EBin "<" (EVar "len") (EK 0)) [SFail "NegativeSize"] []],
     Some (ESplit "read_exact_to_vec" (ECast "usize" (EVar "len"))));
  ("read", "read_i16", ["binary_le"], ["async"],
     [],
     Some (EGet "i16_le"));
  ("read", "read_i32", ["binary_le"], ["async"],
     [],
     Some (EGet "i32_le"));
  ("read", "read_i64", ["binary_le"], ["async"],
     [],
     Some (EGet "i64_le"));
  ("read", "read_double", ["binary_le"; "compact"], ["async"],
     [],
     Some (EGet "f64_le"));
  ("read", "read_bytes", ["compact"], ["sync"],
     [SLet "size" (EVarintR "u32")],
     Some (ESplit "split_to_checked" (ECast "usize" (EVar "size"))));
  ("read", "read_string", ["compact"], ["sync"],
     [SLet "size" (ECast "usize" (EVarintR "u32"))],
     Some (ESplit "read_to_string" (EVar "size")));
  ("read", "read_faststr", ["compact"], ["sync"],
     [SLet "size" (ECast "usize" (EVarintR "u32")); SLet "bytes" (ESplit "split_to_checked" (EVar "size"))],
     Some (EVar "bytes"));
  ("read", "read_i16", ["compact"], ["sync"],
     [],
     Some (EVarintR "i16"));
  ("read", "read_i32", ["compact"], ["sync"],
     [],
     Some (EVarintR "i32"));
  ("read", "read_i64", ["compact"], ["sync"],
     [],
     Some (EVarintR "i64"));
  ("read", "read_list_begin", ["compact"], ["sync"],
     [SLet2 "element_type" "element_count" (ERead "read_collection_begin")],
     Some (ETuple [EVar "element_type"; EVar "element_count"]));
  ("read", "read_set_begin", ["compact"], ["sync"],
     [SLet2 "element_type" "element_count" (ERead "read_collection_begin")],
     Some (ETuple [EVar "element_type"; EVar "element_count"]));
  ("read", "read_bytes_vec", ["compact"], ["sync"],
     [SLet "size" (ECast "usize" (EVarintR "u32"))],
     Some (ESplit "split_to_checked" (EVar "size")));
  ("read", "read_bytes_vec", ["compact"], ["async"],
     [SLet "size" (ECast "usize" (EVarintR "u32"))],
     Some (ESplit "read_exact_to_vec" (EVar "size")));
  ("read", "read_i16", ["compact"], ["async"],
     [],
     Some (EVarintR "i16"));
  ("read", "read_i32", ["compact"], ["async"],
     [],
     Some (EVarintR "i32"));
  ("read", "read_i64", ["compact"], ["async"],
     [],
     Some (EVarintR "i64"));
  ("read", "read_list_begin", ["compact"], ["async"],
     [SLet2 "element_type" "element_count" (ERead "read_collection_begin")],
     Some (ETuple [EVar "element_type"; EVar "element_count"]));
  ("read", "read_set_begin", ["compact"], ["async"],
     [SLet2 "element_type" "element_count" (ERead "read_collection_begin")],
     Some (ETuple [EVar "element_type"; EVar "element_count"]))
  ].
