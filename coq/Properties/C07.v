(* C07 -- skipping a Thrift value consumes exactly that value (recursive skippers: the default
   skipper used by binary / binary-LE, the compact skipper, the asynchronous skipper of all three;
   the iterative skipper of the unchecked codec is covered with C11). *)
From PV Require Import Thrift.Skip Thrift.Unsafe Proofs.HeaderP Proofs.RoundtripP Proofs.AsyncP Proofs.SkipP Proofs.UnsafeP Proofs.IterSkipP.
Open Scope Z_scope.

(* General form: on EVERY input -- pilota's own encodings, any other encoding the reader accepts,
   arbitrary trailing data -- on which the reader returns a value [v] and stops in state [s'], the
   skipper with a depth budget [d >= vdepth v] stops in exactly the same state (same position, same
   field-id context: whatever follows is decoded as if the skipped value had never been there) and
   reports exactly the number of bytes consumed; with a smaller budget it refuses with DepthLimit. *)
Theorem C07_skip_simulates_read : forall p f ty s v s',
  read_val p f ty s = Ok (v, s') ->
  forall d, ((vdepth v <= d)%nat -> skip_val p f d ty s = Ok (consumed s s', s')) /\
            ((d < vdepth v)%nat -> skip_val p f d ty s = Err EDepthLimit).
Proof. exact skip_sim. Qed.
Print Assumptions C07_skip_simulates_read.

Theorem C07_async_skip_simulates_read : forall p f ty s v s',
  aread_val p f ty s = Ok (v, s') ->
  forall d, ((vdepth v <= d)%nat -> askip_val p f d ty s = Ok (tt, s')) /\
            ((d < vdepth v)%nat -> askip_val p f d ty s = Err EDepthLimit).
Proof. exact askip_sim. Qed.
Print Assumptions C07_async_skip_simulates_read.

(* Composed with C01: every well-typed value written by pilota, followed by arbitrary bytes [r], is
   skipped with the reported count = the number of bytes written, leaving exactly [r] and the
   reader context untouched, when its nesting is within MAXIMUM_SKIP_DEPTH (regenerated: 64);
   deeper nesting is refused with the depth-limit error. *)
Theorem C07_skip_written : forall p k v c,
  wt v = true -> w_pend c = None ->
  exists ss, write_val p k v c = Ok (ss, c) /\
    forall fuel r rcx, (vsize v <= fuel)%nat -> idle rcx ->
      ((vdepth v <= skip_depth)%nat ->
         skip p fuel (ttype_of v) (mkS (flat ss ++ r) rcx) = Ok (Z.of_nat (length (flat ss)), mkS r rcx)) /\
      ((skip_depth < vdepth v)%nat ->
         skip p fuel (ttype_of v) (mkS (flat ss ++ r) rcx) = Err EDepthLimit).
Proof. exact skip_written. Qed.
Print Assumptions C07_skip_written.

Theorem C07_async_skip_written : forall p k v c,
  wt v = true -> w_pend c = None ->
  exists ss, write_val p k v c = Ok (ss, c) /\
    forall fuel r, (vsize v <= fuel)%nat -> Z.of_nat (length (flat ss ++ r)) < 2 ^ 63 ->
      ((vdepth v <= skip_depth)%nat ->
         askip p fuel (ttype_of v) (mkS (flat ss ++ r) r0) = Ok (tt, mkS r r0)) /\
      ((skip_depth < vdepth v)%nat ->
         askip p fuel (ttype_of v) (mkS (flat ss ++ r) r0) = Err EDepthLimit).
Proof. exact askip_written. Qed.
Print Assumptions C07_async_skip_written.

(* ---- the ITERATIVE skipper of the unchecked binary codec (explicit SkipData stack, fixed-size fast
   paths; no depth limit) ---- *)

(* the regenerated BINARY_BASIC_TYPE_FIXED_SIZE table, entry by entry (by computation: a changed
   entry breaks this theorem) *)
Theorem C07_iter_fixed_table :
  fixed_size TBool = 1 /\ fixed_size TI8 = 1 /\ fixed_size TI16 = 2 /\ fixed_size TI32 = 4 /\
  fixed_size TI64 = 8 /\ fixed_size TDouble = 8 /\ fixed_size TUuid = 16 /\
  fixed_size TBinary = 0 /\ fixed_size TStruct = 0 /\ fixed_size TMap = 0 /\ fixed_size TSet = 0 /\
  fixed_size TList = 0 /\ fixed_size TStop = 0 /\ fixed_size TVoid = 0.
Proof. exact fixed_table. Qed.
Print Assumptions C07_iter_fixed_table.

(* a positive entry is the exact encoded length of EVERY well-typed value of that wire type *)
Theorem C07_iter_fixed_table_encoded : forall t n, fixed_size t = n -> 0 < n ->
  forall v, ttype_of v = t -> wt v = true ->
  forall k c ss c', write_val PBinary k v c = Ok (ss, c') -> Z.of_nat (length (flat ss)) = n.
Proof. exact fixed_table_encoded. Qed.
Print Assumptions C07_iter_fixed_table_encoded.

(* ... and the exact number of bytes the checked binary skipper passes over for that type *)
Theorem C07_iter_fixed_table_skipped : forall f d ty s c s',
  skip_val PBinary f d ty s = Ok (c, s') -> 0 < fixed_size ty ->
  c = fixed_size ty /\ exists a, r_take (Z.to_nat (fixed_size ty)) s = Ok (a, s').
Proof. exact skip_fixed. Qed.
Print Assumptions C07_iter_fixed_table_skipped.

(* stack-machine simulation: on EVERY input on which the recursive skipper of the checked binary
   protocol succeeds -- with any depth budget [d], i.e. for every nesting depth -- the iterative
   skipper (started with its index where the checked reader stands: RU) reports the same count
   after [k] turns of its loop (more fuel changes nothing), stops at the same position, keeps its
   window and has advanced its index by exactly the count; no access outside the window *)
Theorem C07_iter_simulates_skip : forall f d ty s c s' u,
  skip_val PBinary f d ty s = Ok (c, s') -> RU s u ->
  exists k u', (forall fuel, skip_iter (k + fuel) ty u = Ok (c, u')) /\
               RU s' u' /\ ubuf u' = ubuf u /\ Z.of_nat (uidx u') = Z.of_nat (uidx u) + consumed s s'.
Proof. exact iter_simulates_skip. Qed.
Print Assumptions C07_iter_simulates_skip.

(* the same against the recursive reader: whatever value (of any depth) the checked binary reader
   returns, the iterative skipper passes over exactly its bytes and reports their number *)
Theorem C07_iter_simulates_read : forall f ty s v s' u,
  read_val PBinary f ty s = Ok (v, s') -> RU s u ->
  exists k u', (forall fuel, skip_iter (k + fuel) ty u = Ok (consumed s s', u')) /\
               RU s' u' /\ ubuf u' = ubuf u /\ Z.of_nat (uidx u') = Z.of_nat (uidx u) + consumed s s'.
Proof. exact iter_simulates_read. Qed.
Print Assumptions C07_iter_simulates_read.

(* TInputProtocol::skip of the unchecked reader (rewind over the field header, re-window, loop) *)
Theorem C07_iter_skip_entry : forall f d ty s c s' u,
  skip_val PBinary f d ty s = Ok (c, s') -> RU s u -> (3 <= uidx u)%nat ->
  exists k u', (forall fuel, u_skip (k + fuel) ty u = Ok (c, u')) /\ RU s' u'.
Proof. exact u_skip_simulates. Qed.
Print Assumptions C07_iter_skip_entry.

(* composed with C01: a well-typed value of ANY nesting depth written by pilota's binary writer,
   followed by arbitrary bytes [r]: the iterative skipper reports exactly the bytes written, leaves
   exactly [r]; unlike the recursive skippers it has no depth limit (Example iter_examples: depth 70
   is refused by the recursive skipper and skipped by this one) *)
Theorem C07_iter_written : forall k v c,
  wt v = true -> w_pend c = None ->
  exists ss, write_val PBinary k v c = Ok (ss, c) /\
    forall r, exists n u', (forall fuel, skip_iter (n + fuel) (ttype_of v) (mkU (flat ss ++ r) 0) = Ok (Z.of_nat (length (flat ss)), u')) /\
                           urest u' = r /\ uidx u' = length (flat ss).
Proof. exact iter_skip_written. Qed.
Print Assumptions C07_iter_written.

(* ---- the FIELD-LOOP form: generated decoders and ApplicationException::decode do not skip a struct as
   a whole, they read the field headers themselves and call the protocol's skipper on the fields they
   do not know (the state between a compact bool field header and its skip -- the header's value is
   parked in the reader -- is where seeded C07e / C12e went wrong) ---- *)
From PV Require Import Thrift.AppMsg Proofs.FieldLoopP.

(* the loop that skips EVERY field, on EVERY input the struct reader accepts (pilota's encodings and
   any other, arbitrary trailing data, any reader context): it stops in exactly the reader's state --
   same position, same field-id stack and last id, same pending-bool state -- and reports exactly
   the bytes consumed; a field nested deeper than MAXIMUM_SKIP_DEPTH is refused *)
Theorem C07_field_loop_skip : forall p f s v s',
  read_val p (S f) TStruct s = Ok (v, s') ->
  ((vdepth v <= S skip_depth)%nat -> field_loop_skip p f s = Ok (consumed s s', s')) /\
  ((S skip_depth < vdepth v)%nat -> field_loop_skip p f s = Err EDepthLimit).
Proof. exact field_loop_skip_sim. Qed.
Print Assumptions C07_field_loop_skip.

Theorem C07_field_loop_skip_async : forall p f s v s',
  aread_val p (S f) TStruct s = Ok (v, s') ->
  ((vdepth v <= S skip_depth)%nat -> afield_loop_skip p f s = Ok (tt, s')) /\
  ((S skip_depth < vdepth v)%nat -> afield_loop_skip p f s = Err EDepthLimit).
Proof. exact afield_loop_skip_sim. Qed.
Print Assumptions C07_field_loop_skip_async.

(* composed with C01: any well-typed struct written by pilota (any fields, bools included), followed
   by arbitrary bytes [r]: the loop consumes exactly the struct, reports its length, and hands the
   reader context back as found *)
Theorem C07_field_loop_skip_written : forall p k fs c,
  wt (VStruct fs) = true -> w_pend c = None ->
  exists ss, write_val p k (VStruct fs) c = Ok (ss, c) /\
    forall fuel r rcx, (vsize (VStruct fs) <= S fuel)%nat -> idle rcx ->
      ((fmax fs <= skip_depth)%nat ->
         field_loop_skip p fuel (mkS (flat ss ++ r) rcx) = Ok (Z.of_nat (length (flat ss)), mkS r rcx)) /\
      ((skip_depth < fmax fs)%nat ->
         field_loop_skip p fuel (mkS (flat ss ++ r) rcx) = Err EDepthLimit).
Proof. exact field_loop_skip_written. Qed.
Print Assumptions C07_field_loop_skip_written.

Theorem C07_field_loop_skip_written_async : forall p k fs c,
  wt (VStruct fs) = true -> w_pend c = None ->
  exists ss, write_val p k (VStruct fs) c = Ok (ss, c) /\
    forall fuel r, (vsize (VStruct fs) <= S fuel)%nat -> Z.of_nat (length (flat ss ++ r)) < 2 ^ 63 ->
      ((fmax fs <= skip_depth)%nat -> afield_loop_skip p fuel (mkS (flat ss ++ r) r0) = Ok (tt, mkS r r0)) /\
      ((skip_depth < fmax fs)%nat -> afield_loop_skip p fuel (mkS (flat ss ++ r) r0) = Err EDepthLimit).
Proof. exact afield_loop_skip_written. Qed.
Print Assumptions C07_field_loop_skip_written_async.

(* a decoder that knows only SOME of the fields ([skipid] selects the unknown ones -- any subset, any
   order): known fields come out as written, unknown ones are passed over ([tol_rel]), the reader
   stops exactly behind the struct with its context as found; an unknown field nested deeper than the
   budget is refused *)
Theorem C07_tolerant_written : forall p skipid k fs c,
  wt (VStruct fs) = true -> w_pend c = None ->
  exists ss, write_val p k (VStruct fs) c = Ok (ss, c) /\
    forall fuel r rcx, (vsize (VStruct fs) <= fuel)%nat -> idle rcx ->
      ((skmax skipid fs <= skip_depth)%nat ->
         exists fs', tread_struct p skipid fuel (mkS (flat ss ++ r) rcx) = Ok (VStruct fs', mkS r rcx) /\
                     Forall2 (tol_rel skipid) (canonf p fs) fs') /\
      ((skip_depth < skmax skipid fs)%nat ->
         tread_struct p skipid fuel (mkS (flat ss ++ r) rcx) = Err EDepthLimit).
Proof. exact tolerant_written. Qed.
Print Assumptions C07_tolerant_written.

(* ApplicationException::decode (the model of Thrift/AppMsg.v) reads ANY struct encoding written by
   pilota whose fields 1 (string) and 2 (i32), where present, are well typed and whose other fields
   are arbitrary well-typed values within the skip budget -- any ids, any order, any number -- to
   (message, kind), last occurrence winning and the defaults standing in for absent ones; it
   consumes exactly the struct and hands the reader context back as found.  Every protocol. *)
Theorem C07_app_exception_tolerant : forall p k fs c,
  wt (VStruct fs) = true -> w_pend c = None -> Forall app_field_ok fs ->
  exists ss, write_val p k (VStruct fs) c = Ok (ss, c) /\
    forall fuel r rcx, (vsize (VStruct fs) <= fuel)%nat -> idle rcx ->
      app_decode p fuel (mkS (flat ss ++ r) rcx) = Ok (app_pick fs app_default_msg 0, mkS r rcx).
Proof. exact app_exception_tolerant. Qed.
Print Assumptions C07_app_exception_tolerant.
