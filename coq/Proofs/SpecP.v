(* C03: pilota against the independent specification of Thrift/Spec.v. *)
From PV Require Import Thrift.Spec Thrift.Interp Thrift.Msg Thrift.Skip
  Proofs.VarintP Proofs.TablesP Proofs.PrimP Proofs.HeaderP Proofs.RoundtripP Proofs.LenP.
From Coq Require Import ZifyN ZifyNat ZifyBool.
Open Scope Z_scope.

(* ---- the specification's tables against the REGENERATED tables of the Rust source ---- *)
Lemma spec_btype_agrees t : elem_ttype_ok t = true -> spec_btype t = Some (ttype_code t).
Proof. destruct t; cbn; intros H; try discriminate; reflexivity. Qed.

Lemma spec_ctype_agrees t ct : ctype_of_ttype t = Some ct -> t <> TStop -> spec_ctype t = Some (ctype_code ct).
Proof. destruct t; cbn; intros H Hn; inversion H; subst; try congruence; reflexivity. Qed.

Lemma spec_mtype_agrees t : spec_mtype t = mtype_code t.
Proof. destruct t; reflexivity. Qed.

(* every byte: either it is the spec code of a type (and pilota maps it to that type), or pilota
   rejects it in the header, or it is 0 / 1 (Stop / Void), which no reader or skipper can consume *)
Definition byte_class (b : byte) : Prop :=
  (exists t, spec_btype t = Some (b2z b) /\ ttype_of_byte (b2z b) = Some t) \/
  ttype_of_byte (b2z b) = None \/
  (ttype_of_byte (b2z b) = Some TStop /\ b = x00) \/ (ttype_of_byte (b2z b) = Some TVoid /\ b = x01).

Lemma type_codes_binary : forall b : byte, byte_class b.
Proof.
  intros b. unfold byte_class.
  destruct (ttype_of_byte (b2z b)) as [t|] eqn:E; [|right; left; reflexivity].
  destruct b; vm_compute in E; try discriminate; injection E as <-;
    first [ left; eexists; (split; [|reflexivity]); reflexivity
          | right; right; left; split; reflexivity
          | right; right; right; split; reflexivity ].
Qed.

Definition nibble_class (n : Z) : Prop :=
  (exists t, (spec_ctype t = Some n \/ (t = TBool /\ n = 2)) /\ ttype_of_nibble n = Ok t) \/
  ttype_of_nibble n = Err EInvalidData \/
  (n = 0 /\ ttype_of_nibble n = Ok TStop).

Lemma type_codes_compact : forall n, 0 <= n < 16 -> nibble_class n.
Proof.
  intros n Hn. unfold nibble_class.
  assert (C : n = 0 \/ n = 1 \/ n = 2 \/ n = 3 \/ n = 4 \/ n = 5 \/ n = 6 \/ n = 7 \/ n = 8 \/ n = 9 \/
              n = 10 \/ n = 11 \/ n = 12 \/ n = 13 \/ n = 14 \/ n = 15) by lia.
  repeat (destruct C as [->|C]); try subst n;
    first [ right; right; split; reflexivity
          | right; left; reflexivity
          | left; eexists; (split; [|reflexivity]); first [left; reflexivity | right; split; reflexivity] ].
Qed.

(* Stop and Void cannot be consumed: by no reader, no skipper *)
Lemma unconsumable p f t s : t = TStop \/ t = TVoid ->
  (exists e, read_val p (S f) t s = Err e) /\ (forall d, exists e, skip_val p (S f) d t s = Err e).
Proof.
  intros [->| ->]; (split; [eexists; reflexivity|]); intros d; destruct d; eexists; reflexivity.
Qed.

(* ------------------------------------------------------------------ *)
(* pilota -> reference: what pilota's writer emits IS the specification's encoding (with the
   canonical choices) *)

Definition sp (p : pk) : sval -> list byte := match p with PCompact => sencC | _ => sencB end.

Lemma sencB_struct fs : sencB (SStruct fs) = sencB_fields fs.
Proof. reflexivity. Qed.
Lemma sencB_elems_eq l : (fix go (l : list sval) : list byte := match l with [] => [] | x :: t => sencB x ++ go t end) l = sencB_elems l.
Proof. reflexivity. Qed.
Lemma sencB_pairs_eq l : (fix go (l : list (sval * sval)) : list byte :=
         match l with [] => [] | (a, b) :: t => sencB a ++ sencB b ++ go t end) l = sencB_pairs l.
Proof. reflexivity. Qed.
Lemma sencC_fields_eq fs last : (fix go (last : Z) (fs : list (Z * bool * sval)) : list byte :=
         match fs with
         | [] => [x00]
         | (id, long, x) :: t =>
             match x with
             | SBool b _ => s_fhdr last id long (if b then 1 else 2) ++ go id t
             | _ => s_fhdr last id long (oz (spec_ctype (stype x))) ++ sencC x ++ go id t
             end
         end) last fs = sencC_fields last fs.
Proof. reflexivity. Qed.
Lemma sencC_struct fs : sencC (SStruct fs) = sencC_fields 0 fs.
Proof. cbn [sencC]. apply sencC_fields_eq. Qed.
Lemma sencC_elems_eq l : (fix go (l : list sval) : list byte := match l with [] => [] | x :: t => sencC x ++ go t end) l = sencC_elems l.
Proof. reflexivity. Qed.
Lemma sencC_pairs_eq l : (fix go (l : list (sval * sval)) : list byte :=
         match l with [] => [] | (a, b) :: t => sencC a ++ sencC b ++ go t end) l = sencC_pairs l.
Proof. reflexivity. Qed.

Lemma annot_struct fs : annot (VStruct fs) = SStruct (annot_fields 0 fs).
Proof. reflexivity. Qed.

Lemma stype_annot v : stype (annot v) = ttype_of v.
Proof. destruct v; reflexivity. Qed.

Lemma sencB_fields_last l1 l2 fs : sencB_fields (annot_fields l1 fs) = sencB_fields (annot_fields l2 fs).
Proof.
  destruct fs as [|[i x] t]; reflexivity.
Qed.

Lemma wret_inv l c ss c' : wret l c = Ok (ss, c') -> flat ss = l /\ c' = c.
Proof. unfold wret. intros H. injection H as <- <-. split; [apply flat_copy|reflexivity]. Qed.

Lemma wrap_u_wrap_s32 n : wrap_u 32 (wrap_s 32 n) = n mod 2 ^ 32.
Proof.
  unfold wrap_u, wrap_s. change (2 ^ (32 - 1)) with 2147483648. change (2 ^ 32) with 4294967296.
  destruct (n mod 4294967296 <? 2147483648); lia.
Qed.

Lemma w_i16_bytes p z c ss c' : p <> PBinaryLE -> w_i16 p z c = Ok (ss, c') -> c' = c /\
  flat ss = match p with PCompact => s_zz z | _ => s_i 2 16 z end.
Proof. intros Hp H. destruct p; try congruence; cbn [w_i16] in H; apply wret_inv in H as [-> ->]; auto. Qed.
Lemma w_i32_bytes p z c ss c' : p <> PBinaryLE -> w_i32 p z c = Ok (ss, c') -> c' = c /\
  flat ss = match p with PCompact => s_zz z | _ => s_i 4 32 z end.
Proof. intros Hp H. destruct p; try congruence; cbn [w_i32] in H; apply wret_inv in H as [-> ->]; auto. Qed.
Lemma w_i64_bytes p z c ss c' : p <> PBinaryLE -> w_i64 p z c = Ok (ss, c') -> c' = c /\
  flat ss = match p with PCompact => s_zz z | _ => s_i 8 64 z end.
Proof. intros Hp H. destruct p; try congruence; cbn [w_i64] in H; apply wret_inv in H as [-> ->]; auto. Qed.

Lemma w_bwl_bytes k b c ss c' : w_bytes_without_len k b c = Ok (ss, c') -> flat ss = b /\ c' = c.
Proof.
  unfold w_bytes_without_len. destruct k as [|[|]]; try (intros H; injection H as <- <-; split; [apply flat_copy|reflexivity]).
  destruct (zero_copy_threshold <=? Z.of_nat (length b)); intros H; injection H as <- <-; split; auto;
    unfold flat; cbn; apply app_nil_r.
Qed.

Lemma w_bytes_bytes p k b c ss c' : p <> PBinaryLE -> len_ok (length b) = true -> w_bytes p k b c = Ok (ss, c') ->
  c' = c /\ flat ss = match p with PCompact => s_uv (Z.of_nat (length b)) ++ b | _ => s_i 4 32 (Z.of_nat (length b)) ++ b end.
Proof.
  intros Hp Hl H. unfold w_bytes in H. apply wseq_inv in H as (s1 & c1 & s2 & Ha & Hb & ->).
  apply w_bwl_bytes in Hb as [Hb ->]. rewrite flat_app, Hb. apply len_ok_bound in Hl.
  destruct p; try congruence; cbn [w_len] in Ha.
  - apply w_i32_bytes in Ha as [-> Ha]; [|congruence]. rewrite Ha. split; [reflexivity|].
    unfold s_i. rewrite wrap_s32_small by lia. reflexivity.
  - apply wret_inv in Ha as [-> ->]. rewrite wrap_u32_small by lia. auto.
Qed.

Lemma w_field_header_bytes ct id c ss c' : w_field_header ct id c = Ok (ss, c') ->
  flat ss = s_fhdr (w_last c) id (id - w_last c =? 15) (ctype_code ct) /\ c' = mkW id (w_stack c) (w_pend c).
Proof.
  unfold w_field_header, s_fhdr.
  destruct ((0 <? id - w_last c) && (id - w_last c <? 15)) eqn:E.
  - intros H. injection H as <- <-. split; [|reflexivity].
    replace (negb (id - w_last c =? 15) && (0 <? id - w_last c) && (id - w_last c <=? 15)) with true by lia.
    apply flat_copy.
  - intros H. apply wseq_inv in H as (s1 & c1 & s2 & Ha & Hb & ->).
    unfold w_byte in Ha. apply wret_inv in Ha as [Ha ->]. apply w_i16_bytes in Hb as [-> Hb]; [|congruence].
    rewrite flat_app, Ha, Hb. split; [|reflexivity].
    replace (negb (id - w_last c =? 15) && (0 <? id - w_last c) && (id - w_last c <=? 15)) with false by lia.
    reflexivity.
Qed.

Lemma wt_balanced p k v c ss c' : wt v = true -> w_pend c = None -> write_val p k v c = Ok (ss, c') -> c' = c.
Proof.
  intros Hwt Hp H. destruct (roundtrip_val p k v Hwt c Hp) as (ss0 & Hw & _). rewrite Hw in H. congruence.
Qed.

  Definition WS (p : pk) (k : bk) (v : tval) : Prop :=
    wt v = true -> forall c ss c', w_pend c = None -> write_val p k v c = Ok (ss, c') -> flat ss = sp p (annot v).

  Definition sp_fields (p : pk) (last : Z) (fs : list (Z * tval)) : list byte :=
    match p with
    | PCompact => sencC_fields last (annot_fields last fs)
    | _ => sencB_fields (annot_fields last fs)
    end.

Lemma fields_spec_binary k fs : Forall (fun q => WS PBinary k (snd q)) fs -> wtf fs = true ->
  forall c ss c', w_pend c = None -> write_fields PBinary k fs c = Ok (ss, c') ->
    flat ss ++ [x00] = sp_fields PBinary (w_last c) fs /\ w_pend c' = None.
Proof.
  induction fs as [|[id x] t IH]; intros HF Hwt c ss c' Hp H.
  - cbn [write_fields] in H. unfold wnop in H. injection H as <- <-. split; [reflexivity|exact Hp].
  - inversion HF as [|? ? Hx Ht]; subst. cbn [snd] in Hx.
    cbn [wtf] in Hwt. apply andb_prop in Hwt as [Hwt Hwt3]. apply andb_prop in Hwt as [Hid Hwx].
    change (write_fields PBinary k ((id, x) :: t)) with
      (w_field_begin PBinary (ttype_of x) id ;; write_val PBinary k x ;; w_field_end PBinary ;; write_fields PBinary k t) in H.
    apply wseq_inv in H as (s123 & c3 & s4 & H & H4 & ->).
    apply wseq_inv in H as (s12 & c2 & s3 & H & H3 & ->).
    apply wseq_inv in H as (s1 & c1 & s2 & H1 & H2 & ->).
    cbn [w_field_begin] in H1. apply wret_inv in H1 as [H1 ->].
    pose proof (wt_balanced _ _ _ _ _ _ Hwx Hp H2) as ->.
    unfold w_field_end, assert_no_pending_w in H3. injection H3 as <- <-.
    destruct (IH Ht Hwt3 c s4 c' Hp H4) as [E4 Hp4]. split; [|exact Hp4].
    rewrite !flat_app, H1. cbn [flat map concat app]. rewrite app_nil_r.
    rewrite (Hx Hwx c s2 c Hp H2). unfold sp_fields in *. cbn [annot_fields sencB_fields sp].
    rewrite stype_annot, (spec_btype_agrees _ (ttype_of_val_ok x)). cbn [oz app fx].
    f_equal. unfold s_i, wrap_u. rewrite <- !app_assoc. f_equal. f_equal.
    rewrite (sencB_fields_last id (w_last c)). exact E4.
Qed.

Lemma fields_spec_compact k fs : Forall (fun q => WS PCompact k (snd q)) fs -> wtf fs = true ->
  forall c ss c', w_pend c = None -> write_fields PCompact k fs c = Ok (ss, c') ->
    flat ss ++ [x00] = sp_fields PCompact (w_last c) fs /\ w_pend c' = None.
Proof.
  induction fs as [|[id x] t IH]; intros HF Hwt c ss c' Hp H.
  - cbn [write_fields] in H. unfold wnop in H. injection H as <- <-. split; [reflexivity|exact Hp].
  - inversion HF as [|? ? Hx Ht]; subst. cbn [snd] in Hx.
    cbn [wtf] in Hwt. apply andb_prop in Hwt as [Hwt Hwt3]. apply andb_prop in Hwt as [Hid Hwx].
    change (write_fields PCompact k ((id, x) :: t)) with
      (w_field_begin PCompact (ttype_of x) id ;; write_val PCompact k x ;; w_field_end PCompact ;; write_fields PCompact k t) in H.
    apply wseq_inv in H as (s123 & c3 & s4 & H & H4 & ->).
    apply wseq_inv in H as (s12 & c2 & s3 & H & H3 & ->).
    apply wseq_inv in H as (s1 & c1 & s2 & H1 & H2 & ->).
    destruct (match x with VBool _ => true | _ => false end) eqn:Eb.
    + destruct x as [b| | | | | | | | | | |]; try discriminate Eb.
      cbn [ttype_of w_field_begin] in H1. rewrite Hp in H1. injection H1 as <- <-.
      cbn [write_val w_bool w_pend w_last w_stack] in H2.
      apply w_field_header_bytes in H2 as [E2 ->]. cbn [w_last w_stack w_pend] in *.
      unfold w_field_end, assert_no_pending_w in H3. cbn [w_pend] in H3. injection H3 as <- <-.
      destruct (IH Ht Hwt3 (mkW id (w_stack c) None) s4 c' eq_refl H4) as [E4 Hp4]. split; [|exact Hp4].
      cbn [w_last] in E4. rewrite !flat_app. cbn [flat map concat app]. rewrite app_nil_r, E2.
      unfold sp_fields in *. cbn [annot_fields annot sencC_fields]. rewrite <- app_assoc. f_equal.
      * destruct b; reflexivity.
      * exact E4.
    + assert (Hnb : ttype_of x <> TBool) by (destruct x; discriminate).
      assert (Hns : ttype_of x <> TStop) by apply ttype_of_nonstop.
      destruct (ctype_of_ttype_some _ (ttype_of_val_ok x)) as [ct Ect].
      assert (H1' : w_field_header ct id c = Ok (s1, c1)).
      { cbn [w_field_begin] in H1. destruct (ttype_of x); try congruence; rewrite Ect in H1; exact H1. }
      apply w_field_header_bytes in H1' as [E1 ->]. rewrite Hp in *.
      assert (Hp1 : w_pend (mkW id (w_stack c) None) = None) by reflexivity.
      pose proof (wt_balanced _ _ _ _ _ _ Hwx Hp1 H2) as ->.
      unfold w_field_end, assert_no_pending_w in H3. cbn [w_pend] in H3. injection H3 as <- <-.
      destruct (IH Ht Hwt3 _ s4 c' Hp1 H4) as [E4 Hp4]. split; [|exact Hp4].
      cbn [w_last] in E4. rewrite !flat_app. cbn [flat map concat app]. rewrite app_nil_r, E1.
      rewrite (Hx Hwx _ s2 _ Hp1 H2). unfold sp_fields in *. cbn [annot_fields sencC_fields sp].
      assert (Esp : oz (spec_ctype (stype (annot x))) = ctype_code ct).
      { rewrite stype_annot, (spec_ctype_agrees _ _ Ect Hns). reflexivity. }
      assert (Hfield : forall rest, match annot x with
                | SBool b _ => s_fhdr (w_last c) id (id - w_last c =? 15) (if b then 1 else 2) ++ rest
                | _ => s_fhdr (w_last c) id (id - w_last c =? 15) (oz (spec_ctype (stype (annot x)))) ++ sencC (annot x) ++ rest
                end = s_fhdr (w_last c) id (id - w_last c =? 15) (ctype_code ct) ++ sencC (annot x) ++ rest).
      { intros rest. rewrite Esp. destruct x; try reflexivity. discriminate Eb. }
      rewrite Hfield. rewrite <- !app_assoc. f_equal. f_equal. exact E4.
Qed.

Definition sp_elems (p : pk) (l : list tval) : list byte :=
  match p with PCompact => sencC_elems (map annot l) | _ => sencB_elems (map annot l) end.
Definition sp_pairs (p : pk) (l : list (tval * tval)) : list byte :=
  match p with
  | PCompact => sencC_pairs (map (fun '(a, b) => (annot a, annot b)) l)
  | _ => sencB_pairs (map (fun '(a, b) => (annot a, annot b)) l)
  end.

Lemma elems_spec p k l : Forall (WS p k) l -> (forall x, In x l -> wt x = true) ->
  forall c ss c', w_pend c = None -> write_elems p k l c = Ok (ss, c') -> flat ss = sp_elems p l /\ c' = c.
Proof.
  induction l as [|x t IH]; intros HF Hwt c ss c' Hp H.
  - cbn [write_elems] in H. unfold wnop in H. injection H as <- <-. split; [destruct p; reflexivity|reflexivity].
  - inversion HF as [|? ? Hx Ht]; subst.
    change (write_elems p k (x :: t)) with (write_val p k x ;; write_elems p k t) in H.
    apply wseq_inv in H as (s1 & c1 & s2 & H1 & H2 & ->).
    pose proof (wt_balanced _ _ _ _ _ _ (Hwt x (or_introl eq_refl)) Hp H1) as ->.
    destruct (IH Ht (fun y Hy => Hwt y (or_intror Hy)) c s2 c' Hp H2) as [E2 ->]. split; [|reflexivity].
    rewrite flat_app, (Hx (Hwt x (or_introl eq_refl)) c s1 c Hp H1), E2.
    unfold sp_elems, sp. destruct p; reflexivity.
Qed.

Lemma pairs_spec p k l : Forall (fun q => WS p k (fst q) /\ WS p k (snd q)) l ->
  (forall q, In q l -> wt (fst q) = true /\ wt (snd q) = true) ->
  forall c ss c', w_pend c = None -> write_pairs p k l c = Ok (ss, c') -> flat ss = sp_pairs p l /\ c' = c.
Proof.
  induction l as [|[a b] t IH]; intros HF Hwt c ss c' Hp H.
  - cbn [write_pairs] in H. unfold wnop in H. injection H as <- <-. split; [destruct p; reflexivity|reflexivity].
  - inversion HF as [|? ? [Ha Hb] Ht]; subst. cbn [fst snd] in *.
    destruct (Hwt (a, b) (or_introl eq_refl)) as [Hwa Hwb]. cbn [fst snd] in *.
    change (write_pairs p k ((a, b) :: t)) with (write_val p k a ;; write_val p k b ;; write_pairs p k t) in H.
    apply wseq_inv in H as (s12 & c2 & s3 & H & H3 & ->).
    apply wseq_inv in H as (s1 & c1 & s2 & H1 & H2 & ->).
    pose proof (wt_balanced _ _ _ _ _ _ Hwa Hp H1) as ->.
    pose proof (wt_balanced _ _ _ _ _ _ Hwb Hp H2) as ->.
    destruct (IH Ht (fun y Hy => Hwt y (or_intror Hy)) c s3 c' Hp H3) as [E3 ->]. split; [|reflexivity].
    rewrite !flat_app, (Ha Hwa c s1 c Hp H1), (Hb Hwb c s2 c Hp H2), E3.
    unfold sp_pairs, sp. destruct p; cbn [map sencB_pairs sencC_pairs]; rewrite <- ?app_assoc; reflexivity.
Qed.

Lemma w_coll_bytes p et n c ss c' : p <> PBinaryLE -> elem_ttype_ok et = true -> 0 <= n < 2 ^ 31 ->
  w_coll_begin p et n c = Ok (ss, c') -> c' = c /\
  flat ss = match p with
            | PCompact => s_lhdr n false (s_etype et false)
            | _ => z2b (oz (spec_btype et)) :: s_i 4 32 n
            end.
Proof.
  intros HpLE Het Hn H. destruct p; try congruence; cbn [w_coll_begin] in H.
  - apply wseq_inv in H as (s1 & c1 & s2 & H1 & H2 & ->). unfold w_byte in H1. apply wret_inv in H1 as [H1 ->].
    apply w_i32_bytes in H2 as [-> H2]; [|congruence]. split; [reflexivity|].
    rewrite flat_app, H1, H2, (spec_btype_agrees _ Het). unfold s_i. rewrite wrap_s32_small by lia. reflexivity.
  - destruct (ctype_of_ttype_some _ Het) as [ct Ect]. rewrite Ect in H.
    assert (Es : s_etype et false = ctype_code ct).
    { unfold s_etype. destruct et; cbn in Ect; inversion Ect; subst; try reflexivity; discriminate Het. }
    unfold s_lhdr. rewrite Es. cbn [negb andb].
    destruct (n <=? 14).
    + unfold w_byte in H. apply wret_inv in H as [-> ->]. auto.
    + apply wseq_inv in H as (s1 & c1 & s2 & H1 & H2 & ->). unfold w_byte in H1. apply wret_inv in H1 as [H1 ->].
      apply wret_inv in H2 as [H2 ->]. rewrite flat_app, H1, H2, wrap_u32_small by lia. auto.
Qed.

Lemma w_map_bytes p kt vt n c ss c' : p <> PBinaryLE -> elem_ttype_ok kt = true -> elem_ttype_ok vt = true -> 0 <= n < 2 ^ 31 ->
  w_map_begin p kt vt n c = Ok (ss, c') -> c' = c /\
  flat ss = match p with
            | PCompact => if n =? 0 then [x00] else s_uv n ++ [z2b (s_etype kt false * 16 + s_etype vt false)]
            | _ => z2b (oz (spec_btype kt)) :: z2b (oz (spec_btype vt)) :: s_i 4 32 n
            end.
Proof.
  intros HpLE Hk Hv Hn H. destruct p; try congruence; cbn [w_map_begin] in H.
  - apply wseq_inv in H as (s12 & c2 & s3 & H & H3 & ->). apply wseq_inv in H as (s1 & c1 & s2 & H1 & H2 & ->).
    unfold w_byte in H1, H2. apply wret_inv in H1 as [H1 ->]. apply wret_inv in H2 as [H2 ->].
    apply w_i32_bytes in H3 as [-> H3]; [|congruence]. split; [reflexivity|].
    rewrite !flat_app, H1, H2, H3, (spec_btype_agrees _ Hk), (spec_btype_agrees _ Hv).
    unfold s_i. rewrite wrap_s32_small by lia. reflexivity.
  - destruct (n =? 0).
    + unfold w_byte in H. apply wret_inv in H as [-> ->]. auto.
    + destruct (ctype_of_ttype_some _ Hk) as [kc Ek]. destruct (ctype_of_ttype_some _ Hv) as [vc Ev].
      rewrite Ek, Ev in H.
      assert (Esk : s_etype kt false = ctype_code kc).
      { unfold s_etype. destruct kt; cbn in Ek; inversion Ek; subst; try reflexivity; discriminate Hk. }
      assert (Esv : s_etype vt false = ctype_code vc).
      { unfold s_etype. destruct vt; cbn in Ev; inversion Ev; subst; try reflexivity; discriminate Hv. }
      apply wseq_inv in H as (s1 & c1 & s2 & H1 & H2 & ->). apply wret_inv in H1 as [H1 ->].
      unfold w_byte in H2. apply wret_inv in H2 as [H2 ->].
      rewrite flat_app, H1, H2, wrap_u32_small, Esk, Esv by lia. auto.
Qed.

Theorem writes_spec p k : p <> PBinaryLE -> forall v, WS p k v.
Proof.
  intros HpLE v. induction v as [b|z|z|z|z|z|l|l|fs HF|et l HF|et l HF|kt vt l HF] using tval_ind'; intros Hwt c ss c' Hp H.
  - (* bool *) destruct p; try congruence; cbn [write_val w_bool] in H.
    + unfold w_i8 in H. apply wret_inv in H as [-> _]. destruct b; reflexivity.
    + rewrite Hp in H. unfold w_byte in H. apply wret_inv in H as [-> _]. destruct b; reflexivity.
  - (* i8 *) cbn [write_val] in H. unfold w_i8 in H. apply wret_inv in H as [-> _]. destruct p; reflexivity.
  - apply w_i16_bytes in H as [_ ->]; auto. destruct p; reflexivity.
  - apply w_i32_bytes in H as [_ ->]; auto. destruct p; reflexivity.
  - apply w_i64_bytes in H as [_ ->]; auto. destruct p; reflexivity.
  - (* double *) cbn [write_val] in H. destruct p; try congruence; cbn [w_double] in H; apply wret_inv in H as [-> _]; reflexivity.
  - (* binary *) cbn [write_val] in H. cbn [wt] in Hwt. apply w_bytes_bytes in H as [_ ->]; auto. destruct p; reflexivity.
  - (* uuid *) cbn [write_val] in H. unfold w_uuid in H. apply wret_inv in H as [-> _]. destruct p; reflexivity.
  - (* struct *)
    change (write_val p k (VStruct fs)) with
      (w_struct_begin p ;; write_fields p k fs ;; w_field_stop p ;; w_struct_end p) in H.
    apply wseq_inv in H as (s123 & c3 & s4 & H & H4 & ->).
    apply wseq_inv in H as (s12 & c2 & s3 & H & H3 & ->).
    apply wseq_inv in H as (s1 & c1 & s2 & H1 & H2 & ->).
    rewrite wt_struct in Hwt. rewrite annot_struct.
    destruct p; try congruence.
    + cbn [w_struct_begin] in H1. injection H1 as <- <-.
      destruct (fields_spec_binary k fs HF Hwt c s2 c2 Hp H2) as [E2 Hp2].
      unfold w_field_stop in H3. apply wseq_inv in H3 as (s3a & c3a & s3b & H3a & H3b & ->).
      unfold assert_no_pending_w in H3a. injection H3a as <- <-. unfold w_byte in H3b. apply wret_inv in H3b as [H3b ->].
      cbn [w_struct_end] in H4. injection H4 as <- _.
      rewrite !flat_app, H3b. cbn [flat map concat app]. rewrite !app_nil_r.
      change [z2b (ttype_code TStop)] with [x00]. rewrite E2. unfold sp_fields, sp. rewrite sencB_struct.
      apply sencB_fields_last.
    + cbn [w_struct_begin] in H1. injection H1 as <- <-.
      destruct (fields_spec_compact k fs HF Hwt (mkW 0 (w_last c :: w_stack c) (w_pend c)) s2 c2 Hp H2) as [E2 Hp2]. cbn [w_last] in E2.
      unfold w_field_stop in H3. apply wseq_inv in H3 as (s3a & c3a & s3b & H3a & H3b & ->).
      unfold assert_no_pending_w in H3a. rewrite Hp2 in H3a. injection H3a as <- <-.
      unfold w_byte in H3b. apply wret_inv in H3b as [H3b ->].
      cbn [w_struct_end] in H4. rewrite Hp2 in H4. destruct (w_stack c2); [discriminate|]. injection H4 as <- _.
      rewrite !flat_app, H3b. cbn [flat map concat app]. rewrite !app_nil_r.
      change [z2b (ttype_code TStop)] with [x00]. rewrite E2. unfold sp_fields, sp. rewrite sencC_struct. reflexivity.
  - (* list *)
    change (write_val p k (VList et l)) with (w_coll_begin p et (Z.of_nat (length l)) ;; write_elems p k l) in H.
    apply wseq_inv in H as (s1 & c1 & s2 & H1 & H2 & ->).
    destruct (wt_list_inv _ _ Hwt) as (Het & Hlen & Hin). apply len_ok_bound in Hlen.
    apply w_coll_bytes in H1 as [-> E1]; auto.
    destruct (elems_spec p k l HF (fun x Hx => proj1 (Hin x Hx)) c s2 c' Hp H2) as [E2 _].
    rewrite flat_app, E1, E2. unfold sp_elems, sp. destruct p; try congruence; cbn [annot sencB sencC];
      rewrite ?sencB_elems_eq, ?sencC_elems_eq, map_length; reflexivity.
  - (* set *)
    change (write_val p k (VSet et l)) with (w_coll_begin p et (Z.of_nat (length l)) ;; write_elems p k l) in H.
    apply wseq_inv in H as (s1 & c1 & s2 & H1 & H2 & ->).
    rewrite wt_set in Hwt.
    destruct (wt_list_inv _ _ Hwt) as (Het & Hlen & Hin). apply len_ok_bound in Hlen.
    apply w_coll_bytes in H1 as [-> E1]; auto.
    destruct (elems_spec p k l HF (fun x Hx => proj1 (Hin x Hx)) c s2 c' Hp H2) as [E2 _].
    rewrite flat_app, E1, E2. unfold sp_elems, sp. destruct p; try congruence; cbn [annot sencB sencC];
      rewrite ?sencB_elems_eq, ?sencC_elems_eq, map_length; reflexivity.
  - (* map *)
    change (write_val p k (VMap kt vt l)) with (w_map_begin p kt vt (Z.of_nat (length l)) ;; write_pairs p k l) in H.
    apply wseq_inv in H as (s1 & c1 & s2 & H1 & H2 & ->).
    destruct (wt_map_inv _ _ _ Hwt) as (Hk & Hv & Hlen & Hin). apply len_ok_bound in Hlen.
    apply w_map_bytes in H1 as [-> E1]; auto.
    destruct (pairs_spec p k l HF (fun q Hq => let '(conj a (conj _ (conj b _))) := Hin q Hq in conj a b) c s2 c' Hp H2) as [E2 _].
    rewrite flat_app, E1, E2. unfold sp_pairs, sp. destruct p; try congruence; cbn [annot sencB sencC].
    + rewrite map_length. reflexivity.
    + destruct l as [|[a b] t]; [reflexivity|].
      cbn [map length]. replace (Z.of_nat (S (length t)) =? 0) with false by lia.
      rewrite map_length, <- app_assoc. reflexivity.
Qed.

(* ------------------------------------------------------------------ *)
(* reference -> pilota: every alternative form the specifications allow is accepted by pilota's
   readers (header level; composed over whole trees by the correspondence run) *)

(* binary protocol: ANY non-zero byte is true *)
Lemma alt_bool_binary p tb r c : p <> PCompact ->
  r_bool p (mkS (tb :: r) c) = Ok (negb (Byte.eqb tb x00), mkS r c).
Proof.
  intros Hp. destruct p; try congruence; cbn [r_bool]; unfold r_i8, r_take; cbn [rbuf take length Nat.leb firstn skipn bind set_buf rc];
    f_equal; f_equal; destruct tb; reflexivity.
Qed.

Lemma r_i16_zz id r rcx : in_s 16 id -> r_i16 PCompact (mkS (s_zz id ++ r) rcx) = Ok (id, mkS r rcx).
Proof.
  intros Hid. cbn [r_i16]. unfold s_zz. apply (r_zz_rt 16 3); auto; try lia; try (vm_compute; discriminate).
Qed.

(* compact field header in EVERY form: short form for 1 <= delta <= 15 (pilota itself writes it
   only up to 14), long form where a short one would fit, long form otherwise *)
Lemma alt_field_header last id long ct ty r rcx :
  in_s 16 id -> in_s 16 last -> r_last rcx = last ->
  ttype_of_ctype ct = Some ty -> ty <> TStop ->
  r_field_begin PCompact (mkS (s_fhdr last id long (ctype_code ct) ++ r) rcx) =
    Ok ((ty, Some id),
        mkS r (mkR id (r_stack rcx)
                   (match ct with CBooleanTrue => Some true | CBooleanFalse => Some false | _ => r_pbool rcx end)
                   false)).
Proof.
  intros Hid Hl Hlast Ht Hns. pose proof (ctype_code_range ct) as Hc. unfold s_fhdr.
  destruct (negb long && (0 <? id - last) && (id - last <=? 15)) eqn:E.
  - (* short form *)
    assert (Hd : 0 < id - last <= 15) by lia.
    cbn [app r_field_begin]. rewrite clear_pfield_eq. rewrite r_byte_rt by lia. cbn [bind].
    replace (((id - last) * 16 + ctype_code ct) mod 16) with (ctype_code ct) by lia.
    replace (((id - last) * 16 + ctype_code ct) / 16) with (id - last) by lia.
    replace (negb (id - last =? 0)) with true by lia.
    destruct ct; cbn in Ht; inversion Ht; subst ty; try congruence;
      cbn [ctype_code Z.eqb Pos.eqb ctype_of_code bind ttype_of_ctype rc set_rc r_last r_stack r_pbool r_pfield];
      try (vm_compute ctype_of_code; cbn [bind ttype_of_ctype]);
      rewrite Hlast; replace (last + (id - last)) with id by lia; rewrite wrap_s16_id by auto; reflexivity.
  - (* long form *)
    cbn [app r_field_begin]. rewrite clear_pfield_eq. rewrite r_byte_rt by lia. cbn [bind].
    replace (ctype_code ct mod 16) with (ctype_code ct) by lia.
    replace (ctype_code ct / 16) with 0 by lia.
    destruct ct; cbn in Ht; inversion Ht; subst ty; try congruence;
      cbn [ctype_code Z.eqb Pos.eqb ctype_of_code bind ttype_of_ctype rc set_rc r_last r_stack r_pbool r_pfield negb];
      try (vm_compute ctype_of_code; cbn [bind ttype_of_ctype negb]);
      repeat match goal with |- context [Z.div ?k 16] =>
        let v := eval vm_compute in (Z.div k 16) in change (Z.div k 16) with v end;
      cbn [Z.eqb negb]; unfold set_rc; cbn [rbuf rc r_last r_stack r_pbool r_pfield];
      rewrite r_i16_zz by auto; reflexivity.
Qed.

(* compact list / set header: short form, or long form even for sizes that would fit the short one;
   BOOL element type as 1 or as 2 *)
Lemma alt_coll_header et long b2 n r rcx :
  elem_ttype_ok et = true -> 0 <= n < 2 ^ 31 -> n <= Z.of_nat (length r) ->
  r_coll_begin PCompact (mkS (s_lhdr n long (s_etype et b2) ++ r) rcx) = Ok ((et, n), mkS r rcx).
Proof.
  intros Het Hn Hr. unfold s_lhdr.
  assert (Hs : 0 <= s_etype et b2 < 16 /\ ttype_of_nibble (s_etype et b2) = Ok et).
  { destruct et, b2; try discriminate Het; split; try reflexivity; cbn; lia. }
  destruct Hs as [Hs1 Hs2].
  destruct (negb long && (n <=? 14)) eqn:E.
  - cbn [app r_coll_begin]. rewrite r_byte_rt by lia. cbn [bind].
    replace ((n * 16 + s_etype et b2) mod 16) with (s_etype et b2) by lia.
    replace ((n * 16 + s_etype et b2) / 16) with n by lia.
    rewrite Hs2. cbn [bind]. replace (negb (n =? 15)) with true by lia.
    rewrite check_size_ok by lia. reflexivity.
  - cbn [app r_coll_begin]. rewrite r_byte_rt by lia. cbn [bind].
    replace ((240 + s_etype et b2) mod 16) with (s_etype et b2) by lia.
    replace ((240 + s_etype et b2) / 16) with 15 by lia.
    rewrite Hs2. cbn [bind negb Z.eqb Pos.eqb]. unfold s_uv.
    rewrite r_varint_rt; [| unfold maxsize_32; lia | change (128 ^ Z.of_nat maxsize_32) with 34359738368; lia | unfold two64; lia].
    cbn [bind]. rewrite wrap_s32_small by lia. rewrite check_size_ok by lia. reflexivity.
Qed.

Lemma alt_map_header kt vt kb2 vb2 n r rcx :
  elem_ttype_ok kt = true -> elem_ttype_ok vt = true -> 0 < n < 2 ^ 31 -> n <= Z.of_nat (length r) ->
  r_map_begin PCompact (mkS (s_uv n ++ [z2b (s_etype kt kb2 * 16 + s_etype vt vb2)] ++ r) rcx) = Ok ((kt, vt, n), mkS r rcx).
Proof.
  intros Hk Hv Hn Hr.
  assert (Hks : 0 <= s_etype kt kb2 < 16 /\ ttype_of_nibble (s_etype kt kb2) = Ok kt).
  { destruct kt, kb2; try discriminate Hk; split; try reflexivity; cbn; lia. }
  assert (Hvs : 0 <= s_etype vt vb2 < 16 /\ ttype_of_nibble (s_etype vt vb2) = Ok vt).
  { destruct vt, vb2; try discriminate Hv; split; try reflexivity; cbn; lia. }
  destruct Hks as [Hk1 Hk2]. destruct Hvs as [Hv1 Hv2].
  cbn [r_map_begin]. unfold s_uv.
  rewrite r_varint_rt; [| unfold maxsize_32; lia | change (128 ^ Z.of_nat maxsize_32) with 34359738368; lia | unfold two64; lia].
  cbn [bind]. rewrite wrap_s32_small by lia. replace (n =? 0) with false by lia.
  cbn [app]. rewrite r_byte_rt by lia. cbn [bind].
  replace ((s_etype kt kb2 * 16 + s_etype vt vb2) / 16) with (s_etype kt kb2) by lia.
  replace ((s_etype kt kb2 * 16 + s_etype vt vb2) mod 16) with (s_etype vt vb2) by lia.
  rewrite Hk2, Hv2. cbn [bind]. rewrite check_size_ok by lia. reflexivity.
Qed.

(* the one-byte empty map *)
Lemma alt_empty_map r rcx : r_map_begin PCompact (mkS (x00 :: r) rcx) = Ok ((TStop, TStop, 0), mkS r rcx).
Proof. reflexivity. Qed.

(* ------------------------------------------------------------------ *)
(* the message envelope *)

Definition hdr_word (u : byte) (t : mtype) : Z := wrap_s 32 (of_be [x80; x01; u; z2b (spec_mtype t)]).

Lemma hdr_word_facts u t :
  (0 <? hdr_word u t) = false /\ mtype_of_code (Z.land (hdr_word u t) 15) = Some t /\
  (Z.land (hdr_word u t) (wrap_s 32 binary_version_mask) =? wrap_s 32 binary_version_1) = true.
Proof. destruct t; destruct u; vm_compute; repeat split; reflexivity. Qed.

Lemma r_i32_s_i z r c : in_s 32 z -> r_i32 PBinary (mkS (s_i 4 32 z ++ r) c) = Ok (z, mkS r c).
Proof. intros Hz. cbn [r_i32]. unfold s_i. apply (r_fixed_rt PBinary 4 32 z r c); auto; lia. Qed.

Lemma r_bytes_s_i l r c : len_ok (length l) = true ->
  r_bytes PBinary (mkS (s_i 4 32 (Z.of_nat (length l)) ++ l ++ r) c) = Ok (l, mkS r c).
Proof.
  intros Hl. apply len_ok_bound in Hl. unfold r_bytes. cbn [r_len].
  rewrite r_i32_s_i by (unfold in_s; change (2 ^ (32 - 1)) with (2 ^ 31); lia). cbn [bind].
  unfold wrap_u. rewrite Z.mod_small by (change (2 ^ 64) with 18446744073709551616; lia).
  apply r_split_app.
Qed.

(* reference -> pilota, binary strict envelope, with ANY value of the unused byte *)
Theorem msg_binary_read name t seq unused r c :
  len_ok (length name) = true -> in_s 32 seq ->
  r_message_begin PBinary (mkS (spec_msgB name t seq unused ++ r) c) = Ok (mkMsg name t seq, mkS r c).
Proof.
  intros Hn Hs. destruct (hdr_word_facts unused t) as (F1 & F2 & F3).
  unfold spec_msgB. cbn [r_message_begin].
  assert (E : r_i32 PBinary (mkS (([x80; x01; unused; z2b (spec_mtype t)] ++ s_i 4 32 (Z.of_nat (length name)) ++ name ++ s_i 4 32 seq) ++ r) c)
              = Ok (hdr_word unused t, mkS (s_i 4 32 (Z.of_nat (length name)) ++ name ++ s_i 4 32 seq ++ r) c)).
  { cbn [r_i32]. unfold r_fixed. rewrite <- app_assoc. rewrite r_take_app by reflexivity. cbn [bind].
    rewrite <- !app_assoc. reflexivity. }
  rewrite E. cbn [bind]. rewrite F1, F2. cbn [version_mask_of version_of]. rewrite F3. cbn [negb].
  rewrite r_bytes_s_i by auto. cbn [bind]. rewrite r_i32_s_i by auto. reflexivity.
Qed.

(* pilota -> reference: the envelope pilota writes is the specification's, unused byte 0 *)
Theorem msg_binary_write k name t seq c :
  len_ok (length name) = true -> in_s 32 seq ->
  exists ss, w_message_begin PBinary k (mkMsg name t seq) c = Ok (ss, c) /\ flat ss = spec_msgB name t seq x00.
Proof.
  intros Hn Hs. cbn [w_message_begin m_type m_name m_seq version_of].
  destruct (w_bytes_ok PBinary k name c) as (sb & Hb & _).
  pose proof (w_bytes_bytes PBinary k name c sb c ltac:(congruence) Hn Hb) as [_ Eb].
  eexists. split.
  - eapply wseq_ok; [eapply wseq_ok; [apply wret_eq | exact Hb] | apply wret_eq].
  - rewrite !flat_app, !flat_copy, Eb. unfold spec_msgB.
    assert (E1 : fx PBinary 4 (wrap_u 32 (wrap_s 32 (Z.lor binary_version_1 (mtype_code t)))) = [x80; x01; x00; z2b (spec_mtype t)])
      by (destruct t; vm_compute; reflexivity).
    rewrite E1. rewrite <- !app_assoc. reflexivity.
Qed.

Lemma compact_hdr_facts t :
  (Z.land (spec_mtype t * 32 + 1) compact_version_mask =? compact_version) = true /\
  mtype_of_code (Z.shiftr (spec_mtype t * 32 + 1) compact_type_shift_amount) = Some t /\
  z2b (Z.lor (Z.land compact_version compact_version_mask)
             (Z.land (Z.shiftl (mtype_code t) compact_type_shift_amount) compact_type_mask)) = z2b (spec_mtype t * 32 + 1).
Proof. destruct t; vm_compute; repeat split; reflexivity. Qed.

Lemma r_bytes_s_uv l r c : len_ok (length l) = true ->
  r_bytes PCompact (mkS (s_uv (Z.of_nat (length l)) ++ l ++ r) c) = Ok (l, mkS r c).
Proof.
  intros Hl. apply len_ok_bound in Hl. unfold r_bytes. cbn [r_len]. unfold s_uv.
  rewrite r_varint_rt; [| unfold maxsize_32; lia | change (128 ^ Z.of_nat maxsize_32) with 34359738368; lia | unfold two64; lia].
  cbn [bind]. rewrite wrap_u32_small by lia. apply r_split_app.
Qed.

Theorem msg_compact_read name t seq r c :
  len_ok (length name) = true -> in_s 32 seq ->
  r_message_begin PCompact (mkS (spec_msgC name t seq ++ r) c) = Ok (mkMsg name t seq, mkS r c).
Proof.
  intros Hn Hs. destruct (compact_hdr_facts t) as (F1 & F2 & _).
  assert (Ht : 0 <= spec_mtype t * 32 + 1 < 256) by (destruct t; cbn; lia).
  unfold spec_msgC. cbn [r_message_begin app].
  change x82 with (z2b compact_protocol_id). rewrite r_byte_rt by (vm_compute; split; congruence). cbn [bind].
  rewrite Z.eqb_refl. cbn [negb]. rewrite r_byte_rt by lia. cbn [bind]. rewrite F1, F2. cbn [negb].
  rewrite <- !app_assoc. unfold s_uv at 1.
  assert (Hm : 0 <= seq mod 2 ^ 32 < 2 ^ 32) by (apply Z.mod_pos_bound; lia).
  rewrite r_varint_rt; [| unfold maxsize_32; lia | change (128 ^ Z.of_nat maxsize_32) with 34359738368; change (2 ^ 32) with 4294967296 in Hm; lia | unfold two64; change (2 ^ 32) with 4294967296 in Hm; lia].
  cbn [bind]. rewrite r_bytes_s_uv by auto. cbn [bind].
  f_equal. f_equal. f_equal. unfold wrap_u at 1. rewrite Z.mod_mod by lia.
  apply (wrap_s_wrap_u 32 seq); auto; lia.
Qed.

Theorem msg_compact_write k name t seq c :
  len_ok (length name) = true -> in_s 32 seq ->
  exists ss, w_message_begin PCompact k (mkMsg name t seq) c = Ok (ss, c) /\ flat ss = spec_msgC name t seq.
Proof.
  intros Hn Hs. cbn [w_message_begin m_type m_name m_seq].
  destruct (w_bytes_ok PCompact k name c) as (sb & Hb & _).
  pose proof (w_bytes_bytes PCompact k name c sb c ltac:(congruence) Hn Hb) as [_ Eb].
  destruct (compact_hdr_facts t) as (_ & _ & F3).
  eexists. split.
  - eapply wseq_ok; [eapply wseq_ok; [apply wret_eq | apply wret_eq] | exact Hb].
  - rewrite !flat_app, !flat_copy, Eb, F3. unfold spec_msgC, wrap_u, s_uv. rewrite <- !app_assoc. reflexivity.
Qed.

(* the standard application exception {1: string message, 2: i32 type}: what pilota writes for it
   is the specification's encoding of that struct (instance of writes_spec) *)
Corollary app_exception_spec p k msg kind c ss c' : p <> PBinaryLE ->
  len_ok (length msg) = true -> in_s 32 kind -> w_pend c = None ->
  write_val p k (VStruct [(1, VBinary msg); (2, VI32 kind)]) c = Ok (ss, c') ->
  flat ss = sp p (spec_app_exception msg kind).
Proof.
  intros Hp Hm Hk Hpn H.
  assert (Hwt : wt (VStruct [(1, VBinary msg); (2, VI32 kind)]) = true).
  { rewrite wt_struct. cbn [wtf wt]. rewrite Hm. apply in_sb_spec in Hk. rewrite Hk. reflexivity. }
  rewrite (writes_spec p k Hp _ Hwt c ss c' Hpn H). reflexivity.
Qed.

(* reference -> pilota for the canonical form over whole trees: the specification's encoding of any
   well-typed value is read back by pilota to that value, consuming exactly the encoding *)
Theorem spec_read_back p v : p <> PBinaryLE -> wt v = true ->
  forall fuel r rcx, (vsize v <= fuel)%nat -> idle rcx ->
    read_val p fuel (ttype_of v) (mkS (sp p (annot v) ++ r) rcx) = Ok (canon p v, mkS r rcx).
Proof.
  intros Hp Hwt fuel r rcx Hf Hi.
  destruct (roundtrip_val p BContig v Hwt w0 eq_refl) as (ss & Hw & _ & Hr).
  rewrite <- (writes_spec p BContig Hp v Hwt w0 ss w0 eq_refl Hw). apply Hr; auto.
Qed.

(* non-vacuity / sanity: the spec encoder on concrete values, incl. alternative forms *)
Example spec_examples :
  sencC (SStruct [(1, false, SBool true x01); (16, false, SI32 (-1)); (17, true, SBinary [x61])])
    = [x11; xf5; x01; x08; x22; x01; x61; x00] /\
  sencC (SList TBool true true [SBool true x01; SBool false x01]) = [xf2; x02; x01; x02] /\
  sencB (SStruct [(2, false, SBool true xff)]) = [x02; x00; x02; xff; x00] /\
  sencC (SMap TI8 TBool false true []) = [x00].
Proof. repeat split; reflexivity. Qed.
