(* Extraction of the executable IDL parser model for the correspondence runner.
   Directives: ExtrOcamlBasic only (bool, option, unit, list, prod, sumbool, sumor -> OCaml's).
   Z / positive / N / nat / byte stay the extracted inductive types.  No Extract Constant. *)
Require Extraction.
Require Import ExtrOcamlBasic.
From PVIdl Require Import Parser Print Proofs.Nesting Proofs.RoundTy.

Extraction "model.ml"
  bn nesting pr_type wf_type erase_type simple_type pr_file wf_file erase_file
  parse_file p_file p_item p_include p_cpp_include p_namespace p_scope p_typedef p_constant p_enum p_enum_value
  p_struct p_union p_exception p_struct_like p_service p_function p_field p_attribute p_type p_ty p_cpp_type
  p_const_value p_int_constant p_double_constant p_annotations p_literal p_ident p_path p_blank p_list_separator.
