(* C15, stage 5a: the typedef and const productions, every layout. *)
From PVIdl Require Import Comb Ast Parser Print Proofs.Total Proofs.RoundTok Proofs.RoundPath Proofs.RoundAnn Proofs.RoundTy
  Proofs.RoundKit Proofs.Lex Proofs.RoundNum Proofs.RoundConst Proofs.RoundDecl.
From Coq Require Import ZifyN ZifyNat ZifyBool.
From Coq Require String.
Import String.StringSyntax.
Open Scope nat_scope.

Section Items.
Variable lf : nat.
Variable whole : list byte.
Hypothesis Hlf : length whole < lf.
Variable df : nat.
Hypothesis Hdf : length whole < df.

(* typedef <blank> T <blank> alias [blank] [annotations] [separator].
   [eof]: the declaration ends the text; [nosep k] / [stop k] / [wstop k]: what follows is not mistaken for a part of it *)
Theorem rt_typedef eof c k :
  wf_typedef eof c = true -> (eof = true -> k = []) -> nosep k = true ->
  (tail_open (ctd_tail c) = true -> stop k = true) -> (typedef_ends_word c = true -> wstop k = true) ->
  sfx (pr_typedef c k) whole ->
  p_typedef lf df (pr_typedef c k) = POk k (erase_typedef c).
Proof.
  intros Hw He Hns Hop Hew S.
  destruct c as [b1 t b2 alias tl].
  unfold wf_typedef, pr_typedef, erase_typedef, typedef_ends_word in *.
  cbn [ctd_b1 ctd_type ctd_b2 ctd_alias ctd_tail] in *. bsplit Hw.
  unfold p_typedef. tg kw_typedef (txt "typedef").
  mbk lf whole Hlf S ltac:(now apply type_head_nb).
  assert (F : tyfollow lf (type_ends_word t) (pr_blank b2 (alias ++ pr_tail tl k))).
  { apply (tyfollow_name_tail lf whole Hlf eof); auto; [|sfx_of S]. intros ->. discriminate. }
  rewrite (rt_type lf whole Hlf df t _ (type_depth_sfx whole df t _ ltac:(sfx_of S) Hdf) ltac:(assumption) F) by (sfx_of S).
  cbn [pbind].
  mbk lf whole Hlf S ltac:(now apply ident_nb).
  rewrite (rt_ident alias) by (assumption || hdt). cbn [pbind].
  destruct (tail_steps lf whole Hlf eof tl k ltac:(assumption) He Hns Hop ltac:(sfx_of S)) as (o1 & o3 & E1 & E2 & E3).
  rewrite E1. cbn [pbind]. rewrite E2. cbn [pbind]. rewrite E3. cbn [pbind]. rewrite unwrap_oanns. reflexivity.
Qed.

(* const <blank> T <blank> name [blank] = [blank] value [blank] [annotations] [separator] *)
Theorem rt_constant eof c k :
  wf_constant eof c = true -> (eof = true -> k = []) -> nosep k = true ->
  (tail_open (ck_tail c) = true -> stop k = true) -> (tail_bare (ck_tail c) = true -> cfollow lf (ck_val c) k) ->
  sfx (pr_constant c k) whole ->
  p_constant lf df (pr_constant c k) = POk k (erase_constant c).
Proof.
  intros Hw He Hns Hop Hew S.
  destruct c as [b1 t b2 name b3 b4 v tl].
  unfold wf_constant, pr_constant, erase_constant, constant_ends_word in *.
  cbn [ck_b1 ck_type ck_b2 ck_name ck_b3 ck_b4 ck_val ck_tail] in *. bsplit Hw.
  unfold p_constant. tg kw_const (txt "const").
  mbk lf whole Hlf S ltac:(now apply type_head_nb).
  assert (F : tyfollow lf (type_ends_word t) (pr_blank b2 (name ++ pr_blank b3 (txt "=" ++ pr_blank b4 (pr_const v (pr_tail tl k)))))).
  { apply (tyfollow_name lf whole Hlf); auto; try reflexivity; [|sfx_of S]. intros ->. discriminate. }
  rewrite (rt_type lf whole Hlf df t _ (type_depth_sfx whole df t _ ltac:(sfx_of S) Hdf) ltac:(assumption) F) by (sfx_of S).
  cbn [pbind].
  mbk lf whole Hlf S ltac:(now apply ident_nb).
  rewrite (rt_ident name) by (assumption || hdt). cbn [pbind].
  obk lf whole Hlf S ltac:(reflexivity). tg sym_const_eq (txt "=").
  obk lf whole Hlf S ltac:(now apply const_nb).
  assert (Fv : cfollow lf v (pr_tail tl k)).
  { destruct (tail_bare tl) eqn:Eb.
    - specialize (Hew eq_refl). destruct tl as [bl a sp]. unfold tail_bare in Eb. cbn [t_b t_anns t_sep] in Eb. bsplit Eb.
      destruct bl; [|discriminate]. destruct a; [discriminate|]. destruct sp; [|discriminate]. exact Hew.
    - apply (cvfollow_cfollow lf whole Hlf); [|sfx_of S]. apply (cvfollow_tail eof); auto. intros _ E2. congruence. }
  rewrite (rt_const lf whole Hlf df v _ (cv_depth_sfx whole df v _ ltac:(sfx_of S) Hdf) ltac:(assumption) Fv) by (sfx_of S).
  cbn [pbind].
  destruct (tail_steps lf whole Hlf eof tl k ltac:(assumption) He Hns Hop ltac:(sfx_of S)) as (o1 & o3 & E1 & E2 & E3).
  rewrite E1. cbn [pbind]. rewrite E2. cbn [pbind]. rewrite E3. cbn [pbind]. rewrite unwrap_oanns. reflexivity.
Qed.

End Items.

(* non-vacuity: the alias is the word cpp_type, the text ends with an unterminated line comment *)
Example rt_typedef_example :
  let c := mkCTypedef [BBlock []] (CType (CTMap None [] [] (CType (CTBase BString) None) [] false []
                                     (CType (CTPath (mkCPath (txt "listing") [])) None) []) None)
                      [BWs (txt " ")] (txt "cpp_type")
                      (mkTail [] (Some [mkCAnn [] (txt "a") [] [] (mkLit false (txt "b")) [] SepNone]) (SepSome true [BLine (txt " end")])) in
  wf_typedef true c = true /\ wf_typedef false c = false /\
  p_typedef 100 5 (pr_typedef c []) = POk [] (erase_typedef c) /\
  pr_typedef c [] = txt "typedef/**/map<string,listing> cpp_type(a='b');// end".
Proof. vm_compute. repeat split. Qed.

Example rt_constant_example :
  let v := CCList [] (CLCons (CCInt (mkCInt 1 false (txt "1"))) [] (SepSome false []) (CLCons (CCPath (mkCPath (txt "trueish") [])) [] SepNone CLNil)) in
  let c := mkCConstant [BWs (txt " ")] (CType (CTList [] [] (CType (CTBase BI32) None) [] None) None) [BHash (txt "h"); BWs [x0a]]
                       (txt "required_t") [] [BWs (txt " ")] v (mkTail [BWs [x0a]] None SepNone) in
  wf_constant false c = true /\
  p_constant 100 5 (pr_constant c (txt "const")) = POk (txt "const") (erase_constant c).
Proof. vm_compute. repeat split. Qed.
