// Codec-level implementation runner of the protobuf family: the same case lines as
// /verif/fam/pb/runner (vi ve key dkey enc encr encp mrg mrgr skip ld) are executed on the real
// pilota::prost::encoding functions.  One result line per case line; panics are caught; the peak
// number of bytes allocated during the case is appended as P<n>.
use std::alloc::{GlobalAlloc, Layout, System};
use std::panic::{catch_unwind, AssertUnwindSafe};
use std::sync::atomic::{AtomicUsize, Ordering};
use std::io::{BufRead, Write};

use bytes::{Buf, Bytes, BytesMut};
use pilota::prost::encoding::{self as enc, DecodeContext, WireType};
use pilota::prost::DecodeError;
use pilota::FastStr;

struct Counting;
static LIVE: AtomicUsize = AtomicUsize::new(0);
static PEAK: AtomicUsize = AtomicUsize::new(0);
unsafe impl GlobalAlloc for Counting {
    unsafe fn alloc(&self, l: Layout) -> *mut u8 {
        let p = System.alloc(l);
        if !p.is_null() {
            let n = LIVE.fetch_add(l.size(), Ordering::Relaxed) + l.size();
            PEAK.fetch_max(n, Ordering::Relaxed);
        }
        p
    }
    unsafe fn dealloc(&self, p: *mut u8, l: Layout) {
        LIVE.fetch_sub(l.size(), Ordering::Relaxed);
        System.dealloc(p, l)
    }
    unsafe fn realloc(&self, p: *mut u8, l: Layout, new: usize) -> *mut u8 {
        let q = System.realloc(p, l, new);
        if !q.is_null() {
            if new >= l.size() {
                let n = LIVE.fetch_add(new - l.size(), Ordering::Relaxed) + (new - l.size());
                PEAK.fetch_max(n, Ordering::Relaxed);
            } else {
                LIVE.fetch_sub(l.size() - new, Ordering::Relaxed);
            }
        }
        q
    }
}
#[global_allocator]
static A: Counting = Counting;

fn unhex(s: &str) -> Result<Vec<u8>, String> {
    if s == "-" {
        return Ok(vec![]);
    }
    if s.len() % 2 != 0 {
        return Err("odd hex".into());
    }
    (0..s.len() / 2)
        .map(|i| u8::from_str_radix(&s[2 * i..2 * i + 2], 16).map_err(|e| e.to_string()))
        .collect()
}
fn hex(b: &[u8]) -> String {
    if b.is_empty() {
        return "-".into();
    }
    let mut s = String::with_capacity(b.len() * 2);
    for x in b {
        s.push_str(&format!("{:02x}", x));
    }
    s
}

fn errclass(e: &DecodeError) -> &'static str {
    let d = format!("{}", e);
    let d = d.trim_start_matches("failed to decode Protobuf message: ");
    // the description follows the "Msg.field: " stack
    let pats: [(&str, &str); 11] = [
        ("invalid varint", "varint"),
        ("invalid key value", "key"),
        ("invalid wire type value", "wiretypevalue"),
        ("invalid tag value: 0", "tagzero"),
        ("invalid wire type:", "wiretype"),
        ("buffer underflow", "underflow"),
        ("delimited length exceeded", "delimited"),
        ("unexpected end group tag", "endgroup"),
        ("recursion limit reached", "recursion"),
        ("invalid string value", "utf8"),
        ("length delimiter exceeds", "lenusize"),
    ];
    for (p, c) in pats {
        if d.contains(p) {
            return c;
        }
    }
    "other"
}

fn wt_of(i: u32) -> Result<WireType, String> {
    Ok(match i {
        0 => WireType::Varint,
        1 => WireType::SixtyFourBit,
        2 => WireType::LengthDelimited,
        3 => WireType::StartGroup,
        4 => WireType::EndGroup,
        5 => WireType::ThirtyTwoBit,
        _ => return Err("bad wire type".into()),
    })
}

// value tokens: i<decimal> | b<hex>
fn ival(tok: &str) -> Result<i128, String> {
    if !tok.starts_with('i') {
        return Err(format!("integer value expected: {}", tok));
    }
    tok[1..].parse::<i128>().map_err(|e| e.to_string())
}
fn bval(tok: &str) -> Result<Vec<u8>, String> {
    if !tok.starts_with('b') {
        return Err(format!("bytes value expected: {}", tok));
    }
    unhex(&tok[1..])
}

// a Buf made of several chunks, so that decode_varint takes its slow path
fn chunked(data: &[u8], size: usize) -> impl Buf {
    struct Chunks {
        parts: std::collections::VecDeque<Bytes>,
    }
    impl Buf for Chunks {
        fn remaining(&self) -> usize {
            self.parts.iter().map(|p| p.len()).sum()
        }
        fn chunk(&self) -> &[u8] {
            match self.parts.front() {
                Some(p) => p,
                None => &[],
            }
        }
        fn advance(&mut self, mut cnt: usize) {
            while cnt > 0 {
                let front = self.parts.front_mut().expect("advance past the end");
                if cnt < front.len() {
                    front.advance(cnt);
                    return;
                }
                cnt -= front.len();
                self.parts.pop_front();
            }
            while matches!(self.parts.front(), Some(p) if p.is_empty()) {
                self.parts.pop_front();
            }
        }
    }
    let mut parts = std::collections::VecDeque::new();
    for c in data.chunks(size.max(1)) {
        parts.push_back(Bytes::copy_from_slice(c));
    }
    Chunks { parts }
}

// the same decoder call over non-contiguous layouts of the same bytes (pieces of 1, 2, 3 and 7 bytes, two chunks cut
// after every continuation byte): the answer must not depend on the layout
fn layout_check(data: &[u8], main: &str, run: &dyn Fn(&mut dyn Buf) -> String) -> String {
    // the buffers built here are the driver's own business: the peak reported for the case is the contiguous run's
    let saved = PEAK.load(Ordering::Relaxed);
    let r = layout_check_inner(data, main, run);
    PEAK.store(saved, Ordering::Relaxed);
    r
}

fn layout_check_inner(data: &[u8], main: &str, run: &dyn Fn(&mut dyn Buf) -> String) -> String {
    for size in [1usize, 2, 3, 7] {
        if size >= data.len() && size != 1 {
            continue;
        }
        let mut c = chunked(data, size);
        let s = run(&mut c);
        if s != main {
            return format!(" ORACLE-FAIL chunked buffer (pieces of {}) gives {}", size, s);
        }
    }
    // two chunks: cut after continuation bytes (inside varints) and at positions spread over the whole input (inside payloads)
    let mut cuts = 0;
    let n = data.len();
    let spread: Vec<usize> = if n > 2 { vec![1, n / 4, n / 2, (3 * n) / 4, n - 1] } else { vec![] };
    for k in 1..data.len() {
        if (data[k - 1] & 0x80 != 0 || spread.contains(&k)) && cuts < 24 {
            cuts += 1;
            let mut c = Bytes::copy_from_slice(&data[..k]).chain(Bytes::copy_from_slice(&data[k..]));
            let s = run(&mut c);
            if s != main {
                return format!(" ORACLE-FAIL chained buffer (cut at {}) gives {}", k, s);
            }
        }
    }
    String::new()
}

macro_rules! num_module {
    ($name:expr, $cmd:expr, $toks:expr, $m:ident, $ty:ty, $conv:expr, $back:expr) => {{
        let conv = $conv;
        let back = $back;
        match $cmd {
            "enc" => {
                let tag: u32 = $toks[0].parse().map_err(|_| "tag")?;
                let v: $ty = conv(ival($toks[1])?);
                let mut buf = BytesMut::new();
                enc::$m::encode(tag, &v, &mut buf);
                Ok(format!("{} L{}", hex(&buf), enc::$m::encoded_len(tag, &v)))
            }
            "encr" => {
                let tag: u32 = $toks[0].parse().map_err(|_| "tag")?;
                let vs: Vec<$ty> = $toks[1..].iter().map(|t| ival(t).map(conv)).collect::<Result<_, _>>()?;
                let mut buf = BytesMut::new();
                enc::$m::encode_repeated(tag, &vs, &mut buf);
                Ok(format!("{} L{}", hex(&buf), enc::$m::encoded_len_repeated(tag, &vs)))
            }
            "encp" => {
                let tag: u32 = $toks[0].parse().map_err(|_| "tag")?;
                let vs: Vec<$ty> = $toks[1..].iter().map(|t| ival(t).map(conv)).collect::<Result<_, _>>()?;
                let mut buf = BytesMut::new();
                enc::$m::encode_packed(tag, &vs, &mut buf);
                Ok(format!("{} L{}", hex(&buf), enc::$m::encoded_len_packed(tag, &vs)))
            }
            "mrg" => {
                let wt = wt_of($toks[0].parse().map_err(|_| "wt")?)?;
                let data = unhex($toks[1])?;
                let run = |mut buf: &mut dyn Buf| -> String {
                    let mut v: $ty = Default::default();
                    match enc::$m::merge(wt, &mut v, &mut buf, DecodeContext::default()) {
                        Ok(()) => format!("OK i{} R{}", back(v), buf.remaining()),
                        Err(e) => format!("ERR {}", errclass(&e)),
                    }
                };
                let mut buf = Bytes::from(data.clone());
                let main = run(&mut buf);
                let fails = layout_check(&data, &main, &run);
                Ok(main + &fails)
            }
            "mrgr" => {
                let wt = wt_of($toks[0].parse().map_err(|_| "wt")?)?;
                let data = unhex($toks[1])?;
                let run = |mut buf: &mut dyn Buf| -> String {
                    let mut vs: Vec<$ty> = Vec::new();
                    match enc::$m::merge_repeated(wt, &mut vs, &mut buf, DecodeContext::default()) {
                        Ok(()) => {
                            let mut s = String::from("OK [");
                            for v in &vs {
                                s.push_str(&format!(" i{}", back(*v)));
                            }
                            format!("{} ] R{}", s, buf.remaining())
                        }
                        Err(e) => format!("ERR {}", errclass(&e)),
                    }
                };
                let mut buf = Bytes::from(data.clone());
                let main = run(&mut buf);
                let fails = layout_check(&data, &main, &run);
                Ok(main + &fails)
            }
            "rt" => {
                let tag: u32 = $toks[0].parse().map_err(|_| "tag")?;
                let trail = unhex($toks[1])?;
                let v: $ty = conv(ival($toks[2])?);
                let mut buf = BytesMut::new();
                enc::$m::encode(tag, &v, &mut buf);
                let head = format!("{} L{}", hex(&buf), enc::$m::encoded_len(tag, &v));
                buf.extend_from_slice(&trail);
                let mut b = buf.freeze();
                let r = (|| -> Result<String, DecodeError> {
                    let (t, w) = enc::decode_key(&mut b)?;
                    let mut out: $ty = Default::default();
                    enc::$m::merge(w, &mut out, &mut b, DecodeContext::default())?;
                    Ok(format!("OK K{},{} i{} R{}", t, w as u8, back(out), b.remaining()))
                })();
                Ok(match r { Ok(s) => format!("{} {}", head, s), Err(e) => format!("{} ERR {}", head, errclass(&e)) })
            }
            "rtr" | "rtp" => {
                let packed = $cmd == "rtp";
                let tag: u32 = $toks[0].parse().map_err(|_| "tag")?;
                let trail = unhex($toks[1])?;
                let vs: Vec<$ty> = $toks[2..].iter().map(|t| ival(t).map(conv)).collect::<Result<_, _>>()?;
                let mut buf = BytesMut::new();
                let head;
                if packed {
                    enc::$m::encode_packed(tag, &vs, &mut buf);
                    head = format!("{} L{}", hex(&buf), enc::$m::encoded_len_packed(tag, &vs));
                } else {
                    enc::$m::encode_repeated(tag, &vs, &mut buf);
                    head = format!("{} L{}", hex(&buf), enc::$m::encoded_len_repeated(tag, &vs));
                }
                buf.extend_from_slice(&trail);
                let mut b = buf.freeze();
                let n = if packed { if vs.is_empty() { 0 } else { 1 } } else { vs.len() };
                let r = (|| -> Result<String, DecodeError> {
                    let mut out: Vec<$ty> = Vec::new();
                    for _ in 0..n {
                        let (_t, w) = enc::decode_key(&mut b)?;
                        enc::$m::merge_repeated(w, &mut out, &mut b, DecodeContext::default())?;
                    }
                    let mut s = String::from("OK [");
                    for v in &out {
                        s.push_str(&format!(" i{}", back(*v)));
                    }
                    Ok(format!("{} ] R{}", s, b.remaining()))
                })();
                Ok(match r { Ok(s) => format!("{} {}", head, s), Err(e) => format!("{} ERR {}", head, errclass(&e)) })
            }
            _ => Err(format!("unknown command for {}", $name)),
        }
    }};
}

macro_rules! len_module {
    ($name:expr, $cmd:expr, $toks:expr, $m:ident, $ty:ty, $conv:expr, $back:expr) => {{
        let conv = $conv;
        let back = $back;
        match $cmd {
            "enc" => {
                let tag: u32 = $toks[0].parse().map_err(|_| "tag")?;
                let v: $ty = conv(bval($toks[1])?)?;
                let mut buf = BytesMut::new();
                enc::$m::encode(tag, &v, &mut buf);
                Ok(format!("{} L{}", hex(&buf), enc::$m::encoded_len(tag, &v)))
            }
            "encr" => {
                let tag: u32 = $toks[0].parse().map_err(|_| "tag")?;
                let vs: Vec<$ty> = $toks[1..].iter().map(|t| bval(t).and_then(conv)).collect::<Result<_, _>>()?;
                let mut buf = BytesMut::new();
                enc::$m::encode_repeated(tag, &vs, &mut buf);
                Ok(format!("{} L{}", hex(&buf), enc::$m::encoded_len_repeated(tag, &vs)))
            }
            "mrg" => {
                let wt = wt_of($toks[0].parse().map_err(|_| "wt")?)?;
                let data = unhex($toks[1])?;
                let run = |mut buf: &mut dyn Buf| -> String {
                    let mut v: $ty = Default::default();
                    match enc::$m::merge(wt, &mut v, &mut buf, DecodeContext::default()) {
                        Ok(()) => format!("OK b{} R{}", hex(&back(&v)), buf.remaining()),
                        Err(e) => format!("ERR {}", errclass(&e)),
                    }
                };
                let mut buf = Bytes::from(data.clone());
                let main = run(&mut buf);
                let fails = layout_check(&data, &main, &run);
                Ok(main + &fails)
            }
            "mrgr" => {
                let wt = wt_of($toks[0].parse().map_err(|_| "wt")?)?;
                let data = unhex($toks[1])?;
                let run = |mut buf: &mut dyn Buf| -> String {
                    let mut vs: Vec<$ty> = Vec::new();
                    match enc::$m::merge_repeated(wt, &mut vs, &mut buf, DecodeContext::default()) {
                        Ok(()) => {
                            let mut s = String::from("OK [");
                            for v in &vs {
                                s.push_str(&format!(" b{}", hex(&back(v))));
                            }
                            format!("{} ] R{}", s, buf.remaining())
                        }
                        Err(e) => format!("ERR {}", errclass(&e)),
                    }
                };
                let mut buf = Bytes::from(data.clone());
                let main = run(&mut buf);
                let fails = layout_check(&data, &main, &run);
                Ok(main + &fails)
            }
            "rt" => {
                let tag: u32 = $toks[0].parse().map_err(|_| "tag")?;
                let trail = unhex($toks[1])?;
                let v: $ty = conv(bval($toks[2])?)?;
                let mut buf = BytesMut::new();
                enc::$m::encode(tag, &v, &mut buf);
                let head = format!("{} L{}", hex(&buf), enc::$m::encoded_len(tag, &v));
                buf.extend_from_slice(&trail);
                let mut b = buf.freeze();
                let r = (|| -> Result<String, DecodeError> {
                    let (t, w) = enc::decode_key(&mut b)?;
                    let mut out: $ty = Default::default();
                    enc::$m::merge(w, &mut out, &mut b, DecodeContext::default())?;
                    Ok(format!("OK K{},{} b{} R{}", t, w as u8, hex(&back(&out)), b.remaining()))
                })();
                Ok(match r { Ok(s) => format!("{} {}", head, s), Err(e) => format!("{} ERR {}", head, errclass(&e)) })
            }
            "rtr" => {
                let tag: u32 = $toks[0].parse().map_err(|_| "tag")?;
                let trail = unhex($toks[1])?;
                let vs: Vec<$ty> = $toks[2..].iter().map(|t| bval(t).and_then(conv)).collect::<Result<_, _>>()?;
                let mut buf = BytesMut::new();
                enc::$m::encode_repeated(tag, &vs, &mut buf);
                let head = format!("{} L{}", hex(&buf), enc::$m::encoded_len_repeated(tag, &vs));
                buf.extend_from_slice(&trail);
                let mut b = buf.freeze();
                let r = (|| -> Result<String, DecodeError> {
                    let mut out: Vec<$ty> = Vec::new();
                    for _ in 0..vs.len() {
                        let (_t, w) = enc::decode_key(&mut b)?;
                        enc::$m::merge_repeated(w, &mut out, &mut b, DecodeContext::default())?;
                    }
                    let mut s = String::from("OK [");
                    for v in &out {
                        s.push_str(&format!(" b{}", hex(&back(v))));
                    }
                    Ok(format!("{} ] R{}", s, b.remaining()))
                })();
                Ok(match r { Ok(s) => format!("{} {}", head, s), Err(e) => format!("{} ERR {}", head, errclass(&e)) })
            }
            _ => Err(format!("unknown command for {}", $name)),
        }
    }};
}

fn module_cmd(cmd: &str, module: &str, toks: &[&str]) -> Result<String, String> {
    match module {
        "bool" => num_module!(module, cmd, toks, bool, bool, |z: i128| z != 0, |v: bool| v as i128),
        "int32" => num_module!(module, cmd, toks, int32, i32, |z: i128| z as i32, |v: i32| v as i128),
        "int64" => num_module!(module, cmd, toks, int64, i64, |z: i128| z as i64, |v: i64| v as i128),
        "uint32" => num_module!(module, cmd, toks, uint32, u32, |z: i128| z as u32, |v: u32| v as i128),
        "uint64" => num_module!(module, cmd, toks, uint64, u64, |z: i128| z as u64, |v: u64| v as i128),
        "sint32" => num_module!(module, cmd, toks, sint32, i32, |z: i128| z as i32, |v: i32| v as i128),
        "sint64" => num_module!(module, cmd, toks, sint64, i64, |z: i128| z as i64, |v: i64| v as i128),
        "fixed32" => num_module!(module, cmd, toks, fixed32, u32, |z: i128| z as u32, |v: u32| v as i128),
        "fixed64" => num_module!(module, cmd, toks, fixed64, u64, |z: i128| z as u64, |v: u64| v as i128),
        "sfixed32" => num_module!(module, cmd, toks, sfixed32, i32, |z: i128| z as i32, |v: i32| v as i128),
        "sfixed64" => num_module!(module, cmd, toks, sfixed64, i64, |z: i128| z as i64, |v: i64| v as i128),
        "float" => num_module!(module, cmd, toks, float, f32, |z: i128| f32::from_bits(z as u32), |v: f32| v.to_bits() as i128),
        "double" => num_module!(module, cmd, toks, double, f64, |z: i128| f64::from_bits(z as u64), |v: f64| v.to_bits() as i128),
        "string" => len_module!(module, cmd, toks, string, String,
            |b: Vec<u8>| String::from_utf8(b).map_err(|_| "string value must be UTF-8".to_string()),
            |v: &String| -> Vec<u8> { v.as_bytes().to_vec() }),
        "faststr" => len_module!(module, cmd, toks, faststr, FastStr,
            |b: Vec<u8>| String::from_utf8(b).map(FastStr::from).map_err(|_| "faststr value must be UTF-8".to_string()),
            |v: &FastStr| -> Vec<u8> { v.as_bytes().to_vec() }),
        "bytes" => len_module!(module, cmd, toks, bytes, Bytes,
            |b: Vec<u8>| -> Result<Bytes, String> { Ok(Bytes::from(b)) },
            |v: &Bytes| -> Vec<u8> { v.to_vec() }),
        "bytesvec" => len_module!(module, cmd, toks, bytes, Vec<u8>,
            |b: Vec<u8>| -> Result<Vec<u8>, String> { Ok(b) },
            |v: &Vec<u8>| -> Vec<u8> { v.clone() }),
        _ => Err(format!("unknown module {}", module)),
    }
}

fn run_case(line: &str) -> Result<String, String> {
    let toks: Vec<&str> = line.split_whitespace().collect();
    if toks.is_empty() {
        return Ok(String::new());
    }
    match toks[0] {
        "vi" => {
            let data = unhex(toks[1])?;
            let show = |r: Result<u64, DecodeError>, rem: usize| match r {
                Ok(v) => format!("OK {} R{}", v, rem),
                Err(e) => format!("ERR {}", errclass(&e)),
            };
            let mut b = Bytes::from(data.clone());
            let r = enc::decode_varint(&mut b);
            let main = show(r, b.remaining());
            // other chunkings of the same bytes (slice path on a short chunk, slow path)
            let mut fails = String::new();
            for size in [1usize, 2, 5, 9, 10, 11] {
                let mut c = chunked(&data, size);
                let r = enc::decode_varint(&mut c);
                let s = show(r, c.remaining());
                if s != main {
                    fails = format!(" ORACLE-FAIL chunk size {} gives {}", size, s);
                }
            }
            let mut sl: &[u8] = &data;
            let r = enc::decode_varint(&mut sl);
            let s = show(r, sl.len());
            if s != main {
                fails = format!(" ORACLE-FAIL &[u8] gives {}", s);
            }
            Ok(main + &fails)
        }
        "ve" => {
            let v: u64 = toks[1].parse().map_err(|_| "u64")?;
            let mut buf = BytesMut::new();
            enc::encode_varint(v, &mut buf);
            Ok(format!("{} L{}", hex(&buf), enc::encoded_len_varint(v)))
        }
        "key" => {
            let tag: u32 = toks[1].parse().map_err(|_| "tag")?;
            let wt = wt_of(toks[2].parse().map_err(|_| "wt")?)?;
            let mut buf = BytesMut::new();
            enc::encode_key(tag, wt, &mut buf);
            Ok(format!("{} L{}", hex(&buf), enc::key_len(tag)))
        }
        "dkey" => {
            let data = unhex(toks[1])?;
            let run = |mut b: &mut dyn Buf| -> String {
                match enc::decode_key(&mut b) {
                    Ok((tag, wt)) => format!("OK {} {} R{}", tag, wt as u8, b.remaining()),
                    Err(e) => format!("ERR {}", errclass(&e)),
                }
            };
            let mut b = Bytes::from(data.clone());
            let main = run(&mut b);
            let fails = layout_check(&data, &main, &run);
            Ok(main + &fails)
        }
        "skip" => {
            let wt = wt_of(toks[1].parse().map_err(|_| "wt")?)?;
            let tag: u32 = toks[2].parse().map_err(|_| "tag")?;
            let data = unhex(toks[3])?;
            let mut b = Bytes::from(data.clone());
            let main = match enc::skip_field(wt, tag, &mut b, DecodeContext::default()) {
                Ok(()) => format!("OK R{}", b.remaining()),
                Err(e) => format!("ERR {}", errclass(&e)),
            };
            let mut c = chunked(&data, 3);
            let other = match enc::skip_field(wt, tag, &mut c, DecodeContext::default()) {
                Ok(()) => format!("OK R{}", c.remaining()),
                Err(e) => format!("ERR {}", errclass(&e)),
            };
            if other != main {
                return Ok(format!("{} ORACLE-FAIL chunked buffer gives {}", main, other));
            }
            Ok(main)
        }
        "ld" | "lendelim" => {
            let data = unhex(toks[1])?;
            let run = |b: &mut dyn Buf| -> String {
                match pilota::prost::decode_length_delimiter(b) {
                    Ok(v) => format!("OK {}", v),
                    Err(e) => format!("ERR {}", errclass(&e)),
                }
            };
            let mut b = Bytes::from(data.clone());
            let main = run(&mut b);
            let fails = layout_check(&data, &main, &run);
            Ok(main + &fails)
        }
        "enc" | "encr" | "encp" | "mrg" | "mrgr" | "rt" | "rtr" | "rtp" => module_cmd(toks[0], toks[1], &toks[2..]),
        other => Err(format!("unknown suite {}", other)),
    }
}

fn main() {
    std::panic::set_hook(Box::new(|_| {}));
    let stdin = std::io::stdin();
    let stdout = std::io::stdout();
    let mut out = std::io::BufWriter::new(stdout.lock());
    for line in stdin.lock().lines() {
        let line = match line {
            Ok(l) => l,
            Err(_) => break,
        };
        let base = LIVE.load(Ordering::Relaxed);
        PEAK.store(base, Ordering::Relaxed);
        let r = catch_unwind(AssertUnwindSafe(|| run_case(&line)));
        let peak = PEAK.load(Ordering::Relaxed).saturating_sub(base);
        let s = match r {
            Ok(Ok(s)) => {
                if s.is_empty() {
                    s
                } else {
                    format!("{} P{}", s, peak)
                }
            }
            Ok(Err(m)) => format!("BADCASE {}", m),
            Err(p) => {
                let msg = p
                    .downcast_ref::<String>()
                    .cloned()
                    .or_else(|| p.downcast_ref::<&str>().map(|s| s.to_string()))
                    .unwrap_or_default();
                format!("PANIC {}", msg.replace('\n', " "))
            }
        };
        let _ = writeln!(out, "{}", s);
        // core.run_lines attributes a hang / crash to the first unanswered line: what has been computed must be out
        let _ = out.flush();
    }
    let _ = out.flush();
}
