(* Vocabulary of the regenerated inventory of ownership-relevant escape hatches (Generated/PbUnsafe.v). *)
From PV Require Export Base.Bytes.
Open Scope Z_scope.

(* where a site was found *)
Inductive pb_src := SrcEncoding | SrcMessage | SrcTypes | SrcCodegen.

(* what the site is; anything the translator does not recognise is UUnknown <line> *)
Inductive usite :=
| UGetUnchecked (idx : Z)     (* unsafe { *bytes.get_unchecked(i) } in decode_varint_slice: a read, owns nothing *)
| UStringGuardBlock           (* the unsafe block of string::merge (String::as_mut_vec under a drop guard) *)
| UForgetDropGuard            (* mem::forget(drop_guard) in string::merge *)
| UFastStrUnchecked           (* unsafe { FastStr::from_bytes_unchecked(bytes) } in faststr::merge: moves the Bytes *)
| UUnknown (line : Z).

Definition pb_src_eqb (a b : pb_src) : bool :=
  match a, b with
  | SrcEncoding, SrcEncoding | SrcMessage, SrcMessage | SrcTypes, SrcTypes | SrcCodegen, SrcCodegen => true
  | _, _ => false
  end.

Definition usite_eqb (a b : usite) : bool :=
  match a, b with
  | UGetUnchecked i, UGetUnchecked j => i =? j
  | UStringGuardBlock, UStringGuardBlock | UForgetDropGuard, UForgetDropGuard | UFastStrUnchecked, UFastStrUnchecked => true
  | UUnknown i, UUnknown j => i =? j
  | _, _ => false
  end.
