(* C12 at the generated-code level -- asynchronous decoding equals in-memory decoding for every delivery
   schedule: the emitted decode_async (GenAsync.gen_decode_async: no TLengthProtocol calls, push-based lists, no
   unknown-field retention, TAsyncInputProtocol::skip) against the emitted decode (Gen.gen_decode), on top of the
   asynchronous primitive readers of PV.Thrift.Async (primitive level: PV.Properties.C12).  A stream is modelled
   by the chunks it delivers; tokio's read_exact / read_u8 contracts (trusted base) make every primitive read a
   function of the concatenation of the chunks, whatever the chunk boundaries and however many Pending wake-ups
   occur in between.  Statements only; lemmas in Proofs/AsyncGenP.v.  Every schema, every declared type, binary /
   binary-LE / compact. *)
From PV Require Import Proofs.HeaderP.
From PVGen Require Import Gen GenSpec GenAsync Proofs.TotalGenP Proofs.AsyncGenP.
Open Scope Z_scope.

(* the result depends on the stream only through the bytes it delivers *)
Theorem C12_gen_schedule_free : forall S p fuel t cs1 cs2,
  concat cs1 = concat cs2 -> gen_decode_async_stream S p fuel t cs1 = gen_decode_async_stream S p fuel t cs2.
Proof. exact gen_async_schedule_free. Qed.
Print Assumptions C12_gen_schedule_free.

(* read_exact's loop over the chunks hands out what a read of the concatenation hands out, or fails with
   UnexpectedEof exactly when the concatenation is too short *)
Theorem C12_read_exact_chunks : forall cs n,
  match pull n cs with
  | Some (a, cs') => take n (concat cs) = Some (a, concat cs')
  | None => take n (concat cs) = None
  end.
Proof. exact pull_concat. Qed.
Print Assumptions C12_read_exact_chunks.

(* same value, same stopping position: whenever the in-memory decoder returns [v] leaving state [s'] (in particular
   the unread rest of the buffer and the field-id context), the asynchronous decoder returns [v] and stops in the
   same state -- up to the pending-bool-field flag of the sync compact reader, which the async readers do not have
   ([erase] clears it).  It has pulled exactly the bytes the in-memory decoder consumed. *)
Theorem C12_gen_value : forall S p f t l rcx v s',
  r_pfield rcx = false -> Z.of_nat (length l) < 2 ^ 63 ->
  gen_decode S p f t (mkS l rcx) = Ok (v, s') ->
  gen_decode_async S p f t (mkS l rcx) = Ok (v, erase s').
Proof. exact gen_async_value. Qed.
Print Assumptions C12_gen_value.

Theorem C12_gen_value_top : forall S p t l v rest,
  Z.of_nat (length l) < 2 ^ 63 ->
  gen_decode_top S p t l = Ok (v, rest) -> gen_decode_async_top S p t l = Ok (v, rest).
Proof. exact gen_async_value_top. Qed.
Print Assumptions C12_gen_value_top.

(* composed with C02: every value of a declared type written by the emitted encoder is decoded asynchronously to
   the value (IDL defaults filled in), pulling exactly the bytes of the message and nothing of what follows *)
Theorem C12_gen_roundtrip : forall S p k t v,
  wf_schema S = true -> has_type S t v = true ->
  forall c, w_pend c = None ->
  exists ss, enc_ty S p k t v c = Ok (ss, c) /\
    forall fuel r rcx, (vsize (to_tval S t v) <= fuel)%nat -> idle rcx -> Z.of_nat (length (flat ss ++ r)) < 2 ^ 63 ->
      gen_decode_async S p fuel t (mkS (flat ss ++ r) rcx) = Ok (fill_defaults S t v, mkS r rcx).
Proof. exact gen_async_roundtrip. Qed.
Print Assumptions C12_gen_roundtrip.
