"""gen family -- schema evolution: writer schemas derived from a reader schema by edit scripts
(add / remove / retype / reorder fields, new union variants, requiredness changes), and `view W R v`:
the value a tolerant reader with schema R must produce from the encoding of v under W (C08, C13)."""
import copy
from . import gengen, genref

NEW_FIELD_TYPES = [
    ('bool',), ('i8',), ('i16',), ('i32',), ('i64',), ('double',), ('string',), ('binary',), ('uuid',),
    ('list', ('i32',)), ('list', ('string',)), ('list', ('bool',)), ('set', ('i64',)), ('map', ('string', ), ('i32',)),
    ('map', ('i32',), ('list', ('string',))), ('list', ('list', ('double',))), ('ref', 'inc.Pt'), ('list', ('ref', 'inc.Pt')),
    ('map', ('string',), ('ref', 'inc.Pt')), ('ref', 'inc.Color'), ('set', ('string',)), ('map', ('bool',), ('i8',)),
    ('list', ('uuid',)), ('map', ('i16',), ('double',)), ('list', ('binary',)),
]
NEW_IDS = [3, 9, 14, 15, 16, 17, 30, 31, 127, 128, 255, 256, 1000, 16383, 16384, 32766, 32767, 77, 500, 42, 6, 11]


class ViewError(Exception):
    """the reader must fail with an error (reason in args[0])"""


def key_type_names(sch):
    """declared types used (transitively) inside set elements / map keys: never evolved (views could merge keys)"""
    out = set()

    def mark(ty):
        if ty[0] in ('list', 'set'):
            mark(ty[1])
        elif ty[0] == 'map':
            mark(ty[1]); mark(ty[2])
        elif ty[0] == 'ref' and ty[1] not in out:
            out.add(ty[1])
            d = sch.types[ty[1]]
            if d['kind'] == 'typedef':
                mark(d['ty'])
            elif d['kind'] == 'struct':
                for f in d['fields']:
                    mark(f['ty'])
            elif d['kind'] == 'union':
                for v in d['variants']:
                    mark(v['ty'])

    def walk(ty, inkey):
        if ty[0] == 'list':
            walk(ty[1], inkey)
        elif ty[0] == 'set':
            mark(ty[1])
        elif ty[0] == 'map':
            mark(ty[1]); walk(ty[2], inkey)
    for n in sch.order:
        d = sch.types[n]
        if d['kind'] == 'typedef':
            walk(d['ty'], False)
        elif d['kind'] == 'struct':
            for f in d['fields']:
                walk(f['ty'], False)
        elif d['kind'] == 'union':
            for v in d['variants']:
                walk(v['ty'], False)
    return out


def reachable_decls(sch, tname):
    seen, order = set(), []

    def go(ty):
        if ty[0] in ('list', 'set'):
            go(ty[1])
        elif ty[0] == 'map':
            go(ty[1]); go(ty[2])
        elif ty[0] == 'ref' and ty[1] not in seen:
            seen.add(ty[1]); order.append(ty[1])
            d = sch.types[ty[1]]
            if d['kind'] == 'typedef':
                go(d['ty'])
            elif d['kind'] == 'struct':
                for f in d['fields']:
                    go(f['ty'])
            elif d['kind'] == 'union':
                for v in d['variants']:
                    go(v['ty'])
    go(('ref', tname))
    return order


def usable(sch, t):
    if t[0] == 'ref':
        return t[1] in sch.types
    if t[0] in ('list', 'set'):
        return usable(sch, t[1])
    if t[0] == 'map':
        return usable(sch, t[1]) and usable(sch, t[2])
    return True


def other_kind_type(rng, sch, ty, also=None):
    """a type whose wire kind differs from ty's (and from the reader's declared type `also`: re-typing that keeps
    the wire type is outside the property -- no Thrift implementation can notice it)"""
    ks = {genref.wire_kind(sch, ty)}
    if also is not None:
        ks.add(genref.wire_kind(sch, also))
    c = [t for t in NEW_FIELD_TYPES if genref.wire_kind(sch, t) not in ks and usable(sch, t)]
    return rng.choice(c)


_DEEP = {}


def deep_types(sch):
    """container types over a struct that holds a struct that holds something of variable width (an iterative skipper keeps a
    frame per open container / struct: such shapes exercise its stack), incl. a struct in KEY position"""
    key = id(sch.docs) if hasattr(sch, 'docs') else id(sch)
    if key in _DEEP:
        return _DEEP[key]
    def var_width(t, seen=()):
        t = sch.resolve(t)
        if t[0] in ('string', 'binary', 'list', 'set', 'map'):
            return True
        if t[0] == 'ref' and t[1] not in seen and sch.types[t[1]]['kind'] == 'struct':
            return any(var_width(f['ty'], seen + (t[1],)) for f in sch.types[t[1]]['fields'])
        return False
    out = []
    for n, d in sch.types.items():
        def reaches(t, target, seen):
            t = sch.resolve(t)
            if t[0] in ('list', 'set'):
                return reaches(t[1], target, seen)
            if t[0] == 'map':
                return reaches(t[1], target, seen) or reaches(t[2], target, seen)
            if t[0] != 'ref':
                return False
            if t[1] == target:
                return True
            if t[1] in seen:
                return False
            seen.add(t[1])
            dd = sch.types[t[1]]
            tys = [f['ty'] for f in dd.get('fields', [])] + [v['ty'] for v in dd.get('variants', [])] + ([dd['ty']] if dd['kind'] == 'typedef' else [])
            return any(reaches(x, target, seen) for x in tys)
        if d['kind'] != 'struct' or any(reaches(f['ty'], n, set()) for f in d['fields']):
            continue
        inner = [f for f in d['fields'] if sch.resolve(f['ty'])[0] == 'ref' and sch.types[sch.resolve(f['ty'])[1]]['kind'] == 'struct'
                 and var_width(f['ty']) and f['req'] == 'required']
        if inner:
            out += [('map', ('i32',), ('ref', n)), ('map', ('ref', n), ('i32',)), ('list', ('ref', n)), ('map', ('string',), ('list', ('ref', n)))]
        if len(out) >= 8:
            break
    _DEEP[key] = out
    return out


def evolve(rng, schR, tname, kinds=('add', 'add', 'add', 'remove', 'retype', 'reorder', 'req', 'variant', 'retype_variant'),
           n_edits=None, no_key=None, only=None):
    """-> (writer schema, list of edits).  Edits touch declarations reachable from tname."""
    W = schR.copy()
    no_key = no_key if no_key is not None else key_type_names(schR)
    targets = [n for n in reachable_decls(schR, tname) if schR.types[n]['kind'] in ('struct', 'union') and n not in no_key
               and (only is None or only(n))]
    edits = []
    if not targets:
        return W, edits
    for _ in range(n_edits if n_edits is not None else rng.choice([1, 2, 3, 4])):
        n = rng.choice(targets)
        d = W.types[n]
        kind = rng.choice(kinds)
        if d['kind'] == 'struct':
            used = {f['id'] for f in d['fields']} | {f['id'] for f in schR.types[n]['fields']}
            if kind in ('add', 'variant'):
                free = [i for i in NEW_IDS if i not in used]
                if not free:
                    continue
                t = rng.choice([t for t in NEW_FIELD_TYPES + deep_types(schR) if usable(W, t)])
                f = dict(id=rng.choice(free), name='added', req='optional' if t[0] == 'ref' else rng.choice(['required', 'optional', 'optional']), ty=t, lit=None,
                         default=None, const=None, doc=None, ann={}, idl_req='optional')
                d['fields'].insert(rng.randrange(len(d['fields']) + 1), f)
                edits.append(('add', n, f['id'], gengen.ty_txt(t)))
            elif kind == 'remove' and d['fields']:
                f = d['fields'].pop(rng.randrange(len(d['fields'])))
                edits.append(('remove', n, f['id']))
            elif kind in ('retype', 'retype_variant') and d['fields']:
                f = rng.choice(d['fields'])
                orig = [g for g in schR.types[n]['fields'] if g['id'] == f['id']]
                f['ty'] = other_kind_type(rng, W, f['ty'], orig[0]['ty'] if orig else None)
                f['default'] = None
                if f['ty'][0] == 'ref':
                    f['req'] = 'optional'       # keeps the writer type inhabited when the new type is (or reaches) the edited struct
                edits.append(('retype', n, f['id'], gengen.ty_txt(f['ty'])))
            elif kind == 'reorder':
                rng.shuffle(d['fields'])
                edits.append(('reorder', n))
            elif kind == 'req' and d['fields']:
                f = rng.choice(d['fields'])
                if f['req'] == 'optional' and gengen.recursive_ty(W, f['ty']):
                    continue            # a required field of struct type could make the writer type uninhabited (recursion)
                f['req'] = 'optional' if f['req'] == 'required' else 'required'
                edits.append(('req', n, f['id'], f['req']))
        else:
            used = {v['id'] for v in d['variants']} | {v['id'] for v in schR.types[n]['variants']}
            if kind in ('add', 'variant', 'req', 'reorder'):
                free = [i for i in NEW_IDS if i not in used]
                if not free:
                    continue
                t = rng.choice([t for t in NEW_FIELD_TYPES if usable(W, t)])
                v = dict(id=rng.choice(free), name='added', ty=t)
                d['variants'].insert(rng.randrange(len(d['variants']) + 1), v)
                edits.append(('variant', n, v['id'], gengen.ty_txt(t)))
            elif kind in ('retype', 'retype_variant') and d['variants']:
                v = rng.choice([x for x in d['variants'] if x['ty'] != ('void',)] or [None])
                if v is None:
                    continue
                orig = [g for g in schR.types[n]['variants'] if g['id'] == v['id'] and g['ty'] != ('void',)]
                v['ty'] = other_kind_type(rng, W, v['ty'], orig[0]['ty'] if orig else None)
                edits.append(('retype_variant', n, v['id'], gengen.ty_txt(v['ty'])))
            elif kind == 'remove' and len(d['variants']) > 1:
                v = d['variants'].pop(rng.randrange(len(d['variants'])))
                edits.append(('remove_variant', n, v['id']))
    return W, edits


def elem_compatible(W, R, tyW, tyR):
    """containers: do the element wire types the writer announces equal the ones the reader declares (hereditarily through
    nested containers)?  A mismatch keeps the FIELD's wire type (list / set / map) but re-types the elements: class
    container-element-retyped (finding F-08b)"""
    tw, tr = W.resolve(tyW), R.resolve(tyR)
    if tw[0] in ('list', 'set') and tr[0] == tw[0]:
        return genref.wire_kind(W, tw[1]) == genref.wire_kind(R, tr[1]) and elem_compatible(W, R, tw[1], tr[1])
    if tw[0] == 'map' and tr[0] == 'map':
        return (genref.wire_kind(W, tw[1]) == genref.wire_kind(R, tr[1]) and genref.wire_kind(W, tw[2]) == genref.wire_kind(R, tr[2])
                and elem_compatible(W, R, tw[1], tr[1]) and elem_compatible(W, R, tw[2], tr[2]))
    return True


def view(W, R, tyW, tyR, v, hits=None):
    """value the reader (schema R) must produce for the W-encoding of v; raises ViewError when it must fail.
    hits: a set collecting the known-finding classes the case falls in (e.g. 'union-variant-retyped')"""
    tw, tr = W.resolve(tyW), R.resolve(tyR)
    if tw[0] in ('list', 'set'):
        return [view(W, R, tw[1], tr[1], x, hits) for x in v]
    if tw[0] == 'map':
        return [(view(W, R, tw[1], tr[1], a, hits), view(W, R, tw[2], tr[2], b, hits)) for a, b in v]
    if tw[0] != 'ref':
        return v
    dw, dr = W.types[tw[1]], R.types[tr[1]]
    if dw['kind'] == 'enum':
        return v
    if dw['kind'] == 'struct':
        out = {}
        wf = {f['id']: f for f in dw['fields']}
        for f in dr['fields']:
            g = wf.get(f['id'])
            if g is not None and f['id'] in v and genref.wire_kind(W, g['ty']) == genref.wire_kind(R, f['ty']):
                if not elem_compatible(W, R, g['ty'], f['ty']):
                    # same field wire type, re-typed elements: a tolerant reader must not read them at the declared type;
                    # the oracle treats the field like one whose wire type differs (ignored)
                    if hits is not None:
                        hits.add('container-element-retyped')
                    continue
                out[f['id']] = view(W, R, g['ty'], f['ty'], v[f['id']], hits)
        missing = None
        for f in dr['fields']:
            if f['id'] not in out:
                if f['default'] is not None:
                    out[f['id']] = f['default']
                elif f['req'] == 'required' and missing is None:
                    missing = f['id']
        if missing is not None:
            raise ViewError('required field %d of %s is absent' % (missing, tr[1]))
        return out
    if dw['kind'] == 'union':
        wv = [x for x in dw['variants'] if x['id'] == v[0]][0]
        rv = [x for x in dr['variants'] if x['id'] == v[0]]
        void_first = bool(dr['variants']) and dr['variants'][0]['ty'] == ('void',)
        if rv and rv[0]['ty'] != ('void',) and wv['ty'] != ('void',):
            if genref.wire_kind(W, wv['ty']) == genref.wire_kind(R, rv[0]['ty']):
                return (v[0], view(W, R, wv['ty'], rv[0]['ty'], v[1], hits))
            if hits is not None:
                hits.add('union-variant-retyped')
        if wv['ty'] == ('void',) and void_first:
            return (dr['variants'][0]['id'], None)
        # no known variant with the declared wire type
        if void_first:
            return (dr['variants'][0]['id'], None)
        raise ViewError('union %s carries no known variant' % tr[1])
    raise ValueError(tyW)
