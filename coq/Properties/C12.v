(* C12 -- asynchronous decoding equals in-memory decoding for every delivery schedule (primitive
   level).  A stream is modelled by the byte string it delivers: tokio's read_exact / read_u8
   contracts (trusted base) make the result independent of chunk boundaries and Pending wake-ups;
   the correspondence run exercises the real readers under explicit schedules. *)
From PV Require Import Thrift.Async Proofs.HeaderP Proofs.RoundtripP Proofs.AsyncP Proofs.AsyncErrP.
Open Scope Z_scope.

(* same value, same stopping position: whenever the in-memory reader returns [v] leaving state [s']
   (in particular the unread rest of the buffer), the asynchronous reader returns [v] and has
   pulled exactly the same bytes -- it never reads past the end of the message *)
Theorem C12_value : forall p f ty l rcx v s',
  r_pfield rcx = false -> Z.of_nat (length l) < 2 ^ 63 ->
  read_val p f ty (mkS l rcx) = Ok (v, s') ->
  aread_val p f ty (mkS l rcx) = Ok (v, s').
Proof. exact async_value. Qed.
Print Assumptions C12_value.

(* composed with C01: what pilota writes is decoded asynchronously to the same value, consuming
   exactly the bytes of the message and nothing of what follows on the stream *)
Theorem C12_roundtrip : forall p k v c,
  wt v = true -> w_pend c = None ->
  exists ss, write_val p k v c = Ok (ss, c) /\
    forall fuel r, (vsize v <= fuel)%nat -> Z.of_nat (length (flat ss ++ r)) < 2 ^ 63 ->
      aread_val p fuel (ttype_of v) (mkS (flat ss ++ r) r0) = Ok (canon p v, mkS r r0).
Proof. exact async_roundtrip. Qed.
Print Assumptions C12_roundtrip.

(* the error direction: a reader started idle (no bool value pending, no bool field announced) on ANY
   byte string: whenever the in-memory decoder reports an error, the asynchronous decoder reports an
   error as well -- it never returns a value and never panics.  The two do not fail at the same
   place: the in-memory readers reject container sizes and byte-string lengths that exceed the
   remaining input, the asynchronous readers start reading and run out of stream (every value costs
   at least one byte; the compact bool carried by a field header is covered by an invariant on the
   pending value -- Proofs/AsyncErrP.v). *)
Theorem C12_error : forall p f ty l rcx e,
  idle rcx -> Z.of_nat (length l) < 2 ^ 63 ->
  read_val p f ty (mkS l rcx) = Err e ->
  exists e', aread_val p f ty (mkS l rcx) = Err e'.
Proof. exact async_error. Qed.
Print Assumptions C12_error.

(* with fuel beyond the length of the input, neither error is the model's out-of-fuel artefact *)
Theorem C12_error_fuel : forall p f ty l rcx e,
  idle rcx -> Z.of_nat (length l) < 2 ^ 63 -> (length l < f)%nat ->
  read_val p f ty (mkS l rcx) = Err e ->
  e <> EOutOfFuel /\ exists e', aread_val p f ty (mkS l rcx) = Err e' /\ e' <> EOutOfFuel.
Proof. exact async_error_fuel. Qed.
Print Assumptions C12_error_fuel.

(* both directions in one statement: same value and same stopping position on success, an error
   whenever the in-memory decoder reports one *)
Theorem C12_outcome : forall p f ty l rcx,
  idle rcx -> Z.of_nat (length l) < 2 ^ 63 ->
  match read_val p f ty (mkS l rcx) with
  | Ok (v, s') => aread_val p f ty (mkS l rcx) = Ok (v, s')
  | Err _ => exists e', aread_val p f ty (mkS l rcx) = Err e'
  | Panic _ => True
  end.
Proof. exact async_outcome. Qed.
Print Assumptions C12_outcome.

(* the asynchronous decoder on an arbitrary stream: never a panic, never out of fuel when the fuel
   exceeds the length of the stream, and a value costs at least one byte *)
Theorem C12_async_total : forall p f ty l rcx,
  r_pbool rcx = None ->
  match aread_val p f ty (mkS l rcx) with
  | Ok (_, s') => (blen s' + 1 <= length l)%nat
  | Err e => (length l < f)%nat -> e <> EOutOfFuel
  | Panic _ => False
  end.
Proof. exact async_total. Qed.
Print Assumptions C12_async_total.

(* ---- decoders built on the field loop ---- *)
From PV Require Import Thrift.Skip Thrift.Msg Thrift.AppMsg Proofs.TotalP Proofs.SkipP Proofs.FieldLoopP Proofs.AppAsyncP.

(* the skippers, both directions: with fuel beyond the length of the input, the asynchronous skipper
   stops where the in-memory skipper stops, and fails whenever it fails ([E] := True; the error
   direction needs the reader not to hold a stale bool value at entry -- [pend_ok] -- and gives that
   back -- [npb]); with [E] := False: the value direction from ANY state *)
Theorem C12_skip_async_eq : forall (E : Prop) p f d ty s,
  inv s -> (blen s < f)%nat -> (E -> pend_ok p ty s) ->
  match skip_val p f d ty s with
  | Ok (_, s') => askip_val p f d ty s = Ok (tt, s') /\ inv s' /\ (blen s' <= blen s)%nat /\ (E -> npb s')
  | Err _ => E -> exists e', askip_val p f d ty s = Err e'
  | Panic _ => True
  end.
Proof. exact skip_askip. Qed.
Print Assumptions C12_skip_async_eq.

(* ApplicationException::decode_async = decode.  Value direction: on EVERY byte string, from every
   reader state, with fuel beyond its length: the same (message, kind), the same stopping state *)
Theorem C12_app_exception_async_eq : forall p fuel l rcx r s',
  r_pfield rcx = false -> Z.of_nat (length l) < 2 ^ 63 -> (length l < fuel)%nat ->
  app_decode p fuel (mkS l rcx) = Ok (r, s') ->
  app_decode_async p fuel (mkS l rcx) = Ok (r, s').
Proof. exact app_async_value. Qed.
Print Assumptions C12_app_exception_async_eq.

(* value and error direction in one statement, reader started idle.  Binary / binary-LE: every byte
   string; compact: every byte string on which fields 1 / 2 are not announced as bool
   ([app_typed_top]: decode reads them with read_faststr / read_i32 whatever the announced type, and
   after a compact bool header that leaves the header's value parked -- Example
   app_async_untyped_example shows the two decoders still agreeing there; the error direction of
   that corner is not proved) *)
Theorem C12_app_exception_async_outcome : forall p fuel l rcx,
  idle rcx -> Z.of_nat (length l) < 2 ^ 63 -> (length l < fuel)%nat ->
  (p = PCompact -> app_typed_top p fuel (mkS l rcx)) ->
  match app_decode p fuel (mkS l rcx) with
  | Ok (r, s') => app_decode_async p fuel (mkS l rcx) = Ok (r, s')
  | Err _ => exists e', app_decode_async p fuel (mkS l rcx) = Err e'
  | Panic _ => True
  end.
Proof. exact app_async_outcome. Qed.
Print Assumptions C12_app_exception_async_outcome.

(* composed with C07_app_exception_tolerant: decode_async on what pilota wrote *)
Theorem C12_app_exception_written : forall p k fs c,
  wt (VStruct fs) = true -> w_pend c = None -> Forall app_field_ok fs ->
  exists ss, write_val p k (VStruct fs) c = Ok (ss, c) /\
    forall fuel r, (vsize (VStruct fs) <= fuel)%nat -> (length (flat ss ++ r) < fuel)%nat ->
      Z.of_nat (length (flat ss ++ r)) < 2 ^ 63 ->
      app_decode_async p fuel (mkS (flat ss ++ r) r0) = Ok (app_pick fs app_default_msg 0, mkS r r0).
Proof. exact app_exception_tolerant_async. Qed.
Print Assumptions C12_app_exception_written.

(* the asynchronous message envelope reader = the in-memory one on EVERY byte string and from every
   reader state: same envelope and stopping position, an error whenever the in-memory reader
   reports one (the compact readers disagree on the KIND of error for a bad protocol id / version:
   InvalidData vs BadVersion -- Example message_async_examples) *)
Theorem C12_message_async_eq : forall p l rcx,
  r_pfield rcx = false -> Z.of_nat (length l) < 2 ^ 63 ->
  match r_message_begin p (mkS l rcx) with
  | Ok (m, s') => a_message_begin p (mkS l rcx) = Ok (m, s')
  | Err _ => exists e', a_message_begin p (mkS l rcx) = Err e'
  | Panic _ => True
  end.
Proof. exact message_async_outcome. Qed.
Print Assumptions C12_message_async_eq.

(* ... and enveloped messages back to back on one reader (envelope + value, value + error direction) *)
Theorem C12_messages_async_eq : forall p fuel tys l rcx,
  idle rcx -> Z.of_nat (length l) < 2 ^ 63 ->
  match read_msgs p fuel tys (mkS l rcx) with
  | Ok (r, s') => aread_msgs p fuel tys (mkS l rcx) = Ok (r, s')
  | Err _ => exists e', aread_msgs p fuel tys (mkS l rcx) = Err e'
  | Panic _ => True
  end.
Proof. exact messages_async_outcome. Qed.
Print Assumptions C12_messages_async_eq.

(* ---- delivery schedules (Thrift/AsyncEv.v, Proofs/AsyncEvP.v) ----
   Above, a stream is the byte string it delivers.  Here it is a list of events -- chunks, empty
   chunks, Pending tokens, EOF -- and the primitive reads go through poll_read as tokio / rw_ext.rs
   write them (read_exact, read_varint_async byte by byte, both paths of read_exact_to_vec with any
   growth policy [step]).  For EVERY event list whose chunks concatenate to l: each primitive read
   returns what the byte-level read of Async.v returns on l (value, error, panic), and the events
   left in place deliver exactly the unread bytes (never reads past the value).  [ev_eq o1 o2]:
   o1 = Ok (x, s') -> o2 = Ok (x, abs s'), same Err, same Panic.  Every reader of Async.v is a
   bind-composition of these primitives and pure steps; the generated decoders are covered by
   fam/gen's C12_gen_schedule_free_partial over the same stream definitions. *)
From PV Require Import Thrift.AsyncEv Proofs.AsyncEvP.
Theorem C12_schedule_free : forall es l rcx step,
  bytes_of es = l ->
  (forall n, ev_eq (e_take n (mkE es rcx)) (a_take n (mkS l rcx))) /\
  (forall m, ev_eq (e_varint m (mkE es rcx)) (a_varint m (mkS l rcx))) /\
  (forall p, ev_eq (e_i16 p (mkE es rcx)) (a_i16 p (mkS l rcx))) /\
  (forall p, ev_eq (e_i32 p (mkE es rcx)) (a_i32 p (mkS l rcx))) /\
  (forall p, ev_eq (e_i64 p (mkE es rcx)) (a_i64 p (mkS l rcx))) /\
  (forall p, ev_eq (e_double p (mkE es rcx)) (a_double p (mkS l rcx))) /\
  (forall p, ev_eq (e_bytes step p (mkE es rcx)) (a_bytes p (mkS l rcx))).
Proof. exact schedule_free_prims. Qed.
Print Assumptions C12_schedule_free.

(* the WHOLE value reader and skipper over an event stream (Thrift/AsyncEvVal.v: event-level copies of
   every reader of Async.v -- ttype, bool, struct / field / collection / map headers, the loops,
   aread_val -- and of askip_val, built from the e_ primitives): for EVERY event list whose chunks
   concatenate to l -- any chunking, empty chunks, Pending tokens anywhere, any growth policy of
   read_exact_to_vec -- they return what aread_val / askip_val return on l (same value, same error,
   same panic) and leave the events that deliver exactly the unread bytes *)
From PV Require Import Thrift.AsyncEvVal Proofs.AsyncEvValP.
Theorem C12_value_schedule_free : forall step p f ty es l rcx,
  bytes_of es = l ->
  ev_eq (e_read_val step p f ty (mkE es rcx)) (aread_val p f ty (mkS l rcx)) /\
  forall d, ev_eq (e_skip_val step p f d ty (mkE es rcx)) (askip_val p f d ty (mkS l rcx)).
Proof. exact value_schedule_free. Qed.
Print Assumptions C12_value_schedule_free.

(* hence, with C12_outcome: the in-memory reader on l and the asynchronous reader under EVERY delivery
   schedule of l agree -- same value, same reader context, the unread events deliver exactly the bytes
   the in-memory reader left; an error whenever the in-memory reader reports one *)
Theorem C12_sync_async_every_schedule : forall step p f ty es l rcx,
  bytes_of es = l -> idle rcx -> Z.of_nat (length l) < 2 ^ 63 ->
  match read_val p f ty (mkS l rcx) with
  | Ok (v, s') => exists es', e_read_val step p f ty (mkE es rcx) = Ok (v, mkE es' (rc s')) /\ bytes_of es' = rbuf s'
  | Err _ => exists e', e_read_val step p f ty (mkE es rcx) = Err e'
  | Panic _ => True
  end.
Proof. exact sync_async_every_schedule. Qed.
Print Assumptions C12_sync_async_every_schedule.
