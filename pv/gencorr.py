"""gen family -- correspondence: compares a driver result line (emitted Rust code) with the result line of
the extracted Coq model (fam/gen/runner) for the same case line.  Canonicalisation: Debug text -> value tokens
under the schema, hash containers sorted, NaN payloads not distinguished in Debug text, errors compared by
coarse outcome (ok / err / panic), re-encoded bytes compared after reference decoding (hash order)."""
import os
import re
from . import gengen, genref, genrun


def _split_model(line):
    """model line -> dict(kind, val, rem, size, enc)"""
    d = dict(kind='bad')
    if line.startswith('ok '):
        m = re.match(r'ok (.*) REM (\d+)(?: SIZE (-?\d+) ENC ([0-9a-f-]+)| (ENCERR|ENCPANIC) (\w+))?$', line)
        if not m:
            return d
        d.update(kind='ok', val=m.group(1), rem=int(m.group(2)))
        if m.group(3) is not None:
            d.update(size=int(m.group(3)), enc=b'' if m.group(4) == '-' else bytes.fromhex(m.group(4)))
        elif m.group(5):
            d.update(encfail=m.group(5))
    elif line.startswith('err '):
        d.update(kind='err', cls=line.split(' ')[1])
    elif line.startswith('panic'):
        d.update(kind='panic')
    return d


def enc_differ(gb, ty, a, b, proto):
    """None if the two encodings of a value of type ty are the same message up to the ONE freedom an encoder has, the order of
    the elements of sets and of the entries of maps; else the reason.  Both byte strings are read schema-free as Thrift trees
    (genref.wire_tree: retained unknown fields included), every scalar is compared exactly, list elements and struct fields in
    wire order.  A byte string that is no well-formed message is a difference."""
    if a == b:
        return None
    p = genrun.ref_proto(proto)
    try:
        k = genref.wire_kind(gb.schema, ty)
        ta, na = genref.wire_tree(a, p, k)
        tb, nb = genref.wire_tree(b, p, k)
    except Exception as e:
        return 'an encoding is not a well-formed %s message (%r)' % (p, e)
    if a[na:] != b[nb:]:
        # (bytes after the message: an argument-type decoder of a keep build retains the stop bytes that follow it, finding F-13a,
        # and writes them back; they are compared exactly)
        return 'the bytes after the encoded message differ (%d of %d, %d of %d)' % (na, len(a), nb, len(b))
    if len(a) != len(b):
        return 'encoded lengths differ (%d, %d)' % (len(a), len(b))
    if ta != tb:
        return 'encoded messages differ beyond the order of set elements / map entries'
    return None


def compare_dec(gb, cfg, tname, proto, impl, model):
    """impl: genrun.Res ; model: dict from _split_model.  -> None or text"""
    ty = ('ref', tname)
    ik = impl.kind
    if proto == 'unchecked' and ik == 'crash' and model['kind'] in ('err', 'panic'):
        # the unchecked reader has no bounds checks: where the checked codec (the model) reports an error on
        # a malformed continuation, the debug build's UB precondition check aborts the process
        return None
    if ik in ('crash', 'hang', 'bad', 'badcase'):
        return 'implementation: %s' % impl.line[:80]
    if ik == 'encerr':
        ik = 'ok'
    if model['kind'] == 'bad':
        return 'model output not understood'
    if ik != model['kind']:
        return 'outcome: implementation %s, model %s' % (impl.line[:60], model['kind'] + ' ' + model.get('cls', ''))
    if ik != 'ok':
        return None
    got, why = genrun.value_text(gb, cfg, ty, impl.debug)
    if why:
        return why
    want = genrun.canon_nan_text(model['val'])
    # sets/maps were sorted before NaN canonicalisation on the model side: compare as multisets of tokens when NaN occurs
    if got != want and not ('dNaN' in got and sorted(got.split(' ')) == sorted(want.split(' '))):
        return 'value: ' + genrun.diff_text(got, want)
    if impl.rem != model['rem']:
        return 'remaining bytes: implementation %d, model %d' % (impl.rem, model['rem'])
    if impl.size is not None:
        if 'size' not in model:
            return 'model could not size/encode the decoded value (%s)' % model.get('encfail')
        if impl.size != model['size']:
            return 'size(): implementation %d, model %d' % (impl.size, model['size'])
        if len(impl.enc) != len(model['enc']):
            return 'encoded length: implementation %d, model %d' % (len(impl.enc), len(model['enc']))
        why = enc_differ(gb, ty, impl.enc, model['enc'], proto)
        if why:
            return 'encoded bytes: ' + why
    return None


def compare(gb, case, impl_line, model_line):
    op = case['line'].split(' ')[0]
    cfg, tname, proto = case['cfg'], case['type'], case['proto']
    if model_line is None or model_line.startswith('CRASH') or model_line.startswith('BADCASE'):
        return 'model runner: %s' % (model_line or '')[:100]
    if op in ('dec', 'renc'):
        return compare_dec(gb, cfg, tname, proto, genrun.Res(impl_line), _split_model(model_line))
    if op == 'dflt':
        mi = re.match(r'DEF (.*?) (SIZE \d+ ENC [0-9a-f-]+|ENCERR \w+.*?)((?: NOTE .*?)?) EMPTY (.*)$', impl_line or '')
        mm = re.match(r'DEF (.*?) (SIZE -?\d+ ENC [0-9a-f-]+|ENCERR \w+|ENCPANIC \w+) EMPTY (.*)$', model_line)
        if not mi:
            return 'implementation: %s' % (impl_line or '')[:80]
        if not mm:
            return 'model output not understood: ' + model_line[:80]
        ty = ('ref', tname)
        got, why = genrun.value_text(gb, cfg, ty, mi.group(1))
        if why:
            return why
        if got != genrun.canon_nan_text(mm.group(1)):
            return 'Default value: ' + genrun.diff_text(got, genrun.canon_nan_text(mm.group(1)))
        si, sm = mi.group(2).split(' '), mm.group(2).split(' ')
        if si[0] != sm[0] or (si[0] == 'SIZE' and si[1] != sm[1]):
            return 'size/encoding of the default: implementation %s, model %s' % (' '.join(si[:2]), ' '.join(sm[:2]))
        if si[0] == 'SIZE':
            why = enc_differ(gb, ty, b'' if si[3] == '-' else bytes.fromhex(si[3]), b'' if sm[3] == '-' else bytes.fromhex(sm[3]), proto)
            if why:
                return 'encoding of the default: ' + why
        if gb.schema.types[tname]['kind'] == 'struct':
            return compare_dec(gb, cfg, tname, proto, genrun.Res(mi.group(4)), _split_model(mm.group(3)))
        return None
    return None


# ------------------------------------------------------------------ the Coq specifications, evaluated by the runner
def run_spec(gb, lines):
    """model-only case lines (ops view / viewk / reenc: the extracted specification functions of EvoSpec.v / KeepSpec.v,
    applied to the tree the runtime's reader model finds in the bytes) -> output lines, or None without a runner"""
    from . import core, gencheck
    runner = gencheck.FAM.runner
    if not lines:
        return []
    if not os.path.exists(runner):
        return None
    return core.run_lines(runner, lines, args=[os.path.join(gb.out_dir, 'schema.txt')])


def same_text(got, want):
    """value tokens equal, up to the order of hash containers that hold a NaN (sorted before NaN canonicalisation)"""
    return got == want or ('dNaN' in got and sorted(got.split(' ')) == sorted(want.split(' ')))


def three_way_view(chk, gb, cases, outs):
    """C08: Coq EvoSpec.view == Python genevo.view (case['want']) == emitted decoder, case by case.  A disagreement of the
    two specifications is a BROKEN CHECK (reported with no_input; the returned set of case lines is exempted from the
    code oracle), never a violation of the code; Coq-vs-code differences
    are only counted here (the Python leg reports them as violations / known findings in `evaluate`)."""
    sel = [(c, o) for c, o in zip(cases, outs) if c['line'].startswith('dec ') and c.get('model', True) and 'want' in c]
    mouts = run_spec(gb, ['view ' + c['line'][4:] for c, _ in sel])
    if mouts is None:
        chk.cov['three_way'] = dict(status='model runner not available')
        return set()
    n, dis, impl_differs = 0, [], 0
    for (c, o), m in zip(sel, mouts):
        kind, a, b = c['want']
        want = b if b is not None else a
        d = _split_model(m or '')
        if d['kind'] not in ('ok', 'err'):
            dis.append((c, m, 'the Coq reader / view gives no result on a reference encoding'))
            continue
        n += 1
        why = None
        if kind == 'err':
            if d['kind'] != 'err':
                why = 'Python: must fail (%s); Coq view: %s' % (a, (m or '')[:120])
        elif d['kind'] != 'ok':
            why = 'Python: a value; Coq view: %s' % (m or '')[:120]
        else:
            got = genrun.canon_nan_text(d['val'])
            if not same_text(got, want):
                why = 'values: ' + genrun.diff_text(got, want)
            elif d['rem'] != c['restlen']:
                why = 'bytes after the tree: Coq reader %d, supplied %d' % (d['rem'], c['restlen'])
        if why:
            dis.append((c, m, why))
            continue
        res = genrun.Res(o)
        ik = 'ok' if res.kind == 'encerr' else res.kind
        if ik != d['kind']:
            impl_differs += 1
        elif ik == 'ok':
            gi, w = genrun.value_text(gb, c['cfg'], ('ref', c['type']), res.debug)
            if w or not same_text(gi, genrun.canon_nan_text(d['val'])):
                impl_differs += 1
    chk.cov['three_way'] = dict(what='Coq EvoSpec.view (extracted, on the tree read by Interp.read_val) = pv/genevo.view = emitted decoder',
                                compared=n, specs_disagree=len(dis), coq_spec_vs_code_differ=impl_differs)
    if dis:
        c, m, why = dis[0]
        chk.violation('check broken: the two specifications of the tolerant reader disagree (Coq EvoSpec.view vs pv/genevo.view) on %d '
                      'of %d cases: %s' % (len(dis), len(sel), why),
                      dict(kind='spec-disagreement', case=c, coq_output=(m or '')[:2000], python_want=c['want']), no_input=True)
    return set(c['line'] for c, _, _ in dis)


def three_way_keep(chk, gb, cases, outs, writer_schema):
    """C13: Coq KeepSpec.viewk == value the keep build decodes; bytes of Coq KeepSpec.reenc (written by the runtime writer
    model), read back under the writer schema by the reference decoder, == the value written (the Python oracle's
    expectation) == what the emitted encoder wrote.  Specification disagreements are a broken check."""
    sel = [(c, o) for c, o in zip(cases, outs)
           if c['line'].startswith('renc keep ') and c['proto'] == 'binary' and c.get('model', True) and c.get('want') is not None]
    vk = run_spec(gb, ['viewk ' + c['line'][5:] for c, _ in sel])
    re_ = run_spec(gb, ['reenc ' + c['line'][5:] for c, _ in sel])
    if vk is None or re_ is None:
        chk.cov['three_way'] = dict(status='model runner not available')
        return set()
    n, dis, val_differs, enc_differs, known = 0, [], 0, 0, 0
    for (c, o), mv, mr in zip(sel, vk, re_):
        ty = ('ref', c['type'])

        res = genrun.Res(o)
        m = re.match(r'ok ENC ([0-9a-f-]+)$', mr or '')
        if not m:
            dis.append((c, mr, 'Coq reenc gives no bytes on a reference encoding'))
            continue
        enc = b'' if m.group(1) == '-' else bytes.fromhex(m.group(1))
        n += 1
        W = writer_schema(gb, c)
        try:
            v2, k, notes = genref.decode(W, ty, enc, 'binary')
            back = gengen.show(W, ty, gengen.fill_defaults(W, ty, v2)) if (k == len(enc) and not notes) else 'not a message of the writer schema'
        except Exception as e:
            back = 'not a message of the writer schema: %r' % (e,)
        if back != c['want']:
            dis.append((c, mr, 'the full-schema reader of Coq reenc does not give the written value (%s)' % genrun.diff_text(back, c['want'])))
            continue
        if genrun.is_arg_swallow(gb.schema, 'keep', c['type'], 'sync'):
            known += 1          # finding F-13a: the code deviates from both specifications there (reported by `evaluate`)
            continue
        if res.kind == 'ok' and res.enc is not None:
            if enc_differ(gb, ty, res.enc, enc, 'binary'):
                enc_differs += 1
            d = _split_model(mv or '')
            gi, w = genrun.value_text(gb, 'keep', ty, res.debug)
            if d['kind'] != 'ok' or w or not same_text(gi, genrun.canon_nan_text(d['val'])):
                val_differs += 1
        else:
            enc_differs += 1
    chk.cov['three_way'] = dict(what='Coq KeepSpec.viewk = value decoded by the keep build; Coq KeepSpec.reenc, written by the runtime writer '
                                     'model and read back under the writer schema = value written (Python oracle) = bytes of the emitted encoder',
                                compared=n, specs_disagree=len(dis), coq_viewk_vs_code_differ=val_differs, coq_reenc_vs_code_differ=enc_differs,
                                code_legs_skipped_known_finding_F13a=known)
    if dis:
        c, mr, why = dis[0]
        chk.violation('check broken: the specifications of retention disagree (Coq KeepSpec.reenc vs the Python oracle) on %d of %d cases: %s'
                      % (len(dis), len(sel), why),
                      dict(kind='spec-disagreement', case=c, coq_output=(mr or '')[:2000], python_want=c['want']), no_input=True)
    return set(c['line'] for c, _, _ in dis)
