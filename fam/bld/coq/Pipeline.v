(* Pipeline.v -- executable model of the order-sensitive skeleton of pilota-build's emission (C17).

   Modelled code (read line by line at the pinned tree):
     pilota-build/src/codegen/mod.rs       write_items (451-525) incl. the nested fn write_stream,
                                           write_split_mod (527-588), generate_unique_name (595-603)
     pilota-build/src/codegen/pkg_tree.rs  from_pkgs, PkgNode::from_pkgs
     pilota-build/src/codegen/workspace.rs group_defs (56-166), create_crate (the part that decides what
                                           is written where)
   What is abstract (Section variables, all plain functions of their arguments):
     item        a CodegenItem (DefId + Direct/RePub)
     mod_path    Context::mod_path(def_id) (workspace mode: without the crate segment)
     render      the text write_item appends for one item, after line trimming / rustfmt (Builder::dedup
                 is not used by any configuration of the property, so `dup` stays empty and the text of an
                 item does not depend on its predecessors)
     kind_prefix, item_name   "message" / "enum" / ... and node.name() (split-mode file names)
     location, crate_name, repubs, dep_names   DefLocation of an item, Context::crate_name, the re-exported
                 defs and the sorted+dedup'd dependency crate names of a crate (functions of the crate's own
                 items in location_map order, computed by collect_def_ids over Fx (fixed-seed) maps)
   What is arbitrary (the permutation parameters; each is *any* function returning a permutation of its
   argument, which over-approximates "iteration order of a hash container with a per-process seed" and
   "order in which rayon workers pick up the groups"):
     pi_mods   std HashMap order of `mods` (into_group_map_by in write_items)
     pi_work   order in which the par_iter bodies run (sequentialised; bodies touch disjoint state)
     pi_keys   DashMap iteration order of `pkgs.iter()`
     pi_tree   std HashMap order of `groups` in from_pkgs, at every level of the tree
     pi_entry  std HashMap order of `entry_map` (workspace: into_group_map_by)
     pi_crates order in which the par_iter over `entry_deps` runs create_crate
   A hash map *value* is its content, kept as an association list sorted by key (a canonical form);
   its iteration order is a separate, arbitrary permutation.  A directory of the file system is the
   log of writes performed in it.  No proofs here. *)
From Coq Require Import String List Bool Arith Ascii DecimalString Permutation.
From PVBld Require Import Names.
Import ListNotations.
Open Scope string_scope.
Open Scope list_scope.

Definition path := list string.

(* ---- orders (Rust: str / slice Ord = bytewise lexicographic) --------------------------------- *)
Section Lex.
  Context {A : Type} (cmp : A -> A -> comparison).
  Fixpoint lex_cmp (p q : list A) : comparison :=
    match p, q with
    | [], [] => Eq
    | [], _ :: _ => Lt
    | _ :: _, [] => Gt
    | a :: p', b :: q' => match cmp a b with Eq => lex_cmp p' q' | c => c end
    end.
End Lex.

Definition ascii_cmp (a b : ascii) : comparison := Nat.compare (nat_of_ascii a) (nat_of_ascii b).
Definition str_cmp (s t : string) : comparison :=
  lex_cmp ascii_cmp (list_ascii_of_string s) (list_ascii_of_string t).
Definition path_cmp (p q : path) : comparison := lex_cmp str_cmp p q.

(* ---- stable insertion sort by key (Vec::sort_by_key / Itertools::sorted_by_key, sorted) ------------ *)
Section Sort.
  Context {A K : Type} (key : A -> K) (cmp : K -> K -> comparison).
  Definition leb (x y : K) : bool := match cmp x y with Gt => false | _ => true end.
  Fixpoint insert (x : A) (l : list A) : list A :=
    match l with
    | [] => [x]
    | y :: r => if leb (key x) (key y) then x :: l else y :: insert x r
    end.
  Fixpoint isort (l : list A) : list A :=
    match l with [] => [] | x :: r => insert x (isort r) end.
End Sort.

(* ---- Itertools::into_group_map_by: content of the resulting map ------------------------------------
   one entry per distinct key (listed here in first-occurrence order; the real order is a permutation
   parameter at every use), the values of a key in input order *)
Section Group.
  Context {A K : Type} (f : A -> K) (eqb : K -> K -> bool).
  Fixpoint first_keys (seen : list K) (l : list A) : list K :=
    match l with
    | [] => []
    | x :: r => if existsb (eqb (f x)) seen then first_keys seen r else f x :: first_keys (f x :: seen) r
    end.
  Definition group_by (l : list A) : list (K * list A) :=
    map (fun k => (k, filter (fun x => eqb (f x) k) l)) (first_keys [] l).
End Group.

Fixpoint path_eqb (p q : path) : bool :=
  match p, q with
  | [], [] => true
  | a :: p', b :: q' => (a =? b)%string && path_eqb p' q'
  | _, _ => false
  end.

(* Itertools::dedup: drops *consecutive* duplicates *)
Fixpoint dedup_adj (l : list string) : list string :=
  match l with
  | a :: ((b :: _) as r) => if (a =? b)%string then dedup_adj r else a :: dedup_adj r
  | _ => l
  end.

(* ---- hash map values as canonical association lists ------------------------------------------------- *)
(* pkgs.entry(k).or_default().push_str(s) *)
Fixpoint fmap_push (m : list (path * string)) (k : path) (s : string) : list (path * string) :=
  match m with
  | [] => [(k, s)]
  | (k', s') :: r =>
      match path_cmp k k' with
      | Eq => (k', (s' ++ s)%string) :: r
      | Lt => (k, s) :: m
      | Gt => (k', s') :: fmap_push r k s
      end
  end.

(* pkgs.remove(k) *)
Fixpoint fmap_remove (m : list (path * string)) (k : path) : option string * list (path * string) :=
  match m with
  | [] => (None, [])
  | (k', s') :: r =>
      if path_eqb k k' then (Some s', r)
      else let '(o, r') := fmap_remove r k in (o, (k', s') :: r')
  end.

(* a directory / crate is (re)written as a whole by one worker: last writer wins *)
Section Put.
  Context {K V : Type} (cmp : K -> K -> comparison).
  Fixpoint fmap_put (m : list (K * V)) (k : K) (v : V) : list (K * V) :=
    match m with
    | [] => [(k, v)]
    | (k', v') :: r =>
        match cmp k k' with
        | Eq => (k', v) :: r
        | Lt => (k, v) :: m
        | Gt => (k', v') :: fmap_put r k v
        end
    end.
End Put.

(* ---- PkgNode ------------------------------------------------------------------------------------------ *)
Inductive pkg_node := Node (p : path) (children : list pkg_node).
Definition node_path (n : pkg_node) : path := match n with Node p _ => p end.

Definition nonempty (p : path) : bool := match p with [] => false | _ => true end.
Definition head_seg (p : path) : string := match p with [] => "" | a :: _ => a end.
(* v.into_iter().filter(|p| p.len() > 1).map(|p| &p[1..]) *)
Definition tails (v : list path) : list path :=
  map (fun p => tl p) (filter (fun p => (1 <? length p)%nat) v).

Fixpoint max_len (l : list path) : nat :=
  match l with [] => 0 | p :: r => Nat.max (length p) (max_len r) end.

(* ---- decimal numbers, joins (lower case: Names.lower) ------------------------------------------------------------- *)
Definition string_of_nat (n : nat) : string := NilEmpty.string_of_uint (Nat.to_uint n).
Fixpoint join (sep : string) (l : list string) : string :=
  match l with
  | [] => ""
  | [a] => a
  | a :: r => (a ++ sep ++ join sep r)%string
  end.

(* fn generate_unique_name(existing_names, simple_name):
     let mut counter = 1; let mut name = simple_name;
     while existing_names.contains(lower(name)) { counter += 1; name = format!("{simple_name}_{counter}") }
   the candidates are pairwise distinct, so the loop ends within |existing| + 1 rounds *)
Fixpoint gun_loop (fuel : nat) (existing : list string) (simple : string) (counter : nat) (name : string) : string :=
  if mem (lower name) existing then
    match fuel with
    | 0 => name
    | S f => gun_loop f existing simple (S counter)
               (simple ++ "_" ++ string_of_nat (S counter))%string
    end
  else name.
Definition generate_unique_name (existing : list string) (simple : string) : string :=
  gun_loop (S (length existing)) existing simple 1 simple.

Definition dir_log := list (string * string).     (* (file name, content) in the order written *)

Section Pipeline.
  Variable item : Type.
  Variable mod_path : item -> path.
  Variable render : item -> string.
  Variable kind_prefix : item -> string.
  Variable item_name : item -> string.

  Variable pi_mods : list (path * list item) -> list (path * list item).
  Variable pi_work : list (path * list item) -> list (path * list item).
  Variable pi_keys : list path -> list path.
  Variable pi_tree : list (string * list path) -> list (string * list path).

  (* ---- pkg_tree.rs --------------------------------------------------------------------------------- *)
  Fixpoint from_pkgs (fuel : nat) (base : path) (pkgs : list path) : list pkg_node :=
    match fuel with
    | 0 => []
    | S f =>
        match pkgs with
        | [] => []
        | _ =>
            match filter nonempty pkgs with
            | [] => [Node base []]
            | ne =>
                map (fun kv => let p := base ++ [fst kv] in Node p (from_pkgs f p (tails (snd kv))))
                    (pi_tree (group_by head_seg String.eqb ne))
            end
        end
    end.

  (* PkgNode::from_pkgs *)
  Definition pkg_tree (keys : list path) : list pkg_node :=
    [Node [] (from_pkgs (S (max_len keys)) [] keys)].

  (* ---- write_stream: `for node in nodes.iter().sorted_by_key(|x| &x.path)` at every level ------------- *)
  Fixpoint sort_tree (n : pkg_node) : pkg_node :=
    match n with Node p cs => Node p (isort node_path path_cmp (map sort_tree cs)) end.

  Fixpoint last_seg (p : path) : option string :=
    match p with [] => None | [a] => Some a | _ :: r => last_seg r end.

  (* returns (text appended to `stream`, pkgs after the removals, did the function `return` early?) *)
  Fixpoint ws_node (n : pkg_node) (pk : list (path * string)) : string * list (path * string) * bool :=
    match n with
    | Node p cs =>
        let '(o, pk1) := fmap_remove pk p in
        let inner0 := match o with Some s => s | None => "" end in
        let '(inner_c, pk2) :=
          (fix ws_list (l : list pkg_node) (pk : list (path * string)) : string * list (path * string) :=
             match l with
             | [] => ("", pk)
             | c :: l' =>
                 let '(s, pk', stop) := ws_node c pk in
                 if stop then (s, pk')
                 else let '(s', pk'') := ws_list l' pk' in ((s ++ s')%string, pk'')
             end) cs pk1 in
        let inner := (inner0 ++ inner_c)%string in
        match last_seg p with
        | None => (inner, pk2, true)
        | Some name =>
            if (name =? "")%string then (inner, pk2, true)
            else (("
pub mod " ++ display name ++ " {
" ++ inner ++ "
}
")%string, pk2, false)
        end
    end.

  Definition write_stream (pk : list (path * string)) (nodes : list pkg_node) : string :=
    (fix ws_list (l : list pkg_node) (pk : list (path * string)) : string :=
       match l with
       | [] => ""
       | c :: l' =>
           let '(s, pk', stop) := ws_node c pk in
           if stop then s else (s ++ ws_list l' pk')%string
       end) (isort node_path path_cmp (map sort_tree nodes)) pk.

  (* ---- one par_iter body ---------------------------------------------------------------------------- *)
  (* not split: for def_id in def_ids { this.write_item(&mut stream, *def_id, &mut dup) } *)
  Definition render_group (its : list item) : string := String.concat "" (map render its).

  (* split: write_split_mod.  Returns the directory's write log and the text pushed to `stream`. *)
  Definition simple_name (it : item) : string := (kind_prefix it ++ "_" ++ item_name it)%string.

  Fixpoint split_items (existing : list string) (its : list item) : dir_log * string :=
    match its with
    | [] => ([], "")
    | it :: r =>
        let unique := generate_unique_name existing (simple_name it) in
        let file_name := (unique ++ ".rs")%string in
        let '(log, mod_stream) := split_items (lower unique :: existing) r in
        ((file_name, render it) :: log,
         ("include!(""" ++ file_name ++ """);
" ++ mod_stream)%string)
    end.

  (* mod_file_name: "mod.rs" for the root module (repair of finding F-14f; before it "/mod.rs", an absolute path),
     otherwise <p joined by '/'>/mod.rs *)
  Definition mod_file_name (p : path) : string :=
    match p with [] => "mod.rs" | _ => (join "/" p ++ "/mod.rs")%string end.

  Definition split_group (p : path) (its : list item) : dir_log * string :=
    let '(log, mod_stream) := split_items [] its in
    (log ++ [("mod.rs", mod_stream)],
     ("include!(""" ++ mod_file_name p ++ """);
")%string).

  (* ---- write_items ------------------------------------------------------------------------------------ *)
  (* file system below base_dir: directory (as a module path) -> write log; the directory of group p is
     base_dir/p[0]/p[1]/..., written by the one worker that runs p's body *)
  Definition fs := list (path * dir_log).

  Definition write_items (split : bool) (items : list item) : string * fs :=
    let mods := pi_mods (group_by mod_path path_eqb items) in
    let work := pi_work mods in
    let step (st : list (path * string) * fs) (g : path * list item) :=
      let '(pkgs, files) := st in
      if split then
        let '(log, s) := split_group (fst g) (snd g) in
        (fmap_push pkgs (fst g) s, fmap_put path_cmp files (fst g) log)
      else (fmap_push pkgs (fst g) (render_group (snd g)), files) in
    let '(pkgs, files) := fold_left step work ([], []) in
    let keys := pi_keys (map fst pkgs) in
    (write_stream pkgs (pkg_tree keys), files).

  (* ---- workspace.rs ------------------------------------------------------------------------------------- *)
  Variable loc : Type.
  Variable loc_eqb : loc -> loc -> bool.
  Variable location : item -> loc.
  Variable crate_name : loc -> string.
  Variable repubs : loc -> list item -> list item.
  Variable dep_names : loc -> list item -> list string.
  Variable pi_entry : list (loc * list item) -> list (loc * list item).
  Variable pi_crates : list (loc * list item) -> list (loc * list item).

  (* create_crate: Cargo.toml dependencies, gen.rs (and the split files below <crate>/src) *)
  Definition crate_out := (list string * (string * fs))%type.
  Definition create_crate (split : bool) (k : loc) (v : list item) : crate_out :=
    (dep_names k v, write_items split (v ++ repubs k v)).

  (* group_defs: returns (the `members = [...]` lines of the root Cargo.toml, crate directory -> content) *)
  Definition workspace (split : bool) (lm_items : list item) : list string * list (string * crate_out) :=
    let entry_map := pi_entry (group_by location loc_eqb lm_items) in
    let members :=
      isort (fun s => s) str_cmp
        (dedup_adj (map (fun kv => ("    """ ++ crate_name (fst kv) ++ """")%string) entry_map)) in
    let crates :=
      fold_left (fun m kv => fmap_put str_cmp m (crate_name (fst kv)) (create_crate split (fst kv) (snd kv)))
                (pi_crates entry_map) [] in
    (members, crates).
End Pipeline.

(* every permutation parameter is a function that returns a permutation of its argument *)
Definition perm_fun {A} (pi : list A -> list A) : Prop := forall l, Permutation (pi l) l.

(* layout predicted for the correspondence check: the sequence of module paths in the order in which
   write_stream opens them, given the set of module paths that received items *)
Fixpoint layout_node (n : pkg_node) : list path :=
  match n with
  | Node p cs => p :: flat_map layout_node cs
  end.
Definition layout (keys : list path) : list path :=
  flat_map layout_node
    (isort node_path path_cmp
       (map sort_tree (pkg_tree (fun l => l) keys))).

(* per-module item sequence predicted for the correspondence check: the groups of write_items in the
   order write_stream reaches them (only modules that received items carry text) *)
Section Layout.
  Variable item : Type.
  Variable mod_path : item -> path.
  Definition layout_items (items : list item) : list (path * list item) :=
    let groups := group_by mod_path path_eqb items in
    flat_map (fun p => match find (fun g => path_eqb (fst g) p) groups with
                       | Some g => [g]
                       | None => []
                       end)
             (layout (map fst groups)).
End Layout.

(* ---- protobuf front end: Lower::lower_message (parser/protobuf/mod.rs) ------------------------------
   A message contributes its own item and, when it has nested items, a module holding
     the oneof enums (declaration order) ++ the lowered nested messages ++ the nested enums.
   `nested_messages` is an AHashMap (fully qualified nested name -> descriptor) built by `collect`
   (a later duplicate key overwrites an earlier one); its iteration order is the permutation parameter
   pi_nested.
     repaired code (fix F-17a, /repo commit 2235d86): the nested messages are taken from
       `message.nested_type` in declaration order; the map is only *looked up* (lower_ty: is the field's
       type a map-entry message?)                                                     -> lower_message
     pinned code: the nested messages were taken from `nested_messages.iter()`       -> lower_message_pinned
   Only what matters to ordering is kept of a descriptor: name, map_entry option, the type names of the
   fields, the oneof names, the nested messages, the nested enum names. *)
Inductive pmsg :=
  PMsg (name : string) (map_entry : bool) (field_types : list string) (oneofs : list string)
       (nested : list pmsg) (enums : list string).
Definition pm_name (m : pmsg) : string := match m with PMsg n _ _ _ _ _ => n end.
Definition pm_map_entry (m : pmsg) : bool := match m with PMsg _ b _ _ _ _ => b end.

Inductive pitem :=
| PIMessage (name : string) (field_is_map : list bool)
| PIOneof (name : string)
| PIEnum (name : string)
| PIMod (name : string) (items : list pitem).

(* content of `iter.collect::<AHashMap<_,_>>()`: one entry per key, a later pair replaces the value of an
   earlier one (listed in first-insertion order; the real order is pi_nested) *)
Fixpoint amap_put {V} (m : list (string * V)) (k : string) (v : V) : list (string * V) :=
  match m with
  | [] => [(k, v)]
  | (k', v') :: r => if (k =? k')%string then (k', v) :: r else (k', v') :: amap_put r k v
  end.
Definition amap_collect {V} (l : list (string * V)) : list (string * V) :=
  fold_left (fun m kv => amap_put m (fst kv) (snd kv)) l [].

Section Nested.
  Variable pi_nested : list (string * pmsg) -> list (string * pmsg).

  (* nested_messages.get(name), by scanning the entries in the order the table happens to hold them *)
  Definition amap_get (table : list (string * pmsg)) (k : string) : option pmsg :=
    option_map snd (find (fun kv => (fst kv =? k)%string) table).

  (* lower_ty: Map(..) iff the type name is a nested map-entry message, otherwise Path(..) *)
  Definition field_is_map (table : list (string * pmsg)) (type_name : string) : bool :=
    match amap_get table type_name with Some m => pm_map_entry m | None => false end.

  Definition mk_items (name : string) (fmap : list bool) (nested_items : list pitem) : list pitem :=
    match nested_items with
    | [] => [PIMessage name fmap]
    | _ => [PIMessage name fmap; PIMod name nested_items]
    end.

  (* repaired code *)
  Fixpoint lower_message (m : pmsg) : list pitem :=
    match m with
    | PMsg name _ fts oneofs nested enums =>
        let table := pi_nested (amap_collect (map (fun n => (pm_name n, n)) nested)) in
        let lowered :=
          (fix go (l : list pmsg) : list pitem :=
             match l with
             | [] => []
             | n :: r => if pm_map_entry n then go r else lower_message n ++ go r
             end) nested in
        mk_items name (map (field_is_map table) fts)
                 (map PIOneof oneofs ++ lowered ++ map PIEnum enums)
    end.

  (* pinned code: `nested_messages.iter().filter(|(_, m)| !m.options.has_map_entry()).for_each(lower_message)`;
     the values come out of the table, so the recursion is on fuel (nesting depth + 1 suffices) *)
  Fixpoint lower_message_pinned (fuel : nat) (m : pmsg) : list pitem :=
    match fuel with
    | 0 => []
    | S f =>
        match m with
        | PMsg name _ fts oneofs nested enums =>
            let table := pi_nested (amap_collect (map (fun n => (pm_name n, n)) nested)) in
            let lowered :=
              flat_map (fun kv => lower_message_pinned f (snd kv))
                       (filter (fun kv => negb (pm_map_entry (snd kv))) table) in
            mk_items name (map (field_is_map table) fts)
                     (map PIOneof oneofs ++ lowered ++ map PIEnum enums)
        end
    end.
End Nested.

(* ---- the layout the model predicts for a concrete list of codegen items (correspondence check) --------
   an item is (module path, (kind prefix, (Display of the node name, emitted name)));  `extra` = module paths
   that exist for another reason (workspace mode: modules holding only re-exports).  Result: the modules in
   the order write_stream opens them, each with the names of its items in emission order (single file) or
   with the file names write_split_mod creates, in creation order (split). *)
Definition litem : Type := (path * (string * (string * string)))%type.
Definition layout_pred (split : bool) (extra : list path) (items : list litem) : list (path * list string) :=
  let groups := group_by (@fst path _) path_eqb items in
  map (fun p =>
         (p, match find (fun g => path_eqb (fst g) p) groups with
             | Some g =>
                 if split then
                   map fst (fst (split_group litem (fun _ => "") (fun it => fst (snd it)) (fun it => fst (snd (snd it)))
                                             (fst g) (snd g)))
                 else map (fun it => snd (snd (snd it))) (snd g)
             | None => []
             end))
      (layout (map fst groups ++ extra)).
