(* Dedup.v -- Builder::dedup: Codegen::duplicate and the scratch map of Codegen::write_items (C17).

   Modelled code: pilota-build/src/codegen/mod.rs
     Codegen::duplicate (194-207)     name = rust_name(def_id); not in `dedups` -> false;  otherwise look in dup[name] for an id that
                                      def_id_equal's the item -> true (drop); else push the id -> false
     Codegen::write_item (135-...)    `if !self.duplicate(dup, item.def_id) { ... write ... }`
     Codegen::write_items (452-525)   `let mut dup = AHashMap::default();` INSIDE the body of `mods.par_iter().for_each_with`: one map per
                                      module group; the items of a group are written in the group's own order (both split settings)
   The AHashMap is only reached through entry(name) (a lookup), never iterated; each value is a Vec in insertion order.
   Abstract: [name] (the bare Rust name of an item), [equal] (dedup.rs def_id_equal: structural comparison).  No proofs here. *)
From Coq Require Import String List Bool Arith.
From PVBld Require Import Names Pipeline.
Import ListNotations.

Section Dedup.
  Variable item : Type.
  Variable name : item -> string.
  Variable equal : item -> item -> bool.
  Variable dedups : list string.

  (* the map: name -> ids pushed so far (oldest first) *)
  Definition dupmap := list (string * list item).
  Fixpoint dm_get (m : dupmap) (k : string) : list item :=
    match m with [] => [] | (k', v) :: r => if String.eqb k k' then v else dm_get r k end.
  Fixpoint dm_push (m : dupmap) (k : string) (x : item) : dupmap :=
    match m with
    | [] => [(k, [x])]
    | (k', v) :: r => if String.eqb k k' then (k', (v ++ [x])%list) :: r else (k', v) :: dm_push r k x
    end.

  (* Codegen::duplicate: (is a duplicate?, map afterwards) *)
  Definition duplicate (m : dupmap) (x : item) : bool * dupmap :=
    if negb (mem (name x) dedups) then (false, m)
    else if existsb (fun y => equal y x) (dm_get m (name x)) then (true, m)
    else (false, dm_push m (name x) x).

  (* the items of a sequence that are written, threading one map *)
  Fixpoint written (m : dupmap) (its : list item) : list item * dupmap :=
    match its with
    | [] => ([], m)
    | x :: r =>
        let '(d, m1) := duplicate m x in
        let '(w, m2) := written m1 r in
        (if d then w else x :: w, m2)
    end.

  (* write_items as it is: a fresh map per module group *)
  Definition written_group (its : list item) : list item := fst (written [] its).
  Definition written_groups (groups : list (list item)) : list (list item) := map written_group groups.

  (* the alternative in which one map is shared by the groups a worker processes one after the other (what seeded change C17c did):
     [order] = the order in which the groups happen to be processed *)
  Fixpoint written_shared (m : dupmap) (groups : list (list item)) : list (list item) :=
    match groups with
    | [] => []
    | g :: r => let '(w, m1) := written m g in w :: written_shared m1 r
    end.
End Dedup.

(* ---- the layout the model predicts when Builder::dedup is on (correspondence check): an item is a Pipeline.litem plus the key of
   its structural class (computed by the harness from the rir: kind, name, field ids and types); the name compared with `dedups` is
   the emitted one; every module group is filtered with its own map, then laid out as before *)
Definition litemk : Type := (litem * string)%type.
Definition layout_pred_dedup (split : bool) (extra : list path) (dedups : list string) (items : list litemk) : list (path * list string) :=
  let groups := group_by (fun it : litemk => fst (fst it)) path_eqb items in
  let kept := flat_map (fun g => written_group litemk (fun it => snd (snd (snd (fst it)))) (fun a b => String.eqb (snd a) (snd b)) dedups (snd g)) groups in
  (* split mode: write_split_mod creates the file of EVERY item of the group and lists it in mod.rs; write_item merely leaves the
     file of a duplicate empty -- the file names (and the _2 suffixes of generate_unique_name) are those of the unfiltered group *)
  if split then layout_pred split extra (map fst items) else layout_pred split extra (map fst kept).
