(* Facts about the REGENERATED tables (Generated/ThriftConsts.v), all by computation over
   the finite enums: a changed table entry in the Rust source breaks these. *)
From PV Require Import Thrift.Interp.
Open Scope Z_scope.

Lemma ttype_code_range t : 0 <= ttype_code t < 256.
Proof. destruct t; vm_compute; split; congruence. Qed.

Lemma ttype_of_byte_code t : ttype_of_byte (ttype_code t) = Some t.
Proof. destruct t; reflexivity. Qed.

Lemma ttype_code_inj a b : ttype_code a = ttype_code b -> a = b.
Proof. destruct a, b; vm_compute; congruence. Qed.

Lemma ttype_code_stop : ttype_code TStop = 0.
Proof. reflexivity. Qed.

Lemma ctype_code_range c : 0 <= ctype_code c < 16.
Proof. destruct c; vm_compute; split; congruence. Qed.

Lemma ctype_of_code_code c : ctype_of_code (ctype_code c) = Some c.
Proof. destruct c; reflexivity. Qed.

Lemma ctype_ttype_inv t c : ctype_of_ttype t = Some c -> ttype_of_ctype c = Some t.
Proof. destruct t; cbn; intros H; inversion H; reflexivity. Qed.

Lemma ctype_of_ttype_some t : elem_ttype_ok t = true -> exists c, ctype_of_ttype t = Some c.
Proof. destruct t; cbn; intros H; try discriminate; eexists; reflexivity. Qed.

Lemma ctype_nonbool t c : ctype_of_ttype t = Some c -> t <> TBool ->
  (ctype_code c =? ctype_code CBooleanTrue) = false /\ (ctype_code c =? ctype_code CBooleanFalse) = false.
Proof. destruct t; cbn; intros H Hn; inversion H; subst; try congruence; split; reflexivity. Qed.

Lemma ctype_stop_code : ctype_code CStop = 0.
Proof. reflexivity. Qed.

Lemma ctype_bool_codes : ctype_code CBooleanTrue = 1 /\ ctype_code CBooleanFalse = 2.
Proof. split; reflexivity. Qed.

Lemma ctype_nonstop t c : ctype_of_ttype t = Some c -> t <> TStop -> ttype_of_ctype c <> Some TStop.
Proof. destruct t; cbn; intros H Hn; inversion H; subst; cbn; congruence. Qed.

Lemma ttype_of_val_ok v : elem_ttype_ok (ttype_of v) = true.
Proof. destruct v; reflexivity. Qed.

Lemma ttype_of_nibble_code t c : ctype_of_ttype t = Some c -> ttype_of_nibble (ctype_code c) = Ok t.
Proof.
  intros H. unfold ttype_of_nibble. rewrite ctype_of_code_code.
  rewrite (ctype_ttype_inv _ _ H). reflexivity.
Qed.
