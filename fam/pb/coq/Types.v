(* Enumerations shared by the protobuf models and the regenerated tables
   (Generated/PbConsts.v is produced by tools/extract_pb.py and imports this file). *)
From PV Require Export Base.Bytes.
Open Scope Z_scope.

(* pilota::prost::encoding::WireType *)
Inductive wire_type := Varint | SixtyFourBit | LengthDelimited | StartGroup | EndGroup | ThirtyTwoBit.

Definition wire_type_eqb (a b : wire_type) : bool :=
  match a, b with
  | Varint, Varint | SixtyFourBit, SixtyFourBit | LengthDelimited, LengthDelimited
  | StartGroup, StartGroup | EndGroup, EndGroup | ThirtyTwoBit, ThirtyTwoBit => true
  | _, _ => false
  end.

(* protobuf::descriptor::field_descriptor_proto::Type (the declared field types of a .proto) *)
Inductive proto_type :=
| TYPE_DOUBLE | TYPE_FLOAT | TYPE_INT64 | TYPE_UINT64 | TYPE_INT32 | TYPE_FIXED64 | TYPE_FIXED32
| TYPE_BOOL | TYPE_STRING | TYPE_GROUP | TYPE_MESSAGE | TYPE_BYTES | TYPE_UINT32 | TYPE_ENUM
| TYPE_SFIXED32 | TYPE_SFIXED64 | TYPE_SINT32 | TYPE_SINT64.

(* pilota_build::ir::TyKind (front-end types; containers and paths carry no payload here) *)
Inductive ir_kind :=
| IrString | IrVoid | IrU8 | IrBool | IrBytes | IrI8 | IrI16 | IrI32 | IrI64 | IrUInt64 | IrUInt32
| IrF32 | IrF64 | IrUuid | IrVec | IrSet | IrMap | IrPath.

(* pilota_build::middle::ty::TyKind *)
Inductive ty_kind :=
| KString | KFastStr | KVoid | KU8 | KBool | KBytesVec | KBytes | KI8 | KI16 | KI32 | KI64
| KUInt32 | KUInt64 | KF32 | KF64 | KOrderedF64 | KUuid | KVec | KSet | KBTreeSet | KMap | KBTreeMap
| KArc | KPath.

Definition ty_kind_eqb (a b : ty_kind) : bool :=
  match a, b with
  | KString, KString | KFastStr, KFastStr | KVoid, KVoid | KU8, KU8 | KBool, KBool
  | KBytesVec, KBytesVec | KBytes, KBytes | KI8, KI8 | KI16, KI16 | KI32, KI32 | KI64, KI64
  | KUInt32, KUInt32 | KUInt64, KUInt64 | KF32, KF32 | KF64, KF64 | KOrderedF64, KOrderedF64
  | KUuid, KUuid | KVec, KVec | KSet, KSet | KBTreeSet, KBTreeSet | KMap, KMap
  | KBTreeMap, KBTreeMap | KArc, KArc | KPath, KPath => true
  | _, _ => false
  end.

(* pilota_build::tags::protobuf::ProstType *)
Inductive prost_tag := PSInt32 | PSInt64 | PFixed32 | PFixed64 | PSFixed32 | PSFixed64.

Definition prost_tag_eqb (a b : prost_tag) : bool :=
  match a, b with
  | PSInt32, PSInt32 | PSInt64, PSInt64 | PFixed32, PFixed32 | PFixed64, PFixed64
  | PSFixed32, PSFixed32 | PSFixed64, PSFixed64 => true
  | _, _ => false
  end.

(* the codec modules of pilota::prost::encoding that generated code may name *)
Inductive codec_module :=
| MString | MFastStr | MBool | MBytes | MSFixed32 | MSInt32 | MInt32 | MSFixed64 | MSInt64 | MInt64
| MFixed32 | MUInt32 | MFixed64 | MUInt64 | MFloat | MDouble | MMessage.

Definition codec_module_eqb (a b : codec_module) : bool :=
  match a, b with
  | MString, MString | MFastStr, MFastStr | MBool, MBool | MBytes, MBytes | MSFixed32, MSFixed32
  | MSInt32, MSInt32 | MInt32, MInt32 | MSFixed64, MSFixed64 | MSInt64, MSInt64 | MInt64, MInt64
  | MFixed32, MFixed32 | MUInt32, MUInt32 | MFixed64, MFixed64 | MUInt64, MUInt64
  | MFloat, MFloat | MDouble, MDouble | MMessage, MMessage => true
  | _, _ => false
  end.

(* guard of a match arm of ProtobufBackend::ty_module *)
Inductive arm_guard := GNone | GProst (p : prost_tag) | GPlainEnum.

(* ProtobufBackend::ty_category *)
Inductive category := CatScalar | CatMessage | CatMap.

(* Rust element types of the numeric codec macros *)
Inductive rust_num := RBool | RI32 | RI64 | RU32 | RU64 | RF32 | RF64.

(* decode_varint_slow: `for count in 0..min(10, <this>)` *)
Inductive slow_bound := SBRemaining | SBChunk | SBNone.

(* functions of pilota/src/prost that read Buf::chunk() *)
Inductive chunk_reader := CRDecodeVarint | CROther (line : Z).

(* decode errors, by cause (DecodeError carries only a description string) *)
Inductive perr :=
| PVarint          (* "invalid varint" *)
| PKey             (* "invalid key value" *)
| PWireTypeValue   (* "invalid wire type value" *)
| PTagZero         (* "invalid tag value: 0" *)
| PWireType        (* check_wire_type mismatch *)
| PUnderflow       (* "buffer underflow" *)
| PDelimited       (* "delimited length exceeded" *)
| PEndGroup        (* "unexpected end group tag" *)
| PRecursion       (* "recursion limit reached" *)
| PUtf8            (* "invalid string value: data is not UTF-8 encoded" *)
| PLenUsize        (* "length delimiter exceeds maximum usize value" *)
| POutOfFuel       (* model artefact: excluded by every theorem *)
| PIllTyped.       (* model artefact: value/schema mismatch in a model function; excluded by has_type *)

Inductive psite :=
| SAssertSlice     (* assert! in decode_varint_slice *)
| SGetUnchecked    (* get_unchecked out of range (UB) *)
| SArithOverflow   (* u32/u64/usize arithmetic overflow (panics in a build with overflow checks) *)
| SEnterRecursion  (* recurse_count - 1 underflow *)
| SOneofTag        (* unreachable!("invalid <oneof> tag") *)
| SAdvance         (* Buf::advance / copy_to_bytes / get_* beyond remaining *)
| SDebugAssertTag. (* debug_assert! in encode_key *)

