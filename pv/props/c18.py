"""C18 -- Protobuf merge semantics (concatenation = merge, unknown fields ignored)."""
from .. import pbcodec as pc


def groups(rng, tier):
    n = 3000 if tier == "quick" else 60000

    # skip_field consumes exactly one record: well-formed unknown records of every wire type (groups nested up to
    # 4 levels, and deep chains up to the budget) followed by trailing bytes that must be left untouched
    skip = [c for c in pc.gen_skip_cases(rng, n)]
    for d in (1, 2, 3, 10, 50, 99, 100):
        for trail in (b"", b"\x08\x01", b"\xff"):
            skip.append("skip 3 5 %s #%d" % (pc.hx(pc.nested_groups(5, d) + trail), len(trail)))

    def skip_oracle(case, out):
        if out.startswith("PANIC") or out.startswith("CRASH") or out.startswith("HANG") or "ORACLE-FAIL" in out:
            return "skip_field: " + out[:200]
        if " #" not in case:
            return None
        want = int(case.split(" #")[1].split()[0])
        if want < 0:
            return None
        o = pc.strip_tail(out).split()
        if o[:1] != ["OK"]:
            return "a well-formed unknown record was not skipped: " + out[:120]
        if o[1] != "R%d" % want:
            return "skip_field left %s behind a well-formed record, %d trailing bytes were appended" % (o[1], want)
        return None

    # repeated fields accumulate in order (one record per element, and packed records), arbitrary trailing bytes
    rep = [c for c in pc.gen_rt_cases(rng, n) if c.split()[0] in ("rtr", "rtp")]
    return [("skip-exact", skip, skip_oracle), ("repeated-order", rep, pc.oracle_rt)]


RULE = ("generated-message level = pv/pbgen.run_c18 over every generated message of the corpus and the wrapper impls, both "
        "feature builds: for pairs of values x, y (three encoder styles each) the lines dec(e1 ++ e2), merge(e1, e2), two "
        "interleavings of the records of e1 and e2 that keep the per-field (per-oneof) order, and the concatenation with an "
        "unknown field at every record boundary must decode to equal values, equal to the reference decoder's (which is checked "
        "against the value-level merge_spec); single values: canonical encoding = encoding with unknown fields of every wire "
        "type (nested groups included) at every boundary of every nesting level = embedded messages split into several records "
        "= merge into the default value; unknown fields at nesting levels 1, 50, 98, 99, 100 (level 100 reproduces F-18a). "
        "codec level: skip-exact = skip_field on well-formed unknown records of every wire type (groups nested up to 100) with "
        "trailing bytes, contiguous and chunked buffers: must answer OK and leave exactly the trailing bytes (plus truncated / "
        "bit-flipped variants compared with the model only); repeated-order = rtr / rtp cases (elements come back in order). "
        "All answers are compared line by line with the extracted Coq model. non-trivial = every case; distinct by SHA-1")


def run(chk, replay=None):
    return pc.engine(chk, "C18", replay, groups, RULE, gen_fn="run_c18")
