(* C15, converse direction: integer and double constants read backwards. *)
From PVIdl Require Import Comb Ast Parser Print Proofs.Total Proofs.RoundTok Proofs.RoundPath Proofs.RoundAnn Proofs.RoundTy
  Proofs.RoundKit Proofs.RoundNum Proofs.InvKit Proofs.InvTok.
From Coq Require Import ZifyN ZifyNat ZifyBool.
From Coq Require String.
Import String.StringSyntax.
Open Scope nat_scope.

Lemma parse_unsigned_inv radix max ds v : (1 <= radix)%Z -> (0 <= max)%Z -> parse_unsigned radix max ds = Some v ->
  v = digits_value radix ds /\ (digits_value radix ds <= max)%Z.
Proof.
  intros Hr Hm H. unfold parse_unsigned in H. rewrite (digits_val_fold radix max Hr ds 0%Z) in H by lia.
  change (fold_left (stepf radix) ds 0%Z) with (digits_value radix ds) in H.
  destruct (digits_value radix ds <=? max)%Z eqn:E; inversion H; subst. split; [reflexivity|lia].
Qed.

Lemma iter_minus n r : Nat.iter n (fun k => sym_int_minus ++ k) r = minus_run n r.
Proof.
  induction n; [reflexivity|].
  change (Nat.iter (S n) (fun k => sym_int_minus ++ k) r) with (sym_int_minus ++ Nat.iter n (fun k => sym_int_minus ++ k) r).
  rewrite IHn. reflexivity.
Qed.

Theorem int_inv lf i r v : p_int_constant lf i = POk r v ->
  exists c, i = pr_int c r /\ erase_int c = v /\ wf_int c = true /\
            hd_sat (fun b => negb (if ci_hex c then is_hexdigit b else is_digit b)) r = true.
Proof.
  rewrite p_int_eq. intros H. binv H. inversion H; subst.
  apply many0_count_tag_inv in E. destruct E as [-> _]. rewrite iter_minus.
  unfold int_alts in E0. apply alt_cons_inv in E0. destruct E0 as [E0|[_ E0]].
  - unfold int_hex in E0. apply pbind_ok in E0. destruct E0 as [i1 [t [E1 E0]]]. apply tag_inv in E1. destruct E1 as [-> _].
    apply map_res_inv in E0. destruct E0 as [ds [E0 P]]. unfold hex_digit1 in E0. apply span1_inv in E0.
    destruct E0 as [-> [Hne [Hd Hr]]]. destruct (parse_unsigned_inv 16 i64_max ds a0 ltac:(lia) ltac:(unfold i64_max; lia) P) as [-> Hv].
    exists (mkCInt a true ds). unfold pr_int, erase_int, int_abs, wf_int. cbn [ci_minus ci_hex ci_digits].
    change sym_int_hex with (txt "0x"). repeat split; auto. rewrite Hd. destruct ds; [contradiction|]. cbn [is_nil negb andb].
    unfold i64_max in Hv. apply Z.leb_le. exact Hv.
  - apply alt_one_inv in E0. apply map_res_inv in E0. destruct E0 as [ds [E0 P]]. unfold digit1 in E0. apply span1_inv in E0.
    destruct E0 as [-> [Hne [Hd Hr]]]. destruct (parse_unsigned_inv 10 i64_max ds a0 ltac:(lia) ltac:(unfold i64_max; lia) P) as [-> Hv].
    exists (mkCInt a false ds). unfold pr_int, erase_int, int_abs, wf_int. cbn [ci_minus ci_hex ci_digits app].
    repeat split; auto. rewrite Hd. destruct ds; [contradiction|]. cbn [is_nil negb andb].
    unfold i64_max in Hv. apply Z.leb_le. exact Hv.
Qed.

Lemma tag_nc_e_inv e i r m : e = [x65] -> tag_no_case e i = POk r m -> exists u, i = ebyte u :: r.
Proof.
  intros -> H. unfold tag_no_case in H. destruct i as [|b i]; cbn [strip_prefix_nc] in H; [discriminate|].
  destruct (Byte.eqb (lower_ascii b) (lower_ascii x65)) eqn:E; [|discriminate]. inversion H; subst.
  assert (Hb : b = x65 \/ b = x45) by (revert E; clear; destruct b; vm_compute; intro H; try discriminate H; tauto).
  destruct Hb as [-> | ->]; [exists false|exists true]; reflexivity.
Qed.

Section Dbl.
Variable lf : nat.

Lemma exp_inv e0 i r u : e0 = [x65] -> p_exponent lf e0 i = POk r u -> exists ce, i = pr_exp ce r /\ wf_exp ce = true.
Proof.
  intros E0 H. unfold p_exponent in H. binv H. destruct (tag_nc_e_inv _ _ _ _ E0 E) as [up ->].
  destruct (int_inv _ _ _ _ E1) as [ci [-> [_ [Wi _]]]]. inversion H; subst. exists (mkCExp up ci). unfold pr_exp, wf_exp. cbn [ce_upper ce_int].
  split; [destruct up; reflexivity|exact Wi].
Qed.

Lemma oexp_inv e0 i r o : e0 = [x65] -> opt (p_exponent lf e0) i = POk r o -> exists ce, i = pr_oexp ce r /\ wf_oexp ce = true.
Proof.
  intros E0 H. apply opt_inv in H. destruct H as [[u [-> H]]|[-> [-> _]]].
  - destruct (exp_inv _ _ _ _ E0 H) as [ce [-> W]]. exists (Some ce). auto.
  - exists None. auto.
Qed.

Lemma digit1_inv i r ds : digit1 i = POk r ds -> i = ds ++ r /\ ds <> [] /\ is_digits ds = true.
Proof. unfold digit1. intros H. apply span1_inv in H. tauto. Qed.

Lemma odigit1_inv i r o : opt digit1 i = POk r o -> exists ds, i = ds ++ r /\ is_digits ds = true /\ (o = None -> ds = []).
Proof.
  intros H. apply opt_inv in H. destruct H as [[ds [-> H]]|[-> [-> _]]].
  - destruct (digit1_inv _ _ _ H) as [-> [_ Hd]]. exists ds. repeat split; auto. discriminate.
  - exists []. auto.
Qed.

Lemma dbody_inv i r u : alt (dbl_alts lf) i = POk r u -> exists b, i = pr_dbody b r /\ wf_dbody b = true.
Proof.
  unfold dbl_alts. intros H. apply alt_cons_inv in H. destruct H as [H|[_ H]]; [|apply alt_cons_inv in H; destruct H as [H|[_ H]]].
  - unfold dbl_a in H. binv H. destruct (digit1_inv _ _ _ E) as [-> [Hne Hd]]. apply tag_inv in E0. destruct E0 as [-> _].
    destruct (odigit1_inv _ _ _ E1) as [fp [-> [Hf _]]]. destruct (oexp_inv _ _ _ _ eq_refl E2) as [ce [-> We]]. inversion H; subst.
    exists (DBodyA a fp ce). cbn [pr_dbody wf_dbody]. split; [reflexivity|]. rewrite Hd, Hf, We. destruct a; [contradiction|reflexivity].
  - unfold dbl_b in H. binv H. destruct (odigit1_inv _ _ _ E) as [ip [-> [Hi Hn]]]. apply tag_inv in E0. destruct E0 as [-> _].
    destruct (digit1_inv _ _ _ E1) as [-> [Hne Hd]]. destruct (oexp_inv _ _ _ _ eq_refl E2) as [ce [-> We]]. inversion H; subst.
    destruct ip as [|d0 ip].
    + exists (DBodyB a1 ce). cbn [pr_dbody wf_dbody app]. split; [reflexivity|]. rewrite Hd, We. destruct a1; [contradiction|reflexivity].
    + (* digits before the dot: the first alternative would have read them -- the same text is also of the first form *)
      exists (DBodyA (d0 :: ip) a1 ce). cbn [pr_dbody wf_dbody]. split; [reflexivity|]. now rewrite Hi, Hd, We.
  - apply alt_one_inv in H. unfold dbl_c in H. binv H. destruct (digit1_inv _ _ _ E) as [-> [Hne Hd]].
    destruct (tag_nc_e_inv _ _ _ _ eq_refl E0) as [up ->]. destruct (int_inv _ _ _ _ E1) as [ci [-> [_ [Wi _]]]]. inversion H; subst.
    exists (DBodyC a (mkCExp up ci)). cbn [pr_dbody wf_dbody]. unfold pr_exp, wf_exp. cbn [ce_upper ce_int].
    split; [destruct up; reflexivity|]. rewrite Hd, Wi. destruct a; [contradiction|reflexivity].
Qed.

Theorem dbl_inv i r s : p_double_constant lf i = POk r s -> exists d, i = pr_dbl d r /\ erase_dbl d = s /\ wf_dbl d = true.
Proof.
  rewrite p_dbl_eq. intros H. apply map_res_inv in H. destruct H as [s' [H Es]]. inversion Es; subst s'.
  apply recognize_inv in H. destruct H as [u [H ->]]. unfold dbl_inner in H. binv H.
  destruct (dbody_inv _ _ _ H) as [b [-> Wb]].
  assert (Em : exists m : bool, i = (if m then [x2d] else []) ++ i0).
  { apply opt_inv in E. destruct E as [[t [-> E]]|[-> [-> _]]]; [apply tag_inv in E; destruct E as [-> _]; exists true|exists false]; reflexivity. }
  assert (Ep : exists p : bool, i0 = (if p then [x2b] else []) ++ pr_dbody b r).
  { apply opt_inv in E0. destruct E0 as [[t [-> E0]]|[-> [-> _]]]; [apply tag_inv in E0; destruct E0 as [-> _]; exists true|exists false]; reflexivity. }
  destruct Em as [m ->]. destruct Ep as [p ->].
  exists (mkCDbl m p b). unfold erase_dbl, wf_dbl. cbn [cd_body].
  assert (Epr : (if m then [x2d] else []) ++ (if p then [x2b] else []) ++ pr_dbody b r = pr_dbl (mkCDbl m p b) r) by reflexivity.
  rewrite Epr. split; [reflexivity|]. split; [|exact Wb].
  rewrite (pr_dbl_app (mkCDbl m p b) r) at 1. now rewrite consumed_app.
Qed.

End Dbl.
