(* C12 -- asynchronous decoding equals in-memory decoding for every delivery schedule (primitive
   level).  A stream is modelled by the byte string it delivers: tokio's read_exact / read_u8
   contracts (trusted base) make the result independent of chunk boundaries and Pending wake-ups;
   the correspondence run exercises the real readers under explicit schedules. *)
From PV Require Import Thrift.Async Proofs.HeaderP Proofs.RoundtripP Proofs.AsyncP.
Open Scope Z_scope.

(* same value, same stopping position: whenever the in-memory reader returns [v] leaving state [s']
   (in particular the unread rest of the buffer), the asynchronous reader returns [v] and has
   pulled exactly the same bytes -- it never reads past the end of the message *)
Theorem C12_value : forall p f ty l rcx v s',
  r_pfield rcx = false -> Z.of_nat (length l) < 2 ^ 63 ->
  read_val p f ty (mkS l rcx) = Ok (v, s') ->
  aread_val p f ty (mkS l rcx) = Ok (v, s').
Proof. exact async_value. Qed.
Print Assumptions C12_value.

(* composed with C01: what pilota writes is decoded asynchronously to the same value, consuming
   exactly the bytes of the message and nothing of what follows on the stream *)
Theorem C12_roundtrip : forall p k v c,
  wt v = true -> w_pend c = None ->
  exists ss, write_val p k v c = Ok (ss, c) /\
    forall fuel r, (vsize v <= fuel)%nat -> Z.of_nat (length (flat ss ++ r)) < 2 ^ 63 ->
      aread_val p fuel (ttype_of v) (mkS (flat ss ++ r) r0) = Ok (canon p v, mkS r r0).
Proof. exact async_roundtrip. Qed.
Print Assumptions C12_roundtrip.
